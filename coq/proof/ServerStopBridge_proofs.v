(* C25: the clauses 4-9 hold on every trace of the sequential server model (Part C), and
   every Part C operation is a sequence of Part D atomic steps. *)
From Coq Require Import List ZArith Bool Lia.
From VLib Require Import Codec Machine.
From VModel Require Import ServerStop.
From VProof Require Import ServerStopRpc_proofs.
Import ListNotations.
Open Scope Z_scope.

(* ---- events as triples ---- *)
Definition tr := (Z * Z * Z)%type.
Fixpoint flat (l : list tr) : list Z :=
  match l with [] => [] | (t, i, c) :: r => t :: i :: c :: flat r end.
Fixpoint tr_of (t : Z) (flag : rp -> bool) (code : rp -> Z) (i : Z) (l : list rp) : list tr :=
  match l with
  | [] => []
  | r :: rest => (if flag r then [(t, i, code r)] else []) ++ tr_of t flag code (i + 1) rest
  end.

Lemma flat_app : forall a b, flat (a ++ b) = flat a ++ flat b.
Proof. induction a as [|[[t i] c] a IH]; intro b; cbn [flat app]; [reflexivity | rewrite IH; reflexivity]. Qed.

Lemma evs_of_flat : forall t f c l i, evs_of t f c i l = flat (tr_of t f c i l).
Proof.
  induction l as [|r l IH]; intro i; cbn [evs_of tr_of]; [reflexivity|].
  rewrite flat_app, IH. destruct (f r); reflexivity.
Qed.

Lemma rep_ev_flat : forall n t, rep_ev n t = flat (repeat (t, 0, 0) n).
Proof. induction n; intro t; cbn [rep_ev repeat flat app]; [reflexivity | rewrite IHn; reflexivity]. Qed.

Fixpoint ev_fold (w ok : bool) (nid : Z) (e : evs) (l : list tr) : evs * list (Z * bool) :=
  match l with
  | [] => (e, [])
  | (t, i, c) :: r =>
    let (e1, r1) := ev_event w ok nid e t i c in
    let (e2, r2) := ev_fold w ok nid e1 r in (e2, r1 ++ r2)
  end.

Lemma ev_events_flat : forall w ok nid l e fuel, (length l <= fuel)%nat ->
  ev_events w ok nid e (flat l) fuel = ev_fold w ok nid e l.
Proof.
  induction l as [|[[t i] c] l IH]; intros e fuel H; cbn [flat ev_fold].
  - destruct fuel; reflexivity.
  - destruct fuel as [|f]; [cbn in H; lia|]. cbn [ev_events].
    destruct (ev_event w ok nid e t i c) as [e1 r1]. rewrite IH by (cbn in H; lia). reflexivity.
Qed.

Lemma ev_fold_app : forall w ok nid a b e,
  ev_fold w ok nid e (a ++ b) =
  let (e1, r1) := ev_fold w ok nid e a in
  let (e2, r2) := ev_fold w ok nid e1 b in (e2, r1 ++ r2).
Proof.
  induction a as [|[[t i] c] a IH]; intros b e; cbn [app ev_fold].
  - destruct (ev_fold w ok nid e b); reflexivity.
  - destruct (ev_event w ok nid e t i c) as [e1 r1]. rewrite IH.
    destruct (ev_fold w ok nid e1 a) as [e2 r2]. destruct (ev_fold w ok nid e2 b) as [e3 r3].
    rewrite app_assoc. reflexivity.
Qed.

Lemma flat_length : forall l, length (flat l) = (3 * length l)%nat.
Proof. induction l as [|[[t i] c] l IH]; cbn [flat length]; lia. Qed.

Definition all_ok (rs : list (Z * bool)) : bool := forallb (fun x => snd x) rs.
Lemma all_ok_app : forall a b, all_ok (a ++ b) = all_ok a && all_ok b.
Proof. intros. unfold all_ok. apply forallb_app. Qed.


(* ---- looking an RPC up by its id ---- *)
Fixpoint look (l : list rp) (i x : Z) : option rp :=
  match l with [] => None | r :: t => if x =? i then Some r else look t (i + 1) x end.

Lemma look_lt : forall l i x, x < i -> look l i x = None.
Proof.
  induction l as [|r l IH]; intros i x H; cbn [look]; [reflexivity|].
  destruct (Z.eqb_spec x i); [lia | apply IH; lia].
Qed.
Lemma look_map : forall g l i x, look (map g l) i x = option_map g (look l i x).
Proof.
  induction l as [|r l IH]; intros i x; cbn [map look]; [reflexivity|].
  destruct (x =? i); [reflexivity | apply IH].
Qed.
Lemma look_upd : forall g n l i x,
  look (upd_nth n g l) i x = if x =? i + Z.of_nat n then option_map g (look l i x) else look l i x.
Proof.
  induction n as [|n IH]; intros l i x; destruct l as [|r l]; cbn [upd_nth look].
  - destruct (x =? i + Z.of_nat 0); reflexivity.
  - replace (i + Z.of_nat 0) with i by lia. destruct (Z.eqb_spec x i); reflexivity.
  - destruct (x =? i + Z.of_nat (S n)); reflexivity.
  - rewrite IH. replace (i + 1 + Z.of_nat n) with (i + Z.of_nat (S n)) by lia.
    destruct (Z.eqb_spec x i); [|reflexivity].
    destruct (Z.eqb_spec x (i + Z.of_nat (S n))); [lia | reflexivity].
Qed.
Lemma look_app : forall l i x r,
  look (l ++ [r]) i x =
  match look l i x with Some y => Some y | None => if x =? i + Z.of_nat (length l) then Some r else None end.
Proof.
  induction l as [|y l IH]; intros i x r; cbn [app look length].
  - replace (i + Z.of_nat 0) with i by lia. destruct (x =? i); reflexivity.
  - destruct (Z.eqb_spec x i); [reflexivity|]. rewrite IH.
    replace (i + 1 + Z.of_nat (length l)) with (i + Z.of_nat (S (length l))) by lia. reflexivity.
Qed.
Lemma look_ge : forall l i x, i + Z.of_nat (length l) <= x -> look l i x = None.
Proof.
  induction l as [|r l IH]; intros i x H; cbn [look length] in *; [reflexivity|].
  destruct (Z.eqb_spec x i); [lia | apply IH; lia].
Qed.
Lemma look_nth : forall l x r, 0 <= x -> nth_error l (Z.to_nat x) = Some r -> look l 0 x = Some r.
Proof.
  intros l x r Hx. replace x with (0 + Z.of_nat (Z.to_nat x)) at 2 by lia. generalize (Z.to_nat x) 0.
  induction l as [|y l IH]; intros n i H; destruct n; cbn [nth_error look] in *; try discriminate.
  - replace (i + Z.of_nat 0) with i by lia. rewrite Z.eqb_refl. exact H.
  - destruct (Z.eqb_spec (i + Z.of_nat (S n)) i); [lia|].
    replace (i + Z.of_nat (S n)) with (i + 1 + Z.of_nat n) by lia. apply IH. exact H.
Qed.

(* ids of the RPCs carrying a flag, and (id, code) pairs *)
Fixpoint ids (f : rp -> bool) (i : Z) (l : list rp) : list Z :=
  match l with [] => [] | r :: t => (if f r then [i] else []) ++ ids f (i + 1) t end.
Fixpoint idc (f : rp -> bool) (code : rp -> Z) (i : Z) (l : list rp) : list (Z * Z) :=
  match l with [] => [] | r :: t => (if f r then [(i, code r)] else []) ++ idc f code (i + 1) t end.

Lemma memz_app : forall x a b, memz x (a ++ b) = memz x a || memz x b.
Proof. intros. unfold memz. apply existsb_app. Qed.
Lemma memz_rev : forall x a, memz x (rev a) = memz x a.
Proof.
  intros x a. unfold memz. induction a as [|y a IH]; [reflexivity|].
  cbn [rev existsb]. rewrite existsb_app, IH. cbn [existsb]. rewrite orb_false_r. apply orb_comm.
Qed.
Lemma memz_ids : forall f l i x,
  memz x (ids f i l) = match look l i x with Some r => f r | None => false end.
Proof.
  induction l as [|r l IH]; intros i x; cbn [ids look]; [reflexivity|].
  rewrite memz_app, IH. destruct (Z.eqb_spec x i) as [->|Hne].
  - rewrite look_lt by lia. rewrite orb_false_r. destruct (f r); cbn; [rewrite Z.eqb_refl|]; reflexivity.
  - destruct (f r); cbn; [|reflexivity]. destruct (Z.eqb_spec x i); [contradiction | reflexivity].
Qed.
Lemma has_ret_app : forall x a b, has_ret x (a ++ b) = has_ret x a || has_ret x b.
Proof. intros. unfold has_ret. apply existsb_app. Qed.
Lemma has_ret_rev : forall x a, has_ret x (rev a) = has_ret x a.
Proof.
  intros x a. unfold has_ret. induction a as [|y a IH]; [reflexivity|].
  cbn [rev existsb]. rewrite existsb_app, IH. cbn [existsb]. rewrite orb_false_r. apply orb_comm.
Qed.
Lemma mem_ret_app : forall x c a b, mem_ret x c (a ++ b) = mem_ret x c a || mem_ret x c b.
Proof. intros. unfold mem_ret. apply existsb_app. Qed.
Lemma mem_ret_rev : forall x c a, mem_ret x c (rev a) = mem_ret x c a.
Proof.
  intros x c a. unfold mem_ret. induction a as [|y a IH]; [reflexivity|].
  cbn [rev existsb]. rewrite existsb_app, IH. cbn [existsb]. rewrite orb_false_r. apply orb_comm.
Qed.
Lemma has_ret_idc : forall f code l i x,
  has_ret x (idc f code i l) = match look l i x with Some r => f r | None => false end.
Proof.
  induction l as [|r l IH]; intros i x; cbn [idc look]; [reflexivity|].
  rewrite has_ret_app, IH. destruct (Z.eqb_spec x i) as [->|Hne].
  - rewrite look_lt by lia. rewrite orb_false_r. destruct (f r); cbn; [rewrite Z.eqb_refl|]; reflexivity.
  - destruct (f r); cbn; [|reflexivity]. destruct (Z.eqb_spec i x); [congruence | reflexivity].
Qed.
Lemma mem_ret_idc : forall f code l i x c,
  mem_ret x c (idc f code i l) = match look l i x with Some r => f r && (c =? code r) | None => false end.
Proof.
  induction l as [|r l IH]; intros i x c; cbn [idc look]; [reflexivity|].
  rewrite mem_ret_app, IH. destruct (Z.eqb_spec x i) as [->|Hne].
  - rewrite look_lt by lia. rewrite orb_false_r. destruct (f r); [|reflexivity].
    unfold mem_ret. cbn [app existsb fst snd]. rewrite Z.eqb_refl, orb_false_r. cbn [andb]. apply Z.eqb_sym.
  - destruct (f r); cbn; [|reflexivity]. destruct (Z.eqb_spec i x); [congruence | reflexivity].
Qed.

(* ---- what each group of events does to the evaluator ---- *)
Lemma rev_cons_app : forall (A : Type) (i : A) x s, rev (i :: x) ++ s = rev x ++ i :: s.
Proof. intros. cbn [rev]. rewrite <- app_assoc. reflexivity. Qed.

Lemma fold10 : forall w ok nid l i e,
  ev_fold w ok nid e (tr_of 10 n10 (fun _ => 0) i l) =
  (mkevs (e_n e) (rev (ids n10 i l) ++ e_started e) (e_ret e) (e_canc e) (e_cst e) (e_ccan e) (e_stopc e) (e_hard e),
   map (fun x => (6, ok && (x =? nid))) (ids n10 i l)).
Proof.
  induction l as [|r l IH]; intros i e; cbn [tr_of ids]; [destruct e; reflexivity|].
  destruct (n10 r); [|cbn [app]; apply IH].
  cbn [app ev_fold]. unfold ev_event. cbn [Z.eqb Pos.eqb]. rewrite IH. cbn [e_n e_started e_ret e_canc e_cst e_ccan e_stopc e_hard].
  rewrite rev_cons_app. reflexivity.
Qed.

Lemma fold11 : forall w ok nid l i e,
  ev_fold w ok nid e (tr_of 11 n11 r_code i l) =
  (mkevs (e_n e) (e_started e) (rev (idc n11 r_code i l) ++ e_ret e) (e_canc e) (e_cst e) (e_ccan e) (e_stopc e) (e_hard e),
   map (fun x => (0, memz x (e_started e))) (ids n11 i l)).
Proof.
  induction l as [|r l IH]; intros i e; cbn [tr_of ids idc]; [destruct e; reflexivity|].
  destruct (n11 r); [|cbn [app]; apply IH].
  cbn [app ev_fold]. unfold ev_event. cbn [Z.eqb Pos.eqb]. rewrite IH. cbn [e_n e_started e_ret e_canc e_cst e_ccan e_stopc e_hard].
  rewrite rev_cons_app. reflexivity.
Qed.

Lemma fold12 : forall w ok nid l i e,
  ev_fold w ok nid e (tr_of 12 n12 (fun _ => 0) i l) =
  (mkevs (e_n e) (e_started e) (e_ret e) (rev (ids n12 i l) ++ e_canc e) (e_cst e) (e_ccan e) (e_stopc e) (e_hard e),
   map (fun x => (5, e_hard e || memz x (e_ccan e))) (ids n12 i l)).
Proof.
  induction l as [|r l IH]; intros i e; cbn [tr_of ids]; [destruct e; reflexivity|].
  destruct (n12 r); [|cbn [app]; apply IH].
  cbn [app ev_fold]. unfold ev_event. cbn [Z.eqb Pos.eqb]. rewrite IH. cbn [e_n e_started e_ret e_canc e_cst e_ccan e_stopc e_hard].
  rewrite rev_cons_app. reflexivity.
Qed.

Definition check13 (e : evs) (id c : Z) : Z * bool :=
  if memz id (e_ccan e) then (0, true)
  else if negb (memz id (e_started e)) then (6, negb (c =? 0))
  else if e_hard e then (7, negb (c =? 0))
  else (5, mem_ret id c (e_ret e)).

Lemma fold13 : forall w ok nid l i e,
  ev_fold w ok nid e (tr_of 13 n13 r_ccode i l) =
  (mkevs (e_n e) (e_started e) (e_ret e) (e_canc e) (rev (ids n13 i l) ++ e_cst e) (e_ccan e) (e_stopc e) (e_hard e),
   map (fun p => check13 e (fst p) (snd p)) (idc n13 r_ccode i l)).
Proof.
  induction l as [|r l IH]; intros i e; cbn [tr_of ids idc]; [destruct e; reflexivity|].
  destruct (n13 r); [|cbn [app]; apply IH].
  cbn [app ev_fold]. unfold ev_event. cbn [Z.eqb Pos.eqb]. rewrite IH. cbn [e_n e_started e_ret e_canc e_cst e_ccan e_stopc e_hard].
  rewrite rev_cons_app. reflexivity.
Qed.

Definition check14 (e : evs) : list (Z * bool) :=
  [(4, forallb (fun x => has_ret x (e_ret e)) (e_started e));
   (8, e_hard e || forallb (fun x => memz x (e_cst e) || memz x (e_ccan e)) (e_started e))].
Definition check15 (w : bool) (e : evs) : list (Z * bool) :=
  [(7, forallb (fun x => has_ret x (e_ret e) || memz x (e_canc e)) (e_started e));
   (9, negb w || forallb (fun x => has_ret x (e_ret e)) (e_started e))].

Lemma fold14 : forall w ok nid n e,
  ev_fold w ok nid e (repeat (14, 0, 0) n) = (e, concat (repeat (check14 e) n)).
Proof.
  induction n as [|n IH]; intro e; cbn [repeat ev_fold concat]; [reflexivity|].
  unfold ev_event. cbn [Z.eqb Pos.eqb]. rewrite IH. reflexivity.
Qed.
Lemma fold15 : forall w ok nid n e,
  ev_fold w ok nid e (repeat (15, 0, 0) n) = (e, concat (repeat (check15 w e) n)).
Proof.
  induction n as [|n IH]; intro e; cbn [repeat ev_fold concat]; [reflexivity|].
  unfold ev_event. cbn [Z.eqb Pos.eqb]. rewrite IH. reflexivity.
Qed.

(* ---- relation between the model state (with the flags of the operation in progress) and
        the evaluator state before the events of that operation ---- *)
Definition PWF (e : evs) (x : Z) (r : rp) : Prop :=
  memz x (e_started e) = accepted r && negb (n10 r) /\
  (forall c, mem_ret x c (e_ret e) = returned r && negb (n11 r) && (c =? r_code r)) /\
  has_ret x (e_ret e) = returned r && negb (n11 r) /\
  (r_canc r = true -> n12 r = true \/ memz x (e_canc e) = true) /\
  (r_cdone r = true -> accepted r = true -> n13 r = true \/ memz x (e_cst e) = true) /\
  (r_ccan r = true -> memz x (e_ccan e) = true).

Record RelF (s : sv) (e : evs) : Prop := mkRelF {
  rf_pw : forall x r, look (rpcs s) 0 x = Some r -> PWF e x r;
  rf_out : forall x, look (rpcs s) 0 x = None -> memz x (e_started e) = false /\ has_ret x (e_ret e) = false;
  rf_n : e_n e = Z.of_nat (length (rpcs s));
  rf_hard : e_hard e = hard s;
  rf_stopc : e_stopc e = true -> gcalled s || closed s = true
}.

Record MInv (s : sv) : Prop := mkMInv {
  mi_si : Forall (SI (hard s) (closed s)) (rpcs s);
  mi_fi : Forall (FI (hard s)) (rpcs s);
  mi_hc : hard s = true -> closed s = true
}.

Definition Rel (s : sv) (e : evs) : Prop := RelF (with_rpcs s (map clr (rpcs s))) e.

Lemma look_in : forall l i x r, look l i x = Some r -> In r l.
Proof.
  induction l as [|y l IH]; intros i x r H; cbn [look] in H; [discriminate|].
  destruct (x =? i); [injection H as <-; left; reflexivity | right; eapply IH; exact H].
Qed.
Lemma look_forall : forall (P : rp -> Prop) l i x r, Forall P l -> look l i x = Some r -> P r.
Proof. intros P l i x r HF H. rewrite Forall_forall in HF. apply HF. eapply look_in; exact H. Qed.

Lemma forallb_ids : forall (P : Z -> bool) f l i,
  (forall x r, look l i x = Some r -> f r = true -> P x = true) -> forallb P (ids f i l) = true.
Proof.
  induction l as [|r l IH]; intros i H; cbn [ids]; [reflexivity|].
  rewrite forallb_app. apply andb_true_iff. split.
  - destruct (f r) eqn:E; [|reflexivity]. cbn [forallb]. rewrite andb_true_r.
    apply (H i r); [cbn [look]; rewrite Z.eqb_refl; reflexivity | exact E].
  - apply IH. intros x r' Hl Hf. apply (H x r'); [|exact Hf]. cbn [look].
    destruct (Z.eqb_spec x i) as [->|]; [rewrite look_lt in Hl by lia; discriminate | exact Hl].
Qed.
Lemma forallb_idc : forall (P : Z * Z -> bool) f code l i,
  (forall x r, look l i x = Some r -> f r = true -> P (x, code r) = true) -> forallb P (idc f code i l) = true.
Proof.
  induction l as [|r l IH]; intros i H; cbn [idc]; [reflexivity|].
  rewrite forallb_app. apply andb_true_iff. split.
  - destruct (f r) eqn:E; [|reflexivity]. cbn [forallb]. rewrite andb_true_r.
    apply (H i r); [cbn [look]; rewrite Z.eqb_refl; reflexivity | exact E].
  - apply IH. intros x r' Hl Hf. apply (H x r'); [|exact Hf]. cbn [look].
    destruct (Z.eqb_spec x i) as [->|]; [rewrite look_lt in Hl by lia; discriminate | exact Hl].
Qed.
Lemma forallb_memz : forall (P : Z -> bool) l,
  (forall x, memz x l = true -> P x = true) -> forallb P l = true.
Proof.
  intros P l H. apply forallb_forall. intros x Hin. apply H. unfold memz. apply existsb_exists.
  exists x. split; [exact Hin | apply Z.eqb_refl].
Qed.
Lemma all_ok_map : forall (A : Type) (g : A -> Z * bool) l,
  forallb (fun a => snd (g a)) l = true -> all_ok (map g l) = true.
Proof.
  intros A g l H. unfold all_ok. induction l as [|a l IH]; [reflexivity|].
  cbn [map forallb] in *. apply andb_true_iff in H. destruct H as [H1 H2]. rewrite H1, (IH H2). reflexivity.
Qed.
Lemma all_ok_concat_repeat : forall c n, (n <> 0%nat -> all_ok c = true) -> all_ok (concat (repeat c n)) = true.
Proof.
  intros c n H. destruct n; [reflexivity|]. specialize (H ltac:(discriminate)).
  induction (S n) as [|m IH]; [reflexivity|]. cbn [repeat concat]. rewrite all_ok_app, H, IH. reflexivity.
Qed.

Lemma PWF_disc : forall g e x r, Disc g -> (r_ccan (g r) = true -> memz x (e_ccan e) = true) ->
  (r_h r = 0 \/ r_h r = 1 \/ r_h r = 2) -> PWF e x r -> PWF e x (g r).
Proof.
  intros g e x r HD HC Hh [P1 [P2 [P3 [P4 [P5 P6]]]]].
  destruct (HD r Hh) as [D1 [D2 [D3 [D4 [D5 [D6 [D7 D8]]]]]]].
  repeat split.
  - rewrite D1. exact P1.
  - intro c. rewrite P2, D2. destruct (returned r && negb (n11 r)) eqn:E; [rewrite (D3 eq_refl)|]; reflexivity.
  - rewrite D2. exact P3.
  - intro Hc. destruct (D4 Hc) as [H|H]; [left; exact H|].
    destruct (P4 H) as [H1|H1]; [left; apply D5; exact H1 | right; exact H1].
  - intros Hc Ha. destruct (D6 Hc Ha) as [H|H]; [left; exact H|].
    rewrite D8 in Ha. destruct (P5 H Ha) as [H1|H1]; [left; apply D7; exact H1 | right; exact H1].
  - exact HC.
Qed.

Definition all_events (s : sv) : list tr :=
  tr_of 10 n10 (fun _ => 0) 0 (rpcs s) ++ tr_of 11 n11 r_code 0 (rpcs s) ++
  tr_of 12 n12 (fun _ => 0) 0 (rpcs s) ++ tr_of 13 n13 r_ccode 0 (rpcs s) ++
  repeat (14, 0, 0) (Z.to_nat (gret s)) ++ repeat (15, 0, 0) (Z.to_nat (sret s)).
Lemma srv_events_flat : forall s, srv_events s = flat (all_events s).
Proof.
  intro s. unfold srv_events, all_events. rewrite !flat_app, !evs_of_flat, !rep_ev_flat. reflexivity.
Qed.

Lemma ev_fold_app' : forall w ok nid a b e,
  ev_fold w ok nid e (a ++ b) =
  (fst (ev_fold w ok nid (fst (ev_fold w ok nid e a)) b),
   snd (ev_fold w ok nid e a) ++ snd (ev_fold w ok nid (fst (ev_fold w ok nid e a)) b)).
Proof.
  intros. rewrite ev_fold_app. destruct (ev_fold w ok nid e a) as [e1 r1]. cbn [fst snd].
  destruct (ev_fold w ok nid e1 b); reflexivity.
Qed.

Lemma SI_range : forall hd cl r, SI hd cl r -> r_h r = 0 \/ r_h r = 1 \/ r_h r = 2.
Proof. intros hd cl r H. apply H. Qed.

Lemma settled_events : forall s1 e0 ok nid,
  MInv s1 -> RelF s1 e0 ->
  (forall x r, look (rpcs s1) 0 x = Some r -> n10 r = true -> ok = true /\ x = nid) ->
  all_ok (snd (ev_fold (wfh s1) ok nid e0 (all_events (settle s1)))) = true /\
  MInv (settle s1) /\ Rel (settle s1) (fst (ev_fold (wfh s1) ok nid e0 (all_events (settle s1)))).
Proof.
  intros s1 e0 ok nid [HSI HFI Hhc] [Hpw Hout Hn Hhard Hstopc] Hn10.
  set (l2 := map deliver (rpcs s1)).
  set (idle := forallb (fun r => negb (accepted r) || r_cdone r || r_dead r) l2).
  set (cl2 := closed s1 || (gcalled s1 && idle)).
  set (allret := forallb (fun r => negb (accepted r) || returned r) l2).
  set (gr := if cl2 && allret then gpend s1 else 0).
  set (sr := if cl2 && hard s1 && (negb (wfh s1) || allret) then spend s1 else 0).
  assert (Es : settle s1 = mksv l2 (gcalled s1) cl2 (hard s1) (gpend s1 - gr) (spend s1 - sr) (wfh s1) gr sr) by reflexivity.
  (* per-RPC facts about the delivered list *)
  assert (HSI2a : Forall (SI (hard s1) (closed s1)) l2).
  { unfold l2. apply Forall_forall. intros r Hin. apply in_map_iff in Hin. destruct Hin as [r1 [<- Hin]].
    rewrite Forall_forall in HSI. apply SI_deliver, HSI, Hin. }
  assert (HSI2 : Forall (SI (hard s1) cl2) l2).
  { apply Forall_forall. intros r Hin. rewrite Forall_forall in HSI2a. specialize (HSI2a r Hin).
    unfold cl2. destruct (closed s1) eqn:Ec; [exact HSI2a|]. cbn [orb].
    destruct (gcalled s1 && idle) eqn:Eg; [|exact HSI2a].
    apply andb_true_iff in Eg. destruct Eg as [_ Ei]. unfold idle in Ei. rewrite forallb_forall in Ei.
    specialize (Ei r Hin). destruct (hard s1) eqn:Eh; [specialize (Hhc eq_refl); congruence|].
    apply SI_close; [exact HSI2a|]. intro Ha. rewrite Ha in Ei. cbn [negb orb] in Ei.
    apply orb_true_iff in Ei. exact Ei. }
  assert (HFI2 : Forall (FI (hard s1)) l2).
  { unfold l2. apply Forall_forall. intros r Hin. apply in_map_iff in Hin. destruct Hin as [r1 [<- Hin]].
    rewrite Forall_forall in HSI, HFI. eapply FI_deliver; [apply HSI, Hin | apply HFI, Hin]. }
  assert (Hl2 : forall x r2, look l2 0 x = Some r2 ->
            PWF e0 x r2 /\ SI (hard s1) cl2 r2 /\ FI (hard s1) r2 /\ (n10 r2 = true -> ok = true /\ x = nid)).
  { intros x r2 H. unfold l2 in H. rewrite look_map in H. destruct (look (rpcs s1) 0 x) as [r1|] eqn:E1; [|discriminate].
    injection H as <-. split; [|split; [|split]].
    - apply PWF_disc; [apply Disc_deliver | | eapply SI_range, look_forall; [exact HSI | exact E1] | apply Hpw; exact E1].
      rewrite Keep_deliver. apply (Hpw x r1 E1).
    - eapply look_forall; [exact HSI2|]. unfold l2. rewrite look_map, E1. reflexivity.
    - eapply look_forall; [exact HFI2|]. unfold l2. rewrite look_map, E1. reflexivity.
    - rewrite N10_deliver. apply Hn10. exact E1. }
  assert (Hl2n : forall x, look l2 0 x = None -> memz x (e_started e0) = false /\ has_ret x (e_ret e0) = false).
  { intros x H. apply Hout. unfold l2 in H. rewrite look_map in H. destruct (look (rpcs s1) 0 x); [discriminate | reflexivity]. }
  rewrite Es. unfold all_events. cbn [rpcs gret sret].
  (* run the six groups of events *)
  rewrite !ev_fold_app'. rewrite fold10. cbn [fst snd]. rewrite fold11. cbn [fst snd]. rewrite fold12. cbn [fst snd].
  rewrite fold13. cbn [fst snd]. rewrite fold14. cbn [fst snd]. rewrite fold15. cbn [fst snd].
  cbn [e_n e_started e_ret e_canc e_cst e_ccan e_stopc e_hard].
  set (st' := rev (ids n10 0 l2) ++ e_started e0).
  set (rt' := rev (idc n11 r_code 0 l2) ++ e_ret e0).
  set (cn' := rev (ids n12 0 l2) ++ e_canc e0).
  set (cs' := rev (ids n13 0 l2) ++ e_cst e0).
  (* lookups in the updated evaluator *)
  assert (Lst : forall x r, look l2 0 x = Some r -> memz x st' = accepted r).
  { intros x r H. destruct (Hl2 x r H) as [[P1 _] [_ [[F1 _] _]]]. unfold st'.
    rewrite memz_app, memz_rev, memz_ids, H, P1. destruct (n10 r) eqn:E; [rewrite (F1 eq_refl); reflexivity|].
    cbn [orb negb]. apply andb_true_r. }
  assert (Lstn : forall x, look l2 0 x = None -> memz x st' = false).
  { intros x H. unfold st'. rewrite memz_app, memz_rev, memz_ids, H. apply (Hl2n x H). }
  assert (Lrt : forall x r, look l2 0 x = Some r -> has_ret x rt' = returned r).
  { intros x r H. destruct (Hl2 x r H) as [[_ [_ [P3 _]]] [_ [[_ [F2 _]] _]]]. unfold rt'.
    rewrite has_ret_app, has_ret_rev, has_ret_idc, H, P3. destruct (n11 r) eqn:E; [rewrite (F2 eq_refl); reflexivity|].
    cbn [orb negb]. apply andb_true_r. }
  assert (Lmr : forall x r c, look l2 0 x = Some r -> mem_ret x c rt' = returned r && (c =? r_code r)).
  { intros x r c H. destruct (Hl2 x r H) as [[_ [P2 _]] [_ [[_ [F2 _]] _]]]. unfold rt'.
    rewrite mem_ret_app, mem_ret_rev, mem_ret_idc, H, P2. destruct (n11 r) eqn:E; [rewrite (F2 eq_refl)|];
      cbn [orb negb andb]; rewrite ?andb_true_r, ?orb_false_r; reflexivity. }
  assert (Lcn : forall x r, look l2 0 x = Some r -> r_canc r = true -> memz x cn' = true).
  { intros x r H Hc. destruct (Hl2 x r H) as [[_ [_ [_ [P4 _]]]] _]. unfold cn'.
    rewrite memz_app, memz_rev, memz_ids, H. destruct (P4 Hc) as [E|E]; rewrite E; [reflexivity | apply orb_true_r]. }
  assert (Lcs : forall x r, look l2 0 x = Some r -> r_cdone r = true -> accepted r = true -> memz x cs' = true).
  { intros x r H Hc Ha. destruct (Hl2 x r H) as [[_ [_ [_ [_ [P5 _]]]]] _]. unfold cs'.
    rewrite memz_app, memz_rev, memz_ids, H. destruct (P5 Hc Ha) as [E|E]; rewrite E; [reflexivity | apply orb_true_r]. }
  assert (Lst_look : forall x, memz x st' = true -> exists r, look l2 0 x = Some r /\ accepted r = true).
  { intros x H. destruct (look l2 0 x) as [r|] eqn:E; [|rewrite (Lstn x E) in H; discriminate].
    exists r. split; [reflexivity|]. rewrite (Lst x r E) in H. exact H. }
  split; [|split].
  - (* every clause result is true *)
    rewrite !all_ok_app. repeat (apply andb_true_iff; split).
    + apply all_ok_map. cbn [snd]. apply forallb_ids. intros x r H Hf.
      destruct (Hl2 x r H) as [_ [_ [_ Hk]]]. destruct (Hk Hf) as [-> ->]. rewrite Z.eqb_refl. reflexivity.
    + apply all_ok_map. cbn [snd]. apply forallb_ids. intros x r H Hf.
      destruct (Hl2 x r H) as [_ [_ [[_ [F2 _]] _]]]. rewrite (Lst x r H). apply returned_accepted, F2, Hf.
    + apply all_ok_map. cbn [snd]. apply forallb_ids. intros x r H Hf.
      destruct (Hl2 x r H) as [[_ [_ [_ [_ [_ P6]]]]] [_ [[_ [_ [F3 _]]] _]]].
      destruct (F3 Hf) as [_ [Hh|Hc]]; [rewrite Hhard, Hh; reflexivity | rewrite (P6 Hc); apply orb_true_r].
    + apply all_ok_map. apply forallb_idc. intros x r H Hf. cbn [fst snd]. unfold check13.
      cbn [e_ccan e_started e_hard e_ret].
      destruct (Hl2 x r H) as [[_ [_ [_ [_ [_ P6]]]]] [S [[_ [_ [_ F4]]] _]]].
      destruct (F4 Hf) as [Hcd [Hna Hac]].
      destruct (memz x (e_ccan e0)) eqn:Ecc; [reflexivity|].
      rewrite (Lst x r H). destruct (accepted r) eqn:Ea; cbn [negb].
      * destruct S as [_ [_ [Sd _]]]. rewrite Hhard.
        destruct (Hac eq_refl) as [[Hd Hcode]|[Hd [Hr [Hcode Hh]]]].
        -- destruct (Sd Hd) as [_ [Hnz [Hor _]]].
           destruct (hard s1) eqn:Eh; cbn [snd].
           ++ rewrite Hcode. apply negb_true_iff, Z.eqb_neq. exact Hnz.
           ++ destruct Hor as [Hx|Hx]; [discriminate|]. pose proof (P6 Hx) as Hy. congruence.
        -- rewrite Hh. cbn [snd]. rewrite (Lmr x r _ H), Hr, Hcode, Z.eqb_refl. reflexivity.
      * cbn [snd]. rewrite (Hna eq_refl). reflexivity.
    + apply all_ok_concat_repeat. intro Hne. unfold check14, all_ok. cbn [forallb snd e_ret e_started e_hard e_cst e_ccan].
      assert (Hg : cl2 && allret = true).
      { unfold gr in Hne. destruct (cl2 && allret); [reflexivity | exfalso; apply Hne; reflexivity]. }
      apply andb_true_iff in Hg. destruct Hg as [Hcl Har]. unfold allret in Har. rewrite forallb_forall in Har.
      rewrite andb_true_r. apply andb_true_iff. split.
      * apply forallb_memz. intros x Hx. destruct (Lst_look x Hx) as [r [Hl Ha]].
        rewrite (Lrt x r Hl). specialize (Har r (look_in _ _ _ _ Hl)). rewrite Ha in Har. exact Har.
      * rewrite Hhard. destruct (hard s1) eqn:Eh; [reflexivity|]. cbn [orb].
        apply forallb_memz. intros x Hx. destruct (Lst_look x Hx) as [r [Hl Ha]].
        destruct (Hl2 x r Hl) as [[_ [_ [_ [_ [_ P6]]]]] [S _]].
        destruct S as [_ [_ [Sd [_ [_ Scl]]]]].
        destruct (Scl Hcl eq_refl Ha) as [Hc|Hd].
        -- rewrite (Lcs x r Hl Hc Ha). reflexivity.
        -- destruct (Sd Hd) as [_ [_ [[Hx'|Hx'] _]]]; [discriminate|]. rewrite (P6 Hx'). apply orb_true_r.
    + apply all_ok_concat_repeat. intro Hne. unfold check15, all_ok. cbn [forallb snd e_ret e_started e_canc].
      assert (Hg : cl2 && hard s1 && (negb (wfh s1) || allret) = true).
      { unfold sr in Hne. destruct (cl2 && hard s1 && (negb (wfh s1) || allret)); [reflexivity | exfalso; apply Hne; reflexivity]. }
      apply andb_true_iff in Hg. destruct Hg as [Hg Hw]. apply andb_true_iff in Hg. destruct Hg as [Hcl Hh].
      rewrite andb_true_r. apply andb_true_iff. split.
      * apply forallb_memz. intros x Hx. destruct (Lst_look x Hx) as [r [Hl Ha]].
        destruct (Hl2 x r Hl) as [_ [S _]]. destruct S as [_ [_ [Sd [Scd [Shd _]]]]]. rewrite Hh in *.
        rewrite (Lrt x r Hl). destruct (Shd eq_refl Ha) as [Hc|Hd].
        -- destruct (r_dead r) eqn:Ed.
           ++ destruct (Sd eq_refl) as [_ [_ [_ [Hr|Hc']]]]; [rewrite Hr; reflexivity | rewrite (Lcn x r Hl Hc'); apply orb_true_r].
           ++ rewrite (Scd Hc Ha eq_refl). reflexivity.
        -- destruct (Sd Hd) as [_ [_ [_ [Hr|Hc']]]]; [rewrite Hr; reflexivity | rewrite (Lcn x r Hl Hc'); apply orb_true_r].
      * destruct (wfh s1); [|reflexivity]. cbn [negb orb] in *. unfold allret in Hw. rewrite forallb_forall in Hw.
        apply forallb_memz. intros x Hx. destruct (Lst_look x Hx) as [r [Hl Ha]].
        rewrite (Lrt x r Hl). specialize (Hw r (look_in _ _ _ _ Hl)). rewrite Ha in Hw. exact Hw.
  - (* invariants of the settled state *)
    constructor; cbn [rpcs hard closed]; [exact HSI2 | exact HFI2 |].
    intro Hh. unfold cl2. rewrite (Hhc Hh). reflexivity.
  - (* the evaluator now reflects the settled state *)
    unfold Rel, with_rpcs. cbn [rpcs gcalled closed hard gpend spend wfh].
    constructor; cbn [rpcs gcalled closed hard e_n e_started e_ret e_canc e_cst e_ccan e_stopc e_hard].
    + intros x rc H. rewrite look_map in H. destruct (look l2 0 x) as [r|] eqn:E; [|discriminate].
      injection H as <-. destruct (Hl2 x r E) as [[_ [_ [_ [_ [_ P6]]]]] _].
      unfold PWF. cbn [e_started e_ret e_canc e_cst e_ccan].
      replace (accepted (clr r)) with (accepted r) by reflexivity.
      replace (returned (clr r)) with (returned r) by reflexivity.
      cbn [clr n10 n11 n12 n13 r_canc r_cdone r_ccan r_code negb].
      rewrite !andb_true_r. repeat split.
      * apply (Lst x r E).
      * intro c. apply (Lmr x r c E).
      * apply (Lrt x r E).
      * intro Hc. right. apply (Lcn x r E Hc).
      * intros Hc Ha. right. apply (Lcs x r E Hc Ha).
      * exact P6.
    + intros x H. rewrite look_map in H. destruct (look l2 0 x) as [r|] eqn:E; [discriminate|]. split.
      * apply (Lstn x E).
      * unfold rt'. rewrite has_ret_app, has_ret_rev, has_ret_idc, E. apply (Hl2n x E).
    + rewrite map_length. unfold l2. rewrite map_length. exact Hn.
    + exact Hhard.
    + intro H. specialize (Hstopc H). unfold cl2. apply orb_true_iff in Hstopc.
      destruct Hstopc as [Hq|Hq]; rewrite Hq; [|destruct (gcalled s1)]; cbn [orb]; reflexivity.
Qed.

(* ---- the relation through the primitive operations ---- *)
Definition RelC (l : list rp) (e : evs) : Prop :=
  (forall x r, look l 0 x = Some r -> PWF e x r) /\
  (forall x, look l 0 x = None -> memz x (e_started e) = false /\ has_ret x (e_ret e) = false) /\
  e_n e = Z.of_nat (length l).

Lemma RelF_C : forall s e, RelF s e <->
  RelC (rpcs s) e /\ e_hard e = hard s /\ (e_stopc e = true -> gcalled s || closed s = true).
Proof.
  intros s e. split.
  - intros [H1 H2 H3 H4 H5]. split; [split; [exact H1 | split; [exact H2 | exact H3]] | split; [exact H4 | exact H5]].
  - intros [[H1 [H2 H3]] [H4 H5]]. constructor; assumption.
Qed.

Definition Range (r : rp) : Prop := r_h r = 0 \/ r_h r = 1 \/ r_h r = 2.

Lemma RelC_map : forall g l e, Disc g -> KeepCcan g -> Forall Range l -> RelC l e -> RelC (map g l) e.
Proof.
  intros g l e HD HK HR [H1 [H2 H3]]. split; [|split].
  - intros x r H. rewrite look_map in H. destruct (look l 0 x) as [r0|] eqn:E; [|discriminate].
    injection H as <-. apply PWF_disc; [exact HD | | apply (look_forall Range _ _ _ _ HR E) | apply H1; exact E].
    rewrite HK. apply (H1 x r0 E).
  - intros x H. rewrite look_map in H. destruct (look l 0 x) eqn:E; [discriminate|]. apply H2. exact E.
  - rewrite map_length. exact H3.
Qed.

Lemma upd_length : forall n g l, length (upd_nth n g l) = length l.
Proof. induction n; intros g l; destruct l; cbn [upd_nth length]; auto. Qed.

Lemma RelC_upd : forall g n l e, Disc g -> KeepCcan g -> Forall Range l -> RelC l e -> RelC (upd_nth n g l) e.
Proof.
  intros g n l e HD HK HR [H1 [H2 H3]]. split; [|split].
  - intros x r H. rewrite look_upd in H. destruct (x =? 0 + Z.of_nat n); [|apply H1; exact H].
    destruct (look l 0 x) as [r0|] eqn:E; [|discriminate]. injection H as <-.
    apply PWF_disc; [exact HD | | apply (look_forall Range _ _ _ _ HR E) | apply H1; exact E].
    rewrite HK. apply (H1 x r0 E).
  - intros x H. rewrite look_upd in H. apply H2. destruct (x =? 0 + Z.of_nat n); [|exact H].
    destruct (look l 0 x); [discriminate | reflexivity].
  - rewrite upd_length. exact H3.
Qed.

Definition add_ccan (a : Z) (e : evs) : evs :=
  mkevs (e_n e) (e_started e) (e_ret e) (e_canc e) (e_cst e) (a :: e_ccan e) (e_stopc e) (e_hard e).

Lemma PWF_add_ccan : forall a e x r, PWF e x r -> PWF (add_ccan a e) x r.
Proof.
  intros a e x r [P1 [P2 [P3 [P4 [P5 P6]]]]]. unfold PWF, add_ccan. cbn [e_started e_ret e_canc e_cst e_ccan].
  repeat split; auto. intro H. unfold memz. cbn [existsb]. fold (memz x (e_ccan e)). rewrite (P6 H). apply orb_true_r.
Qed.

Lemma RelC_ccancel : forall n l e, Forall Range l -> RelC l e ->
  RelC (upd_nth n ccancel_f l) (add_ccan (Z.of_nat n) e).
Proof.
  intros n l e HR [H1 [H2 H3]]. split; [|split].
  - intros x r H. rewrite look_upd in H. destruct (Z.eqb_spec x (0 + Z.of_nat n)) as [Hx|Hx].
    + destruct (look l 0 x) as [r0|] eqn:E; [|discriminate]. injection H as <-.
      apply PWF_disc; [apply Disc_ccancel | | apply (look_forall Range _ _ _ _ HR E) | apply PWF_add_ccan, H1; exact E].
      intros _. unfold add_ccan, memz. cbn [e_ccan existsb]. replace (0 + Z.of_nat n) with (Z.of_nat n) in Hx by lia.
      rewrite Hx, Z.eqb_refl. reflexivity.
    + apply PWF_add_ccan, H1. exact H.
  - intros x H. rewrite look_upd in H. apply H2. destruct (x =? 0 + Z.of_nat n); [|exact H].
    destruct (look l 0 x); [discriminate | reflexivity].
  - rewrite upd_length. exact H3.
Qed.

Definition inc_n (e : evs) : evs :=
  mkevs (e_n e + 1) (e_started e) (e_ret e) (e_canc e) (e_cst e) (e_ccan e) (e_stopc e) (e_hard e).

Lemma mem_ret_has : forall x c l, mem_ret x c l = true -> has_ret x l = true.
Proof.
  intros x c l H. unfold mem_ret, has_ret in *. apply existsb_exists in H. destruct H as [p [Hin Hp]].
  apply existsb_exists. exists p. split; [exact Hin|]. apply andb_true_iff in Hp. apply Hp.
Qed.

Lemma RelC_new : forall l e a refused, RelC l e -> RelC (l ++ [new_rpc a refused]) (inc_n e).
Proof.
  intros l e a refused [H1 [H2 H3]]. split; [|split].
  - intros x r H. rewrite look_app in H. destruct (look l 0 x) as [r0|] eqn:E.
    + injection H as <-. apply (H1 x r0 E).
    + destruct (x =? 0 + Z.of_nat (length l)); [|discriminate]. injection H as <-.
      destruct (H2 x E) as [Q1 Q2]. unfold PWF, inc_n. cbn [e_started e_ret e_canc e_cst e_ccan].
      assert (Qm : forall c, mem_ret x c (e_ret e) = false).
      { intro c. destruct (mem_ret x c (e_ret e)) eqn:Em; [|reflexivity]. rewrite (mem_ret_has _ _ _ Em) in Q2. discriminate. }
      unfold new_rpc, accepted, returned. destruct refused; cbn; rewrite Q1, Q2; repeat split; intros; try rewrite Qm; try reflexivity; try discriminate.
  - intros x H. rewrite look_app in H. destruct (look l 0 x) eqn:E; [discriminate|]. apply (H2 x E).
  - unfold inc_n. cbn [e_n]. rewrite app_length. cbn [length]. rewrite H3. lia.
Qed.

Lemma RelC_fields : forall l e sc hd,
  RelC l e -> RelC l (mkevs (e_n e) (e_started e) (e_ret e) (e_canc e) (e_cst e) (e_ccan e) sc hd).
Proof. intros l e sc hd H. exact H. Qed.

Lemma Forall_upd : forall (P : rp -> Prop) g n l, (forall r, P r -> P (g r)) -> Forall P l -> Forall P (upd_nth n g l).
Proof.
  induction n as [|n IH]; intros l Hg H; destruct l as [|r l]; cbn [upd_nth]; try exact H;
    inversion H; subst; constructor; auto.
Qed.
Lemma Forall_map' : forall (P Q : rp -> Prop) g l, (forall r, P r -> Q (g r)) -> Forall P l -> Forall Q (map g l).
Proof. intros P Q g l Hg H. induction H; cbn [map]; constructor; auto. Qed.
Lemma SI_Range : forall hd cl l, Forall (SI hd cl) l -> Forall Range l.
Proof. intros hd cl l H. eapply Forall_impl; [|exact H]. intros r Hr. apply Hr. Qed.

Lemma ev_events_run : forall w ok nid e l n,
  ev_events w ok nid e (flat l) (n + length (flat l)) = ev_fold w ok nid e l.
Proof. intros. apply ev_events_flat. rewrite flat_length. lia. Qed.

Definition set_flags (e : evs) (sc hd : bool) : evs :=
  mkevs (e_n e) (e_started e) (e_ret e) (e_canc e) (e_cst e) (e_ccan e) sc hd.

(* what a primitive operation does, as seen by the evaluator reading its word *)
Lemma prim_ok : forall s0 e op s1, srv_prim s0 op = Some s1 ->
  MInv s0 -> (forall hd, Forall (FI hd) (rpcs s0)) -> RelF s0 e ->
  (forall x r, look (rpcs s0) 0 x = Some r -> n10 r = false) ->
  exists e0 ok nid,
    (forall evs, ev_word (wfh s0) e (op ++ flat evs) = ev_fold (wfh s0) ok nid e0 evs) /\
    MInv s1 /\ RelF s1 e0 /\ wfh s1 = wfh s0 /\
    (forall x r, look (rpcs s1) 0 x = Some r -> n10 r = true -> ok = true /\ x = nid).
Proof.
  intros s0 e op s1 HP [HSI _ Hhc] HFI0 HR HN0.
  apply RelF_C in HR. destruct HR as [HC [Hhard Hstopc]].
  pose proof (SI_Range _ _ _ HSI) as HRange.
  unfold srv_prim in HP.
  destruct op as [|c [|a [|code [|? ?]]]]; try discriminate HP.
  - (* [3] and [4] *)
    destruct (((c =? 3) || (c =? 4)) && (0 <? gpend s0 + spend s0) && stubborn s0); [discriminate|].
    destruct (Z.eqb_spec c 3) as [->|Hc3].
    + injection HP as <-. exists (set_flags e true (e_hard e)), false, 0. split; [|split; [|split; [|split]]].
      * intro evs. unfold ev_word. cbn [app Z.eqb Pos.eqb]. apply (ev_events_run _ _ _ _ _ 0%nat).
      * constructor; cbn [rpcs hard closed]; [exact HSI | apply HFI0 | exact Hhc].
      * apply RelF_C. cbn [rpcs hard closed gcalled]. split; [exact HC|]. split; [exact Hhard | reflexivity].
      * reflexivity.
      * intros x r H Hn. rewrite (HN0 x r H) in Hn. discriminate.
    + destruct (Z.eqb_spec c 4) as [->|Hc4]; [|discriminate]. injection HP as <-.
      exists (set_flags e true true), false, 0. split; [|split; [|split; [|split]]].
      * intro evs. unfold ev_word. cbn [app Z.eqb Pos.eqb]. apply (ev_events_run _ _ _ _ _ 0%nat).
      * destruct (closed s0) eqn:Ec; constructor; cbn [rpcs hard closed]; try reflexivity.
        -- eapply Forall_impl; [|exact HSI]. intros r Hr. eapply SI_harden. exact Hr.
        -- apply HFI0.
        -- eapply Forall_map'; [|exact HSI]. intros r Hr. eapply SI_stop. exact Hr.
        -- apply Forall_forall. intros r Hin. apply in_map_iff in Hin. destruct Hin as [r0 [<- Hin]].
           rewrite Forall_forall in HSI. eapply FI_stop; [apply HSI, Hin|].
           specialize (HFI0 true). rewrite Forall_forall in HFI0. apply HFI0, Hin.
      * apply RelF_C. cbn [rpcs hard closed gcalled]. split; [|split; [reflexivity | intros _; apply orb_true_r]].
        destruct (closed s0); [exact HC|]. apply RelC_map; [apply Disc_stop | apply Keep_stop | exact HRange | exact HC].
      * reflexivity.
      * intros x r H Hn. cbn [rpcs] in H. destruct (closed s0).
        -- rewrite (HN0 x r H) in Hn. discriminate.
        -- rewrite look_map in H. destruct (look (rpcs s0) 0 x) as [r0|] eqn:E; [|discriminate]. injection H as <-.
           change (n10 (stop_f r0) = true) in Hn. rewrite N10_stop, (HN0 x r0 E) in Hn. discriminate.
  - (* [1; k], [6; id], [5; id] *)
    destruct ((c =? 1) && (0 <=? a) && (a <=? 2) && (Z.of_nat (length (rpcs s0)) <? 64)) eqn:E1.
    + apply andb_true_iff in E1. destruct E1 as [E1 _]. apply andb_true_iff in E1. destruct E1 as [E1 _].
      apply andb_true_iff in E1. destruct E1 as [E1 _]. apply Z.eqb_eq in E1. subst c. injection HP as <-.
      exists (inc_n e), (negb (e_stopc e)), (e_n e). split; [|split; [|split; [|split]]].
      * intro evs. unfold ev_word. cbn [app Z.eqb Pos.eqb tl length]. apply (ev_events_run _ _ _ _ _ 1%nat).
      * constructor; cbn [with_rpcs rpcs hard closed]; [| |exact Hhc].
        -- apply Forall_app. split; [exact HSI|]. constructor; [|constructor]. apply SI_new.
           ++ intro Hh. rewrite (Hhc Hh). reflexivity.
           ++ intros ->. reflexivity.
        -- apply Forall_app. split; [apply HFI0|]. constructor; [apply FI_new | constructor].
      * apply RelF_C. cbn [with_rpcs rpcs hard closed gcalled]. split; [apply RelC_new; exact HC|].
        split; [exact Hhard | exact Hstopc].
      * reflexivity.
      * intros x r H Hn. cbn [with_rpcs rpcs] in H. rewrite look_app in H.
        destruct (look (rpcs s0) 0 x) as [r0|] eqn:E.
        -- injection H as <-. rewrite (HN0 x r0 E) in Hn. discriminate.
        -- destruct (Z.eqb_spec x (0 + Z.of_nat (length (rpcs s0)))) as [Hx|]; [|discriminate]. injection H as <-.
           destruct HC as [_ [_ Hlen]]. split; [|lia].
           unfold new_rpc in Hn. destruct (closed s0 || gcalled s0) eqn:Eg; [discriminate Hn|].
           destruct (e_stopc e) eqn:Es; [|reflexivity]. specialize (Hstopc eq_refl).
           rewrite orb_comm in Hstopc. congruence.
    + clear E1. destruct ((c =? 6) && valid_id s0 a) eqn:E6.
      * apply andb_true_iff in E6. destruct E6 as [E6 Ev]. apply Z.eqb_eq in E6. subst c.
        unfold nth_rp in HP. destruct (nth_error (rpcs s0) (Z.to_nat a)) as [ra|]; [|discriminate].
        destruct (r_read ra); [discriminate|]. injection HP as <-.
        exists e, false, 0. split; [|split; [|split; [|split]]].
        -- intro evs. unfold ev_word. cbn [app Z.eqb Pos.eqb tl length]. apply (ev_events_run _ _ _ _ _ 1%nat).
        -- constructor; cbn [with_rpcs rpcs hard closed]; [| |exact Hhc].
           ++ apply (Forall_upd _ read_f); [intros r Hr; apply SI_read; exact Hr | exact HSI].
           ++ apply (Forall_upd _ read_f); [intros r Hr; apply FI_read; exact Hr | apply HFI0].
        -- apply RelF_C. cbn [with_rpcs rpcs hard closed gcalled]. split; [|split; assumption].
           apply (RelC_upd read_f); [apply Disc_read | apply Keep_read | exact HRange | exact HC].
        -- reflexivity.
        -- intros x r H Hn. cbn [with_rpcs rpcs] in H. rewrite (look_upd read_f) in H.
           destruct (x =? 0 + Z.of_nat (Z.to_nat a)).
           ++ destruct (look (rpcs s0) 0 x) as [r0|] eqn:E; [|discriminate]. injection H as <-.
              rewrite N10_read, (HN0 x r0 E) in Hn. discriminate.
           ++ rewrite (HN0 x r H) in Hn. discriminate.
      * clear E6. destruct ((c =? 5) && valid_id s0 a) eqn:E5; [|discriminate].
        apply andb_true_iff in E5. destruct E5 as [E5 Ev]. apply Z.eqb_eq in E5. subst c.
        unfold nth_rp in HP. destruct (nth_error (rpcs s0) (Z.to_nat a)) as [ra|]; [|discriminate].
        destruct (r_ccan ra); [discriminate|]. injection HP as <-.
        unfold valid_id in Ev. apply andb_true_iff in Ev. destruct Ev as [Ev0 _]. apply Z.leb_le in Ev0.
        exists (add_ccan a e), false, 0. split; [|split; [|split; [|split]]].
        -- intro evs. unfold ev_word. cbn [app Z.eqb Pos.eqb tl hd length]. apply (ev_events_run _ _ _ _ _ 1%nat).
        -- constructor; cbn [with_rpcs rpcs hard closed]; [| |exact Hhc].
           ++ apply (Forall_upd _ ccancel_f); [intros r Hr; apply SI_ccancel; exact Hr | exact HSI].
           ++ rewrite Forall_forall in HSI.
              assert (HB : Forall (fun r => SI (hard s0) (closed s0) r /\ FI (hard s0) r) (rpcs s0)).
              { apply Forall_forall. intros r Hin. split; [apply HSI, Hin|].
                specialize (HFI0 (hard s0)). rewrite Forall_forall in HFI0. apply HFI0, Hin. }
              apply (Forall_impl (FI (hard s0)) (P := fun r => SI (hard s0) (closed s0) r /\ FI (hard s0) r));
                [intros r Hr; apply Hr|].
              apply (Forall_upd _ ccancel_f); [|exact HB].
              intros r [Hs Hf]. split; [apply SI_ccancel; exact Hs | eapply FI_ccancel; eassumption].
        -- apply RelF_C. cbn [with_rpcs rpcs hard closed gcalled]. split; [|split; assumption].
           replace a with (Z.of_nat (Z.to_nat a)) at 2 by lia.
           apply RelC_ccancel; assumption.
        -- reflexivity.
        -- intros x r H Hn. cbn [with_rpcs rpcs] in H. rewrite (look_upd ccancel_f) in H.
           destruct (x =? 0 + Z.of_nat (Z.to_nat a)).
           ++ destruct (look (rpcs s0) 0 x) as [r0|] eqn:E; [|discriminate]. injection H as <-.
              rewrite N10_ccancel, (HN0 x r0 E) in Hn. discriminate.
           ++ rewrite (HN0 x r H) in Hn. discriminate.
  - (* [2; id; code] *)
    destruct ((c =? 2) && valid_id s0 a && (0 <=? code) && (code <=? 16)) eqn:E2; [|discriminate].
    apply andb_true_iff in E2. destruct E2 as [E2 _]. apply andb_true_iff in E2. destruct E2 as [E2 _].
    apply andb_true_iff in E2. destruct E2 as [E2 _]. apply Z.eqb_eq in E2. subst c.
    unfold nth_rp in HP. destruct (nth_error (rpcs s0) (Z.to_nat a)) as [ra|]; [|discriminate].
    destruct (r_rel ra); [discriminate|]. injection HP as <-.
    exists e, false, 0. split; [|split; [|split; [|split]]].
    + intro evs. unfold ev_word. cbn [app Z.eqb Pos.eqb tl length]. apply (ev_events_run _ _ _ _ _ 2%nat).
    + constructor; cbn [with_rpcs rpcs hard closed]; [| |exact Hhc].
      * apply (Forall_upd _ (release_f code)); [intros r Hr; apply SI_release; exact Hr | exact HSI].
      * rewrite Forall_forall in HSI.
        assert (HB : Forall (fun r => SI (hard s0) (closed s0) r /\ FI (hard s0) r) (rpcs s0)).
        { apply Forall_forall. intros r Hin. split; [apply HSI, Hin|].
          specialize (HFI0 (hard s0)). rewrite Forall_forall in HFI0. apply HFI0, Hin. }
        apply (Forall_impl (FI (hard s0)) (P := fun r => SI (hard s0) (closed s0) r /\ FI (hard s0) r));
          [intros r Hr; apply Hr|].
        apply (Forall_upd _ (release_f code)); [|exact HB].
        intros r [Hs Hf]. split; [apply SI_release; exact Hs | eapply FI_release; eassumption].
    + apply RelF_C. cbn [with_rpcs rpcs hard closed gcalled]. split; [|split; assumption].
      apply (RelC_upd (release_f code)); [apply Disc_release | apply Keep_release | exact HRange | exact HC].
    + reflexivity.
    + intros x r H Hn. cbn [with_rpcs rpcs] in H. rewrite (look_upd (release_f code)) in H.
      destruct (x =? 0 + Z.of_nat (Z.to_nat a)).
      * destruct (look (rpcs s0) 0 x) as [r0|] eqn:E; [|discriminate]. injection H as <-.
        rewrite N10_release, (HN0 x r0 E) in Hn. discriminate.
      * rewrite (HN0 x r H) in Hn. discriminate.
Qed.

Lemma look_clr_n10 : forall l x r, look (map clr l) 0 x = Some r -> n10 r = false.
Proof.
  intros l x r H. rewrite look_map in H. destruct (look l 0 x); [|discriminate]. injection H as <-. reflexivity.
Qed.

Lemma op_step : forall s e op, MInv s -> Rel s e ->
  MInv (fst (srv_op s op)) /\ wfh (fst (srv_op s op)) = wfh s /\
  all_ok (snd (ev_word (wfh s) e (snd (srv_op s op)))) = true /\
  Rel (fst (srv_op s op)) (fst (ev_word (wfh s) e (snd (srv_op s op)))).
Proof.
  intros s e op [HSI _ Hhc] HR. unfold Rel in HR.
  set (s0 := with_rpcs s (map clr (rpcs s))) in *.
  assert (HFI0 : forall hd, Forall (FI hd) (rpcs s0)).
  { intro hd. apply Forall_forall. intros r Hin. apply in_map_iff in Hin. destruct Hin as [r0 [<- _]]. apply FI_clr. }
  assert (M0 : MInv s0).
  { constructor; cbn [s0 with_rpcs rpcs hard closed]; [|apply HFI0 | exact Hhc].
    eapply Forall_map'; [|exact HSI]. intros r Hr. apply SI_clr. exact Hr. }
  assert (HN0 : forall x r, look (rpcs s0) 0 x = Some r -> n10 r = false) by (intros x r; apply look_clr_n10).
  unfold srv_op. fold s0. destruct (srv_prim s0 op) as [s1|] eqn:EP.
  - destruct (prim_ok s0 e op s1 EP M0 HFI0 HR HN0) as [e0 [ok [nid [Hw [M1 [R1 [Hwf Hn]]]]]]].
    cbn [fst snd]. rewrite srv_events_flat. change (wfh s) with (wfh s0). rewrite Hw.
    destruct (settled_events s1 e0 ok nid M1 R1 Hn) as [A [B C]]. rewrite Hwf in *.
    split; [exact B|]. split; [exact Hwf|]. split; [exact A | exact C].
  - cbn [fst snd]. split; [exact M0|]. split; [reflexivity|]. split; [reflexivity|].
    unfold Rel. cbn [s0 with_rpcs rpcs gcalled closed hard gpend spend wfh].
    rewrite map_map. cbn [s0 with_rpcs] in HR.
    replace (map (fun x => clr (clr x)) (rpcs s)) with (map clr (rpcs s)); [exact HR|].
    apply map_ext. intro r. reflexivity.
Qed.

Lemma srv_run_ok : forall ops s e i, MInv s -> Rel s e ->
  forallb (fun c : Z * Z * bool => snd c) (srv_clauses (wfh s) e i (srv_run s ops)) = true.
Proof.
  induction ops as [|op ops IH]; intros s e i HM HR; [reflexivity|].
  cbn [srv_run]. destruct (srv_op s op) as [s' wd] eqn:E. cbn [srv_clauses].
  destruct (ev_word (wfh s) e wd) as [e1 rs] eqn:E1.
  destruct (op_step s e op HM HR) as [M' [Hw [A R']]]. rewrite E in *. cbn [fst snd] in *. rewrite E1 in *. cbn [fst snd] in *.
  rewrite forallb_app. apply andb_true_iff. split.
  - unfold all_ok in A. clear -A. induction rs as [|x rs IHr]; [reflexivity|].
    cbn [map forallb snd] in *. apply andb_true_iff in A. destruct A as [A1 A2]. rewrite A1, (IHr A2). reflexivity.
  - rewrite <- Hw. apply IH; assumption.
Qed.

Lemma srv_trace_holds : forall wk w ops obs, run [2; wk; w] ops = Some obs -> holds_b [2; wk; w] ops obs = true.
Proof.
  intros wk w ops obs H. cbn [run] in H. injection H as <-. unfold holds_b, clauses.
  apply (srv_run_ok ops (mksv [] false false false 0 0 (w =? 1) 0 0) evs0 0).
  - constructor; cbn; [constructor | constructor | discriminate].
  - unfold Rel. apply RelF_C. cbn. split; [|split; [reflexivity | discriminate]].
    split; [intros x r H; discriminate | split; [intros x _; split; reflexivity | reflexivity]].
Qed.
