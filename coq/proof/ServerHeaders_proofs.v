(* Proofs for C12 (model/ServerHeaders.v). *)
From Coq Require Import List ZArith Bool Lia.
From VLib Require Import Codec Machine.
From VModel Require Timeout MDWire.
From VModel Require Import ServerHeaders.
From VProof Require Timeout_proofs.
Import ListNotations.
Open Scope Z_scope.

(* ---------- small list facts ---------- *)
Lemma lenZ_nonneg {A} (l : list A) : 0 <= lenZ l.
Proof. unfold lenZ. lia. Qed.
Lemma lenZ_cons {A} (x : A) l : lenZ (x :: l) = 1 + lenZ l.
Proof. unfold lenZ. cbn [length]. lia. Qed.
Lemma lenZ_app {A} (a b : list A) : lenZ (a ++ b) = lenZ a + lenZ b.
Proof. unfold lenZ. rewrite app_length. lia. Qed.
Lemma lenZ_filter_le {A} (p : A -> bool) l : lenZ (filter p l) <= lenZ l.
Proof.
  induction l as [|x l IH]; cbn [filter]; [lia|].
  destruct (p x); rewrite ?lenZ_cons; lia.
Qed.

Lemma bytes_eqb_eq a b : bytes_eqb a b = true <-> a = b.
Proof.
  revert b. induction a as [|x a IH]; destruct b as [|y b]; cbn; try (split; congruence).
  rewrite andb_true_iff, Z.eqb_eq, IH. split; [intros [-> ->]; reflexivity | intros H; inversion H; auto].
Qed.

Lemma word_eqb_refl w : word_eqb w w = true.
Proof. induction w; cbn; [reflexivity|]. rewrite Z.eqb_refl. exact IHw. Qed.

(* ---------- the framer ---------- *)
Lemma fscan_full fs : forall r s l, fscan fs r s = Some (l, false) -> l = fs.
Proof.
  induction fs as [|[k v] fs IH]; cbn [fscan]; intros r s l H.
  - congruence.
  - destruct (negb (valid_value v) || _); [discriminate|].
    destruct (_ >? r); [discriminate|].
    destruct (fscan fs _ _) as [[l' t]|] eqn:E; [|discriminate].
    inversion H; subst. f_equal. eapply IH; eauto.
Qed.

Definition field_wire_ok (f : field) : bool :=
  valid_value (snd f) && (is_pseudo (fst f) || valid_name (fst f)).

Lemma fscan_wire_ok fs : forall r s l, fscan fs r s = Some (l, false) -> forallb field_wire_ok fs = true.
Proof.
  induction fs as [|[k v] fs IH]; cbn [fscan forallb]; intros r s l H; [reflexivity|].
  destruct (negb (valid_value v) || _) eqn:B; [discriminate|].
  destruct (_ >? r); [discriminate|].
  destruct (fscan fs _ _) as [[l' t]|] eqn:E; [|discriminate].
  inversion H; subst. rewrite (IH _ _ _ E), andb_true_r.
  apply orb_false_iff in B as [B1 B2]. apply negb_false_iff in B1.
  unfold field_wire_ok; cbn [fst snd]. rewrite B1. destruct (is_pseudo k); [reflexivity|].
  apply negb_false_iff in B2. rewrite B2. reflexivity.
Qed.

Lemma read_meta_full limit fs l : read_meta limit fs = MFrame l false ->
  l = fs /\ check_pseudos fs = true /\ forallb field_wire_ok fs = true.
Proof.
  unfold read_meta. destruct (fscan fs limit false) as [[l' t]|] eqn:E; [|discriminate].
  destruct (check_pseudos l') eqn:C; [|discriminate]. intros H; inversion H; subst.
  pose proof (fscan_full _ _ _ _ E); subst. split; [reflexivity|]. split; [exact C|].
  eapply fscan_wire_ok; eauto.
Qed.

(* no duplicate pseudo-header: every pseudo kind occurs at most once *)
Lemma existsb_false_filter k l : existsb (Z.eqb k) l = false -> filter (fun x => x =? k) l = [].
Proof.
  induction l as [|x l IH]; cbn; [reflexivity|]. intros H. apply orb_false_iff in H as [H1 H2].
  rewrite Z.eqb_sym, H1. auto.
Qed.
Lemma nodupb_count k l : nodupb l = true -> lenZ (filter (fun x => x =? k) l) <= 1.
Proof.
  induction l as [|x l IH]; cbn [nodupb filter]; intros H; [unfold lenZ; cbn; lia|].
  apply andb_true_iff in H as [H1 H2]. apply negb_true_iff in H1.
  destruct (Z.eqb_spec x k).
  - subst. rewrite (existsb_false_filter _ _ H1). unfold lenZ; cbn; lia.
  - auto.
Qed.
Lemma count_kind_pseudo k fs : is_pseudo k = true ->
  count_kind k fs = lenZ (filter (fun x => x =? k) (pseudo_kinds fs)).
Proof.
  intros Hk. unfold count_kind, pseudo_kinds.
  induction fs as [|[k' v] fs IH]; cbn [filter map fst]; [reflexivity|].
  destruct (Z.eqb_spec k' k).
  - subst. rewrite Hk. cbn [filter]. rewrite Z.eqb_refl, !lenZ_cons, IH. reflexivity.
  - destruct (is_pseudo k'); cbn [filter]; [destruct (Z.eqb_spec k' k); [contradiction|]|]; exact IH.
Qed.
Lemma check_pseudos_count k fs : check_pseudos fs = true -> is_pseudo k = true -> count_kind k fs <= 1.
Proof.
  unfold check_pseudos. intros H Hk. apply andb_true_iff in H as [H _].
  apply andb_true_iff in H as [_ H]. rewrite (count_kind_pseudo _ _ Hk). apply nodupb_count, H.
Qed.

(* ---------- the field loop of operateHeaders ---------- *)
Definition tdec_ok (v : list Z) : bool := match Timeout.decode v with Some _ => true | None => false end.
Definition bdec_ok (v : list Z) : bool := match MDWire.decode_bin v with Some _ => true | None => false end.

Lemma tdec_ok_wellformed v : tdec_ok v = Timeout.wellformed v.
Proof.
  unfold tdec_ok. destruct (Timeout.decode v) eqn:E.
  - symmetry. apply Timeout_proofs.decode_accepts. eauto.
  - destruct (Timeout.wellformed v) eqn:W; [|reflexivity].
    apply Timeout_proofs.decode_accepts in W as [x Hx]. congruence.
Qed.

Lemma md_get_add k k' v m :
  md_get k (md_add k' v m) = if k =? k' then md_get k m ++ [v] else md_get k m.
Proof.
  induction m as [|[k0 vs] m IH]; cbn [md_add md_get].
  - destruct (k =? k'); reflexivity.
  - destruct (Z.eqb_spec k' k0).
    + subst. cbn [md_get]. destruct (Z.eqb_spec k k0); reflexivity.
    + cbn [md_get]. destruct (Z.eqb_spec k k0).
      * subst. destruct (Z.eqb_spec k0 k'); [congruence|reflexivity].
      * exact IH.
Qed.

Ltac split_kind k :=
  repeat match goal with
         | |- context [k =? ?c] => destruct (Z.eqb_spec k c); [subst k; cbn | ]
         end.

Lemma hstep_grpc a k v : a_grpc (hstep a (k, v)) = a_grpc a || ((k =? K_CT) && ct_valid v).
Proof.
  unfold hstep, reserved_skipped, K_CT, K_ACCENC, K_ENC, K_METHOD, K_PATH, K_TIMEOUT, K_CONN, K_BIN,
    K_GSTATUS, K_SCHEME, K_STATUS, K_FOO, K_TE.
  destruct (Z.eqb_spec k 1).
  - subst. cbn. destruct (ct_valid v); cbn; [rewrite orb_true_r|rewrite orb_false_r]; reflexivity.
  - cbn [andb]. rewrite orb_false_r.
    repeat match goal with
           | |- context [if ?c then _ else _] => destruct c
           | |- context [match ?c with Some _ => _ | None => _ end] => destruct c
           end; reflexivity.
Qed.

Lemma hstep_proto a k v : a_proto (hstep a (k, v)) = a_proto a || (k =? K_CONN).
Proof.
  unfold hstep, reserved_skipped, K_CT, K_ACCENC, K_ENC, K_METHOD, K_PATH, K_TIMEOUT, K_CONN, K_BIN,
    K_GSTATUS, K_SCHEME, K_STATUS, K_FOO, K_TE.
  destruct (Z.eqb_spec k 7).
  - subst. cbn. rewrite orb_true_r. reflexivity.
  - rewrite orb_false_r.
    repeat match goal with
           | |- context [if ?c then _ else _] => destruct c
           | |- context [match ?c with Some _ => _ | None => _ end] => destruct c
           end; reflexivity.
Qed.

Lemma hstep_herr a k v :
  a_herr (hstep a (k, v)) =
  a_herr a || ((k =? K_TIMEOUT) && negb (tdec_ok v)) || ((k =? K_BIN) && negb (bdec_ok v)).
Proof.
  unfold hstep, reserved_skipped, tdec_ok, bdec_ok, K_CT, K_ACCENC, K_ENC, K_METHOD, K_PATH, K_TIMEOUT,
    K_CONN, K_BIN, K_GSTATUS, K_SCHEME, K_STATUS, K_FOO, K_TE.
  destruct (Z.eqb_spec k 6).
  - subst. cbn. destruct (Timeout.decode v); cbn; rewrite ?orb_false_r, ?orb_true_r; reflexivity.
  - destruct (Z.eqb_spec k 11).
    + subst. cbn. destruct (MDWire.decode_bin v); cbn; rewrite ?orb_false_r, ?orb_true_r; reflexivity.
    + cbn [andb]. rewrite !orb_false_r.
      repeat match goal with
             | |- context [if ?c then _ else _] => destruct c
             end; reflexivity.
Qed.

Lemma hstep_method a k v : a_method (hstep a (k, v)) = if k =? K_METHOD then v else a_method a.
Proof.
  unfold hstep, reserved_skipped, K_CT, K_ACCENC, K_ENC, K_METHOD, K_PATH, K_TIMEOUT, K_CONN, K_BIN,
    K_GSTATUS, K_SCHEME, K_STATUS, K_FOO, K_TE.
  destruct (Z.eqb_spec k 4).
  - subst. cbn. reflexivity.
  - repeat match goal with
           | |- context [if ?c then _ else _] => destruct c
           | |- context [match ?c with Some _ => _ | None => _ end] => destruct c
           end; reflexivity.
Qed.

(* :authority (8) and host (9) values are appended verbatim *)
Lemma hstep_md K a k v : K = K_AUTH \/ K = K_HOST ->
  md_get K (a_md (hstep a (k, v))) = if k =? K then md_get K (a_md a) ++ [v] else md_get K (a_md a).
Proof.
  intros HK.
  unfold hstep, reserved_skipped, K_CT, K_ACCENC, K_ENC, K_METHOD, K_PATH, K_TIMEOUT, K_CONN, K_BIN,
    K_GSTATUS, K_SCHEME, K_STATUS, K_FOO, K_TE.
  assert (HK' : K = 8 \/ K = 9) by exact HK. clear HK.
  destruct HK'; subst K;
  repeat match goal with |- context [k =? ?c] => destruct (Z.eqb_spec k c) as [->|?] end;
  cbn [Z.eqb Pos.eqb orb a_md];
  repeat match goal with
         | |- context [match ?c with Some _ => _ | None => _ end] => destruct c; cbn [a_md]
         | |- context [if ct_valid ?v then _ else _] => destruct (ct_valid v); cbn [a_md]
         end;
  rewrite ?md_get_add; cbn [Z.eqb Pos.eqb]; try reflexivity; try congruence.
  all: destruct k as [|q|q]; try reflexivity;
    match goal with |- context [(?c =? q)%positive] => destruct (Pos.eqb_spec c q); [subst; congruence|reflexivity] end.
Qed.

Definition has_conn (fs : list field) : bool := existsb (fun f => fst f =? K_CONN) fs.
Definition tdecs_ok (fs : list field) : bool :=
  forallb (fun f => negb (fst f =? K_TIMEOUT) || tdec_ok (snd f)) fs.

Lemma fold_grpc fs : forall a, a_grpc (fold_left hstep fs a) = a_grpc a || some_ct_valid fs.
Proof.
  induction fs as [|[k v] fs IH]; intros a; cbn [fold_left some_ct_valid existsb].
  - rewrite orb_false_r. reflexivity.
  - rewrite IH, hstep_grpc. cbn [fst snd]. unfold some_ct_valid. rewrite orb_assoc. reflexivity.
Qed.
Lemma fold_proto fs : forall a, a_proto (fold_left hstep fs a) = a_proto a || has_conn fs.
Proof.
  induction fs as [|[k v] fs IH]; intros a; cbn [fold_left has_conn existsb].
  - rewrite orb_false_r. reflexivity.
  - rewrite IH, hstep_proto. cbn [fst]. unfold has_conn. rewrite orb_assoc. reflexivity.
Qed.
Lemma fold_herr fs : forall a,
  a_herr (fold_left hstep fs a) = a_herr a || negb (tdecs_ok fs && bins_ok fs).
Proof.
  induction fs as [|[k v] fs IH]; intros a; cbn [fold_left tdecs_ok bins_ok forallb].
  - cbn. rewrite orb_false_r. reflexivity.
  - rewrite IH, hstep_herr. cbn [fst snd]. fold (tdecs_ok fs) (bins_ok fs). fold (bdec_ok v).
    unfold K_TIMEOUT, K_BIN.
    destruct (a_herr a), (k =? 6), (k =? 11), (tdec_ok v), (bdec_ok v), (tdecs_ok fs), (bins_ok fs); reflexivity.
Qed.
Lemma fold_md K fs : K = K_AUTH \/ K = K_HOST -> forall a,
  lenZ (md_get K (a_md (fold_left hstep fs a))) = lenZ (md_get K (a_md a)) + count_kind K fs.
Proof.
  intros HK. unfold count_kind.
  induction fs as [|[k v] fs IH]; intros a; cbn [fold_left filter].
  - unfold lenZ at 3. cbn. lia.
  - rewrite IH, (hstep_md K a k v HK). cbn [fst]. destruct (k =? K).
    + rewrite lenZ_app, lenZ_cons. unfold lenZ at 3. cbn. lia.
    + lia.
Qed.
Lemma fold_method_post fs : forall a, a_method (fold_left hstep fs a) = v_POST ->
  a_method a = v_POST \/ existsb (fun f => (fst f =? K_METHOD) && bytes_eqb (snd f) v_POST) fs = true.
Proof.
  induction fs as [|[k v] fs IH]; intros a H; cbn [fold_left existsb] in *; [auto|].
  apply IH in H as [H|H]; [|right; rewrite H; apply orb_true_r].
  rewrite hstep_method in H. cbn [fst snd]. destruct (k =? K_METHOD).
  - right. subst v. cbn. reflexivity.
  - auto.
Qed.

(* ---------- the decision function ---------- *)
(* what "Accept" requires, in the words of the property *)
Record legal_request (fs : list field) : Prop := {
  lr_post : has_post fs = true;                       (* exactly one :method, equal to POST *)
  lr_ct : some_ct_valid fs = true;                    (* a valid content-type is present *)
  lr_timeout : timeouts_ok fs = true;                 (* every grpc-timeout is well-formed (C07) *)
  lr_auth : count_kind K_AUTH fs <= 1;                (* no duplicate :authority *)
  lr_host : count_kind K_HOST fs <= 1;                (* no duplicate host *)
  lr_bin : bins_ok fs = true;                         (* every -bin value decodes (C09) *)
  lr_conn : has_conn fs = false }.                    (* no connection header (A41) *)

Lemma tdecs_ok_timeouts_ok fs : tdecs_ok fs = timeouts_ok fs.
Proof.
  unfold tdecs_ok, timeouts_ok. induction fs as [|[k v] fs IH]; cbn [forallb]; [reflexivity|].
  rewrite IH. cbn [fst snd]. rewrite tdec_ok_wellformed. reflexivity.
Qed.

Lemma decide_accept reachable nact maxs fs tset md path :
  check_pseudos fs = true ->
  decide_req reachable nact maxs fs = DAccept tset md path ->
  reachable = true /\ nact < maxs /\ legal_request fs.
Proof.
  intros Hp. unfold decide_req, collect.
  destruct (_ || _) eqn:Edup; [discriminate|].
  destruct (a_proto _) eqn:Eproto; [discriminate|].
  destruct (a_grpc _) eqn:Egrpc; cbn [negb]; [|discriminate].
  destruct (a_herr _) eqn:Eherr; [discriminate|].
  destruct reachable; cbn [negb]; [|discriminate].
  destruct (nact >=? maxs) eqn:En; [discriminate|].
  destruct (bytes_eqb _ v_POST) eqn:Em; cbn [negb]; [|discriminate].
  destruct (_ && _); [discriminate|]. intros _.
  split; [reflexivity|]. split; [lia|].
  apply orb_false_iff in Edup as [Ea Eh].
  rewrite (fold_md K_AUTH fs (or_introl eq_refl)) in Ea. rewrite (fold_md K_HOST fs (or_intror eq_refl)) in Eh.
  rewrite fold_proto in Eproto. rewrite fold_grpc in Egrpc. rewrite fold_herr in Eherr.
  cbn in Ea, Eh, Eproto, Egrpc, Eherr. apply negb_false_iff, andb_true_iff in Eherr as [Et Eb].
  apply bytes_eqb_eq, fold_method_post in Em as [Em|Em]; [discriminate|].
  constructor; auto; try (unfold lenZ in *; cbn in *; lia).
  - unfold has_post. rewrite Em, andb_true_r. apply Z.leb_le. apply check_pseudos_count; auto.
  - rewrite <- tdecs_ok_timeouts_ok. exact Et.
Qed.

(* ---------- accepting a stream ---------- *)
Definition invoked (st st' : sstate) : Prop := s_handled st' = s_handled st + 1.

Lemma detach_fields st sid :
  s_handled (detach st sid) = s_handled st /\ s_mode (detach st sid) = s_mode st /\ s_max (detach st sid) = s_max st.
Proof. unfold detach. destruct (find_stream sid (s_active st)); cbn; auto. Qed.
Lemma trunc_fields st sid :
  let st' := if alive st then detach st sid else st in
  s_handled st' = s_handled st /\ s_mode st' = s_mode st /\ s_max st' = s_max st.
Proof. cbv zeta. destruct (alive st); [apply detach_fields|auto]. Qed.

Lemma headers_step_handled cfg st sid ended fs st' ev :
  headers_step cfg st sid ended fs = (st', ev) ->
  s_handled st' = s_handled st \/
  (invoked st st' /\ exists l tset md path, read_meta (c_limit cfg) fs = MFrame l false /\
     Z.even sid = false /\ s_max st < sid /\
     decide_req (alive st) (lenZ (s_active st)) (c_maxs cfg) l = DAccept tset md path /\
     st' = mkst sid (s_active st ++ [(sid, b2z ended)]) (s_handled st + 1) (s_mode st) (s_post st) (s_win st)).
Proof.
  unfold headers_step, stream_error, with_active.
  destruct (read_meta _ fs) as [|l [|]] eqn:R.
  - intros H; inversion H; subst; cbn; auto.
  - intros H; inversion H; subst. left. apply (trunc_fields st sid).
  - destruct (Z.even sid || _) eqn:Eid.
    + intros H; inversion H; subst; cbn; auto.
    + apply orb_false_iff in Eid as [Ev El]. apply Z.leb_gt in El.
      destruct (decide_req _ _ _ l) eqn:D; intros H; inversion H; subst; cbn; auto.
      right. split; [reflexivity|]. exists l, tset, md, path. auto.
Qed.

Theorem accept_implies_legal cfg st sid ended fs st' ev :
  headers_step cfg st sid ended fs = (st', ev) -> s_handled st' <> s_handled st ->
  Z.odd sid = true /\ s_max st < sid /\ s_mode st = 0 /\ lenZ (s_active st) < c_maxs cfg /\
  legal_request fs /\ forallb field_wire_ok fs = true /\
  st' = mkst sid (s_active st ++ [(sid, b2z ended)]) (s_handled st + 1) (s_mode st) (s_post st) (s_win st).
Proof.
  intros H Hn. apply headers_step_handled in H as [H|[_ (l & tset & md & path & R & Ev & Hm & D & ->)]];
    [contradiction|].
  apply read_meta_full in R as (-> & Hp & Hw).
  apply (decide_accept _ _ _ _ _ _ _ Hp) in D as (Hr & Hn' & Hl).
  unfold alive in Hr. apply Z.eqb_eq in Hr.
  rewrite <- Z.negb_even, Ev. split; [reflexivity|]. do 3 (split; [assumption|]).
  split; [exact Hl|]. split; [exact Hw|reflexivity].
Qed.

(* ---------- refusal over the limit ---------- *)
Theorem refused_over_limit cfg st sid ended fs :
  s_mode st = 0 -> legal_id (s_max st) sid = true -> admissible (c_limit cfg) fs = true ->
  c_maxs cfg <= lenZ (s_active st) ->
  headers_step cfg st sid ended fs =
  (mkst sid (s_active st) (s_handled st) (s_mode st) (s_post st) (s_win st), ev_rst sid E_REFUSED).
Proof.
  intros Hm Hid Had Hn. unfold headers_step, admissible in *.
  destruct (read_meta _ fs) as [|l [|]]; try discriminate.
  unfold legal_id in Hid. apply andb_true_iff in Hid as [Ho Hlt]. apply Z.ltb_lt in Hlt.
  rewrite <- Z.negb_odd, Ho. cbn [negb orb]. destruct (Z.leb_spec sid (s_max st)); [lia|].
  unfold decide_req. fold (collect l).
  repeat (apply andb_true_iff in Had as [Had ?]).
  apply Z.leb_le in Had. apply Z.leb_le in H3.
  destruct (Z.gtb_spec (lenZ (md_get K_AUTH (a_md (collect l)))) 1); [lia|].
  destruct (Z.gtb_spec (lenZ (md_get K_HOST (a_md (collect l)))) 1); [lia|]. cbn [orb].
  apply negb_true_iff in H2, H0. rewrite H2, H1, H0. cbn [negb].
  unfold alive. rewrite Hm. cbn [Z.eqb negb].
  destruct (Z.geb_spec (lenZ (s_active st)) (c_maxs cfg)); [|lia].
  unfold out, alive. rewrite Hm. reflexivity.
Qed.

(* ---------- illegal stream id ---------- *)
Theorem illegal_id_is_conn_error cfg st sid ended fs l :
  read_meta (c_limit cfg) fs = MFrame l false -> (Z.even sid = true \/ sid <= s_max st) ->
  headers_step cfg st sid ended fs =
  (mkst (s_max st) (s_active st) (s_handled st) 1 (s_post st) (s_win st), out st [7; s_max st; E_PROTOCOL; 0]).
Proof.
  intros R H. unfold headers_step. rewrite R.
  destruct H as [H|H]; [rewrite H; reflexivity|].
  destruct (Z.leb_spec sid (s_max st)); [|lia]. rewrite orb_true_r. reflexivity.
Qed.

(* ---------- invariants over arbitrary op lists ---------- *)
Definition reach (cfg : config) (st : sstate) (ops : list op) : sstate :=
  fold_left (fun s o => fst (step cfg s o)) ops st.

Lemma del_stream_len sid l : lenZ (del_stream sid l) <= lenZ l.
Proof. apply lenZ_filter_le. Qed.
Lemma set_stream_len sid s l : lenZ (set_stream sid s l) = lenZ l.
Proof.
  induction l as [|[i s0] l IH]; cbn [set_stream]; [reflexivity|].
  destruct (i =? sid); rewrite !lenZ_cons; lia.
Qed.

Definition bounded (cfg : config) (st : sstate) : Prop := lenZ (s_active st) <= c_maxs cfg.
Lemma detach_len st sid : lenZ (s_active (detach st sid)) = lenZ (s_active st).
Proof. unfold detach. destruct (find_stream sid (s_active st)); [cbn; apply set_stream_len|reflexivity]. Qed.

(* the application finishing a stream (with or without a message) and a WINDOW_UPDATE never
   invoke a handler, never change the connection mode, never add an active stream and never
   produce a GOAWAY or a close *)
Lemma finish_op_facts cfg st sid wr :
  let r := finish_op cfg st sid wr in
  s_handled (fst r) = s_handled st /\ s_mode (fst r) = s_mode st /\
  lenZ (s_active (fst r)) <= lenZ (s_active st) /\ down_event (snd r) = false.
Proof.
  cbv zeta. unfold finish_op.
  destruct (find_stream sid (s_active st)) as [s|]; [|cbn; repeat split; lia].
  assert (Hd := del_stream_len sid (s_active st)).
  destruct (is_done s); [cbn; repeat split; lia|].
  destruct (alive st); cbn [negb]; [|cbn; repeat split; lia].
  destruct (c_tiny cfg); [cbn; repeat split; auto|].
  destruct (detached s); [cbn; rewrite set_stream_len; repeat split; auto; lia|].
  destruct wr as [n|].
  - destruct (0 <=? window cfg st sid - (5 + n)).
    + destruct (s =? 0); cbn; repeat split; auto.
    + cbn. rewrite set_stream_len. repeat split; auto; lia.
  - destruct (s =? 0); cbn; repeat split; auto.
Qed.
Lemma window_op_facts cfg st sid inc :
  let r := exec_op cfg st (OWindow sid inc) in
  s_handled (fst r) = s_handled st /\ s_mode (fst r) = s_mode st /\
  lenZ (s_active (fst r)) <= lenZ (s_active st) /\ down_event (snd r) = false.
Proof.
  cbv zeta. cbn [exec_op]. destruct (alive st); [|cbn; repeat split; lia].
  destruct (find_stream sid (s_active st)) as [s|]; [|cbn; repeat split; lia].
  assert (Hd := del_stream_len sid (s_active st)).
  destruct (is_blocked s && (0 <=? window cfg st sid + inc)).
  - destruct (rst_after s); cbn; repeat split; auto.
  - cbn. repeat split; auto; lia.
Qed.
Lemma alive_mode st st' : s_mode st' = s_mode st -> alive st' = alive st.
Proof. unfold alive. intros ->. reflexivity. Qed.
(* an empty DATA frame: no handler, no new stream; the only way it changes the mode is the panic *)
Lemma data_op_facts st sid ended :
  let r := data_op st sid ended in
  s_handled (fst r) = s_handled st /\ lenZ (s_active (fst r)) <= lenZ (s_active st) /\
  negb (alive (fst r)) = negb (alive st) || down_event (snd r) /\
  (s_mode st <> 0 -> s_mode (fst r) <> 0).
Proof.
  cbv zeta. unfold data_op.
  destruct (find_stream sid (s_active st)) as [s|]; [|cbn; rewrite orb_false_r; repeat split; auto; lia].
  assert (Hd := del_stream_len sid (s_active st)).
  destruct (read_done s).
  - unfold out, alive. cbn [fst snd with_active s_handled s_active s_mode]. destruct (s_mode st =? 0); cbn; repeat split; auto.
  - destruct ended; cbn [negb]; [|cbn; rewrite orb_false_r; repeat split; auto; lia].
    destruct ((s =? 0) || (s =? 20)); [cbn; rewrite set_stream_len, orb_false_r; repeat split; auto; lia|].
    destruct (eof_put s).
    + cbn. rewrite orb_false_r. repeat split; auto; lia.
    + cbn. rewrite set_stream_len, orb_false_r. repeat split; auto; lia.
Qed.

Lemma exec_op_bounded cfg st o : bounded cfg st -> bounded cfg (fst (exec_op cfg st o)).
Proof.
  unfold bounded. intros B. destruct o as [sid ended fs|sid|sid|sid ended| |sid|sid n|sid inc]; cbn [exec_op].
  - destruct (headers_step cfg st sid ended fs) as [st' ev] eqn:H. cbn [fst].
    destruct (headers_step_handled _ _ _ _ _ _ _ H) as [Hh|[_ (l & tset & md & path & R & _ & _ & D & ->)]].
    + (* not accepted: the active list did not grow *)
      revert H. unfold headers_step, stream_error, with_active.
      destruct (read_meta _ fs) as [|l [|]].
      * intros H; inversion H; subst; cbn. pose proof (del_stream_len sid (s_active st)). lia.
      * intros H; inversion H; subst. destruct (alive st); [rewrite detach_len|]; auto.
      * destruct (Z.even sid || _); [intros H; inversion H; subst; cbn; auto|].
        destruct (decide_req _ _ _ l); intros H; inversion H; subst; cbn in *; auto. lia.
    + cbn. apply read_meta_full in R as (-> & Hp & _).
      apply (decide_accept _ _ _ _ _ _ _ Hp) in D as (_ & Hn & _).
      rewrite lenZ_app. unfold lenZ at 2. cbn. lia.
  - cbn. pose proof (del_stream_len sid (s_active st)). lia.
  - destruct (finish_op_facts cfg st sid None) as (_ & _ & H & _). lia.
  - destruct (data_op_facts st sid ended) as (_ & H & _). lia.
  - cbn. unfold lenZ in *. cbn. lia.
  - cbn. pose proof (del_stream_len sid (s_active st)). lia.
  - destruct (finish_op_facts cfg st sid (Some n)) as (_ & _ & H & _). lia.
  - destruct (window_op_facts cfg st sid inc) as (_ & _ & H & _). cbn [exec_op] in H. lia.
Qed.

Lemma step_bounded cfg st o : bounded cfg st -> bounded cfg (fst (step cfg st o)).
Proof.
  intros B. unfold step. destruct (_ || _); [exact B|].
  apply exec_op_bounded. destruct (s_mode st =? 1); exact B.
Qed.

Theorem active_bound cfg ops : 0 <= c_maxs cfg ->
  lenZ (s_active (reach cfg st0 ops)) <= c_maxs cfg.
Proof.
  intros H0. assert (G : forall st, bounded cfg st -> bounded cfg (reach cfg st ops)).
  { induction ops as [|o ops IH]; intros st B; cbn; [exact B|]. apply IH, step_bounded, B. }
  apply G. unfold bounded, st0, lenZ. cbn. lia.
Qed.

(* once the connection is not reachable (after the GOAWAY or a close) no handler runs *)
Lemma exec_op_not_alive cfg st o : s_mode st <> 0 ->
  s_handled (fst (exec_op cfg st o)) = s_handled st /\ s_mode (fst (exec_op cfg st o)) <> 0.
Proof.
  intros Hm. destruct o as [sid ended fs|sid|sid|sid ended| |sid|sid n|sid inc]; cbn [exec_op].
  - destruct (headers_step cfg st sid ended fs) as [st' ev] eqn:H. cbn [fst].
    assert (Hh := headers_step_handled _ _ _ _ _ _ _ H).
    destruct Hh as [Hh|[_ (l & tset & md & path & R & _ & _ & D & ->)]].
    + split; [exact Hh|]. revert H. unfold headers_step, stream_error, with_active.
      destruct (read_meta _ fs) as [|l [|]].
      * intros H; inversion H; subst; cbn; auto.
      * intros H; inversion H; subst. destruct (trunc_fields st sid) as (_ & M & _). cbv zeta in M. rewrite M. auto.
      * destruct (Z.even sid || _); [intros H; inversion H; subst; cbn; lia|].
        destruct (decide_req _ _ _ l); intros H; inversion H; subst; cbn; auto.
    + apply read_meta_full in R as (-> & Hp & _).
      apply (decide_accept _ _ _ _ _ _ _ Hp) in D as (Hr & _). unfold alive in Hr.
      apply Z.eqb_eq in Hr. contradiction.
  - cbn. auto.
  - destruct (finish_op_facts cfg st sid None) as (H1 & H2 & _). rewrite H1, H2. auto.
  - destruct (data_op_facts st sid ended) as (H1 & _ & _ & H4). rewrite H1. auto.
  - cbn. split; [reflexivity|lia].
  - cbn. auto.
  - destruct (finish_op_facts cfg st sid (Some n)) as (H1 & H2 & _). rewrite H1, H2. auto.
  - destruct (window_op_facts cfg st sid inc) as (H1 & H2 & _). cbn [exec_op] in H1, H2. rewrite H1, H2. auto.
Qed.

Lemma step_not_alive cfg st o : s_mode st <> 0 ->
  s_handled (fst (step cfg st o)) = s_handled st /\ s_mode (fst (step cfg st o)) <> 0.
Proof.
  intros Hm. unfold step. destruct (_ || _); [auto|].
  destruct (Z.eqb_spec (s_mode st) 1) as [E|E].
  - set (st1 := mkst _ _ _ _ _ _). assert (H1 : s_mode st1 <> 0) by (cbn; exact Hm).
    destruct (exec_op_not_alive cfg st1 o H1) as [A B]. split; [rewrite A; reflexivity | exact B].
  - apply exec_op_not_alive, Hm.
Qed.

Theorem no_handler_after_conn_error cfg ops : forall st, s_mode st <> 0 ->
  s_handled (reach cfg st ops) = s_handled st.
Proof.
  unfold reach. induction ops as [|o ops IH]; intros st Hm; cbn [fold_left]; [reflexivity|].
  destruct (step_not_alive cfg st o Hm) as [A B]. rewrite IH; auto.
Qed.

(* ---------- bridge: the clauses evaluated on implementation traces hold on every model trace ---------- *)
Definition okc (c : Z * Z * bool) : bool := (fst (fst c) =? 9) || snd c.

Record rel (cfg : config) (p : cstate) (st : sstate) : Prop := {
  r_n : p_n p = lenZ (s_active st);
  r_h : p_h p = s_handled st;
  r_max : p_max p = s_max st;
  r_down : p_down p = negb (alive st);
  r_b : bounded cfg st }.

Lemma headers_down cfg st sid ended fs :
  negb (alive (fst (headers_step cfg st sid ended fs))) =
  negb (alive st) || down_event (snd (headers_step cfg st sid ended fs)).
Proof.
  unfold headers_step, stream_error, with_active, out, ev_abort, ev_rst, ev_hdr, alive.
  destruct (read_meta _ fs) as [|l [|]].
  - cbn [fst snd s_mode]. destruct (s_mode st =? 0); cbn; reflexivity.
  - cbn [fst snd]. destruct (s_mode st =? 0) eqn:Em; [|cbn; rewrite Em; reflexivity].
    destruct (detach_fields st sid) as (_ & M & _). rewrite M, Em. cbn. reflexivity.
  - destruct (Z.even sid || _).
    + cbn [fst snd s_mode]. destruct (s_mode st =? 0); cbn; reflexivity.
    + destruct (decide_req _ _ _ l); cbn [fst snd s_mode].
      * destruct (s_mode st =? 0); cbn; reflexivity.
      * destruct (s_mode st =? 0); [|cbn; reflexivity]. destruct (c_tiny cfg); [cbn; reflexivity|].
        destruct ended; cbn; reflexivity.
      * destruct (s_mode st =? 0); cbn; reflexivity.
      * destruct (s_mode st =? 0); cbn; reflexivity.
Qed.

Lemma exec_down cfg st o :
  negb (alive (fst (exec_op cfg st o))) = negb (alive st) || down_event (snd (exec_op cfg st o)).
Proof.
  destruct o as [sid ended fs|sid|sid|sid ended| |sid|sid n|sid inc]; cbn [exec_op].
  - apply headers_down.
  - cbn. rewrite orb_false_r. reflexivity.
  - destruct (finish_op_facts cfg st sid None) as (_ & H2 & _ & H4). rewrite H4, (alive_mode _ _ H2), orb_false_r. reflexivity.
  - apply (data_op_facts st sid ended).
  - cbn. rewrite orb_true_r. reflexivity.
  - unfold stream_error, out, with_active, ev_rst, alive. cbn [fst snd s_mode].
    destruct (s_mode st =? 0); cbn; reflexivity.
  - destruct (finish_op_facts cfg st sid (Some n)) as (_ & H2 & _ & H4). rewrite H4, (alive_mode _ _ H2), orb_false_r. reflexivity.
  - destruct (window_op_facts cfg st sid inc) as (_ & H2 & _ & H4). cbn [exec_op] in H2, H4.
    rewrite H4, (alive_mode _ _ H2), orb_false_r. reflexivity.
Qed.

Lemma exec_non_headers_handled cfg st o :
  (forall sid e fs, o <> OHeaders sid e fs) -> s_handled (fst (exec_op cfg st o)) = s_handled st.
Proof.
  intros Hn. destruct o as [sid ended fs|sid|sid|sid ended| |sid|sid n|sid inc]; cbn [exec_op].
  - exfalso. eapply Hn; reflexivity.
  - reflexivity.
  - apply (finish_op_facts cfg st sid None).
  - apply (data_op_facts st sid ended).
  - reflexivity.
  - reflexivity.
  - apply (finish_op_facts cfg st sid (Some n)).
  - apply (window_op_facts cfg st sid inc).
Qed.

Lemma headers_clauses cfg p st sid ended fs :
  rel cfg p st ->
  let st' := fst (headers_step cfg st sid ended fs) in
  let ev := snd (headers_step cfg st sid ended fs) in
  let n := lenZ (s_active st') in let h := s_handled st' in
  let invoked := p_h p <? h in
  forallb okc
    [ (1, sid, (h <=? p_h p + 1) && (p_h p <=? h) && (negb invoked || legal_id (p_max p) sid));
      (2, sid, negb invoked || has_post fs);
      (3, sid, negb invoked || some_ct_valid fs);
      (4, sid, negb invoked || timeouts_ok fs);
      (5, sid, negb invoked || ((count_kind K_AUTH fs <=? 1) && (count_kind K_HOST fs <=? 1)));
      (6, sid, negb invoked || bins_ok fs);
      (7, n, n <=? c_maxs cfg);
      (8, sid, negb (negb (p_down p) && legal_id (p_max p) sid && admissible (c_limit cfg) fs &&
                     (c_maxs cfg <=? p_n p))
               || (negb invoked && word_eqb ev (ev_rst sid E_REFUSED)));
      (9, sid, negb invoked || all_ct_valid fs) ] = true.
Proof.
  intros [Rn Rh Rm Rd Rb]. cbv zeta.
  assert (Hb := exec_op_bounded cfg st (OHeaders sid ended fs) Rb). cbn [exec_op] in Hb.
  destruct (headers_step cfg st sid ended fs) as [st' ev] eqn:H. cbn [fst snd] in *.
  unfold bounded in Hb. apply Z.leb_le in Hb. rewrite Hb.
  rewrite Rh, Rm, Rn, Rd.
  destruct (Z.eq_dec (s_handled st') (s_handled st)) as [E|E].
  - rewrite E. rewrite Z.ltb_irrefl. cbn [negb orb andb forallb okc fst snd].
    destruct (Z.leb_spec (s_handled st) (s_handled st + 1)); [|lia]. rewrite Z.leb_refl.
    unfold okc. cbn [fst snd Z.eqb Pos.eqb orb andb]. rewrite andb_true_r.
    destruct (negb (negb (alive st)) && legal_id (s_max st) sid && admissible (c_limit cfg) fs &&
              (c_maxs cfg <=? lenZ (s_active st))) eqn:A; [|reflexivity].
    apply andb_true_iff in A as [A A4]. apply andb_true_iff in A as [A A3].
    apply andb_true_iff in A as [A A2].
    rewrite negb_involutive in A. unfold alive in A. apply Z.eqb_eq in A. apply Z.leb_le in A4.
    rewrite (refused_over_limit cfg st sid ended fs A A2 A3 A4) in H. inversion H; subst.
    cbn [negb orb]. apply word_eqb_refl.
  - destruct (accept_implies_legal _ _ _ _ _ _ _ H E) as (Ho & Hm & Hmode & Hn & [L1 L2 L3 L4 L5 L6 L7] & Hw & ->).
    cbn [s_handled]. destruct (Z.ltb_spec (s_handled st) (s_handled st + 1)); [|lia].
    cbn [negb orb andb forallb okc fst snd].
    rewrite L1, L2, L3, L6. unfold legal_id. rewrite Ho.
    destruct (Z.ltb_spec (s_max st) sid); [|lia].
    destruct (Z.leb_spec (count_kind K_AUTH fs) 1); [|lia].
    destruct (Z.leb_spec (count_kind K_HOST fs) 1); [|lia].
    destruct (Z.leb_spec (c_maxs cfg) (lenZ (s_active st))); [lia|].
    rewrite Z.leb_refl. destruct (Z.leb_spec (s_handled st) (s_handled st + 1)); [|lia].
    cbn [andb orb negb]. rewrite !andb_false_r. reflexivity.
Qed.

Lemma decode_op_headers limit w sid e fs : decode_op limit w = Some (OHeaders sid e fs) -> True.
Proof. trivial. Qed.

Lemma rel_post cfg p st : rel cfg p st ->
  rel cfg p (mkst (s_max st) (s_active st) (s_handled st) (s_mode st) (s_post st + 1) (s_win st)).
Proof. intros [A B C D E]. constructor; auto. Qed.

Lemma clause_exec cfg p st w o :
  decode_op (c_limit cfg) w = Some o -> rel cfg p st ->
  let r := exec_op cfg st o in
  forallb okc (fst (clause_op cfg p w (hdr_obs (fst r) ++ snd r))) = true /\
  rel cfg (snd (clause_op cfg p w (hdr_obs (fst r) ++ snd r))) (fst r).
Proof.
  intros Hd R. cbv zeta. unfold hdr_obs. cbn [app]. unfold clause_op. rewrite Hd.
  assert (Hb := exec_op_bounded cfg st o (r_b _ _ _ R)).
  assert (Hdown := exec_down cfg st o).
  assert (Rel' : rel cfg (mkcs (lenZ (s_active (fst (exec_op cfg st o)))) (s_handled (fst (exec_op cfg st o)))
                         (s_max (fst (exec_op cfg st o))) (p_down p || down_event (snd (exec_op cfg st o))))
                     (fst (exec_op cfg st o))).
  { constructor; cbn [p_n p_h p_max p_down]; auto. rewrite (r_down _ _ _ R). symmetry. exact Hdown. }
  destruct o as [sid ended fs|sid|sid|sid ended| |sid|sid n|sid inc].
  - cbn [fst snd]. split; [|exact Rel'].
    exact (headers_clauses cfg p st sid ended fs R).
  - cbn [fst snd]. split; [|exact Rel']. cbn [forallb okc fst snd].
    rewrite exec_non_headers_handled by congruence. rewrite (r_h _ _ _ R), Z.eqb_refl.
    unfold bounded in Hb. apply Z.leb_le in Hb. rewrite Hb. reflexivity.
  - cbn [fst snd]. split; [|exact Rel']. cbn [forallb okc fst snd].
    rewrite exec_non_headers_handled by congruence. rewrite (r_h _ _ _ R), Z.eqb_refl.
    unfold bounded in Hb. apply Z.leb_le in Hb. rewrite Hb. reflexivity.
  - cbn [fst snd]. split; [|exact Rel']. cbn [forallb okc fst snd].
    rewrite exec_non_headers_handled by congruence. rewrite (r_h _ _ _ R), Z.eqb_refl.
    unfold bounded in Hb. apply Z.leb_le in Hb. rewrite Hb. reflexivity.
  - cbn [fst snd]. split; [|exact Rel']. cbn [forallb okc fst snd].
    rewrite exec_non_headers_handled by congruence. rewrite (r_h _ _ _ R), Z.eqb_refl.
    unfold bounded in Hb. apply Z.leb_le in Hb. rewrite Hb. reflexivity.
  - cbn [fst snd]. split; [|exact Rel']. cbn [forallb okc fst snd].
    rewrite exec_non_headers_handled by congruence. rewrite (r_h _ _ _ R), Z.eqb_refl.
    unfold bounded in Hb. apply Z.leb_le in Hb. rewrite Hb. reflexivity.
  - cbn [fst snd]. split; [|exact Rel']. cbn [forallb okc fst snd].
    rewrite exec_non_headers_handled by congruence. rewrite (r_h _ _ _ R), Z.eqb_refl.
    unfold bounded in Hb. apply Z.leb_le in Hb. rewrite Hb. reflexivity.
  - cbn [fst snd]. split; [|exact Rel']. cbn [forallb okc fst snd].
    rewrite exec_non_headers_handled by congruence. rewrite (r_h _ _ _ R), Z.eqb_refl.
    unfold bounded in Hb. apply Z.leb_le in Hb. rewrite Hb. reflexivity.
Qed.

Lemma clause_skip cfg p st w o :
  decode_op (c_limit cfg) w = Some o -> rel cfg p st -> alive st = false ->
  forallb okc (fst (clause_op cfg p w (hdr_obs st ++ []))) = true /\
  rel cfg (snd (clause_op cfg p w (hdr_obs st ++ []))) st.
Proof.
  intros Hd R Ha. unfold hdr_obs. cbn [app]. unfold clause_op. rewrite Hd.
  assert (Hb := r_b _ _ _ R). unfold bounded in Hb. apply Z.leb_le in Hb.
  assert (Rel' : rel cfg (mkcs (lenZ (s_active st)) (s_handled st) (s_max st) (p_down p || down_event [])) st).
  { destruct R as [A B C D E]. constructor; cbn [p_n p_h p_max p_down]; auto.
    rewrite D, Ha. reflexivity. }
  destruct o as [sid ended fs|sid|sid|sid ended| |sid|sid n|sid inc]; cbn [fst snd]; (split; [|exact Rel']);
    cbn [forallb okc fst snd]; rewrite (r_h _ _ _ R), ?Z.eqb_refl, ?Hb; try reflexivity.
  rewrite Z.ltb_irrefl, (r_down _ _ _ R), Ha. cbn [negb andb orb].
  destruct (Z.leb_spec (s_handled st) (s_handled st + 1)); [|lia]. rewrite Z.leb_refl. reflexivity.
Qed.

Lemma clause_step cfg p st w o :
  decode_op (c_limit cfg) w = Some o -> rel cfg p st ->
  let r := step cfg st o in
  forallb okc (fst (clause_op cfg p w (hdr_obs (fst r) ++ snd r))) = true /\
  rel cfg (snd (clause_op cfg p w (hdr_obs (fst r) ++ snd r))) (fst r).
Proof.
  intros Hd R. cbv zeta. unfold step.
  destruct ((s_mode st =? 2) || _) eqn:Sk.
  - cbn [fst snd]. apply (clause_skip cfg p st w o); auto. unfold alive.
    apply orb_true_iff in Sk as [Sk|Sk].
    + apply Z.eqb_eq in Sk. rewrite Sk. reflexivity.
    + apply andb_true_iff in Sk as [Sk _]. apply Z.eqb_eq in Sk. rewrite Sk. reflexivity.
  - destruct (s_mode st =? 1).
    + apply clause_exec; auto. apply rel_post, R.
    + apply clause_exec; auto.
Qed.

(* the model never emits the panic event *)
Lemma down_no_panic ev : down_event ev = false -> has_event 66 ev 8 = false.
Proof. unfold down_event. intros H. apply orb_false_iff in H as [_ H]. exact H. Qed.
Lemma headers_no_panic cfg st sid ended fs : has_event 66 (snd (headers_step cfg st sid ended fs)) 8 = false.
Proof.
  unfold headers_step, stream_error, with_active, out, ev_abort, ev_rst, ev_hdr.
  destruct (read_meta _ fs) as [|l [|]]; cbn [snd]; try (destruct (alive st); reflexivity).
  destruct (Z.even sid || _); [cbn [snd]; destruct (alive st); reflexivity|].
  destruct (decide_req _ _ _ l); cbn [snd]; try (destruct (alive st); reflexivity).
  destruct (alive st); [|reflexivity]. destruct (c_tiny cfg); [reflexivity|]. destruct ended; reflexivity.
Qed.
Lemma exec_no_panic cfg st o : has_event 66 (snd (exec_op cfg st o)) 8 = false.
Proof.
  destruct o as [sid ended fs|sid|sid|sid ended| |sid|sid n|sid inc]; cbn [exec_op].
  - apply headers_no_panic.
  - reflexivity.
  - apply down_no_panic, (finish_op_facts cfg st sid None).
  - unfold data_op, out, ev_rst. destruct (find_stream sid (s_active st)) as [s|]; [|reflexivity].
    destruct (read_done s); [cbn [snd]; destruct (alive st); reflexivity|].
    destruct (negb ended); [reflexivity|]. destruct ((s =? 0) || (s =? 20)); [reflexivity|].
    destruct (eof_put s); reflexivity.
  - reflexivity.
  - unfold stream_error, out, ev_rst. cbn [snd]. destruct (alive st); reflexivity.
  - apply down_no_panic, (finish_op_facts cfg st sid (Some n)).
  - apply down_no_panic. pose proof (window_op_facts cfg st sid inc) as (_ & _ & _ & H). exact H.
Qed.
Lemma step_no_panic cfg st o : has_event 66 (snd (step cfg st o)) 8 = false.
Proof. unfold step. destruct (_ || _); [reflexivity|apply exec_no_panic]. Qed.

(* clause 10 (the admission situation classified on the model state) on a model trace *)
Lemma clause_model_ok cfg p st w o :
  decode_op (c_limit cfg) w = Some o -> p_h p = s_handled st ->
  let r := step cfg st o in
  forallb okc (clause_model cfg st p w (hdr_obs (fst r) ++ snd r)) = true.
Proof.
  intros Hd Rh. cbv zeta. unfold clause_model, hdr_obs. rewrite Hd. cbn [app].
  rewrite forallb_app. apply andb_true_iff. split;
    [|cbn [forallb okc fst snd Z.eqb Pos.eqb orb]; rewrite (step_no_panic cfg st o), andb_false_r; reflexivity].
  destruct o as [sid ended fs|sid|sid|sid ended| |sid|sid n|sid inc]; try reflexivity.
  cbn [forallb okc fst snd Z.eqb Pos.eqb orb]. rewrite andb_true_r.
  destruct (alive st && negb (p_down p) && legal_id (s_max st) sid && admissible (c_limit cfg) fs &&
            (c_maxs cfg <=? lenZ (s_active st))) eqn:A; [|reflexivity].
  apply andb_true_iff in A as [A A4]. apply andb_true_iff in A as [A A3].
  apply andb_true_iff in A as [A1 A2]. apply andb_true_iff in A1 as [A1 _]. unfold alive in A1. apply Z.eqb_eq in A1. apply Z.leb_le in A4.
  unfold step. rewrite A1. cbn [Z.eqb orb andb exec_op].
  rewrite (refused_over_limit cfg st sid ended fs A1 A2 A3 A4). cbn [fst snd s_handled negb orb].
  rewrite Rh, Z.ltb_irrefl. cbn [negb andb]. apply word_eqb_refl.
Qed.

Lemma clauses_run cfg : forall ws os p st,
  decode_ops (c_limit cfg) ws = Some os -> rel cfg p st ->
  forallb okc (clauses_from cfg p st ws (run_ops cfg st os)) = true.
Proof.
  induction ws as [|w ws IH]; intros os p st Hd R; cbn [decode_ops] in Hd.
  - inversion Hd; subst. reflexivity.
  - destruct (decode_op (c_limit cfg) w) as [o|] eqn:Ho; [|discriminate].
    destruct (decode_ops (c_limit cfg) ws) as [os'|] eqn:Hos; [|discriminate].
    inversion Hd; subst. cbn [run_ops].
    destruct (clause_step cfg p st w o Ho R) as [A B]. cbv zeta in A, B.
    pose proof (clause_model_ok cfg p st w o Ho (r_h _ _ _ R)) as M. cbv zeta in M.
    assert (N : model_next cfg st w = fst (step cfg st o)) by (unfold model_next; rewrite Ho; reflexivity).
    destruct (step cfg st o) as [st' ev]. cbn [fst snd] in A, B, M, N. cbn [clauses_from].
    destruct (clause_op cfg p w (hdr_obs st' ++ ev)) as [cl p']. cbn [fst snd] in A, B.
    rewrite !forallb_app, A, M, N. cbn [andb]. eapply IH; eauto.
Qed.

Definition wf (cfg : word) (ops : list word) : bool :=
  match decode_cfg cfg with
  | Some c => match decode_ops (c_limit c) ops with Some _ => true | None => false end
  | None => false
  end.

Theorem model_trace_holds cfg ops : wf cfg ops = true ->
  exists obs, run cfg ops = Some obs /\ holds_b cfg ops obs = true.
Proof.
  unfold wf, run, holds_b, clauses. destruct (decode_cfg cfg) as [c|] eqn:Hc; [|discriminate].
  destruct (decode_ops (c_limit c) ops) as [os|] eqn:Ho; [|discriminate]. intros _.
  eexists. split; [reflexivity|]. apply (clauses_run c ops os cs0 st0 Ho).
  constructor; try reflexivity. unfold bounded, st0, lenZ. cbn.
  unfold decode_cfg in Hc. destruct cfg as [|m [|l [|t [|z [|]]]]]; try discriminate;
  (match type of Hc with (if ?c then _ else _) = _ => destruct c eqn:E; [|discriminate] end;
   inversion Hc; subst c; cbn [c_maxs];
   repeat (apply andb_true_iff in E as [E _]); apply Z.leb_le in E; exact E).
Qed.

(* ---------- a finished stream is active until its END_STREAM is on the wire ---------- *)
(* the handler writes a message that does not fit the stream's send window and returns: only the
   response HEADERS go out, the stream stays in the active set (state 3 / 4), so it still counts
   against MaxConcurrentStreams - refused_over_limit applies to the resulting state *)
Theorem blocked_finish_keeps_stream cfg st sid n s :
  s_mode st = 0 -> c_tiny cfg = false -> find_stream sid (s_active st) = Some s -> is_done s = false ->
  detached s = false -> window cfg st sid < 5 + n ->
  let r := exec_op cfg st (OWriteFinish sid n) in
  snd r = ev_hdr sid 1200 (-1) /\ s_active (fst r) = set_stream sid (fin_blocked s) (s_active st) /\
  lenZ (s_active (fst r)) = lenZ (s_active st) /\ s_handled (fst r) = s_handled st /\
  s_mode (fst r) = 0 /\ s_max (fst r) = s_max st /\ window cfg (fst r) sid = window cfg st sid - (5 + n).
Proof.
  intros Hm Ht Hf Hs Hdt Hw. cbv zeta. cbn [exec_op]. unfold finish_op. rewrite Hf, Ht, Hs, Hdt.
  unfold alive. rewrite Hm. cbn [Z.eqb negb].
  destruct (Z.leb_spec 0 (window cfg st sid - (5 + n))); [lia|].
  cbn [fst snd with_active with_win s_active s_handled s_mode s_max]. rewrite set_stream_len.
  repeat split; auto. unfold window at 1. unfold with_active, with_win. cbn [s_win find_stream]. rewrite Z.eqb_refl. lia.
Qed.

(* the WINDOW_UPDATE that lets the queued DATA out: END_STREAM trailers (and RST_STREAM(NO_ERROR)
   if the client had not half-closed) are written and only now the stream leaves the active set *)
Theorem window_flushes_blocked cfg st sid inc s :
  s_mode st = 0 -> find_stream sid (s_active st) = Some s -> is_blocked s = true -> 0 <= window cfg st sid + inc ->
  exec_op cfg st (OWindow sid inc) =
  (with_active st (del_stream sid (s_active st)), ev_hdr sid (-1) 0 ++ (if rst_after s then ev_rst sid E_NO else [])).
Proof.
  intros Hm Hf Hs Hw. cbn [exec_op]. unfold alive. rewrite Hm, Hf, Hs. cbn [Z.eqb andb].
  destruct (Z.leb_spec 0 (window cfg st sid + inc)); [|lia]. reflexivity.
Qed.
(* ... and a smaller one leaves everything as it was, but for the credit *)
Theorem window_too_small cfg st sid inc s :
  s_mode st = 0 -> find_stream sid (s_active st) = Some s -> window cfg st sid + inc < 0 ->
  let r := exec_op cfg st (OWindow sid inc) in
  snd r = [] /\ s_active (fst r) = s_active st /\ window cfg (fst r) sid = window cfg st sid + inc.
Proof.
  intros Hm Hf Hw. cbv zeta. cbn [exec_op]. unfold alive. rewrite Hm, Hf. cbn [Z.eqb].
  destruct (Z.leb_spec 0 (window cfg st sid + inc)); [lia|]. rewrite andb_false_r.
  cbn [fst snd]. repeat split. unfold window at 1. unfold with_win. cbn [s_win find_stream]. rewrite Z.eqb_refl. lia.
Qed.

(* MaxConcurrentStreams = 1, the client's SETTINGS_INITIAL_WINDOW_SIZE = 0: stream 1 is accepted,
   its handler writes 15 bytes and returns; stream 3 is refused; 14 bytes of window are not enough,
   stream 5 is refused; one more byte flushes stream 1 (trailers, RST_STREAM) and stream 7 is accepted *)
Definition good_req (sid : Z) : word :=
  [1; sid; 0; 3; 4; 4; 80; 79; 83; 84; 5; 2; 47; 115; 1; 16; 97;112;112;108;105;99;97;116;105;111;110;47;103;114;112;99].
Lemma blocked_stream_witness :
  run [1; 4096; 0; 1] [good_req 1; [9; 1; 10]; good_req 3; [10; 1; 14]; good_req 5; [10; 1; 1]; good_req 7] =
  Some [[1; 1; 1; 9; 1; 0; 0; 1; 1; 2; 47; 115; -1]; [1; 1; 1; 1; 1; 1200; -1]; [1; 1; 3; 3; 3; 7; 0]; [1; 1; 3];
        [1; 1; 5; 3; 5; 7; 0]; [0; 1; 5; 1; 1; -1; 0; 3; 1; 0; 0]; [1; 2; 7; 9; 7; 0; 0; 1; 1; 2; 47; 115; -1]].
Proof. vm_compute. reflexivity. Qed.

(* ---------- a second END_STREAM for a finished stream ---------- *)
(* a DATA frame with END_STREAM for a stream that has finished (streamDone) but is still in
   t.activeStreams and has already been sent END_STREAM (states 6-8): handleData only guards
   streamReadDone, s.write(recvMsg{err: io.EOF}) runs again and recvBuffer.put drops the message
   (before 1b83f43 it freed the nil buffer of that message: a panic of the reader goroutine).
   Nothing changes and nothing is written *)
Theorem second_end_stream_dropped st sid s :
  find_stream sid (s_active st) = Some s -> 6 <= s <= 8 -> data_op st sid true = (st, []).
Proof.
  intros F H. unfold data_op, eof_put, read_done. rewrite F.
  assert (E : s = 6 \/ s = 7 \/ s = 8) by lia. destruct E as [->|[->| ->]]; reflexivity.
Qed.
(* no op of the model ever yields the panic event, whatever the state (clauses 11 / 12) *)
Theorem model_never_panics cfg st o : has_event 66 (snd (step cfg st o)) 8 = false.
Proof. apply step_no_panic. Qed.
(* witness (client frames only): SETTINGS_INITIAL_WINDOW_SIZE = 0; HEADERS(1); DATA(1, END_STREAM);
   the handler writes 15 bytes and returns (the response waits for window, the stream is
   streamDone and still tracked); DATA(1, END_STREAM) again is dropped; stream 3 is refused
   (stream 1 still counts) *)
Lemma double_end_stream_witness :
  run [1; 4096; 0; 1] [good_req 1; [4; 1; 1]; [9; 1; 10]; [4; 1; 1]; good_req 3] =
  Some [[1; 1; 1; 9; 1; 0; 0; 1; 1; 2; 47; 115; -1]; [1; 1; 1]; [1; 1; 1; 1; 1; 1200; -1]; [1; 1; 1]; [1; 1; 3; 3; 3; 7; 0]].
Proof. vm_compute. reflexivity. Qed.

(* the literal reading "no handler for a request that carries an invalid content-type field" is
   false: one valid content-type among several is enough (isGRPC is never reset) *)
Definition mixed_ct_request : list field :=
  [(K_METHOD, v_POST); (K_PATH, [47; 115]); (K_CT, base_ct); (K_CT, [116; 101; 120; 116])].
Lemma mixed_content_type_refuted :
  all_ct_valid mixed_ct_request = false /\
  s_handled (fst (headers_step (mkcfg 1 4096 false false) st0 1 false mixed_ct_request)) = 1.
Proof. vm_compute. split; reflexivity. Qed.

(* accept_implies_legal with the record spelled out *)
Theorem accept_implies_legal_explicit cfg st sid ended fs st' ev :
  headers_step cfg st sid ended fs = (st', ev) -> s_handled st' <> s_handled st ->
  (Z.odd sid = true /\ s_max st < sid) /\
  (s_mode st = 0 /\ lenZ (s_active st) < c_maxs cfg) /\
  has_post fs = true /\ some_ct_valid fs = true /\ timeouts_ok fs = true /\
  (count_kind K_AUTH fs <= 1 /\ count_kind K_HOST fs <= 1) /\ bins_ok fs = true /\
  has_conn fs = false /\ forallb field_wire_ok fs = true /\
  s_handled st' = s_handled st + 1 /\ s_active st' = s_active st ++ [(sid, b2z ended)].
Proof.
  intros H Hn. destruct (accept_implies_legal _ _ _ _ _ _ _ H Hn) as (A & B & C & D & [L1 L2 L3 L4 L5 L6 L7] & W & ->).
  cbn. repeat split; auto.
Qed.

Example witness :
  wf [2; 4096; 0] [[1; 1; 0; 3; 4; 4; 80; 79; 83; 84; 5; 2; 47; 115; 1; 16; 97;112;112;108;105;99;97;116;105;111;110;47;103;114;112;99];
                   [1; 3; 0; 1; 4; 3; 71; 69; 84]; [2; 1]; [1; 2; 0; 0]; [1; 5; 0; 0]] = true /\
  run [2; 4096; 0] [[1; 1; 0; 3; 4; 4; 80; 79; 83; 84; 5; 2; 47; 115; 1; 16; 97;112;112;108;105;99;97;116;105;111;110;47;103;114;112;99];
                    [1; 3; 0; 1; 4; 3; 71; 69; 84]; [2; 1]; [1; 2; 0; 0]; [1; 5; 0; 0]] =
  Some [[1; 1; 1; 9; 1; 0; 0; 1; 1; 2; 47; 115; -1]; [1; 1; 3; 1; 3; 415; 3; 3; 3; 0; 0]; [0; 1; 3];
        [0; 1; 3; 7; 3; 1; 0]; [0; 1; 5]].
Proof. vm_compute. split; reflexivity. Qed.
