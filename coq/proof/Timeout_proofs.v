From Coq Require Import List ZArith Bool Lia.
From VLib Require Import Codec Machine.
From VModel Require Import Timeout.
Import ListNotations.
Open Scope Z_scope.

(* ---------- decimal formatting / parsing ---------- *)

Lemma is_digit_spec c : is_digit c = true <-> 48 <= c <= 57.
Proof. unfold is_digit. rewrite andb_true_iff, !Z.leb_le. tauto. Qed.

Lemma parse_dec_app acc a b :
  parse_dec acc (a ++ b) =
  match parse_dec acc a with Some v => parse_dec v b | None => None end.
Proof.
  revert acc; induction a as [|c a IH]; intro acc; cbn [app parse_dec]; [reflexivity|].
  destruct (is_digit c); [apply IH | reflexivity].
Qed.

Lemma fmt_dec_spec fuel : forall n acc, (1 <= fuel)%nat -> 0 <= n < 10 ^ Z.of_nat fuel ->
  parse_dec acc (fmt_dec fuel n) = Some (acc * 10 ^ Z.of_nat (length (fmt_dec fuel n)) + n)
  /\ forallb is_digit (fmt_dec fuel n) = true
  /\ (1 <= length (fmt_dec fuel n) <= fuel)%nat
  /\ (forall k, (1 <= k)%nat -> n < 10 ^ Z.of_nat k -> (length (fmt_dec fuel n) <= k)%nat).
Proof.
  induction fuel as [|f IH]; intros n acc Hf Hn.
  - lia.
  - cbn [fmt_dec]. destruct (n <? 10) eqn:E.
    + apply Z.ltb_lt in E. cbn [parse_dec length forallb].
      assert (Hd: is_digit (48 + n) = true) by (apply is_digit_spec; lia).
      rewrite Hd. split; [|split; [|split]].
      * f_equal. change (Z.of_nat 1) with 1. lia.
      * reflexivity.
      * lia.
      * intros; lia.
    + apply Z.ltb_ge in E.
      assert (Hq: 0 <= n / 10 < 10 ^ Z.of_nat f).
      { split; [apply Z.div_pos; lia|]. apply Z.div_lt_upper_bound; [lia|].
        rewrite Nat2Z.inj_succ, Z.pow_succ_r in Hn by lia. lia. }
      assert (Hf1: (1 <= f)%nat).
      { destruct f; [|lia]. change (10 ^ Z.of_nat 1) with 10 in Hn. lia. }
      destruct (IH (n / 10) acc Hf1 Hq) as (Hp & Hall & Hlen & Hk).
      assert (Hm: 0 <= n mod 10 < 10) by (apply Z.mod_pos_bound; lia).
      assert (Hd: is_digit (48 + n mod 10) = true) by (apply is_digit_spec; lia).
      rewrite parse_dec_app, Hp. cbn [parse_dec]. rewrite Hd.
      rewrite app_length. cbn [length]. split; [|split; [|split]].
      * f_equal. replace (Z.of_nat (length (fmt_dec f (n / 10)) + 1))
          with (Z.succ (Z.of_nat (length (fmt_dec f (n / 10))))) by lia.
        rewrite Z.pow_succ_r by lia.
        pose proof (Z.div_mod n 10 ltac:(lia)). nia.
      * rewrite forallb_app, Hall. cbn [forallb]. rewrite Hd. reflexivity.
      * lia.
      * intros k Hk1 Hlt. destruct k as [|k]; [lia|]. destruct k as [|k].
        { cbn in Hlt. lia. }
        assert ((length (fmt_dec f (n / 10)) <= S k)%nat).
        { apply Hk; [lia|]. apply Z.div_lt_upper_bound; [lia|].
          rewrite Nat2Z.inj_succ, Z.pow_succ_r in Hlt by lia. lia. }
        lia.
Qed.

Lemma format_int_spec n : 0 <= n <= maxTimeoutValue ->
  parse_uint (format_int n) = Some n /\ forallb is_digit (format_int n) = true /\
  (1 <= length (format_int n) <= 8)%nat.
Proof.
  intros Hn. unfold format_int, maxTimeoutValue in *.
  assert (H20: 0 <= n < 10 ^ Z.of_nat 20) by (change (10 ^ Z.of_nat 20) with 100000000000000000000; lia).
  destruct (fmt_dec_spec 20 n 0 ltac:(lia) H20) as (Hp & Hall & Hlen & Hk).
  repeat split; try assumption; try lia.
  - unfold parse_uint. destruct (fmt_dec 20 n) eqn:E; [cbn in Hlen; lia|].
    rewrite Hp. f_equal; lia.
  - apply Hk; [lia|]. change (10 ^ Z.of_nat 8) with 100000000. lia.
Qed.

(* ---------- ceiling division ---------- *)

Lemma div_spec t u : 0 < t -> 0 < u -> u * (div t u - 1) < t <= u * div t u /\ 1 <= div t u.
Proof.
  intros Ht Hu. unfold div.
  rewrite Z.rem_mod_nonneg, Z.quot_div_nonneg by lia.
  pose proof (Z.div_mod t u ltac:(lia)) as Hdm.
  pose proof (Z.mod_pos_bound t u Hu) as Hm.
  assert (0 <= t / u) by (apply Z.div_pos; lia).
  destruct (t mod u >? 0) eqn:E.
  - apply Z.gtb_lt in E. nia.
  - assert (t mod u = 0) by (destruct (Z.gtb_spec (t mod u) 0); [discriminate|lia]). nia.
Qed.

(* ---------- decode of digits ++ [unit] ---------- *)

Lemma unit_dur_cases u d : unit_dur u = Some d ->
  (u = c_H /\ d = ns_hour) \/ (u = c_M /\ d = ns_min) \/ (u = c_S /\ d = ns_sec) \/
  (u = c_m /\ d = ns_ms) \/ (u = c_u /\ d = ns_us) \/ (u = c_n /\ d = 1).
Proof.
  unfold unit_dur.
  repeat match goal with |- context [if ?a =? ?b then _ else _] =>
    destruct (Z.eqb_spec a b) end; intros H; inversion H; subst; tauto.
Qed.

Lemma decode_app ds u d :
  (1 <= length ds <= 8)%nat -> unit_dur u = Some d ->
  decode (ds ++ [u]) =
  match parse_uint ds with
  | None => None
  | Some t => if (d =? ns_hour) && (t >? maxHours) then Some max_i64 else Some (i64 (d * t))
  end.
Proof.
  intros Hl Hu. unfold decode. rewrite app_length. cbn [length].
  rewrite last_last, removelast_last, Hu.
  destruct (Z.ltb_spec (Z.of_nat (length ds + 1)) 2); [lia|].
  destruct (Z.of_nat (length ds + 1) >? 9) eqn:E; [apply Z.gtb_lt in E; lia|].
  reflexivity.
Qed.

Lemma i64_small x : 0 <= x <= max_i64 -> i64 x = x.
Proof.
  intros H. unfold i64, max_i64 in *. rewrite Z.mod_small; lia.
Qed.

Lemma parse_dec_bound s : forall acc, 0 <= acc -> forall v, parse_dec acc s = Some v ->
  0 <= v < (acc + 1) * 10 ^ Z.of_nat (length s).
Proof.
  induction s as [|c s IH]; intros acc Ha v H; cbn [parse_dec length] in *.
  - inversion H; subst. change (10 ^ Z.of_nat 0) with 1. lia.
  - destruct (is_digit c) eqn:E; [|discriminate]. apply is_digit_spec in E.
    apply IH in H; [|lia]. rewrite Nat2Z.inj_succ, Z.pow_succ_r by lia.
    assert (0 < 10 ^ Z.of_nat (length s)) by (apply Z.pow_pos_nonneg; lia). nia.
Qed.

Lemma parse_dec_some s : forall acc, forallb is_digit s = true -> exists v, parse_dec acc s = Some v.
Proof.
  induction s as [|c s IH]; intros acc H; cbn [parse_dec forallb] in *; [eauto|].
  apply andb_true_iff in H as [Hc Hs]. rewrite Hc. apply IH, Hs.
Qed.

Lemma parse_dec_digits s : forall acc v, parse_dec acc s = Some v -> forallb is_digit s = true.
Proof.
  induction s as [|c s IH]; intros acc v H; cbn [parse_dec forallb] in *; [reflexivity|].
  destruct (is_digit c); [|discriminate]. cbn. eapply IH, H.
Qed.

(* ---------- well-formedness ---------- *)

Definition is_unit (u : Z) : Prop := In u [c_H; c_M; c_S; c_m; c_u; c_n].

Lemma unit_dur_is_unit u : (exists d, unit_dur u = Some d) <-> is_unit u.
Proof.
  split.
  - intros [d H]. apply unit_dur_cases in H. unfold is_unit. cbn. intuition.
  - unfold is_unit. cbn. intros [H|[H|[H|[H|[H|[H|[]]]]]]]; subst; cbn; eauto.
Qed.

Lemma list_snoc (s : list Z) : s <> [] -> s = removelast s ++ [last s 0].
Proof. intros H. apply app_removelast_last, H. Qed.

Lemma removelast_length (s : list Z) : s <> [] -> length s = S (length (removelast s)).
Proof.
  intros H. rewrite (list_snoc s H) at 1. rewrite app_length. cbn. lia.
Qed.

Lemma wellformed_spec s : wellformed s = true <->
  exists ds u, s = ds ++ [u] /\ (1 <= length ds <= 8)%nat /\ forallb is_digit ds = true /\ is_unit u.
Proof.
  unfold wellformed. split.
  - intros H. apply andb_true_iff in H as [H Hu]. apply andb_true_iff in H as [H Hd].
    apply andb_true_iff in H as [H2 H9]. apply Z.leb_le in H2, H9.
    assert (Hne: s <> []) by (intros ->; cbn in H2; lia).
    exists (removelast s), (last s 0). split; [apply list_snoc, Hne|].
    pose proof (removelast_length s Hne). repeat split; try lia; [assumption|].
    apply unit_dur_is_unit. destruct (unit_dur (last s 0)); [eauto|discriminate].
  - intros (ds & u & -> & Hl & Hd & Hu). rewrite app_length, removelast_last, last_last. cbn [length].
    apply unit_dur_is_unit in Hu as [d ->]. rewrite Hd.
    rewrite !andb_true_r. apply andb_true_iff. split; apply Z.leb_le; lia.
Qed.

(* ---------- decode accepts exactly the well-formed strings ---------- *)

Lemma decode_accepts s : (exists v, decode s = Some v) <-> wellformed s = true.
Proof.
  split.
  - intros [v H]. unfold decode in H. unfold wellformed.
    destruct (Z.ltb_spec (Z.of_nat (length s)) 2); [discriminate|].
    destruct (Z.of_nat (length s) >? 9) eqn:E9; [discriminate|].
    destruct (unit_dur (last s 0)); [|discriminate].
    destruct (parse_uint (removelast s)) eqn:Ep; [|discriminate].
    unfold parse_uint in Ep. destruct (removelast s) eqn:Er; [discriminate|]. rewrite <- Er in *.
    apply parse_dec_digits in Ep. rewrite Ep.
    rewrite !andb_true_r. apply andb_true_iff; split; apply Z.leb_le; [lia|].
    destruct (Z.gtb_spec (Z.of_nat (length s)) 9); [discriminate|lia].
  - intros H. apply wellformed_spec in H as (ds & u & -> & Hl & Hd & Hu).
    apply unit_dur_is_unit in Hu as [d Hu]. rewrite (decode_app ds u d Hl Hu).
    unfold parse_uint. destruct ds as [|c ds]; [cbn in Hl; lia|].
    destruct (parse_dec_some (c :: ds) 0 Hd) as [t ->].
    destruct ((d =? ns_hour) && (t >? maxHours)); eauto.
Qed.

Lemma decode_range s v : decode s = Some v -> 0 <= v <= max_i64.
Proof.
  intros H. assert (Hw: wellformed s = true) by (apply decode_accepts; eauto).
  apply wellformed_spec in Hw as (ds & u & -> & Hl & Hd & Hu).
  apply unit_dur_is_unit in Hu as [d Hu]. rewrite (decode_app ds u d Hl Hu) in H.
  unfold parse_uint in H. destruct ds as [|c ds]; [cbn in Hl; lia|].
  destruct (parse_dec 0 (c :: ds)) as [t|] eqn:Ep; [|discriminate].
  apply parse_dec_bound in Ep; [|lia].
  assert (Ht: 0 <= t < 100000000).
  { assert (10 ^ Z.of_nat (length (c :: ds)) <= 10 ^ 8) by (apply Z.pow_le_mono_r; lia).
    change (10 ^ 8) with 100000000 in *. lia. }
  destruct ((d =? ns_hour) && (t >? maxHours)) eqn:E.
  - inversion H; subst. unfold max_i64. lia.
  - inversion H; subst; clear H.
    assert (Hb: 0 <= d * t <= max_i64).
    { apply unit_dur_cases in Hu. change maxHours with 2562047 in E.
      destruct Hu as [[_ ->]|[[_ ->]|[[_ ->]|[[_ ->]|[[_ ->]|[_ ->]]]]]];
        unfold max_i64, ns_hour, ns_min, ns_sec, ns_ms, ns_us in *; lia. }
    rewrite i64_small; assumption.
Qed.

(* ---------- encode: shape and no shortening ---------- *)

Lemma encode_branch t u c : 0 < t <= max_i64 -> 0 < u -> unit_dur c = Some u ->
  (u = ns_hour \/ (div t u <= maxTimeoutValue /\ u <= ns_min)) ->
  exists d', (1 <= length (format_int (div t u)) <= 8)%nat /\
             forallb is_digit (format_int (div t u)) = true /\
             decode (format_int (div t u) ++ [c]) = Some d' /\ t <= d' < t + u.
Proof.
  intros Ht Hu Hc Hcase.
  destruct (div_spec t u ltac:(lia) Hu) as [[Hlo Hhi] H1].
  assert (Hv: 0 <= div t u <= maxTimeoutValue).
  { destruct Hcase as [->|[? ?]]; [|lia]. unfold maxTimeoutValue, max_i64, ns_hour in *. nia. }
  destruct (format_int_spec _ Hv) as (Hp & Hd & Hl).
  rewrite (decode_app _ c u Hl Hc), Hp.
  destruct ((u =? ns_hour) && (div t u >? maxHours)) eqn:E.
  - exists max_i64. repeat split; try assumption; try lia.
    apply andb_true_iff in E as [E1 E2]. apply Z.eqb_eq in E1. apply Z.gtb_lt in E2.
    change maxHours with 2562047 in E2. unfold max_i64, ns_hour in *. nia.
  - exists (u * div t u). repeat split; try assumption; try lia.
    f_equal. apply i64_small.
    destruct Hcase as [->|[Hm Hmin]].
    + rewrite Z.eqb_refl in E. cbn [andb] in E. change maxHours with 2562047 in E.
      destruct (Z.gtb_spec (div t ns_hour) 2562047); [discriminate|].
      unfold max_i64, ns_hour in *. nia.
    + unfold maxTimeoutValue, max_i64, ns_min in *. nia.
Qed.

Lemma encode_positive d : 0 < d <= max_i64 ->
  exists ds u udur d',
    encode d = ds ++ [u] /\ (1 <= length ds <= 8)%nat /\ forallb is_digit ds = true /\
    unit_dur u = Some udur /\ decode (encode d) = Some d' /\ d <= d' < d + udur.
Proof.
  intros Hd. unfold encode.
  destruct (Z.leb_spec d 0); [lia|].
  Ltac branch Hd c u :=
    destruct (encode_branch _ u c Hd ltac:(unfold ns_us, ns_ms, ns_sec, ns_min, ns_hour; lia) eq_refl
                ltac:(first [left; reflexivity | right; split; [assumption | unfold ns_us, ns_ms, ns_sec, ns_min; lia]]))
      as (d' & Hl & Hdig & Hdec & Hb);
    eexists _, c, u, d'; repeat split; try eassumption; try reflexivity; try lia.
  destruct (Z.leb_spec (div d 1) maxTimeoutValue). { branch Hd c_n 1. }
  destruct (Z.leb_spec (div d ns_us) maxTimeoutValue). { branch Hd c_u ns_us. }
  destruct (Z.leb_spec (div d ns_ms) maxTimeoutValue). { branch Hd c_m ns_ms. }
  destruct (Z.leb_spec (div d ns_sec) maxTimeoutValue). { branch Hd c_S ns_sec. }
  destruct (Z.leb_spec (div d ns_min) maxTimeoutValue). { branch Hd c_M ns_min. }
  branch Hd c_H ns_hour.
Qed.

Lemma encode_nonpositive d : d <= 0 -> encode d = [48; c_n].
Proof. intros H. unfold encode. destruct (Z.leb_spec d 0); [reflexivity|lia]. Qed.

(* ---------- the executable predicate holds on every model trace ---------- *)

Definition op_wf (op : word) : bool :=
  match op with
  | [1; d] => (min_i64 <=? d) && (d <=? max_i64)
  | 2 :: r => match get_bytes r with Some (_, []) => true | _ => false end
  | _ => false
  end.

Lemma take_n_put n : forall l r, length l = n -> take_n n (l ++ r) = Some (l, r).
Proof.
  induction n as [|n IH]; intros [|x l] r H; cbn in *; try discriminate; [reflexivity|].
  rewrite IH by lia. reflexivity.
Qed.

Lemma get_put_bytes s r : get_bytes (put_bytes s ++ r) = Some (s, r).
Proof.
  unfold get_bytes, put_bytes. cbn [app].
  destruct (Z.ltb_spec (Z.of_nat (length s)) 0); [lia|].
  rewrite Nat2Z.id. apply take_n_put. reflexivity.
Qed.

Lemma clause_op_model op : op_wf op = true ->
  exists o, run_op op = Some o /\ snd (clause_op op o) = true.
Proof.
  destruct op as [|k r]; [discriminate|]. cbn [op_wf].
  destruct (Z.eq_dec k 1) as [->|N1].
  - destruct r as [|d [|? ?]]; try discriminate. intros H.
    apply andb_true_iff in H as [Hlo Hhi]. apply Z.leb_le in Hlo, Hhi.
    cbn [run_op]. eexists; split; [reflexivity|].
    cbn [clause_op]. rewrite get_put_bytes.
    destruct (Z.leb_spec d 0) as [Hn|Hp].
    + destruct (decode (encode d)); cbn; destruct (d <=? 0) eqn:E; try reflexivity; apply Z.leb_gt in E; lia.
    + destruct (encode_positive d ltac:(lia)) as (ds & u & udur & d' & He & Hl & Hdig & Hu & Hdec & Hb).
      rewrite Hdec. destruct (Z.leb_spec d 0); [lia|]. cbn [snd].
      assert (Hw: wellformed (encode d) = true).
      { apply wellformed_spec. exists ds, u. repeat split; try assumption; try lia.
        apply unit_dur_is_unit; eauto. }
      rewrite Hw, He, last_last, Hu, Z.eqb_refl. cbn [andb].
      apply andb_true_iff; split; [apply Z.leb_le; lia | apply Z.ltb_lt; lia].
  - destruct (Z.eq_dec k 2) as [->|N2].
    + destruct (get_bytes r) as [[s [|? ?]]|] eqn:Eg; try discriminate. intros _.
      cbn [run_op]. rewrite Eg. eexists; split; [reflexivity|].
      cbn [clause_op]. rewrite Eg.
      destruct (decode s) as [v|] eqn:Ed; cbn [snd].
      * pose proof (decode_range s v Ed).
        assert (wellformed s = true) as -> by (apply decode_accepts; eauto).
        cbn. destruct (Z.leb_spec 0 v); [reflexivity|lia].
      * assert (wellformed s = false) as ->.
        { destruct (wellformed s) eqn:Ew; [|reflexivity].
          apply decode_accepts in Ew as [v Hv]. congruence. }
        reflexivity.
    + intros H. destruct k as [|p|p]; try discriminate H.
      destruct p as [[p|p|]|[p|p|]|]; try discriminate H; congruence.
Qed.

Theorem model_trace_holds ops : forallb op_wf ops = true ->
  exists obs, run ops = Some obs /\ holds_b ops obs = true.
Proof.
  induction ops as [|op ops IH]; cbn [forallb run]; intros H.
  - exists []. split; reflexivity.
  - apply andb_true_iff in H as [Hop Hr].
    destruct (IH Hr) as (obs & Hrun & Hh).
    destruct (clause_op_model op Hop) as (o & Ho & Hc).
    rewrite Ho, Hrun. exists (o :: obs). split; [reflexivity|].
    unfold holds_b in *. destruct op as [|k r]; [discriminate|].
    cbn [clauses forallb]. rewrite Hc. exact Hh.
Qed.
