(* C19: retry backoff and retry throttling (engine RetryThrottle).
   Transcribes, from the root grpc package:
     clientconn.go  retryThrottler.throttle / successfulRPC, and its construction from
                    the service config (tokens = max = MaxTokens, thresh = MaxTokens/2)
     stream.go      csAttempt.shouldRetry: pushback parsing, throttling, attempt limit,
                    backoff arithmetic (math.Pow, builtin min, jitter, int64 conversion)
   in binary64 primitive floats (bit-exact with Go float64 on amd64).  No proofs here.
   Floats travel as their IEEE bits (see Backoff.v, whose conversions are reused). *)
From Coq Require Import List ZArith Bool Floats Uint63.
From VLib Require Import Codec Machine.
From VModel Require Import Backoff.
Import ListNotations.
Open Scope Z_scope.

(* ---------- retryThrottler ---------- *)

Record tcfg := mkt { tmax : float; tratio : float }.
Definition thresh (t : tcfg) : float := (tmax t / 2)%float.

(* rt.tokens--; if rt.tokens < 0 { rt.tokens = 0 }; return rt.tokens <= rt.thresh *)
Definition tok_fail (tok : float) : float :=
  let t1 := (tok - 1)%float in if PrimFloat.ltb t1 0%float then 0%float else t1.
Definition throttled (t : tcfg) (tok : float) : bool := PrimFloat.leb tok (thresh t).
(* rt.tokens += rt.ratio; if rt.tokens > rt.max { rt.tokens = rt.max } *)
Definition tok_success (t : tcfg) (tok : float) : float :=
  let t1 := (tok + tratio t)%float in if PrimFloat.ltb (tmax t) t1 then tmax t else t1.

(* ---------- math.Pow(x, float64(k)) for an integer k >= 0 and finite x > 0 ----------
   (pure-Go implementation used on amd64: special cases, then square-and-multiply on the
   Frexp mantissa with the exponent accumulated separately, then Ldexp) *)
Fixpoint pow_loop (fuel : nat) (i : Z) (x1 : float) (xe : Z) (a1 : float) (ae : Z) : float * Z :=
  match fuel with
  | O => (a1, ae)
  | S f =>
    if i =? 0 then (a1, ae) else
    if (xe <? -4096) || (4096 <? xe) then (a1, ae + xe) else
    let '(a1', ae') := if Z.odd i then ((a1 * x1)%float, ae + xe) else (a1, ae) in
    let x1' := (x1 * x1)%float in
    let xe' := 2 * xe in
    let '(x1'', xe'') := if PrimFloat.ltb x1' 0.5%float then ((x1' + x1')%float, xe' - 1) else (x1', xe') in
    pow_loop f (i / 2) x1'' xe'' a1' ae'
  end.

Definition pow_int (x : float) (k : Z) : float :=
  if (k =? 0) || PrimFloat.eqb x 1%float then 1%float else
  if k =? 1 then x else
  let '(x1, xe) := Z.frexp x in
  let '(a1, ae) := pow_loop 64 k x1 xe 1%float 0 in
  Z.ldexp a1 ae.

(* builtin min on float64 *)
Definition fmin (x y : float) : float :=
  if is_nan_b x || is_nan_b y then nan else if PrimFloat.ltb y x then y else x.

(* ---------- the retry policy and the backoff expression ---------- *)

Record rcfg := mkr { maxAttempts : Z; initB : Z; maxB : Z; rmult : float }.

Definition c08 : float := 0x1.999999999999ap-1%float.   (* 0.8 *)
Definition c04 : float := 0x1.999999999999ap-2%float.   (* 0.4 *)

(* cur := min(float64(InitialBackoff)*math.Pow(mult, k), float64(MaxBackoff)) *)
Definition cur_of (p : rcfg) (k : Z) : float :=
  fmin (of_i64 (initB p) * pow_int (rmult p) k)%float (of_i64 (maxB p)).
(* cur *= 0.8 + 0.4*rand.Float64(); dur = time.Duration(int64(cur)) (amd64 conversion) *)
Definition jit_of (cur r : float) : float := (cur * (c08 + c04 * r))%float.
Definition delay_of (p : rcfg) (k : Z) (r : float) : Z := to_i64 (jit_of (cur_of p k) r).

(* time.Millisecond * time.Duration(pushback) *)
Definition pushback_delay (pb : Z) : Z := i64 (1000000 * pb).

(* ---------- strconv.Atoi on a byte string ---------- *)
Fixpoint digits_val (acc : Z) (s : list Z) : option Z :=
  match s with
  | [] => Some acc
  | ch :: r => if (48 <=? ch) && (ch <=? 57) then digits_val (acc * 10 + (ch - 48)) r else None
  end.
Definition atoi (s : list Z) : option Z :=
  let '(neg, body) := match s with
                      | 45 :: r => (true, r)
                      | 43 :: r => (false, r)
                      | _ => (false, s)
                      end in
  match body with
  | [] => None
  | _ => match digits_val 0 body with
         | Some v => let v' := if neg then - v else v in
                     if in_i64 v' then Some v' else None
         | None => None
         end
  end.

(* ---------- one attempt's outcome and shouldRetry ---------- *)

(* grpc-retry-pushback-ms trailer values of a failed attempt *)
Inductive pushback := PBnone | PBone (s : list Z) | PBmany.
Record attempt := mka { a_code : Z; a_pb : pushback }.

Record rstate := mkrs { tokens : float; numRetries : Z; sincePB : Z }.

Definition retryable (code : Z) : bool := (code =? 14) || (code =? 10).

(* decision after a failed attempt: None = do not retry (the RPC fails with this
   attempt's status); Some (d, explicit) = retry after the timer duration d.
   The token bucket is updated in both cases. [r] is the rand.Float64() draw. *)
Definition should_retry (t : tcfg) (p : rcfg) (st : rstate) (a : attempt) (r : float)
  : rstate * option (Z * bool) :=
  let fail := mkrs (tok_fail (tokens st)) (numRetries st) (sincePB st) in
  match a_pb a with
  | PBmany => (fail, None)
  | PBone s =>
    match atoi s with
    | None => (fail, None)
    | Some pb =>
      if pb <? 0 then (fail, None) else
      if negb (retryable (a_code a)) then (st, None) else
      if throttled t (tokens fail) then (fail, None) else
      if maxAttempts p <=? numRetries st + 1 then (fail, None) else
      (mkrs (tokens fail) (numRetries st + 1) 0, Some (pushback_delay pb, true))
    end
  | PBnone =>
    if negb (retryable (a_code a)) then (st, None) else
    if throttled t (tokens fail) then (fail, None) else
    if maxAttempts p <=? numRetries st + 1 then (fail, None) else
    (mkrs (tokens fail) (numRetries st + 1) (sincePB st + 1),
     Some (delay_of p (sincePB st) r, false))
  end.

(* a timer with a negative duration fires at once *)
Definition observed (d : Z) : Z := Z.max 0 d.

(* every RPC of a case runs under a context deadline of 100 days (driver and model) *)
Definition rpc_budget : Z := 8640000000000000.

(* One RPC against a script of failing attempts (then success).  Returns the final
   token count, the final status code, and per retry (timer duration, explicit?, k).
   A timer that would outlast the context deadline ends the RPC with DEADLINE_EXCEEDED. *)
Fixpoint rpc_go (t : tcfg) (p : rcfg) (st : rstate) (budget : Z) (script : list attempt) (r : float)
  : float * Z * list (Z * bool * Z) :=
  match script with
  | [] => (tok_success t (tokens st), 0, [])
  | a :: rest =>
    match should_retry t p st a r with
    | (st', None) => (tokens st', a_code a, [])
    | (st', Some (d, ex)) =>
      if budget <=? observed d then (tokens st', 4, []) else
      let '(tk, code, ds) := rpc_go t p st' (budget - observed d) rest r in
      (tk, code, (d, ex, sincePB st) :: ds)
    end
  end.
Definition rpc (t : tcfg) (p : rcfg) (tok : float) (script : list attempt) (r : float) :=
  rpc_go t p (mkrs tok 0 0) rpc_budget script r.

(* ---------- float -> bits (for the token count in observations) ---------- *)
Definition bits_of_sf (x : spec_float) : Z :=
  match x with
  | S754_zero s => if s then - 2^63 else 0
  | S754_infinity s => i64 ((if s then 2^63 else 0) + 2047 * 2^52)
  | S754_nan => i64 (2047 * 2^52 + 2^51)
  | S754_finite s m e =>
    let sb := if s then 2^63 else 0 in
    if Zpos m <? 2^52 then i64 (sb + Zpos m)                      (* subnormal: e = -1074 *)
    else i64 (sb + (e + 1075) * 2^52 + (Zpos m - 2^52))
  end.
Definition to_bits (f : float) : Z := bits_of_sf (Prim2SF f).

(* ---------- cases ----------
   cfg [maxAttempts; InitialBackoff ns; MaxBackoff ns; bits mult; bits MaxTokens; bits TokenRatio]
   op  [1; nfail; (code; pbkind; [len; bytes...])*]   one unary RPC whose first nfail
        attempts are failed by the server with the given status code and
        grpc-retry-pushback-ms trailer (pbkind 0 none, 1 one value (bytes follow), 2 two
        values), after which the server answers OK
   obs [final code; nretries; delay_1..delay_n; bits tokens]
        delay_i = virtual time between attempt i and attempt i+1                        *)

Fixpoint parse_script (n : nat) (w : word) : option (list attempt * word) :=
  match n with
  | O => Some ([], w)
  | S n' =>
    match w with
    | code :: 0 :: r =>
      match parse_script n' r with Some (l, r') => Some (mka code PBnone :: l, r') | None => None end
    | code :: 1 :: r =>
      match get_bytes r with
      | Some (s, r1) =>
        match parse_script n' r1 with Some (l, r') => Some (mka code (PBone s) :: l, r') | None => None end
      | None => None
      end
    | code :: 2 :: r =>
      match parse_script n' r with Some (l, r') => Some (mka code PBmany :: l, r') | None => None end
    | _ => None
    end
  end.

Definition parse_op (op : word) : option (list attempt) :=
  match op with
  | 1 :: n :: r =>
    if (n <? 0) || (64 <? n) then None else
    match parse_script (Z.to_nat n) r with
    | Some (l, []) => Some l
    | _ => None
    end
  | _ => None
  end.

Definition decode_cfg (w : word) : option (tcfg * rcfg) :=
  match w with
  | [ma; ib; mb; mu; mt; tr] =>
    if in_i64 ib && in_i64 mb then Some (mkt (of_bits mt) (of_bits tr), mkr ma ib mb (of_bits mu)) else None
  | _ => None
  end.

Definition obs_of (res : float * Z * list (Z * bool * Z)) : word :=
  let '(tk, code, ds) := res in
  code :: Z.of_nat (length ds) :: map (fun x => observed (fst (fst x))) ds ++ [to_bits tk].

(* the model's trace uses the draw r = 0 for every computed delay; the implementation's
   draws are unobservable and are handled by [resolve] below *)
(* op [2; bits MaxTokens; bits TokenRatio]: the resolver delivers a new service config (same
   retry policy, new retryThrottling); applyServiceConfigAndBalancer builds a fresh throttler
   with tokens = max = MaxTokens.  obs [bits tokens]. *)
Definition parse_upd (op : word) : option tcfg :=
  match op with [2; mt; tr] => Some (mkt (of_bits mt) (of_bits tr)) | _ => None end.

Fixpoint run_from (t : tcfg) (p : rcfg) (tok : float) (ops : list word) : option (list word) :=
  match ops with
  | [] => Some []
  | op :: rest =>
    match parse_op op with
    | Some script =>
      let res := rpc t p tok script 0%float in
      match run_from t p (fst (fst res)) rest with
      | Some os => Some (obs_of res :: os)
      | None => None
      end
    | None =>
      match parse_upd op with
      | Some t' =>
        match run_from t' p (tmax t') rest with
        | Some os => Some ([to_bits (tmax t')] :: os)
        | None => None
        end
      | None => None
      end
    end
  end.

Definition run (cfg : word) (ops : list word) : option (list word) :=
  match decode_cfg cfg with
  | Some (t, p) => run_from t p (tmax t) ops
  | None => None
  end.

(* envelope of one computed delay over all draws *)
Definition d_lo (p : rcfg) (k : Z) : Z := Z.min (observed (delay_of p k 0%float)) (observed (delay_of p k rmax)).
Definition d_hi (p : rcfg) (k : Z) : Z := Z.max (observed (delay_of p k 0%float)) (observed (delay_of p k rmax)).

Fixpoint delays_ok (p : rcfg) (ds : list (Z * bool * Z)) (obs : list Z) : bool :=
  match ds, obs with
  | [], [] => true
  | (d, ex, k) :: ds', o :: obs' =>
    (if ex then o =? observed d else (d_lo p k <=? o) && (o <=? d_hi p k)) && delays_ok p ds' obs'
  | _, _ => false
  end.

(* split an observation [code; n; d1..dn; tokbits] *)
Definition split_obs (o : word) : option (Z * list Z * Z) :=
  match o with
  | code :: r =>
    match get_bytes r with
    | Some (ds, [tb]) => Some (code, ds, tb)
    | _ => None
    end
  | [] => None
  end.

(* does the implementation's observation of one RPC agree with a model run, up to the
   unobservable draws? *)
Definition agrees_with (p : rcfg) (res : float * Z * list (Z * bool * Z)) (o : word) : bool :=
  let '(tk, code, ds) := res in
  match split_obs o with
  | Some (code', ds', tb') => (code' =? code) && (tb' =? to_bits tk) && delays_ok p ds ds'
  | None => false
  end.
(* the draws can change the course of an RPC only through int64 overflow or the deadline;
   both extreme draws are tried.  Result: the token count after the RPC. *)
Definition agree_tok (t : tcfg) (p : rcfg) (tok : float) (script : list attempt) (o : word) : option float :=
  let r0 := rpc t p tok script 0%float in
  let r1 := rpc t p tok script rmax in
  if agrees_with p r0 o then Some (fst (fst r0))
  else if agrees_with p r1 o then Some (fst (fst r1)) else None.

(* settle the draws in favour of the implementation when it is inside the envelope *)
Fixpoint resolve (t : tcfg) (p : rcfg) (tok : float) (ops model impl : list word) : list word :=
  match ops, model, impl with
  | op :: ops', m :: model', i :: impl' =>
    match parse_op op with
    | Some script =>
      match agree_tok t p tok script i with
      | Some tk => i :: resolve t p tk ops' model' impl'
      | None =>
        obs_of (rpc t p tok script 0%float) ::
        resolve t p (fst (fst (rpc t p tok script 0%float))) ops' model' impl'
      end
    | None =>
      match parse_upd op with
      | Some t' => [to_bits (tmax t')] :: resolve t' p (tmax t') ops' model' impl'
      | None => model
      end
    end
  | _, model, _ => model
  end.

Definition run_nd (cfg : word) (ops impl : list word) : option (list word) :=
  match decode_cfg cfg, run cfg ops with
  | Some (t, p), Some m => Some (resolve t p (tmax t) ops m impl)
  | _, _ => None
  end.

(* ---------- the property as clauses on an observed trace ----------
   Evaluated RPC by RPC from the implementation's own token count before the RPC
   (the bits it reported after the previous one).
   1  a retry that follows a valid pushback waits exactly pushback ms
   2  a retry without pushback waits within [int64(cur x 0.8), int64(cur x 1.2)],
      cur = float64 min(initial x mult^k, max), k = retries since the last pushback
   3  the bucket is within [0, maxTokens] after the RPC
   4  final status, number of retries and bucket value are those of gRFC A6: one token per
      failed attempt with a retryable status or bad pushback, +tokenRatio on success,
      retry refused iff the bucket is <= maxTokens/2 after the removal (or attempts used up)
   5  finding clause: cur x (0.8+0.4) >= 2^63, the int64 conversion can overflow (negative timer)
   6  finding clause: pushback ms x 10^6 overflows int64                                  *)

Definition ovf_delay (p : rcfg) (k : Z) : bool :=
  PrimFloat.leb two63 (cur_of p k * (c08 + c04))%float || is_nan_b (cur_of p k * (c08 + c04))%float.
Definition int_lo (p : rcfg) (k : Z) : Z := to_i64 (cur_of p k * c08)%float.
Definition int_hi (p : rcfg) (k : Z) : Z := to_i64 (cur_of p k * (c08 + c04))%float.

Fixpoint delay_clauses (p : rcfg) (script : list attempt) (ds : list (Z * bool * Z)) (obs : list Z)
  : list (Z * Z * bool) :=
  match ds, obs, script with
  | (d, ex, k) :: ds', o :: obs', a :: script' =>
    (if ex then
       match a_pb a with
       | PBone s => match atoi s with
                    | Some pb => (if 1000000 * pb <=? max_i64 then 1 else 6, pb, o =? 1000000 * pb)
                    | None => (1, 0, false)
                    end
       | _ => (1, 0, false)
       end
     else (if ovf_delay p k then 5 else 2, k, (int_lo p k <=? o) && (o <=? int_hi p k)))
    :: delay_clauses p script' ds' obs'
  | _, _, _ => []
  end.

Definition tok_in_range (t : tcfg) (tok : float) : bool :=
  PrimFloat.leb 0%float tok && PrimFloat.leb tok (tmax t).

Definition same_outcome (res : float * Z * list (Z * bool * Z)) (code : Z) (ds : list Z) (tb : Z) : bool :=
  let '(tk, mcode, mds) := res in
  (code =? mcode) && (Z.of_nat (length ds) =? Z.of_nat (length mds)) && (tb =? to_bits tk).

Fixpoint clauses_from (t : tcfg) (p : rcfg) (tok : float) (i : Z) (ops obs : list word) : list (Z * Z * bool) :=
  match ops, obs with
  | [], [] => []
  | op :: ops', o :: obs' =>
    match parse_op op, split_obs o with
    | Some script, Some (code, ds, tb) =>
      let r0 := rpc t p tok script 0%float in
      let r1 := rpc t p tok script rmax in
      let res := if same_outcome r0 code ds tb then r0 else r1 in
      (* bit-identical to the implementation's count when the outcome matches *)
      let tok' := if same_outcome res code ds tb then fst (fst res) else of_bits tb in
      delay_clauses p script (snd res) ds ++
      [(3, i, tok_in_range t tok');
       (4, i, same_outcome res code ds tb)] ++
      clauses_from t p tok' (i + 1) ops' obs'
    | None, _ =>
      match parse_upd op, o with
      | Some t', [tb] =>
        (* a service-config update: the new bucket must be inside the NEW [0, maxTokens] *)
        let tok' := if tb =? to_bits (tmax t') then tmax t' else of_bits tb in
        (3, i, tok_in_range t' tok') :: clauses_from t' p tok' (i + 1) ops' obs'
      | _, _ => [(0, i, false)]
      end
    | _, _ => [(0, i, false)]
    end
  | _, _ => [(0, i, false)]
  end.

Definition clauses (cfg : word) (ops obs : list word) : list (Z * Z * bool) :=
  match decode_cfg cfg with
  | Some (t, p) => clauses_from t p (tmax t) 0 ops obs
  | None => [(0, 0, false)]
  end.

Definition holds_b (cfg : word) (ops obs : list word) : bool :=
  forallb (fun c => snd c) (clauses cfg ops obs).

Definition check_case (c : case) : verdict :=
  decide (run_nd (c_cfg c) (c_ops c) (c_obs c)) (c_obs c) (clauses (c_cfg c) (c_ops c) (c_obs c)).
