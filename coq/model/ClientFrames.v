(* C11: what an http2Client's reader does with the frames of a (misbehaving) server, as a
   machine that assigns every stream its terminal status.
   Transcribes, from /repo internal/transport:
     http2_client.go  reader (StreamError / connection error paths), operateHeaders, handleData,
                      handleRSTStream, handleGoAway, closeStream (first caller wins), Close,
                      NewStream admission (draining / closed)
     client_stream.go startNonGRPCDataCollection / handleNonGRPCData / finalizeNonGRPCStatus, Close
     flowcontrol.go   inFlow.onData / onRead (stream level)
     http_util.go     http2ErrConvTab, HTTPStatusConvTab
     controlbuf.go    client loopy exits when draining and no stream is left
   and x/net/http2 readMetaFrame / checkPseudos for response header blocks.
   Header names come from a fixed table (kind -> name); values are byte lists.  Time is virtual
   milliseconds.  No proofs here. *)
From Coq Require Import List ZArith Bool.
From VLib Require Import Codec Machine.
From VModel Require MDWire.
Import ListNotations.
Open Scope Z_scope.

Definition lenZ {A} (l : list A) : Z := Z.of_nat (length l).
Definition field := (Z * list Z)%type.

(* kinds: 1 :status  2 content-type  3 grpc-status  4 grpc-message  5 k1  6 k2-bin  7 Bad (invalid
   name)  8 :foo (unknown pseudo-header)  9 grpc-encoding *)
Definition known_kind (k : Z) : bool := (1 <=? k) && (k <=? 9).
Definition is_pseudo (k : Z) : bool := (k =? 1) || (k =? 8).
Definition valid_name (k : Z) : bool := negb (k =? 7).
Definition valid_value (v : list Z) : bool :=
  forallb (fun b => negb (((b <? 32) && negb (b =? 9)) || (b =? 127))) v.

Fixpoint parse_fields (n : nat) (w : list Z) : option (list field) :=
  match n with
  | O => match w with [] => Some [] | _ => None end
  | S n' =>
    match w with
    | k :: r =>
      match get_bytes r with
      | Some (v, rest) =>
        match parse_fields n' rest with
        | Some fs => Some ((k, v) :: fs)
        | None => None
        end
      | None => None
      end
    | [] => None
    end
  end.

(* readMetaFrame: false = `invalid` set (StreamError PROTOCOL) *)
Fixpoint fscan (fs : list field) (sawReg : bool) : bool :=
  match fs with
  | [] => true
  | (k, v) :: r =>
    if negb (valid_value v) || (if is_pseudo k then sawReg else negb (valid_name k)) then false
    else fscan r (sawReg || negb (is_pseudo k))
  end.
(* checkPseudos on a response: no unknown pseudo-header, no duplicate *)
Definition count_kind (k : Z) (fs : list field) : Z := lenZ (filter (fun f => fst f =? k) fs).
Definition check_pseudos (fs : list field) : bool :=
  (count_kind 8 fs =? 0) && (count_kind 1 fs <=? 1).
Definition meta_ok (fs : list field) : bool := fscan fs false && check_pseudos fs.

(* strconv.ParseInt(s, 10, bits) / Atoi *)
Definition is_digit (c : Z) : bool := (48 <=? c) && (c <=? 57).
Fixpoint digits_val (acc : Z) (s : list Z) : option Z :=
  match s with
  | [] => Some acc
  | c :: r => if is_digit c then digits_val (acc * 10 + (c - 48)) r else None
  end.
Definition parse_int (bits : Z) (s : list Z) : option Z :=
  let '(neg, ds) := match s with
                    | 43 :: r => (false, r)
                    | 45 :: r => (true, r)
                    | _ => (false, s)
                    end in
  match ds with
  | [] => None
  | _ => match digits_val 0 ds with
         | None => None
         | Some v => let x := if neg then - v else v in
                     if (- 2 ^ (bits - 1) <=? x) && (x <? 2 ^ (bits - 1)) then Some x else None
         end
  end.

Definition base_ct : list Z := [97;112;112;108;105;99;97;116;105;111;110;47;103;114;112;99].
Fixpoint strip_prefix (p s : list Z) : option (list Z) :=
  match p, s with
  | [], _ => Some s
  | a :: p', b :: s' => if a =? b then strip_prefix p' s' else None
  | _ :: _, [] => None
  end.
Definition ct_valid (v : list Z) : bool :=
  match strip_prefix base_ct v with
  | Some [] => true
  | Some (c :: _) => (c =? 43) || (c =? 59)
  | None => false
  end.

(* gRPC status codes *)
Definition C_OK := 0. Definition C_CANCELED := 1. Definition C_UNKNOWN := 2. Definition C_DEADLINE := 4.
Definition C_PERMISSION := 7. Definition C_RESOURCE := 8. Definition C_UNIMPLEMENTED := 12.
Definition C_INTERNAL := 13. Definition C_UNAVAILABLE := 14. Definition C_UNAUTH := 16.

(* http2ErrConvTab, default Unknown *)
Definition rst_code (e : Z) : Z :=
  match e with
  | 0 | 1 | 2 | 4 | 5 | 6 | 9 | 10 | 13 => C_INTERNAL
  | 3 | 11 => C_RESOURCE
  | 7 => C_UNAVAILABLE
  | 8 => C_CANCELED
  | 12 => C_PERMISSION
  | _ => C_UNKNOWN
  end.
(* HTTPStatusConvTab, default Unknown *)
Definition http_code (h : Z) : Z :=
  match h with
  | 400 => C_INTERNAL | 401 => C_UNAUTH | 403 => C_PERMISSION | 404 => C_UNIMPLEMENTED
  | 429 | 502 | 503 | 504 => C_UNAVAILABLE
  | _ => C_UNKNOWN
  end.

(* ---- streams ---- *)
Record stream := mkstream {
  x_id : Z;
  x_done : bool;          (* state == streamDone *)
  x_code : Z;             (* s.status.Code(), meaningful when done *)
  x_unproc : bool;        (* s.unprocessed *)
  x_hdr : bool;           (* headerChanClosed *)
  x_ng : Z;               (* nonGRPCStatus code, -1 = nil *)
  x_nb : Z;               (* len(nonGRPCDataBuf) *)
  x_pd : Z;               (* fc.pendingData *)
  x_pu : Z;               (* fc.pendingUpdate *)
  x_dl : Z }.             (* context deadline in ms, 0 = none *)

Definition new_stream (id dl : Z) := mkstream id false 0 false false (-1) 0 0 0 dl.
Definition finish (s : stream) (code : Z) (unproc : bool) : stream :=
  mkstream (x_id s) true code (x_unproc s || unproc) (x_hdr s) (x_ng s) (x_nb s) (x_pd s) (x_pu s) (x_dl s).

(* events are 4-tuples; on the wire 4 integers each *)
Definition ev4 := (Z * Z * Z * Z)%type.
Definition ev_done (sid code : Z) (u : bool) : list ev4 := [(1, sid, code, b2z u)].
Definition ev_rst (sid code : Z) : list ev4 := [(3, sid, code, 0)].
Definition ev_eof : list ev4 := [(8, 0, 0, 0)].
Definition flatten (l : list ev4) : list Z :=
  flat_map (fun e => let '(a, b, c, d) := e in [a; b; c; d]) l.

(* closeStream on every active stream selected by p: only the first close of a stream has any
   effect (swapState(streamDone) == streamDone returns early) *)
Definition active (s : stream) : bool := negb (x_done s).
Definition close_where (p : stream -> bool) (code : Z) (unproc : bool) (l : list stream) : list stream :=
  map (fun s => if active s && p s then finish s code unproc else s) l.
Definition close_events (p : stream -> bool) (code : Z) (unproc : bool) (l : list stream) : list ev4 :=
  flat_map (fun s => if active s && p s then ev_done (x_id s) code (x_unproc s || unproc) else []) l.

Fixpoint find (sid : Z) (l : list stream) : option stream :=
  match l with
  | [] => None
  | s :: r => if x_id s =? sid then Some s else find sid r
  end.
Definition find_active (sid : Z) (l : list stream) : option stream :=
  match find sid l with
  | Some s => if active s then Some s else None
  | None => None
  end.
(* ids are unique (proved), so this updates the one stream with that id *)
Definition update (sid : Z) (f : stream -> stream) (l : list stream) : list stream :=
  map (fun s => if x_id s =? sid then f s else s) l.
Definition is_sid (sid : Z) (s : stream) : bool := x_id s =? sid.

Record conn := mkconn {
  k_streams : list stream;     (* every stream ever created, ascending ids *)
  k_next : Z;                  (* t.nextID *)
  k_mode : Z;                  (* 0 reachable, 1 draining, 2 closing/closed *)
  k_goaway : bool;             (* t.goAway closed *)
  k_prev : Z;                  (* t.prevGoAwayID *)
  k_now : Z }.                 (* virtual time, ms *)
Definition conn0 := mkconn [] 1 0 false 0 0.
Definition with_streams (c : conn) (l : list stream) : conn :=
  mkconn l (k_next c) (k_mode c) (k_goaway c) (k_prev c) (k_now c).

(* t.closeStream(s, ..., rst, rstCode, status code) for one stream *)
Definition close_one (c : conn) (sid code : Z) (unproc : bool) (rst : option Z) : conn * list ev4 :=
  (with_streams c (close_where (is_sid sid) code unproc (k_streams c)),
   close_events (is_sid sid) code unproc (k_streams c) ++
   match find_active sid (k_streams c), rst with
   | Some _, Some rc => ev_rst sid rc
   | _, _ => []
   end).

(* t.Close: every active stream ends with Unavailable, the connection is closed *)
Definition close_conn (c : conn) : conn * list ev4 :=
  (mkconn (close_where (fun _ => true) C_UNAVAILABLE false (k_streams c)) (k_next c) 2 (k_goaway c) (k_prev c) (k_now c),
   close_events (fun _ => true) C_UNAVAILABLE false (k_streams c) ++ ev_eof).

Definition any_active (c : conn) : bool := existsb active (k_streams c).

(* the loopy writer of a draining client exits when its last stream is cleaned up; the reader
   then fails and Close runs with no active stream *)
Definition settle (r : conn * list ev4) : conn * list ev4 :=
  let '(c, ev) := r in
  if (k_mode c =? 1) && negb (any_active c)
  then (mkconn (k_streams c) (k_next c) 2 (k_goaway c) (k_prev c) (k_now c), ev ++ ev_eof)
  else (c, ev).

(* ---- operateHeaders ---- *)
Record hacc := mkacc {
  a_grpc : bool; a_gs : Z; a_hs : option (list Z); a_herr : bool; a_bad_gs : bool }.
(* a_bad_gs: a malformed grpc-status was met (the loop returns at once; later fields are not looked at) *)
Definition hstep (a : hacc) (f : field) : hacc :=
  if a_bad_gs a then a else
  let '(k, v) := f in
  if k =? 2 then (if ct_valid v then mkacc true (a_gs a) (a_hs a) (a_herr a) false else a)
  else if k =? 3 then
    match parse_int 32 v with
    | Some code => mkacc (a_grpc a) (u32 code) (a_hs a) (a_herr a) false
    | None => mkacc (a_grpc a) (a_gs a) (a_hs a) (a_herr a) true
    end
  else if k =? 1 then mkacc (a_grpc a) (a_gs a) (Some v) (a_herr a) false
  else if k =? 6 then
    match MDWire.decode_bin v with
    | Some _ => a
    | None => mkacc (a_grpc a) (a_gs a) (a_hs a) true false
    end
  else a.

Inductive hres :=
| HNone                                   (* no effect visible from outside *)
| HHeader                                 (* initial headers accepted: headerChan closed *)
| HNonGRPC (code : Z)                     (* start collecting a non-gRPC response body *)
| HClose (code : Z) (rst : Z).            (* closeStream(code) + RST_STREAM(rst) *)

Definition E_NO := 0. Definition E_PROTOCOL := 1. Definition E_FLOW := 3. Definition E_CANCEL := 8.

Definition headers_result (s : stream) (ended : bool) (fs : list field) : hres :=
  let initial := negb (x_hdr s) in
  if negb initial && negb ended then HClose C_INTERNAL E_PROTOCOL
  else if negb (x_ng s =? -1) then (if ended then HClose (x_ng s) E_PROTOCOL else HNone)
  else
    let a := fold_left hstep fs (mkacc (negb initial) C_UNKNOWN None false false) in
    if a_bad_gs a then HClose C_UNKNOWN E_PROTOCOL
    else if negb (a_grpc a) then
      match a_hs a with
      | None | Some [] =>
        if ended then HClose C_INTERNAL E_PROTOCOL else HNonGRPC C_INTERNAL
      | Some hs =>
        match parse_int 64 hs with
        | None => HClose C_INTERNAL E_PROTOCOL
        | Some h =>
          if (100 <=? h) && (h <? 200) then (if ended then HClose C_INTERNAL E_PROTOCOL else HNone)
          else if ended then HClose (http_code h) E_PROTOCOL else HNonGRPC (http_code h)
        end
      end
    else if a_herr a then HClose C_INTERNAL E_PROTOCOL
    else if negb ended then HHeader
    else HClose (a_gs a) E_NO.

Definition set_hdr (s : stream) : stream :=
  mkstream (x_id s) (x_done s) (x_code s) (x_unproc s) true (x_ng s) (x_nb s) (x_pd s) (x_pu s) (x_dl s).
Definition set_ng (code : Z) (s : stream) : stream :=
  mkstream (x_id s) (x_done s) (x_code s) (x_unproc s) (x_hdr s) code 0 (x_pd s) (x_pu s) (x_dl s).
Definition set_fc (nb pd pu : Z) (s : stream) : stream :=
  mkstream (x_id s) (x_done s) (x_code s) (x_unproc s) (x_hdr s) (x_ng s) nb pd pu (x_dl s).

Definition stream_limit := 65535.

(* ---- ops ---- *)
Inductive op :=
| ONew (dl : Z)
| OHeaders (sid : Z) (ended : bool) (fs : list field)
| OData (sid size : Z) (ended : bool)
| ORst (sid code : Z)
| OPing
| OGoAway (id code : Z)
| OWinUpd (sid inc : Z)
| OConnErr
| OCancel (sid : Z)
| OSleep (ms : Z)
| OPadData (sid dlen plen : Z) (ended : bool)   (* DATA with the PADDED flag: 1 + dlen + plen bytes *)
| OSettings (id val : Z).                       (* SETTINGS with one setting (or an ack) *)

(* s.fc.onRead(n) on (pendingData, pendingUpdate); delta is 0 with a static window *)
Definition on_read (pd pu n : Z) : Z * Z :=
  if pd =? 0 then (pd, pu)
  else let pu1 := pu + n in (pd - n, if stream_limit / 4 <=? pu1 then 0 else pu1).

(* handleData for a frame whose FrameHeader.Length is [size], of which [dlen] bytes are data; the
   pad-length byte and the padding of a PADDED frame (size - dlen bytes) count against the
   stream's window and are "read" at once *)
Definition data_step (c : conn) (sid size dlen : Z) (padded ended : bool) : conn * list ev4 :=
  match find_active sid (k_streams c) with
  | None => (c, [])
  | Some s =>
    let pd := x_pd s + size in
    if (0 <? size) && (stream_limit <? pd + x_pu s) then close_one c sid C_INTERNAL false (Some E_FLOW)
    else if negb (x_ng s =? -1) then
      let nb := x_nb s + Z.min dlen (1024 - x_nb s) in
      if (1024 <=? nb) || ended then close_one c sid (x_ng s) false (Some E_PROTOCOL)
      else
        (* s.fc.onRead(size) *)
        let '(pd', pu') := on_read pd (x_pu s) size in
        (with_streams c (update sid (set_fc nb pd' pu') (k_streams c)), [])
    else
      let '(pd', pu') := if padded then on_read pd (x_pu s) (size - dlen) else (pd, x_pu s) in
      if ended then close_one c sid C_INTERNAL false (Some E_NO)
      else (with_streams c (update sid (set_fc (x_nb s) pd' pu') (k_streams c)), [])
  end.

Definition exec_op (c : conn) (o : op) : conn * list ev4 :=
  match o with
  | ONew dl =>
    if k_mode c =? 0 then
      (mkconn (k_streams c ++ [new_stream (k_next c) (if dl =? 0 then 0 else k_now c + dl)])
              (k_next c + 2) (k_mode c) (k_goaway c) (k_prev c) (k_now c), [(0, k_next c, 0, 0)])
    else (c, [(0, -1, 0, 0)])
  | OHeaders sid ended fs =>
    match find_active sid (k_streams c) with
    | None => (c, [])
    | Some s =>
      if negb (meta_ok fs) then close_one c sid C_INTERNAL false (Some E_PROTOCOL)
      else match headers_result s ended fs with
           | HNone => (c, [])
           | HHeader => (with_streams c (update sid set_hdr (k_streams c)), [])
           | HNonGRPC code => (with_streams c (update sid (set_ng code) (k_streams c)), [])
           | HClose code rst => close_one c sid code false (Some rst)
           end
    end
  | OData sid size ended => data_step c sid size size false ended
  | OPadData sid dlen plen ended => data_step c sid (1 + dlen + plen) dlen true ended
  | OSettings id val =>
    (* x/net's parseSettingsFrame: INITIAL_WINDOW_SIZE above 2^31-1 is a connection error; every
       other setting (and an ack) leaves the terminal-status machine alone *)
    if (id =? 4) && (2147483647 <? val) then close_conn c else (c, [])
  | ORst sid code =>
    match find_active sid (k_streams c) with
    | None => (c, [])
    | Some s =>
      let sc := rst_code code in
      let sc := if (sc =? C_CANCELED) && negb (x_dl s =? 0) && (x_dl s <=? k_now c) then C_DEADLINE else sc in
      close_one c sid sc (code =? 7) None
    end
  | OPing => (c, [])
  | OGoAway id code =>
    (* a non-zero even id, or an id above the previous GOAWAY's, is a connection error: the
       reader returns and the transport is closed with that error *)
    if (0 <? id) && Z.even id then close_conn c
    else if k_goaway c && (k_prev c <? id) then close_conn c
    else
      let upper := if k_prev c =? 0 then 4294967295 else k_prev c in
      let c1 := mkconn (k_streams c) (k_next c) (if k_goaway c then k_mode c else 1) true id (k_now c) in
      if negb (any_active c) then close_conn c1
      else
        let p := fun s => (id <? x_id s) && (x_id s <=? upper) in
        (with_streams c1 (close_where p C_UNAVAILABLE true (k_streams c)),
         close_events p C_UNAVAILABLE true (k_streams c))
  | OWinUpd sid inc =>
    if inc =? 0 then
      match find_active sid (k_streams c) with
      | None => (c, [])
      | Some _ => close_one c sid C_INTERNAL false (Some E_PROTOCOL)
      end
    else (c, [])
  | OConnErr => close_conn c
  | OCancel sid => close_one c sid C_CANCELED false (Some E_CANCEL)
  | OSleep ms => (mkconn (k_streams c) (k_next c) (k_mode c) (k_goaway c) (k_prev c) (k_now c + ms), [])
  end.

(* frames are not read any more once the transport is closed; NewStream, cancel and the clock
   still work *)
Definition step (c : conn) (o : op) : conn * list ev4 :=
  if k_mode c =? 2 then
    match o with
    | ONew _ | OSleep _ => exec_op c o
    | _ => (c, [])
    end
  else settle (exec_op c o).

(* the final http2Client.Close of every case *)
Definition final (c : conn) : list ev4 :=
  if k_mode c =? 2 then [] else snd (close_conn c).

Fixpoint run_ops (c : conn) (ops : list op) : list (list ev4) :=
  match ops with
  | [] => [final c]
  | o :: r => let '(c', ev) := step c o in ev :: run_ops c' r
  end.

(* ---- decoding ---- *)
Definition in_sid (sid : Z) : bool := (1 <=? sid) && (sid <? 2147483648).
Definition field_ok (f : field) : bool := known_kind (fst f) && (lenZ (snd f) <? 127).
Definition decode_op (w : word) : option op :=
  match w with
  | [1; dl] => if (0 <=? dl) && (dl <=? 10000000) then Some (ONew dl) else None
  | 2 :: sid :: e :: n :: r =>
    if in_sid sid && (0 <=? n) && (n <=? 64) && ((e =? 0) || (e =? 1)) then
      match parse_fields (Z.to_nat n) r with
      | Some fs => if forallb field_ok fs then Some (OHeaders sid (e =? 1) fs) else None
      | None => None
      end
    else None
  | [3; sid; size; e] =>
    if in_sid sid && (0 <=? size) && (size <=? 16384) && ((e =? 0) || (e =? 1)) then Some (OData sid size (e =? 1)) else None
  | [4; sid; code] => if in_sid sid && (0 <=? code) && (code <=? max_u32) then Some (ORst sid code) else None
  | [6] => Some OPing
  | [7; id; code] => if (0 <=? id) && (id <? 2147483648) && (0 <=? code) && (code <=? max_u32) then Some (OGoAway id code) else None
  | [8; sid; inc] => if in_sid sid && (0 <=? inc) && (inc <? 2147483648) then Some (OWinUpd sid inc) else None
  | [9; v] => if (0 <=? v) && (v <=? 9) then Some OConnErr else None
  | [10; sid] => if in_sid sid then Some (OCancel sid) else None
  | [12; ms] => if (1 <=? ms) && (ms <=? 3600000) then Some (OSleep ms) else None
  | [13; sid; dlen; plen; e] =>
    if in_sid sid && (0 <=? dlen) && (0 <=? plen) && (plen <=? 255) && (1 + dlen + plen <=? 16384) && ((e =? 0) || (e =? 1))
    then Some (OPadData sid dlen plen (e =? 1)) else None
  | [14; id; val] =>
    (* driver protocol: MAX_CONCURRENT_STREAMS stays >= 100 (NewStream would block below the
       number of open streams), MAX_HEADER_LIST_SIZE >= 16384 (NewStream would fail) *)
    if (0 <=? id) && (id <=? 65535) && (0 <=? val) && (val <=? max_u32) &&
       (negb (id =? 3) || (100 <=? val)) && (negb (id =? 6) || (16384 <=? val))
    then Some (OSettings id val) else None
  | [15] => Some (OSettings 0 0)        (* SETTINGS ack *)
  | _ => None
  end.
Fixpoint decode_ops (ws : list word) : option (list op) :=
  match ws with
  | [] => Some []
  | w :: r => match decode_op w, decode_ops r with
              | Some o, Some os => Some (o :: os)
              | _, _ => None
              end
  end.
Definition run (cfg : word) (ops : list word) : option (list word) :=
  match decode_ops ops with
  | Some os => Some (map flatten (run_ops conn0 os))
  | None => None
  end.

(* ---- the property on any observation list ---- *)
Fixpoint events (fuel : nat) (w : list Z) : list ev4 :=
  match fuel with
  | O => []
  | S f => match w with
           | a :: b :: c :: d :: r => (a, b, c, d) :: events f r
           | _ => []
           end
  end.
Definition evs (w : word) : list ev4 := events (length w) w.
Definition tag (e : ev4) : Z := fst (fst (fst e)).
Definition esid (e : ev4) : Z := snd (fst (fst e)).
Definition ecode (e : ev4) : Z := snd (fst e).

Definition created (es : list ev4) : list Z :=
  map esid (filter (fun e => (tag e =? 0) && (0 <? esid e)) es).
Definition term_count (sid : Z) (es : list ev4) : Z :=
  lenZ (filter (fun e => (tag e =? 1) && (esid e =? sid)) es).

(* clause ids:
   1 no stream receives a second status (no sid twice among terminal events, no event 99)
   2 at the end (after Close) every stream that was created has exactly one terminal status
   3 a terminal status is only reported for a stream that was created
   4 the status of a stream terminated by the op RST_STREAM(code) is http2ErrConvTab[code]
     (Canceled may become DeadlineExceeded), REFUSED_STREAM marks it unprocessed
   5 no goroutine of the transport outlives Close (the driver's monitor event 77 never occurs) *)
Definition rst_event_ok (sid code : Z) (e : ev4) : bool :=
  negb ((tag e =? 1) && (esid e =? sid)) ||
  (((ecode e =? rst_code code) || ((rst_code code =? C_CANCELED) && (ecode e =? C_DEADLINE))) &&
   ((snd e =? 1) || negb (code =? 7))).
Definition clause_rst (w : word) (ob : list ev4) : Z * Z * bool :=
  match decode_op w with
  | Some (ORst sid code) => (4, sid, forallb (rst_event_ok sid code) ob)
  | _ => (4, 0, true)
  end.
Fixpoint clauses_rst (ops : list word) (obs : list (list ev4)) : list (Z * Z * bool) :=
  match ops, obs with
  | w :: r, ob :: r' => clause_rst w ob :: clauses_rst r r'
  | _, _ => []
  end.

Definition clauses_ev (ops : list word) (obs : list (list ev4)) : list (Z * Z * bool) :=
  let es := concat obs in
  let cr := created es in
  [ (0, 0, Nat.eqb (length obs) (S (length ops)));
    (1, 0, forallb (fun e => negb (tag e =? 99)) es &&
           forallb (fun e => negb (tag e =? 1) || (term_count (esid e) es =? 1)) es);
    (2, 0, forallb (fun sid => term_count sid es =? 1) cr);
    (3, 0, forallb (fun e => negb (tag e =? 1) || existsb (Z.eqb (esid e)) cr) es);
    (5, 0, forallb (fun e => negb (tag e =? 77)) es) ]
  ++ clauses_rst ops obs.

Definition clauses (cfg : word) (ops obs : list word) : list (Z * Z * bool) :=
  clauses_ev ops (map evs obs).

Definition holds_b (cfg : word) (ops obs : list word) : bool :=
  forallb (fun c => snd c) (clauses cfg ops obs).

Definition check_case (c : case) : verdict :=
  decide (run (c_cfg c) (c_ops c)) (c_obs c) (clauses (c_cfg c) (c_ops c) (c_obs c)).
