(* C44: management-server fallback, gRFC A71 (internal/xds/clients/xdsclient/authority.go:
   xdsChannelToUse, handleADSStreamFailure, watcherExistsForUncachedResource, fallbackToServer,
   handleRevertingToPrimaryOnUpdate, watchResource/unwatchResource/closeXDSChannels) with the
   per-channel part of the ADS stream that decides which subscription requests go out.

   N <= 3 servers, priority = index; one resource type, names 0..2, one watcher per name.
   One step = one driver op run to quiescence (drivers/ext/ads/fallback_test.go).
   No proofs here. *)
From Coq Require Import List ZArith Bool.
From VLib Require Import Codec Machine.
From VModel Require Import XdsWatch.   (* mem / ins / rem / triples / last_named *)
Import ListNotations.
Open Scope Z_scope.

Record srv := mkV {
  open : bool;       (* the authority holds a channel to this server *)
  slive : bool;      (* its ADS runner is inside recv(stream); false = blocked in NewStream *)
  ssender : Z;       (* send goroutine's stream: 0 nil, 1 latest, 2 broken *)
  smsg : bool;       (* a response was received on the current stream *)
  subs : list Z      (* names subscribed on this channel *)
}.
Definition v_closed : srv := mkV false false 0 false [].

Record rsrc := mkQ {
  watched : bool;
  qstat : Z;         (* 1 requested (no cached value), 2 ACKed, 3 NACKed *)
  chans : list Z     (* xdsChannelConfigs: servers on which it is subscribed *)
}.
Definition q_none : rsrc := mkQ false 0 [].

Record st := mkS { sv : Z -> srv; rq : Z -> rsrc; active : Z }.
Definition init : st := mkS (fun _ => v_closed) (fun _ => q_none) (-1).

Definition updv (f : Z -> srv) (k : Z) (v : srv) : Z -> srv := fun x => if x =? k then v else f x.
Definition updq (f : Z -> rsrc) (k : Z) (v : rsrc) : Z -> rsrc := fun x => if x =? k then v else f x.
Definition updo (f : Z -> option (list Z)) (k : Z) (v : list Z) : Z -> option (list Z) :=
  fun x => if x =? k then Some v else f x.

Definition all_srv : list Z := [0; 1; 2].
Definition all_names : list Z := [0; 1; 2].

Inductive aop :=
| AWatch (n : Z) | AUnwatch (n : Z) | AAllow (s : Z) | AFail (s : Z)
| AResp (s v : Z) (rs : list (Z * Z * Z)) | ABreak (s : Z) | ANop.

Definition decode (nsrv : Z) (w : word) : aop :=
  match w with
  | c :: a =>
    if c =? 1 then match a with [n] => if (0 <=? n) && (n <=? 2) then AWatch n else ANop | _ => ANop end
    else if c =? 2 then match a with [n] => if (0 <=? n) && (n <=? 2) then AUnwatch n else ANop | _ => ANop end
    else if c =? 3 then match a with [s] => if (0 <=? s) && (s <? nsrv) then AAllow s else ANop | _ => ANop end
    else if c =? 4 then match a with [s] => if (0 <=? s) && (s <? nsrv) then AFail s else ANop | _ => ANop end
    else if c =? 5 then
      match a with
      | s :: v :: r =>
        if (0 <=? s) && (s <? nsrv) && (0 <=? v) then
          match triples r with Some rs => AResp s v rs | None => ANop end
        else ANop
      | _ => ANop
      end
    else if c =? 6 then match a with [s] => if (0 <=? s) && (s <? nsrv) then ABreak s else ANop | _ => ANop end
    else ANop
  | [] => ANop
  end.

(* a subscription request on server s through its send goroutine; o = last request names per server *)
Definition send (s : st) (o : Z -> option (list Z)) (c : Z) : st * (Z -> option (list Z)) :=
  let x := sv s c in
  if ssender x =? 1 then (s, updo o c (subs x))
  else if ssender x =? 2 then
    (mkS (updv (sv s) c (mkV (open x) (slive x) 0 (smsg x) (subs x))) (rq s) (active s), o)
  else (s, o).

Definition uncached (s : st) : bool :=
  existsb (fun n => watched (rq s n) && (qstat (rq s n) =? 1)) all_names.
Definition watched_names (s : st) : list Z := filter (fun n => watched (rq s n)) all_names.

(* handleADSStreamFailure for a failure that is not "after a response": returns the server to
   which a new channel was created, or -1 *)
Fixpoint first_closed (s : st) (cands : list Z) : Z :=
  match cands with
  | [] => -1
  | j :: r => if open (sv s j) then first_closed s r else j
  end.
Definition failure (nsrv : Z) (s : st) (f : Z) : st * list Z :=
  if uncached s then
    let j := first_closed s (filter (fun j => (f <? j) && (j <? nsrv)) all_srv) in
    if j =? -1 then (s, [])
    else
      (mkS (updv (sv s) j (mkV true false 0 false (watched_names s)))
           (fun n => let q := rq s n in
                     if watched q then mkQ true (qstat q) (ins j (chans q)) else q)
           j, [j])
  else (s, []).

Definition emit (applied : bool) (built closed : list Z) (o : Z -> option (list Z)) : list word :=
  let rqs := flat_map (fun c => if mem c closed then []
                                else match o c with Some ns => [[100; c] ++ ns] | None => [] end) all_srv in
  [b2z applied; Z.of_nat (length rqs)] :: (200 :: built) :: (201 :: closed) :: rqs.
Definition no_req : Z -> option (list Z) := fun _ => None.
Definition skip (s : st) : st * list word := (s, emit false [] [] no_req).

Fixpoint unsub_all (s : st) (o : Z -> option (list Z)) (n : Z) (cs : list Z) : st * (Z -> option (list Z)) :=
  match cs with
  | [] => (s, o)
  | c :: r =>
    let x := sv s c in
    let s1 := mkS (updv (sv s) c (mkV (open x) (slive x) (ssender x) (smsg x) (rem n (subs x)))) (rq s) (active s) in
    let '(s2, o2) := send s1 o c in unsub_all s2 o2 n r
  end.

Definition step (nsrv : Z) (s : st) (a : aop) : st * list word :=
  match a with
  | AWatch n =>
    if watched (rq s n) then skip s
    else
      let '(s0, built) :=
        if active s =? -1 then (mkS (updv (sv s) 0 (mkV true false 0 false [])) (rq s) 0, [0]) else (s, []) in
      let c := active s0 in
      let x := sv s0 c in
      let s1 := mkS (updv (sv s0) c (mkV (open x) (slive x) (ssender x) (smsg x) (ins n (subs x))))
                    (updq (rq s0) n (mkQ true 1 [c])) c in
      let '(s2, o) := send s1 no_req c in
      (s2, emit true built [] o)
  | AUnwatch n =>
    if watched (rq s n) then
      let '(s1, o) := unsub_all s no_req n (chans (rq s n)) in
      let s2 := mkS (sv s1) (updq (rq s1) n q_none) (active s1) in
      if existsb (fun k => watched (rq s2 k)) all_names then (s2, emit true [] [] o)
      else
        let closed := filter (fun c => open (sv s2 c)) all_srv in
        (mkS (fun _ => v_closed) (rq s2) (-1), emit true [] closed o)
    else skip s
  | AAllow c =>
    let x := sv s c in
    if open x && negb (slive x) then
      let s1 := mkS (updv (sv s) c (mkV true true 1 false (subs x))) (rq s) (active s) in
      (s1, emit true [] [] (match subs x with [] => no_req | _ => updo no_req c (subs x) end))
    else skip s
  | AFail c =>
    let x := sv s c in
    if open x && negb (slive x) then
      let '(s1, built) := failure nsrv s c in (s1, emit true built [] no_req)
    else skip s
  | ABreak c =>
    let x := sv s c in
    if open x && slive x then
      let s0 := mkS (updv (sv s) c (mkV true false 2 (smsg x) (subs x))) (rq s) (active s) in
      let '(s1, built) := if smsg x then (s0, []) else failure nsrv s0 c in
      (s1, emit true built [] no_req)
    else skip s
  | AResp c v rs =>
    let x := sv s c in
    if open x && slive x then
      let s0 := mkS (updv (sv s) c (mkV true true (ssender x) true (subs x))) (rq s) (active s) in
      let ack := updo no_req c (subs x) in
      if active s0 <? c then (s0, emit true [] [] ack)          (* update from a server below the active one *)
      else
        (* handleRevertingToPrimaryOnUpdate *)
        let closed := if c <? active s0 then filter (fun j => (c <? j) && open (sv s0 j)) all_srv else [] in
        let s1 := if c <? active s0 then
                    mkS (fun j => if c <? j then v_closed else sv s0 j)
                        (fun n => let q := rq s0 n in mkQ (watched q) (qstat q) (filter (fun j => j <=? c) (chans q)))
                        c
                  else s0 in
        let s2 := mkS (sv s1)
                      (fun n => let q := rq s1 n in
                                if watched q then
                                  match last_named n rs with
                                  | Some (k, _) => mkQ true (if k =? 1 then 2 else 3) (chans q)
                                  | None => q
                                  end
                                else q)
                      (active s1) in
        (s2, emit true [] closed ack)
    else skip s
  | ANop => skip s
  end.

Fixpoint run_from (nsrv : Z) (s : st) (ops : list word) : list word :=
  match ops with
  | [] => []
  | op :: r => let '(s', o) := step nsrv s (decode nsrv op) in o ++ run_from nsrv s' r
  end.

Definition nsrv_of (cfg : word) : Z :=
  match cfg with [n] => if (1 <=? n) && (n <=? 3) then n else 1 | _ => 1 end.
Definition run_ns (cfg : word) (ops : list word) : option (list word) :=
  Some (run_from (nsrv_of cfg) init ops).

(* ---- the property as a monitor over (ops, observations) --------------------------------
   From the ops and the observed channel events only: which servers have a channel, which is
   active (the one created last, or the one whose update made the client revert), whether a
   server's current stream has delivered a response, which names are watched.
     clause 1  a channel to a server j >= 1 is created only by an op that is a stream failure of a
               server s < j before any response on that stream, while some watched resource has not
               been named by any processed update (and channel 0 only by a watch)
     clause 2  ... and that failing server is the active one                 (known finding)
     clause 3  channels are released only (i) by an update from a server s above the active one:
               exactly the servers below s that have a channel, or (ii) all of them when the last
               watch is cancelled; an update from the active server releases nothing
     clause 6  (shared fallback channel only, see below) after a revert the lower-priority server is
               no longer asked for the reverted authority's resources
     clause 0  malformed observation *)
Record mon := mkM { m_open : Z -> bool; m_act : Z; m_msg : Z -> bool; m_w : Z -> bool;
                    m_unc : Z -> bool (* watched and not yet named by an update the client processed *) }.
Definition mon_init : mon := mkM (fun _ => false) (-1) (fun _ => false) (fun _ => false) (fun _ => false).
Definition updb (f : Z -> bool) (k : Z) (v : bool) : Z -> bool := fun x => if x =? k then v else f x.

Fixpoint list_eqb (a b : list Z) : bool :=
  match a, b with
  | [], [] => true
  | x :: a', y :: b' => (x =? y) && list_eqb a' b'
  | _, _ => false
  end.
Fixpoint subset (a b : list Z) : bool :=
  match a with [] => true | x :: r => mem x b && subset r b end.

Definition mon_step (i : Z) (m : mon) (a : aop) (applied : bool) (built closed : list Z) (reqs : list word)
  : mon * list (Z * Z * bool) :=
  let failing := match a with
                 | AFail s => if applied then s else -1
                 | ABreak s => if applied && negb (m_msg m s) then s else -1
                 | _ => -1
                 end in
  let c1 := match built with
            | [] => true
            | [j] => if j =? 0 then (match a with AWatch _ => applied && (m_act m =? -1) | _ => false end)
                     else (0 <=? failing) && (failing <? j) && existsb (m_unc m) all_names
            | _ => false
            end in
  let c2 := match built with
            | [j] => if j =? 0 then true else failing =? m_act m
            | _ => true
            end in
  (* watched set after the op *)
  let w' := match a with
            | AWatch n => if applied then updb (m_w m) n true else m_w m
            | AUnwatch n => if applied then updb (m_w m) n false else m_w m
            | _ => m_w m
            end in
  let anyw := existsb w' all_names in
  let c3 := match a with
            | AResp s _ _ =>
              if applied then
                list_eqb closed (if s <? m_act m then filter (fun j => (s <? j) && m_open m j) all_srv else [])
              else list_eqb closed []
            | AUnwatch _ =>
              if applied && negb anyw then list_eqb closed (filter (m_open m) all_srv) else list_eqb closed []
            | _ => list_eqb closed []
            end in
  let open1 := fun j => (m_open m j || mem j built) && negb (mem j closed) in
  let act1 := match built with
              | j :: _ => j
              | [] => match a with
                      | AResp s _ _ => if applied && (s <? m_act m) then s else m_act m
                      | _ => m_act m
                      end
              end in
  let act2 := if existsb open1 all_srv then act1 else -1 in
  let msg1 := match a with
              | AResp s _ _ => if applied then updb (m_msg m) s true else m_msg m
              | AAllow s => if applied then updb (m_msg m) s false else m_msg m
              | _ => m_msg m
              end in
  let msg2 := fun j => msg1 j && open1 j && negb (mem j built) in
  let unc' := match a with
              | AWatch n => if applied then updb (m_unc m) n true else m_unc m
              | AUnwatch n => if applied then updb (m_unc m) n false else m_unc m
              | AResp s _ rs =>
                if applied && (s <=? m_act m) then
                  fun n => m_unc m n && match last_named n rs with Some _ => false | None => true end
                else m_unc m
              | _ => m_unc m
              end in
  (mkM open1 act2 msg2 w' unc', [(1, i, c1); (2, i, c2); (3, i, c3)]).

Fixpoint take_words (n : nat) (l : list word) : option (list word * list word) :=
  match n with
  | O => Some ([], l)
  | S n' => match l with
            | [] => None
            | x :: r => match take_words n' r with
                        | Some (a, b) => Some (x :: a, b)
                        | None => None
                        end
            end
  end.

Fixpoint clauses_from (nsrv : Z) (m : mon) (i : Z) (ops obs : list word) : list (Z * Z * bool) :=
  match ops with
  | [] => match obs with [] => [] | _ => [(0, i, false)] end
  | op :: r =>
    match obs with
    | [ap; nreq] :: (b200 :: built) :: (b201 :: closed) :: obs' =>
      match take_words (Z.to_nat nreq) obs' with
      | Some (reqs, rest) =>
        let '(m', cl) := mon_step i m (decode nsrv op) (z2b ap) built closed reqs in
        ((0, i, (b200 =? 200) && (b201 =? 201)) :: cl) ++ clauses_from nsrv m' (i + 1) r rest
      | None => [(0, i, false)]
      end
    | _ => [(0, i, false)]
    end
  end.

Definition clauses_ns (cfg : word) (ops obs : list word) : list (Z * Z * bool) :=
  clauses_from (nsrv_of cfg) mon_init 0 ops obs.

(* ================= shared fallback channel (cfg [2; 1]) =================================
   Two servers; the xdsChannel to server 1 is shared with a second authority that keeps a
   permanent watch (name 9) on it, so it is never torn down: [open (sv s 1)] then only means
   "the authority under test holds a reference", the transport and the ADS stream state of
   server 1 live on without it.  Falling back onto it creates no transport, releasing it closes
   none; what is observable is the names in the requests server 1 receives. *)
Definition is_shared (cfg : word) : bool := match cfg with [2; 1] => true | _ => false end.
Definition init_sh : st :=
  mkS (updv (fun _ => v_closed) 1 (mkV false false 0 false [9])) (fun _ => q_none) (-1).
Definition tr (s : st) (c : Z) : bool := open (sv s c) || (c =? 1).

Fixpoint ins_all (l acc : list Z) : list Z :=
  match l with [] => acc | n :: r => ins_all r (ins n acc) end.

(* fallback from server 0 onto the shared server 1 *)
Definition failure_sh (s : st) (f : Z) : st * (Z -> option (list Z)) :=
  if uncached s && (f =? 0) && negb (open (sv s 1)) then
    let x := sv s 1 in
    let s1 := mkS (updv (sv s) 1 (mkV true (slive x) (ssender x) (smsg x) (ins_all (watched_names s) (subs x))))
                  (fun n => let q := rq s n in if watched q then mkQ true (qstat q) (ins 1 (chans q)) else q) 1 in
    send s1 no_req 1
  else (s, no_req).

Definition step_sh (s : st) (a : aop) : st * list word :=
  match a with
  | AWatch n => step 2 s (AWatch n)
  | AUnwatch n =>
    if watched (rq s n) then
      let '(s1, o) := unsub_all s no_req n (chans (rq s n)) in
      let s2 := mkS (sv s1) (updq (rq s1) n q_none) (active s1) in
      if existsb (fun k => watched (rq s2 k)) all_names then (s2, emit true [] [] o)
      else
        let closed := if open (sv s2 0) then [0] else [] in
        let x := sv s2 1 in
        (mkS (updv (fun _ => v_closed) 1 (mkV false (slive x) (ssender x) (smsg x) (subs x))) (rq s2) (-1),
         emit true [] closed o)
    else skip s
  | AAllow c =>
    let x := sv s c in
    if tr s c && negb (slive x) then
      (mkS (updv (sv s) c (mkV (open x) true 1 false (subs x))) (rq s) (active s),
       emit true [] [] (match subs x with [] => no_req | _ => updo no_req c (subs x) end))
    else skip s
  | AFail c =>
    let x := sv s c in
    if tr s c && negb (slive x) then
      if open x then let '(s1, o) := failure_sh s c in (s1, emit true [] [] o) else (s, emit true [] [] no_req)
    else skip s
  | ABreak c =>
    let x := sv s c in
    if tr s c && slive x then
      let s0 := mkS (updv (sv s) c (mkV (open x) false 2 (smsg x) (subs x))) (rq s) (active s) in
      if open x && negb (smsg x) then let '(s1, o) := failure_sh s0 c in (s1, emit true [] [] o)
      else (s0, emit true [] [] no_req)
    else skip s
  | AResp c v rs =>
    let x := sv s c in
    if tr s c && slive x then
      let s0 := mkS (updv (sv s) c (mkV (open x) true (ssender x) true (subs x))) (rq s) (active s) in
      let ack := updo no_req c (subs x) in
      if negb (open x) || (active s0 <? c) then (s0, emit true [] [] ack)
      else
        let '(s1, o1) :=
          if (c <? active s0) && open (sv s0 1) then
            (* revert from the shared server: unsubscribe what was subscribed there, release the reference *)
            let y := sv s0 1 in
            let gone := filter (fun n => mem 1 (chans (rq s0 n))) all_names in
            let sa := mkS (updv (sv s0) 1 (mkV false (slive y) (ssender y) (smsg y)
                                               (filter (fun n => negb (mem n gone)) (subs y))))
                          (fun n => let q := rq s0 n in mkQ (watched q) (qstat q) (filter (fun j => j <=? c) (chans q)))
                          c in
            send sa ack 1
          else (s0, ack) in
        let s2 := mkS (sv s1)
                      (fun n => let q := rq s1 n in
                                if watched q then
                                  match last_named n rs with
                                  | Some (k, _) => mkQ true (if k =? 1 then 2 else 3) (chans q)
                                  | None => q
                                  end
                                else q)
                      (active s1) in
        (s2, emit true [] [] o1)
    else skip s
  | ANop => skip s
  end.

Fixpoint run_from_sh (s : st) (ops : list word) : list word :=
  match ops with
  | [] => []
  | op :: r => let '(s', o) := step_sh s (decode 2 op) in o ++ run_from_sh s' r
  end.

Definition run (cfg : word) (ops : list word) : option (list word) :=
  if is_shared cfg then Some (run_from_sh init_sh ops) else run_ns cfg ops.

(* clause 6 (shared mode): after the client has reverted to server 0 - i.e. from an update of
   server 0 until the next stream failure of server 0 - server 1 is no longer asked for the
   reverted authority's resources (names 0..2); only the other authority's name 9 remains *)
Definition off_next (off : bool) (a : aop) (applied : bool) : bool :=
  match a with
  | AResp c _ _ => if applied && (c =? 0) then true else off
  | AFail c | ABreak c => if applied && (c =? 0) then false else off
  | _ => off
  end.
Definition req_sh (i : Z) (off : bool) (r : word) : Z * Z * bool :=
  match r with
  | c :: s :: ns => (6, i, (c =? 100) && (negb (off && (s =? 1)) || forallb (fun n => 3 <=? n) ns))
  | _ => (0, i, false)
  end.
Fixpoint clauses_sh (off : bool) (i : Z) (ops obs : list word) : list (Z * Z * bool) :=
  match ops with
  | [] => match obs with [] => [] | _ => [(0, i, false)] end
  | op :: r =>
    match obs with
    | [ap; nreq] :: (b200 :: built) :: (b201 :: closed) :: obs' =>
      match take_words (Z.to_nat nreq) obs' with
      | Some (reqs, rest) =>
        let off' := off_next off (decode 2 op) (z2b ap) in
        ((0, i, (b200 =? 200) && (b201 =? 201)) :: map (req_sh i off') reqs) ++ clauses_sh off' (i + 1) r rest
      | None => [(0, i, false)]
      end
    | _ => [(0, i, false)]
    end
  end.

Definition clauses (cfg : word) (ops obs : list word) : list (Z * Z * bool) :=
  if is_shared cfg then clauses_sh true 0 ops obs else clauses_ns cfg ops obs.
Definition holds_b (cfg : word) (ops obs : list word) : bool :=
  forallb (fun c => snd c) (clauses cfg ops obs).
(* the clauses that hold of the code: all but 2 *)
Definition holds_core (cfg : word) (ops obs : list word) : bool :=
  forallb (fun c => snd c || (fst (fst c) =? 2)) (clauses cfg ops obs).

Definition check_case (c : case) : verdict :=
  decide (run (c_cfg c) (c_ops c)) (c_obs c) (clauses (c_cfg c) (c_ops c) (c_obs c)).
