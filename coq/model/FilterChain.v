(* C49: xDS server filter chain selection.
   Transcribes internal/xds/xdsclient/xdsresource/unmarshal_lds.go
   (processServerSideListener's final check, buildFilterChainMap and the
   addFilterChainsFor* / getOrCreate* helpers, parsePrefixRanges) and
   internal/xds/server/filter_chain_manager.go (lookup and its four stages).

   Addresses are (family, value) with family 4 (32 bits) or 6 (128 bits), after
   netip.Addr.Unmap.  A netip.Prefix is Some (family, masked value, bits); the zero
   Prefix{} used for "unspecified" is None.  The nested Go structure
     []DestinationPrefixEntry{Prefix, [3]SourcePrefixes{[]SourcePrefixEntry{Prefix, map[int]chain}}}
   is a nested association list  dest prefix -> source type -> source prefix -> port -> chain id
   (chain ids are 1-based positions in the listener's filter_chains; 0 = empty slot).
   Filter chains the builder drops (destination_port, server_names,
   application_protocols, unsupported transport_protocol) are removed up front; the
   raw_buffer/"" transport protocol precedence is not modelled (never generated).
   No proofs here. *)
From Coq Require Import List ZArith Bool.
From VLib Require Import Codec Machine.
Import ListNotations.
Open Scope Z_scope.

Definition addr := (Z * Z)%type.
Definition bits_of (fam : Z) : Z := if fam =? 4 then 32 else 128.

(* netip.Addr.Unmap *)
Definition unmap (a : addr) : addr :=
  if (fst a =? 6) && (snd a / 2 ^ 32 =? 65535) then (4, snd a mod 2 ^ 32) else a.

Definition rawpfx := (Z * Z * Z)%type.            (* family, value, prefix_len *)
Definition pfx := option (Z * Z * Z).             (* None = netip.Prefix{} *)

(* parsePrefixRanges on one CidrRange: PrefixFrom(addr.Unmap(), bits).Masked(), IsValid *)
Definition parse_prefix (r : rawpfx) : option (Z * Z * Z) :=
  let '(f, v, l) := r in
  let a := unmap (f, v) in
  let b := bits_of (fst a) in
  if (0 <=? l) && (l <=? b) then Some (fst a, snd a - snd a mod 2 ^ (b - l), l) else None.

Fixpoint parse_all (l : list rawpfx) : option (list (Z * Z * Z)) :=
  match l with
  | [] => Some []
  | r :: t => match parse_prefix r, parse_all t with
              | Some p, Some ps => Some (p :: ps)
              | _, _ => None
              end
  end.

(* Prefix.Contains *)
Definition contains (p : Z * Z * Z) (a : addr) : bool :=
  let '(f, v, l) := p in
  let sh := 2 ^ (bits_of f - l) in
  (f =? fst a) && (v / sh =? snd a / sh).

Definition p3_eqb (x y : Z * Z * Z) : bool :=
  let '(a, b, c) := x in let '(d, e, f) := y in (a =? d) && (b =? e) && (c =? f).
Definition pfx_eqb (x y : pfx) : bool :=
  match x, y with
  | None, None => true
  | Some a, Some b => p3_eqb a b
  | _, _ => false
  end.

(* ---- association lists ---- *)
Fixpoint get {K V} (eqb : K -> K -> bool) (k : K) (l : list (K * V)) : option V :=
  match l with
  | [] => None
  | (k', v) :: r => if eqb k k' then Some v else get eqb k r
  end.

(* get-or-create the entry of k (created entries go to the end), then update it *)
Fixpoint upd {K V} (eqb : K -> K -> bool) (k : K) (f : V -> option V) (dflt : V)
         (l : list (K * V)) : option (list (K * V)) :=
  match l with
  | [] => match f dflt with Some v => Some [(k, v)] | None => None end
  | (k', v) :: r =>
    if eqb k k' then match f v with Some v' => Some ((k', v') :: r) | None => None end
    else match upd eqb k f dflt r with Some r' => Some ((k', v) :: r') | None => None end
  end.

Definition pmap := list (Z * Z).                  (* source port -> chain id *)
Definition smap := list (pfx * pmap).             (* SourcePrefixes.Entries *)
Definition tmap := list (Z * smap).               (* SourceTypeArr (absent = no entries) *)
Definition dmap := list (pfx * tmap).             (* NetworkFilterChainMap.DstPrefixes *)

(* one (dest prefix, source type, source prefix, port) slot of a filter chain *)
Definition tuple := (pfx * Z * pfx * Z * Z)%type.

(* addFilterChainsForSourcePorts on one port: a non-empty slot is the
   "multiple filter chains with overlapping matching rules" error *)
Definition set_port (id : Z) (old : Z) : option Z := if old =? 0 then Some id else None.

Definition ins (t : tuple) (m : dmap) : option dmap :=
  let '(d, st, s, p, id) := t in
  upd pfx_eqb d (upd Z.eqb st (upd pfx_eqb s (upd Z.eqb p (set_port id) 0) []) []) [] m.

Fixpoint ins_all (ts : list tuple) (m : dmap) : option dmap :=
  match ts with
  | [] => Some m
  | t :: r => match ins t m with Some m' => ins_all r m' | None => None end
  end.

(* FilterChainMatch of one filter chain.
   drop: 0 kept, 1 destination_port set (dropped before anything is parsed),
         2 server_names / application_protocols / unsupported transport_protocol
           (dropped after the destination prefixes were parsed) *)
Record chain := mkchain {
  ch_drop : Z; ch_dsts : list rawpfx; ch_stype : Z; ch_srcs : list rawpfx; ch_ports : list Z }.

Definition keys_of (ps : list (Z * Z * Z)) : list pfx :=
  match ps with [] => [None] | _ => map (fun p => Some p) ps end.
Definition ports_of (ps : list Z) : list Z := match ps with [] => [0] | _ => ps end.

(* the slots one chain occupies, in the order the nested loops visit them;
   None = an error that rejects the whole listener *)
Definition chain_tuples (id : Z) (c : chain) : option (list tuple) :=
  if ch_drop c =? 1 then Some [] else
  match parse_all (ch_dsts c) with
  | None => None
  | Some ds =>
    if ch_drop c =? 2 then Some [] else
    if negb ((0 <=? ch_stype c) && (ch_stype c <=? 2)) then None else
    match parse_all (ch_srcs c) with
    | None => None
    | Some ss =>
      Some (flat_map (fun d => flat_map (fun s =>
              map (fun p => (d, ch_stype c, s, p, id)) (ports_of (ch_ports c)))
            (keys_of ss)) (keys_of ds))
    end
  end.

Fixpoint expand (id : Z) (cs : list chain) : option (list tuple) :=
  match cs with
  | [] => Some []
  | c :: r => match chain_tuples id c, expand (id + 1) r with
              | Some a, Some b => Some (a ++ b)
              | _, _ => None
              end
  end.

(* processServerSideListener: buildFilterChainMap, then "no supported filter chains
   and no default filter chain" *)
Definition validate (has_default : bool) (cs : list chain) : option dmap :=
  match expand 1 cs with
  | None => None
  | Some ts =>
    match ins_all ts [] with
    | None => None
    | Some m => match m with
                | [] => if has_default then Some m else None
                | _ => Some m
                end
    end
  end.

(* ---- lookup ---- *)
(* matchSize: -2 no match, -1 unspecified prefix, else the prefix length *)
Definition score (a : addr) (p : pfx) : Z :=
  match p with
  | None => -1
  | Some q => if contains q a then snd q else -2
  end.

(* the "most bits" loops of filterByDestinationPrefixes / filterBySourcePrefixes *)
Fixpoint best_loop {A} (sc : A -> Z) (mx : Z) (acc : list A) (l : list A) : list A :=
  match l with
  | [] => acc
  | x :: r =>
    let s := sc x in
    if s =? -2 then best_loop sc mx acc r
    else if s <? mx then best_loop sc mx acc r
    else if s >? mx then best_loop sc s [x] r
    else best_loop sc mx (acc ++ [x]) r
  end.
Definition best_by {A} (sc : A -> Z) (l : list A) : list A := best_loop sc (-2) [] l.

Definition stage1 (m : dmap) (wildcard : bool) (dst : addr) : dmap :=
  if wildcard then best_by (fun e => score dst (fst e)) m else m.

(* filterBySourceType *)
Fixpoint stage2_loop (st best : Z) (acc : list smap) (l : dmap) : list smap :=
  match l with
  | [] => acc
  | (_, tm) :: r =>
    let specific := get Z.eqb st tm in
    let mt := match specific with Some _ => st | None => 0 end in
    let sp := match specific with Some _ => specific | None => get Z.eqb 0 tm end in
    if mt <? best then stage2_loop st best acc r
    else
      let best' := if mt >? best then mt else best in
      let acc' := if mt >? best then [] else acc in
      stage2_loop st best' (match sp with Some sm => acc' ++ [sm] | None => acc' end) r
  end.
Definition stage2 (st : Z) (l : dmap) : list smap := stage2_loop st 0 [] l.

(* filterBySourcePrefixes: the candidate entries, most specific ones *)
Definition stage3 (src : addr) (sps : list smap) : smap :=
  best_by (fun e => score src (fst e)) (concat sps).

(* filterBySourcePorts: a nil *filterChain is id 0 *)
Definition stage4 (pm : pmap) (port : Z) : Z :=
  match get Z.eqb port pm with
  | Some id => if id =? 0 then match get Z.eqb 0 pm with Some id0 => id0 | None => 0 end else id
  | None => match get Z.eqb 0 pm with Some id0 => id0 | None => 0 end
  end.

Definition is_loopback (a : addr) : bool :=
  if fst a =? 4 then snd a / 2 ^ 24 =? 127 else snd a =? 1.
Definition addr_eqb (a b : addr) : bool := (fst a =? fst b) && (snd a =? snd b).

Inductive result := RChain (id : Z) | RDefault | RNoMatch | RMultiple.

Definition fallback (has_default : bool) : result := if has_default then RDefault else RNoMatch.

(* filterChainManager.lookup *)
Definition lookup (m : dmap) (has_default wildcard : bool) (dst src : addr) (port : Z) : result :=
  match stage1 m wildcard dst with
  | [] => fallback has_default
  | ds =>
    let st := if addr_eqb src dst || is_loopback src then 1 else 2 in
    match stage2 st ds with
    | [] => fallback has_default
    | sps =>
      match stage3 src sps with
      | [] => fallback has_default
      | [e] => let id := stage4 (snd e) port in
               if id =? 0 then fallback has_default else RChain id
      | _ => RMultiple
      end
    end
  end.

(* ---- the literal reading of two sentences, on the flat list of slots ----
   "some chain matches": a slot all of whose criteria match the connection *)
Definition tuple_matches (wildcard : bool) (dst src : addr) (port : Z) (t : tuple) : bool :=
  let '(d, st, s, p, _) := t in
  let actual := if addr_eqb src dst || is_loopback src then 1 else 2 in
  (negb wildcard || negb (score dst d =? -2)) &&
  ((st =? 0) || (st =? actual)) &&
  negb (score src s =? -2) &&
  ((p =? 0) || (p =? port)).

(* ---- wire format ---- *)
Definition w32 (x : Z) : bool := (0 <=? x) && (x <? 2 ^ 32).
Definition p_addr (w : list Z) : option (addr * list Z) :=
  match w with
  | 4 :: v :: w' => if w32 v then Some ((4, v), w') else None
  | 6 :: a :: b :: c :: d :: w' =>
    if w32 a && w32 b && w32 c && w32 d
    then Some ((6, ((a * 2 ^ 32 + b) * 2 ^ 32 + c) * 2 ^ 32 + d), w') else None
  | _ => None
  end.
Definition p_raw (w : list Z) : option (rawpfx * list Z) :=
  match p_addr w with
  | Some ((f, v), l :: w') => if (l <? 0) || (l >? 4294967295) then None else Some ((f, v, l), w')
  | _ => None
  end.

Fixpoint p_rep {A} (p : list Z -> option (A * list Z)) (n : nat) (w : list Z) : option (list A * list Z) :=
  match n with
  | O => Some ([], w)
  | S n' => match p w with
            | None => None
            | Some (a, r) => match p_rep p n' r with
                             | None => None
                             | Some (l, r') => Some (a :: l, r')
                             end
            end
  end.
Definition p_list {A} (p : list Z -> option (A * list Z)) (w : list Z) : option (list A * list Z) :=
  match w with
  | n :: r => if (n <? 0) || (n >? 1000) then None else p_rep p (Z.to_nat n) r
  | [] => None
  end.
Definition p_port (w : list Z) : option (Z * list Z) :=
  match w with
  | p :: w' => if w32 p then Some (p, w') else None
  | [] => None
  end.

(* chain = drop, list raw (dst), source type, list raw (src), list port *)
Definition p_chain (w : list Z) : option (chain * list Z) :=
  match w with
  | drop :: w1 =>
    if (drop <? 0) || (drop >? 2) then None else
    match p_list p_raw w1 with
    | Some (ds, st :: w2) =>
      if (st <? 0) || (st >? 3) then None else
      match p_list p_raw w2 with
      | Some (ss, w3) =>
        match p_list p_port w3 with
        | Some (ps, w') => Some (mkchain drop ds st ss ps, w')
        | None => None
        end
      | None => None
      end
    | _ => None
    end
  | [] => None
  end.

Inductive dop :=
| OLoad (has_default : bool) (cs : list chain)          (* [1; default; chains]  obs [ok] *)
| OLook (wildcard : bool) (dst src : addr) (port : Z)    (* [2; wildcard; dst; src; port]  obs [kind; id] *)
| OAccept (wildcard : bool) (dst src : addr) (port : Z).
  (* [3; wildcard; dst zoned; src zoned; dst; src; port]  the connection goes through the real
     listenerWrapper.Accept(); the TCPAddrs may carry an IPv6 zone, which is not part of the
     address.  obs [0; id] | [1; 0] | [5; 0] connection closed (no match or tie) | [4; 0] *)

Definition p_bool (x : Z) : option bool :=
  if x =? 0 then Some false else if x =? 1 then Some true else None.

Definition decode_op (op : word) : option dop :=
  match op with
  | 1 :: hd :: w =>
    match p_bool hd, p_list p_chain w with
    | Some b, Some (cs, []) => Some (OLoad b cs)
    | _, _ => None
    end
  | 2 :: wc :: w =>
    match p_bool wc, p_addr w with
    | Some b, Some (dst, w1) =>
      match p_addr w1 with
      | Some (src, [port]) =>
        if (port <? 0) || (port >? 65535) then None else Some (OLook b (unmap dst) (unmap src) port)
      | _ => None
      end
    | _, _ => None
    end
  | 3 :: wc :: zd :: zs :: w =>
    match p_bool wc, p_bool zd, p_bool zs, p_addr w with
    | Some b, Some _, Some _, Some (dst, w1) =>
      match p_addr w1 with
      | Some (src, [port]) =>
        if (port <? 0) || (port >? 65535) then None else Some (OAccept b (unmap dst) (unmap src) port)
      | _ => None
      end
    | _, _, _, _ => None
    end
  | _ => None
  end.

Fixpoint decode_ops (ops : list word) : option (list dop) :=
  match ops with
  | [] => Some []
  | op :: r => match decode_op op, decode_ops r with
               | Some d, Some ds => Some (d :: ds)
               | _, _ => None
               end
  end.

(* ---- traces ---- *)
Definition res_word (r : result) : word :=
  match r with
  | RChain id => [0; id]
  | RDefault => [1; 0]
  | RNoMatch => [2; 0]
  | RMultiple => [3; 0]
  end.

(* state: the validated listener (its map and whether it has a default chain) *)
Definition state := option (dmap * bool).

Definition look_word (st : state) (wc : bool) (dst src : addr) (port : Z) : word :=
  match st with
  | None => [4; 0]
  | Some (m, hd) => res_word (lookup m hd wc dst src port)
  end.

(* Accept(): a lookup error closes the connection *)
Definition accept_word (st : state) (wc : bool) (dst src : addr) (port : Z) : word :=
  match st with
  | None => [4; 0]
  | Some (m, hd) => match lookup m hd wc dst src port with
                    | RChain id => [0; id]
                    | RDefault => [1; 0]
                    | _ => [5; 0]
                    end
  end.

Fixpoint run_d (st : state) (ops : list dop) : list word :=
  match ops with
  | [] => []
  | OLoad hd cs :: r =>
    match validate hd cs with
    | Some m => [1] :: run_d (Some (m, hd)) r
    | None => [0] :: run_d None r
    end
  | OLook wc dst src port :: r => look_word st wc dst src port :: run_d st r
  | OAccept wc dst src port :: r => accept_word st wc dst src port :: run_d st r
  end.

Definition run (ops : list word) : option (list word) :=
  match decode_ops ops with
  | Some ds => Some (run_d None ds)
  | None => None
  end.

(* ---- the property on an observed trace ----
   clause 1: a lookup on a validated listener returns what the reference
             most-specific-match lookup returns
   clause 2: the listener is accepted exactly when the reference validation accepts it
             (two chains occupying the same slot = a tie = rejected)
   clause 3: observation shape
   clause 4 (refuted, literal reading): the default chain / no-match error is used only
             when no chain's criteria all match the connection
   clause 5 (refuted, literal reading): a validated listener never yields the
             "multiple matching filter chains" lookup error
   What is loaded follows the reference validation (clause 2 ties the two together). *)
Definition slots (cs : list chain) : list tuple :=
  match expand 1 cs with Some ts => ts | None => [] end.

(* sync = the implementation's verdict on the loaded listener equals the reference's; when
   it does not (clause 2 is false there) the lookups on that listener cannot be compared
   with a reference map and clause 1 is not evaluated until the next load *)
Fixpoint main_clauses (sync : bool) (st : state) (ops : list dop) (obs : list word) : list (Z * Z * bool) :=
  match ops, obs with
  | [], [] => []
  | OLoad hd cs :: r, [ok] :: r' =>
    match validate hd cs with
    | Some m => (2, 1, ok =? 1) :: main_clauses (ok =? 1) (Some (m, hd)) r r'
    | None => (2, 0, ok =? 0) :: main_clauses (ok =? 0) None r r'
    end
  | OLook wc dst src port :: r, o :: r' =>
    (1, 0, negb sync || word_eqb o (look_word st wc dst src port)) :: main_clauses sync st r r'
  | OAccept wc dst src port :: r, o :: r' =>
    (1, 1, negb sync || word_eqb o (accept_word st wc dst src port)) :: main_clauses sync st r r'
  | _, _ => [(3, -1, false)]
  end.

Fixpoint lit_clauses (st : option (list tuple)) (ops : list dop) (obs : list word) : list (Z * Z * bool) :=
  match ops, obs with
  | OLoad hd cs :: r, [ok] :: r' =>
    lit_clauses (if ok =? 1 then Some (slots cs) else None) r r'
  | OLook wc dst src port :: r, [kind; _] :: r' =>
    match st with
    | None => lit_clauses st r r'
    | Some ts =>
      (4, kind, negb (((kind =? 1) || (kind =? 2)) && existsb (tuple_matches wc dst src port) ts)) ::
      (5, kind, negb (kind =? 3)) :: lit_clauses st r r'
    end
  | _ :: r, _ :: r' => lit_clauses st r r'
  | _, _ => []
  end.

Definition clauses (ops : list word) (obs : list word) : list (Z * Z * bool) :=
  match decode_ops ops with
  | Some ds => main_clauses true None ds obs ++ lit_clauses None ds obs
  | None => [(0, 0, false)]
  end.

(* all clauses but the refuted literal readings (4, 5) *)
Definition holds_b (ops obs : list word) : bool :=
  forallb (fun c => (fst (fst c) =? 4) || (fst (fst c) =? 5) || snd c) (clauses ops obs).

Definition ops_wf (ops : list word) : bool :=
  match decode_ops ops with Some _ => true | None => false end.

Definition check_case (c : case) : verdict :=
  decide (run (c_ops c)) (c_obs c) (clauses (c_ops c) (c_obs c)).
