(* C57: expiring cache and one-shot primitives.  Transcribes
     internal/cache/timeoutCache.go   (TimeoutCache: Add / Remove / Clear / Len + the timer function)
     internal/grpcsync/event.go       (Event: Fire / HasFired / Done)
     internal/grpcsync/refcounted.go  (RefCounted: TryIncrement / Increment / Decrement)
   Granularity: a TimeoutCache method body under c.mu is one step; "the runtime fires the
   timer" (after which timer.Stop() returns false), "the timer function runs its locked part"
   and "a callback runs (outside the lock)" are separate steps; every sync/atomic call of Event
   and RefCounted is one step.  No proofs in this file. *)
From Coq Require Import List ZArith Bool.
From VLib Require Import Codec Machine.
Import ListNotations.
Open Scope Z_scope.

(* ================= TimeoutCache ================= *)
Inductive tm := TArmed | TFired | TStopped | TRan.
Definition tm_eqb (a b : tm) : bool :=
  match a, b with TArmed, TArmed | TFired, TFired | TStopped, TStopped | TRan, TRan => true | _, _ => false end.

(* one cacheEntry ever created.  eid identifies it (pointer identity: fresh per Add);
   ein = it is the value of c.cache[ekey]; edel = entry.deleted; etm = state of entry.timer;
   ghost: epend = its callback has been handed over to run outside the lock and has not run yet,
   ewant = Clear(true) took it, ecb = callback runs, eret = times returned by Remove,
   eclr = times taken by Clear, edl = deadline (used only by the timed driver semantics) *)
Record ent := mkent { eid : Z; eitem : Z; ekey : Z; edl : Z; etm : tm; ein : bool; edel : bool;
                      epend : bool; ewant : bool; ecb : Z; eret : Z; eclr : Z }.

Definition new_ent (id v k dl : Z) : ent := mkent id v k dl TArmed true false false false 0 0 0.

(* removeInternal on the entry found under the key *)
Definition rm_internal (e : ent) : ent :=
  mkent (eid e) (eitem e) (ekey e) (edl e)
        (match etm e with TArmed => TStopped | t => t end)       (* timer.Stop() succeeds iff armed *)
        false
        (match etm e with TArmed => edel e | _ => true end)       (* !Stop() => deleted = true *)
        (epend e) (ewant e) (ecb e) (eret e) (eclr e).
Definition removed (e : ent) : ent :=
  let e' := rm_internal e in
  mkent (eid e') (eitem e') (ekey e') (edl e') (etm e') (ein e') (edel e') (epend e') (ewant e') (ecb e') (eret e' + 1) (eclr e').
Definition cleared (r : bool) (e : ent) : ent :=
  let e' := rm_internal e in
  mkent (eid e') (eitem e') (ekey e') (edl e') (etm e') (ein e') (edel e') (epend e' || r) (ewant e' || r) (ecb e') (eret e') (eclr e' + 1).
Definition fire (e : ent) : ent :=
  mkent (eid e) (eitem e) (ekey e) (edl e) (match etm e with TArmed => TFired | t => t end)
        (ein e) (edel e) (epend e) (ewant e) (ecb e) (eret e) (eclr e).
(* the timer function's locked part for its own entry: if deleted return; else callback follows *)
Definition ran (e : ent) : ent :=
  mkent (eid e) (eitem e) (ekey e) (edl e) TRan (ein e) (edel e) (epend e || negb (edel e)) (ewant e)
        (ecb e) (eret e) (eclr e).
Definition unmap (e : ent) : ent :=   (* delete(c.cache, key) hits this entry *)
  mkent (eid e) (eitem e) (ekey e) (edl e) (etm e) false (edel e) (epend e) (ewant e) (ecb e) (eret e) (eclr e).
Definition cbrun (e : ent) : ent :=
  mkent (eid e) (eitem e) (ekey e) (edl e) (etm e) (ein e) (edel e) false (ewant e) (ecb e + 1) (eret e) (eclr e).

Definition lookup (k : Z) (es : list ent) : option ent := find (fun e => ein e && (ekey e =? k)) es.
Definition byid (v : Z) (es : list ent) : option ent := find (fun e => eid e =? v) es.

Inductive xop := XAdd (k v dl : Z) | XRemove (k : Z) | XClear (r : bool)
               | XFire (v : Z) | XRun (v : Z) | XCb (v : Z).

(* result of Add / Remove: (item, ok) *)
Definition xstep (es : list ent) (o : xop) : list ent * (Z * bool) :=
  match o with
  | XAdd k v dl =>
    match lookup k es with
    | Some e => (es, (eitem e, false))
    | None => (es ++ [new_ent (Z.of_nat (length es)) v k dl], (v, true))
    end
  | XRemove k =>
    match lookup k es with
    | Some e => (map (fun e => if ein e && (ekey e =? k) then removed e else e) es, (eitem e, true))
    | None => (es, (0, false))
    end
  | XClear r => (map (fun e => if ein e then cleared r e else e) es, (0, true))
  | XFire v => (map (fun e => if eid e =? v then fire e else e) es, (0, true))
  | XRun v =>
    match byid v es with
    | Some e0 =>
      if tm_eqb (etm e0) TFired then
        if edel e0 then (map (fun e => if eid e =? v then ran e else e) es, (0, true))
        else (* delete(c.cache, key) -- by key, whatever entry is there -- then the callback *)
          (map (fun e => let e1 := if eid e =? v then ran e else e in
                         if ein e1 && (ekey e1 =? ekey e0) then unmap e1 else e1) es, (0, true))
      else (es, (0, false))
    | None => (es, (0, false))
    end
  | XCb v => (map (fun e => if (eid e =? v) && epend e then cbrun e else e) es, (0, true))
  end.

Fixpoint xsteps (es : list ent) (l : list xop) : list ent :=
  match l with [] => es | o :: r => xsteps (fst (xstep es o)) r end.

(* ---- timed semantics used by the driver (synctest: after every op all due timers have run) ---- *)
Record cst := mkcst { cents : list ent; cnow : Z; ctmo : Z }.
Definition due (now : Z) (e : ent) : bool := ein e && tm_eqb (etm e) TArmed && (edl e <=? now).
Definition expired (e : ent) : ent := cbrun (unmap (ran (fire e))).
Definition pendids (es : list ent) : list Z := map eitem (filter epend es).
Definition flush (es : list ent) : list ent := map (fun e => if epend e then cbrun e else e) es.

(* driver ops:  [1;k;v] Add(k, v, cb v)  obs [item; ok]      [2;k] Remove(k)  obs [item; ok]
                [3;r] Clear(r)  obs callbacks run (ascending) [4;d] advance time by d  obs callbacks run
                [5] Len  obs [n] *)
Fixpoint insert_sorted (x : Z) (l : list Z) : list Z :=
  match l with [] => [x] | y :: r => if x <=? y then x :: l else y :: insert_sorted x r end.
Definition sortz (l : list Z) : list Z := fold_right insert_sorted [] l.

Definition cstep (c : cst) (op : word) : option (cst * word) :=
  match op with
  | [1; k; v] =>
    let '(es, (it, ok)) := xstep (cents c) (XAdd k v (cnow c + ctmo c)) in
    Some (mkcst es (cnow c) (ctmo c), [it; b2z ok])
  | [2; k] =>
    let '(es, (it, ok)) := xstep (cents c) (XRemove k) in
    Some (mkcst es (cnow c) (ctmo c), [it; b2z ok])
  | [3; r] =>
    let es := fst (xstep (cents c) (XClear (negb (r =? 0)))) in
    Some (mkcst (flush es) (cnow c) (ctmo c), sortz (pendids es))
  | [4; d] =>
    if d <? 0 then None else
    let now := cnow c + d in
    Some (mkcst (map (fun e => if due now e then expired e else e) (cents c)) now (ctmo c),
          sortz (map eitem (filter (due now) (cents c))))
  | [5] => Some (c, [Z.of_nat (length (filter ein (cents c)))])
  | _ => None
  end.

Fixpoint cexec (c : cst) (ops : list word) : option (list word) :=
  match ops with
  | [] => Some []
  | op :: r => match cstep c op with
               | Some (c', o) => option_map (cons o) (cexec c' r)
               | None => None
               end
  end.

(* ================= Event ================= *)
(* vtoclose = threads that won the CAS and have not executed close(e.c) yet;
   vclosed = number of close(e.c) executed (2 would be a panic) *)
Record evs := mkevs { vfired : bool; vtoclose : Z; vclosed : Z }.
Definition evs0 := mkevs false 0 0.
Inductive vop := VCas | VClose | VHas | VDone.
Definition vstep (s : evs) (o : vop) : evs * Z :=
  match o with
  | VCas => if vfired s then (s, 0) else (mkevs true (vtoclose s + 1) (vclosed s), 1)
  | VClose => if 0 <? vtoclose s then (mkevs (vfired s) (vtoclose s - 1) (vclosed s + 1), 1) else (s, 0)
  | VHas => (s, b2z (vfired s))
  | VDone => (s, b2z (0 <? vclosed s))
  end.
Fixpoint vsteps (s : evs) (l : list vop) : evs * list Z :=
  match l with
  | [] => (s, [])
  | o :: r => let (s1, x) := vstep s o in let (s2, xs) := vsteps s1 r in (s2, x :: xs)
  end.
(* results of the CAS steps = return values of the Fire calls *)
Fixpoint fire_rets (l : list vop) (xs : list Z) : list Z :=
  match l, xs with
  | VCas :: r, x :: xs' => x :: fire_rets r xs'
  | _ :: r, _ :: xs' => fire_rets r xs'
  | _, _ => []
  end.

(* stress op [4;n;g]: n rounds, each with a fresh Event and g goroutines calling Fire at once;
   obs [number of rounds in which the number of true results was not exactly 1].  The model
   evaluates one schedule (all CASes, then the closes); C57_event_fire_once says every schedule
   gives the same count *)
Fixpoint zsum (l : list Z) : Z := match l with [] => 0 | x :: r => x + zsum r end.
Definition stress_bad (g : Z) : Z :=
  let l := repeat VCas (Z.to_nat g) ++ repeat VClose (Z.to_nat g) in
  if zsum (fire_rets l (snd (vsteps evs0 l))) =? 1 then 0 else 1.
(* driver: [1] Fire() obs [ret]   [2] HasFired() obs [b]   [3] Done() closed? obs [b] *)
Definition estep (s : evs) (op : word) : option (evs * word) :=
  match op with
  | [4; n; g] => if (0 <=? n) && (1 <=? g) && (g <=? 64) then Some (s, [n * stress_bad g]) else None
  | [1] => let (s1, r) := vstep s VCas in let (s2, _) := vstep s1 VClose in Some (s2, [r])
  | [2] => Some (s, [snd (vstep s VHas)])
  | [3] => Some (s, [snd (vstep s VDone)])
  | _ => None
  end.
Fixpoint eexec (s : evs) (ops : list word) : option (list word) :=
  match ops with
  | [] => Some []
  | op :: r => match estep s op with
               | Some (s', o) => option_map (cons o) (eexec s' r)
               | None => None
               end
  end.

(* ================= RefCounted ================= *)
(* rcnt = refCount (int32); rzeros = number of onZero runs; rloc = per-thread value read by the
   Load of TryIncrement's loop (None = at the top of the loop) *)
Record rcs := mkrcs { rcnt : Z; rzeros : Z; rloc : list (Z * Z) }.
Definition rcs0 := mkrcs 1 0 [].
Inductive rop := RLoad (t : Z) | RCas (t : Z) | RInc | RDec.
Fixpoint getloc (t : Z) (l : list (Z * Z)) : option Z :=
  match l with [] => None | (t', v) :: r => if t =? t' then Some v else getloc t r end.
Definition setloc (t v : Z) (l : list (Z * Z)) : list (Z * Z) :=
  (t, v) :: filter (fun p => negb (t =? fst p)) l.
Definition clrloc (t : Z) (l : list (Z * Z)) : list (Z * Z) := filter (fun p => negb (t =? fst p)) l.
(* result of RCas: 0 = TryIncrement returns false, 1 = returns true, 2 = CAS failed, loop again,
   3 = nothing loaded (no-op) *)
Definition rstep (s : rcs) (o : rop) : rcs * Z :=
  match o with
  | RLoad t => (mkrcs (rcnt s) (rzeros s) (setloc t (rcnt s) (rloc s)), 0)
  | RCas t =>
    match getloc t (rloc s) with
    | None => (s, 3)
    | Some c =>
      if c <=? 0 then (mkrcs (rcnt s) (rzeros s) (clrloc t (rloc s)), 0) else
      if rcnt s =? c then (mkrcs (i32 (c + 1)) (rzeros s) (clrloc t (rloc s)), 1)
      else (mkrcs (rcnt s) (rzeros s) (clrloc t (rloc s)), 2)
    end
  | RInc => (mkrcs (i32 (rcnt s + 1)) (rzeros s) (rloc s), 0)
  | RDec => let v := i32 (rcnt s - 1) in
            (mkrcs v (if v =? 0 then rzeros s + 1 else rzeros s) (rloc s), 0)
  end.
Fixpoint rsteps (s : rcs) (l : list rop) : rcs * list Z :=
  match l with
  | [] => (s, [])
  | o :: r => let (s1, x) := rstep s o in let (s2, xs) := rsteps s1 r in (s2, x :: xs)
  end.
(* the usage contract: Decrement / Increment only by a holder of a reference (count > 0),
   and the count stays below MaxInt32 *)
Definition rguard (s : rcs) (o : rop) : bool :=
  match o with
  | RLoad _ => true
  | RCas t => match getloc t (rloc s) with Some c => c <? max_i32 | None => true end
  | RInc => (0 <? rcnt s) && (rcnt s <? max_i32)
  | RDec => 0 <? rcnt s
  end.
Fixpoint rwf (s : rcs) (l : list rop) : bool :=
  match l with [] => true | o :: r => rguard s o && rwf (fst (rstep s o)) r end.

(* driver: [1] TryIncrement() obs [ret]   [2] Decrement() obs [zeros]   [3] Increment() obs [zeros] *)
Definition qstep (s : rcs) (op : word) : option (rcs * word) :=
  match op with
  | [1] => let (s1, _) := rstep s (RLoad 0) in let (s2, r) := rstep s1 (RCas 0) in Some (s2, [r])
  | [2] => let (s1, _) := rstep s RDec in Some (s1, [rzeros s1])
  | [3] => let (s1, _) := rstep s RInc in Some (s1, [rzeros s1])
  | _ => None
  end.
Fixpoint qexec (s : rcs) (ops : list word) : option (list word) :=
  match ops with
  | [] => Some []
  | op :: r => match qstep s op with
               | Some (s', o) => option_map (cons o) (qexec s' r)
               | None => None
               end
  end.

(* ---- kind 4: the fired-but-not-yet-locked window, forced on the real code ----
   driver op [1;n]: n times { Add(k, timeout 1ms); lock c.mu from outside; start Remove(k) (it
   queues on the mutex); wait until the timer has fired (its function queues behind Remove);
   unlock }.  obs [v1; v2]: v1 = iterations where Remove returned true and the callback ran
   anyway, v2 = iterations where the callback ran twice, or Remove returned false and the callback
   did not run exactly once.  The model evaluates both possible lock orders on the fine-grained
   steps. *)
Definition win_viol (es : list ent) : Z * Z :=
  fold_right (fun e acc =>
    (fst acc + b2z ((1 <=? eret e) && ((0 <? ecb e) || epend e)),
     snd acc + b2z ((1 <? ecb e) || ((eret e =? 0) && negb (ecb e =? 1))))) (0, 0) es.
Definition win_remove_first : list xop := [XAdd 1 1 0; XFire 0; XRemove 1; XRun 0; XCb 0].
Definition win_timer_first : list xop := [XAdd 1 1 0; XFire 0; XRun 0; XCb 0; XRemove 1].
(* op [2;n;r]: the same window with Clear(r <> 0) in place of Remove.  obs [v1; v2]:
   v1 = (r <> 0) iterations in which the callback did not run exactly once,
   v2 = (r = 0) 1 if in more than half of the iterations the callback ran although Clear was
   queued on the mutex before the timer fired (Clear has no result, so a single iteration cannot
   tell a lost race from a violation; the forced order makes losing rare) *)
Definition cb_total (es : list ent) : Z := fold_right (fun e acc => ecb e + acc) 0 es.
Definition win_clear_first (r : bool) : list xop := [XAdd 1 1 0; XFire 0; XClear r; XRun 0; XCb 0].
Definition win_timer_clear (r : bool) : list xop := [XAdd 1 1 0; XFire 0; XRun 0; XCb 0; XClear r; XCb 0].
Definition wstep (op : word) : option word :=
  match op with
  | [1; n] =>
    if n <? 0 then None else
    let a := win_viol (xsteps [] win_remove_first) in
    let b := win_viol (xsteps [] win_timer_first) in
    Some [n * (fst a + fst b); n * (snd a + snd b)]
  | [2; n; r] =>
    if n <? 0 then None else
    let rb := negb (r =? 0) in
    let k1 := cb_total (xsteps [] (win_clear_first rb)) in
    let k2 := cb_total (xsteps [] (win_timer_clear rb)) in
    Some [if rb then n * (b2z (negb (k1 =? 1)) + b2z (negb (k2 =? 1))) else 0;
          if rb then 0 else b2z (negb (k1 =? 0))]
  | _ => None
  end.
Fixpoint wexec (ops : list word) : option (list word) :=
  match ops with
  | [] => Some []
  | op :: r => match wstep op with Some o => option_map (cons o) (wexec r) | None => None end
  end.

(* ================= run ================= *)
Definition run (cfg : word) (ops : list word) : option (list word) :=
  match cfg with
  | [1; tmo] => if tmo <? 1 then None else cexec (mkcst [] 0 tmo) ops
  | [2] => eexec evs0 ops
  | [3] => qexec rcs0 ops
  | [4] => wexec ops
  | _ => None
  end.

(* ================= the property as monitors =================
   clause ids
    1 cache: Add returns (item, true) iff the key is absent, else (existing item, false)
    2 cache: Remove returns (item, true) iff the key is present (so an entry goes to one caller)
    3 cache: a callback runs at most once, and never for an entry handed out by Remove or
      dropped by Clear(false)
    4 cache: the callbacks run during an op are exactly those of the entries that expired during
      it (advance) or were present at Clear(true); none during Add/Remove/Len/Clear(false)
    5 cache: Len = number of present entries
    6 event: exactly the first Fire returns true
    7 event: HasFired / Done-closed iff some Fire happened
    8 refcount (while the usage contract holds): TryIncrement succeeds iff the count is positive
    9 refcount (while the usage contract holds): onZero has run exactly once iff the count
      reached zero, never twice
   10 cache, forced timer window: no callback for an entry that Remove handed out
   11 cache, forced timer window: never twice; exactly once when Remove came too late
   12 event, stress: in every round of g concurrent Fire calls exactly one returns true
   13 cache, forced timer window with Clear(true): the callback runs exactly once
   14 cache, forced timer window with Clear(false): the callback does not run *)
Definition cl := (Z * Z * bool)%type.

(* cache monitor: present entries (key, item, deadline) in insertion order; gone = items whose
   callback must never run (any more) *)
Record mon1 := mkm1 { mpres : list (Z * Z * Z); mgone : list Z; mnow : Z; mtmo : Z }.
Fixpoint memz (x : Z) (l : list Z) : bool :=
  match l with [] => false | y :: r => (x =? y) || memz x r end.
Definition pkey (p : Z * Z * Z) := fst (fst p).
Definition pitem (p : Z * Z * Z) := snd (fst p).
Definition pdl (p : Z * Z * Z) := snd p.
Definition plook (k : Z) (l : list (Z * Z * Z)) := find (fun p => pkey p =? k) l.
Fixpoint word_all_not_in (w : word) (l : list Z) : bool :=
  match w with [] => true | x :: r => negb (memz x l) && word_all_not_in r l end.

Definition clause1 (m : mon1) (op obs : word) : mon1 * list cl :=
  match op with
  | [1; k; v] =>
    match plook k (mpres m) with
    | Some p => (m, [(1, k, word_eqb obs [pitem p; 0])])
    | None => (mkm1 (mpres m ++ [(k, v, mnow m + mtmo m)]) (mgone m) (mnow m) (mtmo m),
               [(1, k, word_eqb obs [v; 1])])
    end
  | [2; k] =>
    match plook k (mpres m) with
    | Some p => (mkm1 (filter (fun q => negb (pkey q =? k)) (mpres m)) (pitem p :: mgone m) (mnow m) (mtmo m),
                 [(2, k, word_eqb obs [pitem p; 1])])
    | None => (m, [(2, k, word_eqb obs [0; 0])])
    end
  | [3; r] =>
    let ids := sortz (map pitem (mpres m)) in
    (mkm1 [] (map pitem (mpres m) ++ mgone m) (mnow m) (mtmo m),
     [(3, 0, word_all_not_in obs (mgone m));
      (4, 0, word_eqb obs (if r =? 0 then [] else ids))])
  | [4; d] =>
    let now := mnow m + d in
    let dueb := fun p => pdl p <=? now in
    (mkm1 (filter (fun p => negb (dueb p)) (mpres m)) (map pitem (filter dueb (mpres m)) ++ mgone m) now (mtmo m),
     [(3, 1, word_all_not_in obs (mgone m));
      (4, 1, word_eqb obs (sortz (map pitem (filter dueb (mpres m)))))])
  | [5] => (m, [(5, 0, word_eqb obs [Z.of_nat (length (mpres m))])])
  | _ => (m, [(0, 0, false)])
  end.
Fixpoint clauses1 (m : mon1) (ops obs : list word) : list cl :=
  match ops, obs with
  | op :: r, o :: r' => let (m', c) := clause1 m op o in c ++ clauses1 m' r r'
  | [], [] => []
  | _, _ => [(0, 0, false)]
  end.

(* event monitor: has a Fire happened *)
Definition clause2 (f : bool) (op obs : word) : bool * list cl :=
  match op with
  | [1] => (true, [(6, 0, word_eqb obs [b2z (negb f)])])
  | [2] => (f, [(7, 0, word_eqb obs [b2z f])])
  | [3] => (f, [(7, 1, word_eqb obs [b2z f])])
  | [4; n; _] => (f, [(12, n, word_eqb obs [0])])
  | _ => (f, [(0, 0, false)])
  end.
Fixpoint clauses2 (f : bool) (ops obs : list word) : list cl :=
  match ops, obs with
  | op :: r, o :: r' => let (f', c) := clause2 f op o in c ++ clauses2 f' r r'
  | [], [] => []
  | _, _ => [(0, 0, false)]
  end.

(* refcount monitor: held = references held according to the ops; ok = contract respected so far *)
Record mon3 := mkm3 { mheld : Z; mok : bool }.
Definition clause3 (m : mon3) (op obs : word) : mon3 * list cl :=
  if negb (mok m) then (m, match op with [1] | [2] | [3] => [] | _ => [(0, 0, false)] end) else
  match op with
  | [1] =>
    if max_i32 <=? mheld m then (mkm3 (mheld m) false, []) else
    if 0 <? mheld m then (mkm3 (mheld m + 1) true, [(8, mheld m, word_eqb obs [1])])
    else (m, [(8, 0, word_eqb obs [0])])
  | [2] =>
    if 0 <? mheld m
    then (mkm3 (mheld m - 1) true, [(9, mheld m, word_eqb obs [if mheld m =? 1 then 1 else 0])])
    else (mkm3 (mheld m) false, [])
  | [3] =>
    if (0 <? mheld m) && (mheld m <? max_i32)
    then (mkm3 (mheld m + 1) true, [(9, mheld m, word_eqb obs [0])])
    else (mkm3 (mheld m) false, [])
  | _ => (m, [(0, 0, false)])
  end.
Fixpoint clauses3 (m : mon3) (ops obs : list word) : list cl :=
  match ops, obs with
  | op :: r, o :: r' => let (m', c) := clause3 m op o in c ++ clauses3 m' r r'
  | [], [] => []
  | _, _ => [(0, 0, false)]
  end.

Fixpoint clauses4 (ops obs : list word) : list cl :=
  match ops, obs with
  | [1; n] :: r, [v1; v2] :: r' => (10, n, v1 =? 0) :: (11, n, v2 =? 0) :: clauses4 r r'
  | [2; n; _] :: r, [v1; v2] :: r' => (13, n, v1 =? 0) :: (14, n, v2 =? 0) :: clauses4 r r'
  | [], [] => []
  | _, _ => [(0, 0, false)]
  end.

Definition clauses (cfg : word) (ops obs : list word) : list cl :=
  match cfg with
  | [1; tmo] => clauses1 (mkm1 [] [] 0 tmo) ops obs
  | [2] => clauses2 false ops obs
  | [3] => clauses3 (mkm3 1 true) ops obs
  | [4] => clauses4 ops obs
  | _ => [(0, 0, false)]
  end.
Definition holds_b (cfg : word) (ops obs : list word) : bool :=
  forallb (fun c => snd c) (clauses cfg ops obs).
Definition check_case (c : case) : verdict :=
  decide (run (c_cfg c) (c_ops c)) (c_obs c) (clauses (c_cfg c) (c_ops c) (c_obs c)).

(* ---- well-formed driver op lists ---- *)
(* cache: items identify entries, so Add items are pairwise distinct and non-negative durations *)
Fixpoint wf1 (seen : list Z) (ops : list word) : bool :=
  match ops with
  | [] => true
  | [1; _; v] :: r => negb (memz v seen) && wf1 (v :: seen) r
  | [2; _] :: r | [3; _] :: r | [5] :: r => wf1 seen r
  | [4; d] :: r => (0 <=? d) && wf1 seen r
  | _ => false
  end.
Definition op_wf2 (op : word) : bool := match op with [1] | [2] | [3] => true | _ => false end.
Definition op_wf2e (op : word) : bool :=
  match op with
  | [1] | [2] | [3] => true
  | [4; n; g] => (0 <=? n) && (1 <=? g) && (g <=? 64)
  | _ => false
  end.
Definition op_wf4 (op : word) : bool := match op with [1; n] | [2; n; _] => 0 <=? n | _ => false end.
Definition wf (cfg : word) (ops : list word) : bool :=
  match cfg with
  | [1; tmo] => (1 <=? tmo) && wf1 [] ops
  | [2] => forallb op_wf2e ops
  | [3] => forallb op_wf2 ops
  | [4] => forallb op_wf4 ops
  | _ => false
  end.
