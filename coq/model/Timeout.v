(* C07: grpc-timeout header encoding/decoding.
   Transcribes internal/grpcutil/encode_duration.go (div, EncodeDuration) and
   internal/transport/http_util.go (timeoutUnitToDuration, decodeTimeout).
   Strings are byte lists (list Z).  No proofs here. *)
From Coq Require Import List ZArith Bool.
From VLib Require Import Codec Machine.
Import ListNotations.
Open Scope Z_scope.

Definition maxTimeoutValue : Z := 99999999.

(* div: ceiling division using Go's truncated / and % on int64 *)
Definition div (d r : Z) : Z :=
  if Z.rem d r >? 0 then Z.quot d r + 1 else Z.quot d r.

(* strconv.FormatInt(n, 10) for n >= 0; fuel = max number of digits *)
Fixpoint fmt_dec (fuel : nat) (n : Z) : list Z :=
  match fuel with
  | O => []
  | S f => if n <? 10 then [48 + n] else fmt_dec f (n / 10) ++ [48 + n mod 10]
  end.
Definition format_int (n : Z) : list Z := fmt_dec 20 n.

Definition c_H : Z := 72. Definition c_M : Z := 77. Definition c_S : Z := 83.
Definition c_m : Z := 109. Definition c_u : Z := 117. Definition c_n : Z := 110.

Definition ns_hour : Z := 3600000000000.
Definition ns_min : Z := 60000000000.
Definition ns_sec : Z := 1000000000.
Definition ns_ms : Z := 1000000.
Definition ns_us : Z := 1000.

Definition encode (t : Z) : list Z :=
  if t <=? 0 then [48; c_n] else
  if div t 1 <=? maxTimeoutValue then format_int (div t 1) ++ [c_n] else
  if div t ns_us <=? maxTimeoutValue then format_int (div t ns_us) ++ [c_u] else
  if div t ns_ms <=? maxTimeoutValue then format_int (div t ns_ms) ++ [c_m] else
  if div t ns_sec <=? maxTimeoutValue then format_int (div t ns_sec) ++ [c_S] else
  if div t ns_min <=? maxTimeoutValue then format_int (div t ns_min) ++ [c_M] else
  format_int (div t ns_hour) ++ [c_H].

Definition unit_dur (u : Z) : option Z :=
  if u =? c_H then Some ns_hour else
  if u =? c_M then Some ns_min else
  if u =? c_S then Some ns_sec else
  if u =? c_m then Some ns_ms else
  if u =? c_u then Some ns_us else
  if u =? c_n then Some 1 else None.

Definition is_digit (c : Z) : bool := (48 <=? c) && (c <=? 57).

(* strconv.ParseUint(s, 10, 64) restricted to what decodeTimeout passes it:
   at most 8 characters, so overflow cannot happen; None = syntax error *)
Fixpoint parse_dec (acc : Z) (s : list Z) : option Z :=
  match s with
  | [] => Some acc
  | c :: r => if is_digit c then parse_dec (acc * 10 + (c - 48)) r else None
  end.
Definition parse_uint (s : list Z) : option Z :=
  match s with [] => None | _ => parse_dec 0 s end.

Definition maxHours : Z := max_i64 / ns_hour.

Definition decode (s : list Z) : option Z :=
  let size := Z.of_nat (length s) in
  if size <? 2 then None else
  if size >? 9 then None else
  let u := last s 0 in
  match unit_dur u with
  | None => None
  | Some d =>
    match parse_uint (removelast s) with
    | None => None
    | Some t =>
      if (d =? ns_hour) && (t >? maxHours) then Some max_i64
      else Some (i64 (d * t))
    end
  end.

(* ---- the property as a computable predicate on observations ---- *)

Definition wellformed (s : list Z) : bool :=
  let n := length s in
  (2 <=? Z.of_nat n) && (Z.of_nat n <=? 9) &&
  forallb is_digit (removelast s) &&
  match unit_dur (last s 0) with Some _ => true | None => false end.

(* op [1; d]          obs [len; bytes...; ok; d']   EncodeDuration(d), then decodeTimeout of it
   op [2; len; bytes] obs [ok; v]                   decodeTimeout(bytes)                     *)
Definition run_op (op : word) : option word :=
  match op with
  | [1; d] =>
    let s := encode d in
    Some (put_bytes s ++ match decode s with Some v => [1; v] | None => [0; 0] end)
  | 2 :: r =>
    match get_bytes r with
    | Some (s, []) => Some (match decode s with Some v => [1; v] | None => [0; 0] end)
    | _ => None
    end
  | _ => None
  end.

Fixpoint run (ops : list word) : option (list word) :=
  match ops with
  | [] => Some []
  | op :: r => match run_op op, run r with
               | Some o, Some os => Some (o :: os)
               | _, _ => None
               end
  end.

(* clause 1: encoded value of a positive duration: shape and no shortening
   clause 2: decode accepts exactly the well-formed strings, never negative *)
Definition clause_op (op obs : word) : Z * Z * bool :=
  match op with
  | [1; d] =>
    match get_bytes obs with
    | Some (s, [ok; d']) =>
      if d <=? 0 then (1, 0, true) else
      (1, d, wellformed s && (ok =? 1) && (d <=? d') &&
             match unit_dur (last s 0) with
             | Some u => d' <? d + u
             | None => false
             end)
    | _ => (1, d, false)
    end
  | 2 :: r =>
    match get_bytes r, obs with
    | Some (s, []), [ok; v] =>
      (2, 0, (0 <=? v) && Bool.eqb (ok =? 1) (wellformed s) && ((ok =? 1) || (ok =? 0)))
    | _, _ => (2, 0, false)
    end
  | _ => (0, 0, false)
  end.

Fixpoint clauses (ops obs : list word) : list (Z * Z * bool) :=
  match ops, obs with
  | op :: r, o :: r' => clause_op op o :: clauses r r'
  | [], [] => []
  | _, _ => [(0, 0, false)]
  end.

Definition holds_b (ops obs : list word) : bool :=
  forallb (fun c => snd c) (clauses ops obs).

Definition check_case (c : case) : verdict :=
  decide (run (c_ops c)) (c_obs c) (clauses (c_ops c) (c_obs c)).
