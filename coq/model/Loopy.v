(* Loopy: the loopyWriter of internal/transport/controlbuf.go as a sequential machine.
   Transcribes handle (and every handler it dispatches to), applySettings, writeHeader,
   processData, updateStreamAfterWrite, cleanupStreamHandler branch for branch.
   Engine of C01 (window ledger), C02 (byte order / END_STREAM), C03 (no lost wake-up).
   Executable Gallina only; proofs are in proof/Loopy_proofs.v.

   Abstractions (stated in spec/C0x.json):
   - a dataFrame item is (len h, bytes remaining in reader, endStream): payload bytes are
     not modelled (the driver checks them against a position pattern and reports a bit);
   - writeHeader takes the HPACK-encoded block length L as an input of the op;
   - estdStreams is an association list in registration order; activeStreams is the list of
     stream ids (a stream is in it at most once - invariant act_ok, proved);
   - the map iteration of applySettings is resolved by an explicit order carried by the op
     (theorems hold for every order). *)
From Coq Require Import List ZArith Bool.
From VLib Require Import Codec Machine.
Import ListNotations.
Open Scope Z_scope.

Definition maxFrame : Z := 16384.        (* http2MaxFrameLen *)
Definition defaultWindow : Z := 65535.   (* defaultWindowSize *)

(* outStreamState: iota order of the Go constants *)
Definition ST_ACTIVE : Z := 0.
Definition ST_EMPTY : Z := 1.
Definition ST_WAITING : Z := 2.

Inductive item :=
| IData (h d : Z) (es : bool)        (* *dataFrame: len(h), reader.Remaining(), endStream *)
| ITrailer (L : Z) (rst : bool).     (* *serverHeaders with endStream, block length, cleanup.rst *)

Record stream := mkS { st : Z; itl : list item; bos : Z }.

Record state := mkSt {
  side : Z;                  (* 0 clientSide, 1 serverSide *)
  sq : Z;                    (* sendQuota uint32 *)
  oiws : Z;                  (* uint32 *)
  estd : list (Z * stream);
  act : list Z;
  draining : bool }.

Definition init (sd : Z) : state := mkSt sd defaultWindow defaultWindow [] [] false.

Inductive frame :=
| FData (id len : Z) (es ok : bool)
| FHeaders (id len : Z) (es eh : bool)
| FCont (id len : Z) (eh : bool)
| FRst (id : Z)
| FAck
| FPing (ack : bool)
| FWrite (last acc : bool).   (* not a wire frame: outcome of one ClientStream.Write call, see OApi *)

(* ---- association lists keyed by Z ---- *)
Section Assoc.
  Context {A : Type}.
  Fixpoint aget (id : Z) (l : list (Z * A)) : option A :=
    match l with
    | [] => None
    | (k, v) :: r => if k =? id then Some v else aget id r
    end.
  Fixpoint aupd (id : Z) (f : A -> A) (l : list (Z * A)) : list (Z * A) :=
    match l with
    | [] => []
    | (k, v) :: r => if k =? id then (k, f v) :: r else (k, v) :: aupd id f r
    end.
  Fixpoint adel (id : Z) (l : list (Z * A)) : list (Z * A) :=
    match l with
    | [] => []
    | (k, v) :: r => if k =? id then r else (k, v) :: adel id r
    end.
End Assoc.

Definition remove_id (id : Z) (l : list Z) : list Z := filter (fun x => negb (x =? id)) l.

Definition set_st (v : Z) (s : stream) : stream := mkS v (itl s) (bos s).
Definition set_estd (s : state) (e : list (Z * stream)) : state :=
  mkSt (side s) (sq s) (oiws s) e (act s) (draining s).
Definition set_act (s : state) (a : list Z) : state :=
  mkSt (side s) (sq s) (oiws s) (estd s) a (draining s).

(* ---- ops ---- *)
Inductive op :=
| OWU (id inc : Z)                                   (* incomingWindowUpdate *)
| OSettings (v : Z) (order : list Z)                 (* incomingSettings [InitialWindowSize v] *)
| OSetOther (sid v : Z)                              (* incomingSettings [other id] *)
| ORegister (id : Z)                                 (* registerStream *)
| OClientHeaders (id L : Z) (initErr : bool)         (* clientHeaders *)
| OServerHeaders (id : Z) (es : bool) (L : Z) (rst : bool)
| OData (id h d : Z) (es : bool)                     (* dataFrame *)
| OCleanup (id : Z) (rst : bool)                     (* cleanupStream *)
| OGoAway                                            (* incomingGoAway *)
| OPing (ack : bool)
| OProcess                                           (* one call of processData *)
| OClose                                             (* closeConnection *)
| OApi (lasts : list Z)                             (* transport API above loopy: on a fresh stream of a real
                                                        http2Client call Write once per element, Last = element *)
| OEarlyAbort (id L : Z) (rst : bool).               (* earlyAbortStream: trailers-only response (block length L)
                                                        for a stream that was never registered with loopy *)

Definition dec_op (w : word) : option op :=
  match w with
  | [] => None
  | t :: a =>
    if t =? 1 then match a with [id; inc] => Some (OWU id inc) | _ => None end else
    if t =? 2 then match a with v :: order => Some (OSettings v order) | _ => None end else
    if t =? 3 then match a with [id] => Some (ORegister id) | _ => None end else
    if t =? 4 then match a with [id; _; L; e] => Some (OClientHeaders id L (z2b e)) | _ => None end else
    if t =? 5 then match a with [id; es; _; L; rst] => Some (OServerHeaders id (z2b es) L (z2b rst)) | _ => None end else
    if t =? 6 then match a with [id; h; d; es] => Some (OData id h d (z2b es)) | _ => None end else
    if t =? 7 then match a with [id; rst] => Some (OCleanup id (z2b rst)) | _ => None end else
    if t =? 8 then match a with [] => Some OGoAway | _ => None end else
    if t =? 9 then match a with [x] => Some (OPing (z2b x)) | _ => None end else
    if t =? 10 then match a with [] => Some OProcess | _ => None end else
    if t =? 12 then match a with [] => Some OClose | _ => None end else
    if t =? 21 then match a with [sid; v] => Some (OSetOther sid v) | _ => None end else
    if t =? 30 then Some (OApi a) else
    if t =? 14 then match a with [id; _; L; rst] => Some (OEarlyAbort id L (z2b rst)) | _ => None end else
    None
  end.

Fixpoint dec_ops (ws : list word) : option (list op) :=
  match ws with
  | [] => Some []
  | w :: r => match dec_op w, dec_ops r with
              | Some o, Some os => Some (o :: os)
              | _, _ => None
              end
  end.

(* ---- writeHeader: the HEADERS/CONTINUATION split loop on the block length ---- *)
Fixpoint hfrags (fuel : nat) (id rem : Z) (es first : bool) : list frame :=
  match fuel with
  | O => []
  | S f =>
    if rem >? maxFrame
    then (if first then FHeaders id maxFrame es false else FCont id maxFrame false)
           :: hfrags f id (rem - maxFrame) es false
    else [if first then FHeaders id rem es true else FCont id rem true]
  end.
Definition writeHeader (id : Z) (es : bool) (L : Z) : list frame :=
  hfrags (Z.to_nat (L / maxFrame) + 1) id L es true.

(* result of handling one op: code 0 = nil error, 1 = error returned (run() exits),
   2 = op not executed by the driver (re-registration of an established id),
   3 = loopy already exited, 9 = would panic (nil/type assertion) *)
Record res := mkR { code : Z; r_empty : bool; frames : list frame }.
Definition ok_res (fr : list frame) : res := mkR 0 false fr.

(* cleanupStreamHandler *)
Definition cleanup (s : state) (id : Z) (rst : bool) : state * list frame * bool :=
  let s1 := match aget id (estd s) with
            | Some _ => mkSt (side s) (sq s) (oiws s) (adel id (estd s)) (remove_id id (act s)) (draining s)
            | None => s
            end in
  let fr := if rst then [FRst id] else [] in
  let err := draining s1 && match estd s1 with [] => true | _ => false end in
  (s1, fr, err).

(* strQuota := int(l.oiws) - str.bytesOutStanding  (int is 64 bit) *)
Definition strQuota (s : state) (b : Z) : Z := i64 (oiws s - b).

(* updateStreamAfterWrite, given the stream as it is after the write *)
Definition afterWrite (s : state) (id : Z) (str : stream) : state * list frame * bool :=
  match itl str with
  | [] => (set_estd s (aupd id (fun _ => set_st ST_EMPTY str) (estd s)), [], false)
  | ITrailer L rst :: _ =>
    let s0 := set_estd s (aupd id (fun _ => str) (estd s)) in
    let '(s1, fr, err) := cleanup s0 id rst in
    (s1, writeHeader id true L ++ fr, err)
  | IData _ _ _ :: _ =>
    if strQuota s (bos str) <=? 0
    then (set_estd s (aupd id (fun _ => set_st ST_WAITING str) (estd s)), [], false)
    else (set_act (set_estd s (aupd id (fun _ => str) (estd s))) (act s ++ [id]), [], false)
  end.

(* processData *)
Definition processData (s : state) : state * res :=
  if sq s =? 0 then (s, mkR 0 true []) else
  match act s with
  | [] => (s, mkR 0 true [])
  | id :: rest =>
    let s := set_act s rest in
    match aget id (estd s) with
    | None => (s, mkR 9 false [])
    | Some str =>
      match itl str with
      | IData h d es :: tl =>
        let isEmpty := (h =? 0) && (d =? 0) in
        let q := strQuota s (bos str) in
        if (q <=? 0) && negb isEmpty
        then (set_estd s (aupd id (set_st ST_WAITING) (estd s)), mkR 0 false [])
        else
          let maxSize := Z.min (Z.min maxFrame (Z.max q 0)) (sq s) in
          let hSize := Z.min maxSize h in
          let dSize := Z.min (maxSize - hSize) d in
          let remaining := h + d - hSize - dSize in
          let size := hSize + dSize in
          let endStream := es && (remaining =? 0) in
          let str' := mkS (st str)
                          (if remaining =? 0 then tl else IData (h - hSize) (d - dSize) es :: tl)
                          (i64 (bos str + size)) in
          let s' := mkSt (side s) (u32 (sq s - size)) (oiws s) (estd s) (act s) (draining s) in
          let '(s'', fr, err) := afterWrite s' id str' in
          (s'', mkR (if err then 1 else 0) false (FData id size endStream true :: fr))
      | _ => (s, mkR 9 false [])
      end
    end
  end.

(* one step of the waiting->active loop of applySettings *)
Definition activate (s : state) (id : Z) : state :=
  match aget id (estd s) with
  | Some str => if st str =? ST_WAITING
                then set_act (set_estd s (aupd id (set_st ST_ACTIVE) (estd s))) (act s ++ [id])
                else s
  | None => s
  end.

Definition new_stream : stream := mkS ST_EMPTY [] 0.

(* http2Client.write: a write is accepted iff no earlier accepted write had Last (stream state
   streamActive -> streamWriteDone); this is what guarantees loopy never gets a dataFrame after
   the one with endStream *)
Fixpoint api_writes (done : bool) (l : list Z) : list frame :=
  match l with
  | [] => []
  | x :: r => let acc := negb done in
              FWrite (z2b x) acc :: api_writes (done || (acc && z2b x)) r
  end.

(* handle *)
Definition handle (s : state) (o : op) : state * res :=
  match o with
  | OWU id inc =>
    if id =? 0 then (mkSt (side s) (u32 (sq s + inc)) (oiws s) (estd s) (act s) (draining s), ok_res [])
    else match aget id (estd s) with
         | Some str =>
           let b := i64 (bos str - inc) in
           if (strQuota s b >? 0) && (st str =? ST_WAITING)
           then (set_act (set_estd s (aupd id (fun _ => mkS ST_ACTIVE (itl str) b) (estd s))) (act s ++ [id]), ok_res [])
           else (set_estd s (aupd id (fun _ => mkS (st str) (itl str) b) (estd s)), ok_res [])
         | None => (s, ok_res [])
         end
  | OSettings v order =>
    let o := oiws s in
    let s1 := mkSt (side s) (sq s) v (estd s) (act s) (draining s) in
    let s2 := if o <? v then fold_left activate (order ++ map fst (estd s)) s1 else s1 in
    (s2, ok_res [FAck])
  | OSetOther _ _ => (s, ok_res [FAck])
  | ORegister id =>
    match aget id (estd s) with
    | Some _ => (s, mkR 2 false [])
    | None => (set_estd s (estd s ++ [(id, new_stream)]), ok_res [])
    end
  | OClientHeaders id L initErr =>
    match aget id (estd s) with
    | Some _ => (s, mkR 2 false [])
    | None =>
      if draining s then (s, ok_res [])
      else if initErr then (s, mkR 1 false [])
      else (set_estd s (estd s ++ [(id, new_stream)]), ok_res (writeHeader id false L))
    end
  | OServerHeaders id es L rst =>
    match aget id (estd s) with
    | None => (s, ok_res [])
    | Some str =>
      if negb es then (s, ok_res (writeHeader id false L))
      else if negb (st str =? ST_EMPTY)
      then (set_estd s (aupd id (fun x => mkS (st x) (itl x ++ [ITrailer L rst]) (bos x)) (estd s)), ok_res [])
      else let '(s1, fr, err) := cleanup s id rst in
           (s1, mkR (if err then 1 else 0) false (writeHeader id true L ++ fr))
    end
  | OData id h d es =>
    match aget id (estd s) with
    | None => (s, ok_res [])
    | Some str =>
      let str' := mkS (st str) (itl str ++ [IData h d es]) (bos str) in
      if st str =? ST_EMPTY
      then (set_act (set_estd s (aupd id (fun _ => set_st ST_ACTIVE str') (estd s))) (act s ++ [id]), ok_res [])
      else (set_estd s (aupd id (fun _ => str') (estd s)), ok_res [])
    end
  | OCleanup id rst =>
    let '(s1, fr, err) := cleanup s id rst in (s1, mkR (if err then 1 else 0) false fr)
  | OGoAway =>
    if side s =? 0
    then let s1 := mkSt (side s) (sq s) (oiws s) (estd s) (act s) true in
         (s1, mkR (match estd s with [] => 1 | _ => 0 end) false [])
    else (s, ok_res [])
  | OPing a => (s, ok_res [FPing a])
  | OProcess => processData s
  | OClose => (s, mkR 1 false [])
  | OApi l => (s, ok_res (api_writes false l))
  | OEarlyAbort id L rst =>
    match aget id (estd s) with
    | Some _ => (s, mkR 2 false [])     (* not executed: early abort is only for unregistered streams *)
    | None =>
      if side s =? 0 then (s, mkR 1 false [])
      else (s, ok_res (writeHeader id true L ++ (if rst then [FRst id] else [])))
    end
  end.

(* run(): once handle/processData returned an error (or would have panicked) loopy is gone *)
Fixpoint run_from (s : state) (dead : bool) (ops : list op) : list (res * state) :=
  match ops with
  | [] => []
  | o :: r =>
    if dead then (mkR 3 false [], s) :: run_from s true r
    else let '(s', rs) := handle s o in
         (rs, s') :: run_from s' ((code rs =? 1) || (code rs =? 9)) r
  end.

(* ---- observations ---- *)
Definition enc_frame (f : frame) : word :=
  match f with
  | FData id len es ok => [1; id; len; b2z es; b2z ok]
  | FHeaders id len es eh => [2; id; len; b2z es; b2z eh]
  | FCont id len eh => [3; id; len; b2z eh; 0]
  | FRst id => [4; id; 0; 0; 0]
  | FAck => [5; 0; 0; 0; 0]
  | FPing a => [6; b2z a; 0; 0; 0]
  | FWrite l a => [7; b2z l; b2z a; 0; 0]
  end.
Definition enc_stream (p : Z * stream) : word :=
  [fst p; st (snd p); bos (snd p); Z.of_nat (length (itl (snd p)))].

(* structured observation = what the clauses look at *)
Record sobs := mkO {
  o_code : Z; o_empty : bool; o_frames : list frame;
  o_sq : Z; o_oiws : Z; o_drain : bool; o_act : list Z;
  o_strs : list (Z * (Z * Z * Z)) }.     (* id -> (state, bytesOutStanding, len itl) *)

Definition sobs_of (p : res * state) : sobs :=
  let '(r, s) := p in
  mkO (code r) (r_empty r) (frames r) (sq s) (oiws s) (draining s) (act s)
      (map (fun q => (fst q, (st (snd q), bos (snd q), Z.of_nat (length (itl (snd q)))))) (estd s)).

Definition enc_sstr (q : Z * (Z * Z * Z)) : word :=
  let '(id, (a, b, c)) := q in [id; a; b; c].

Definition enc_sobs (o : sobs) : word :=
  [o_code o; b2z (o_empty o); Z.of_nat (length (o_frames o))] ++ concat (map enc_frame (o_frames o))
  ++ [o_sq o; o_oiws o; b2z (o_drain o); Z.of_nat (length (o_act o))] ++ o_act o
  ++ [Z.of_nat (length (o_strs o))] ++ concat (map enc_sstr (o_strs o)).

Definition dec_frame (w : word) : option frame :=
  match w with
  | [t; a; b; c; d] =>
    if t =? 1 then Some (FData a b (z2b c) (z2b d)) else
    if t =? 2 then Some (FHeaders a b (z2b c) (z2b d)) else
    if t =? 3 then Some (FCont a b (z2b c)) else
    if t =? 4 then Some (FRst a) else
    if t =? 5 then Some FAck else
    if t =? 6 then Some (FPing (z2b a)) else
    if t =? 7 then Some (FWrite (z2b a) (z2b b)) else None
  | _ => None
  end.

Fixpoint dec_frames (n : nat) (l : list Z) : option (list frame * list Z) :=
  match n with
  | O => Some ([], l)
  | S n' =>
    match l with
    | a :: b :: c :: d :: e :: r =>
      match dec_frame [a; b; c; d; e], dec_frames n' r with
      | Some f, Some (fs, r') => Some (f :: fs, r')
      | _, _ => None
      end
    | _ => None
    end
  end.

Fixpoint dec_sstrs (n : nat) (l : list Z) : option (list (Z * (Z * Z * Z)) * list Z) :=
  match n with
  | O => Some ([], l)
  | S n' =>
    match l with
    | a :: b :: c :: d :: r =>
      match dec_sstrs n' r with
      | Some (fs, r') => Some ((a, (b, c, d)) :: fs, r')
      | None => None
      end
    | _ => None
    end
  end.

Definition dec_sobs (w : word) : option sobs :=
  match w with
  | c :: e :: nf :: r =>
    if nf <? 0 then None else
    match dec_frames (Z.to_nat nf) r with
    | Some (fs, q :: w0 :: dr :: na :: r1) =>
      if na <? 0 then None else
      match take_n (Z.to_nat na) r1 with
      | Some (a, ns :: r2) =>
        if ns <? 0 then None else
        match dec_sstrs (Z.to_nat ns) r2 with
        | Some (ss, []) => Some (mkO c (z2b e) fs q w0 (z2b dr) a ss)
        | _ => None
        end
      | _ => None
      end
    | _ => None
    end
  | _ => None
  end.

Fixpoint dec_all (ws : list word) : option (list sobs) :=
  match ws with
  | [] => Some []
  | w :: r => match dec_sobs w, dec_all r with
              | Some o, Some os => Some (o :: os)
              | _, _ => None
              end
  end.

Definition cfg_side (cfg : word) : option Z :=
  match cfg with [sd] => if (sd =? 0) || (sd =? 1) then Some sd else None | _ => None end.

Definition srun (sd : Z) (ops : list op) : list sobs := map sobs_of (run_from (init sd) false ops).

Definition run (cfg : word) (ops : list word) : option (list word) :=
  match cfg_side cfg, dec_ops ops with
  | Some sd, Some os => Some (map enc_sobs (srun sd os))
  | _, _ => None
  end.

(* ================= C01: the window ledger, defined on the history only ================= *)
(* g_conn: 65535 + all connection WINDOW_UPDATE increments; s_conn: DATA bytes written;
   g_oiws: the peer's current SETTINGS_INITIAL_WINDOW_SIZE;
   g_open: for every open stream (increments received since it was opened, DATA bytes sent) *)
Record ledger := mkL { g_conn : Z; s_conn : Z; g_oiws : Z; g_open : list (Z * (Z * Z)) }.
Definition l_init : ledger := mkL defaultWindow 0 defaultWindow [].

Definition executed (c : Z) : bool := (c =? 0) || (c =? 1).

Definition l_op (g : ledger) (o : op) (c : Z) (fr : list frame) : ledger :=
  if negb (executed c) then g else
  match o with
  | OWU id inc =>
    if id =? 0 then mkL (g_conn g + inc) (s_conn g) (g_oiws g) (g_open g)
    else mkL (g_conn g) (s_conn g) (g_oiws g) (aupd id (fun p => (fst p + inc, snd p)) (g_open g))
  | OSettings v _ => mkL (g_conn g) (s_conn g) v (g_open g)
  | ORegister id => mkL (g_conn g) (s_conn g) (g_oiws g) (g_open g ++ [(id, (0, 0))])
  | OClientHeaders id _ _ =>
    match fr with
    | [] => g
    | _ => mkL (g_conn g) (s_conn g) (g_oiws g) (g_open g ++ [(id, (0, 0))])
    end
  | OCleanup id _ => mkL (g_conn g) (s_conn g) (g_oiws g) (adel id (g_open g))
  | _ => g
  end.

(* clause ids of C01:
   1 connection window   2 stream window   3 DATA frame length in [0,16384]
   4 HEADERS/CONTINUATION fragment length in [0,16384]   5 DATA bytes on a stream that has no window (not open) *)
Definition l_frame (g : ledger) (f : frame) : ledger * list (Z * bool) :=
  match f with
  | FData id len _ _ =>
    let c3 := (0 <=? len) && (len <=? maxFrame) in
    match aget id (g_open g) with
    | None => (g, [(5, len =? 0); (3, c3)])
    | Some (incs, sent) =>
      (mkL (g_conn g) (s_conn g + len) (g_oiws g) (aupd id (fun p => (fst p, snd p + len)) (g_open g)),
       [(1, (len =? 0) || (s_conn g + len <=? g_conn g));
        (2, (len =? 0) || (sent + len <=? g_oiws g + incs)); (3, c3)])
    end
  | FHeaders id len es _ =>
    ((if es then mkL (g_conn g) (s_conn g) (g_oiws g) (adel id (g_open g)) else g),
     [(4, (0 <=? len) && (len <=? maxFrame))])
  | FCont _ len _ => (g, [(4, (0 <=? len) && (len <=? maxFrame))])
  | _ => (g, [])
  end.

Fixpoint l_frames (g : ledger) (fs : list frame) : ledger * list (Z * bool) :=
  match fs with
  | [] => (g, [])
  | f :: r => let '(g1, c1) := l_frame g f in
              let '(g2, c2) := l_frames g1 r in (g2, c1 ++ c2)
  end.

Definition l_step (g : ledger) (o : op) (ob : sobs) : ledger * list (Z * bool) :=
  l_frames (l_op g o (o_code ob) (o_frames ob)) (o_frames ob).

Fixpoint c01_from (i : Z) (g : ledger) (ops : list op) (obs : list sobs) : list (Z * Z * bool) :=
  match ops, obs with
  | o :: r, ob :: r' =>
    let '(g', cl) := l_step g o ob in
    map (fun c => (fst c, i, snd c)) cl ++ c01_from (i + 1) g' r r'
  | [], [] => []
  | _, _ => [(0, i, false)]
  end.

Definition all_ok (l : list (Z * Z * bool)) : bool := forallb (fun c => snd c) l.

Definition c01 (ops : list op) (obs : list sobs) : list (Z * Z * bool) := c01_from 0 l_init ops obs.

Definition clauses_of (f : list op -> list sobs -> list (Z * Z * bool))
           (ops obs : list word) : list (Z * Z * bool) :=
  match dec_ops ops with
  | None => []                      (* run = None => BadCase *)
  | Some os => match dec_all obs with
               | None => [(0, 0, false)]
               | Some so => f os so
               end
  end.

Definition clauses_C01 := clauses_of c01.
Definition holds_C01 (ops obs : list word) : bool := all_ok (clauses_C01 ops obs).

Definition check_case_C01 (c : case) : verdict :=
  decide (run (c_cfg c) (c_ops c)) (c_obs c) (clauses_C01 (c_ops c) (c_obs c)).

(* ================= C02: per-stream byte order, completeness, END_STREAM placement ================= *)
(* Reference queue per open stream, built from the history only: b_q = the messages the
   application wrote that are not yet completely on the wire, as (bytes remaining, endStream);
   b_closing = trailers were requested (later writes are not part of the stream);
   b_ended = a DATA frame with END_STREAM went out. *)
Record bstr := mkB { b_q : list (Z * bool); b_closing : bool; b_ended : bool }.
Definition bledger := list (Z * bstr).
Definition b_new : bstr := mkB [] false false.

Definition b_op (bl : bledger) (o : op) (c : Z) (fr : list frame) : bledger :=
  if negb (executed c) then bl else
  match o with
  | ORegister id => bl ++ [(id, b_new)]
  | OClientHeaders id _ _ => match fr with [] => bl | _ => bl ++ [(id, b_new)] end
  | OData id h d es =>
    aupd id (fun b => if b_closing b then b else mkB (b_q b ++ [(h + d, es)]) false (b_ended b)) bl
  | OServerHeaders id es _ _ =>
    if es then aupd id (fun b => mkB (b_q b) true (b_ended b)) bl else bl
  | OCleanup id _ => adel id bl
  | OEarlyAbort id _ _ => match fr with [] => bl | _ => bl ++ [(id, b_new)] end  (* open for its one block *)
  | _ => bl
  end.

(* clause ids of C02:
   6  DATA/HEADERS for a stream that is not open (after its RST_STREAM, trailers or cleanup, or never opened)
   7  DATA after END_STREAM
   8  DATA frame is not the next bytes of the oldest unfinished message (loss, duplication, reordering;
      includes the Go-side comparison of the payload with the position pattern)
   9  END_STREAM flag: set iff the frame completes a message written with endStream
   10 trailers written while earlier DATA of the stream is still unsent
   11 RST_STREAM written for a stream after its trailers (literal reading of "no frame follows
      its trailers"; see C02_rst_after_trailers_refuted)
   13 snapshot: open streams differ from the history's, or a stream in state `empty` still has unsent bytes *)
Definition b_frame (st : bledger * list Z) (f : frame) : (bledger * list Z) * list (Z * bool) :=
  let '(bl, tr) := st in
  match f with
  | FData id len es ok =>
    match aget id bl with
    | None => (st, [(6, false)])
    | Some b =>
      if b_ended b then (st, [(7, false)]) else
      match b_q b with
      | [] => (st, [(8, false)])
      | (rem, mes) :: tl =>
        let fits := (0 <=? len) && (len <=? rem) && ok in
        if len =? rem
        then ((aupd id (fun _ => mkB tl (b_closing b) es) bl, tr), [(8, fits); (9, Bool.eqb es mes)])
        else ((aupd id (fun _ => mkB ((rem - len, mes) :: tl) (b_closing b) false) bl, tr),
              [(8, fits); (9, negb es)])
      end
    end
  | FHeaders id _ es _ =>
    match aget id bl with
    | None => (st, [(6, false)])
    | Some b =>
      if es then ((adel id bl, id :: tr), [(10, match b_q b with [] => true | _ => false end)])
      else (st, [])
    end
  | FRst id => (st, [(11, negb (existsb (Z.eqb id) tr))])
  | _ => (st, [])
  end.

Fixpoint b_frames (st : bledger * list Z) (fs : list frame) : (bledger * list Z) * list (Z * bool) :=
  match fs with
  | [] => (st, [])
  | f :: r => let '(st1, c1) := b_frame st f in
              let '(st2, c2) := b_frames st1 r in (st2, c1 ++ c2)
  end.

Fixpoint b_snap (strs : list (Z * (Z * Z * Z))) (bl : bledger) : bool :=
  match strs, bl with
  | [], [] => true
  | (id, (s, _, _)) :: r, (id', b) :: r' =>
    (id =? id') && (negb (s =? ST_EMPTY) || match b_q b with [] => true | _ => false end) && b_snap r r'
  | _, _ => false
  end.

(* the list of streams whose trailers were written is local to one op: clause 11 is exactly
   "the item that wrote the trailers also wrote RST_STREAM for the stream" *)
(* clause 12: among the Write calls of one OApi op, none is accepted after an accepted one with
   Last (so the application can never hand loopy data after END_STREAM was requested) *)
Fixpoint api_ok (done : bool) (fs : list frame) : bool :=
  match fs with
  | [] => true
  | FWrite last acc :: r => negb (done && acc) && api_ok (done || (acc && last)) r
  | _ :: r => api_ok done r
  end.

Definition b_step (bl : bledger) (o : op) (ob : sobs) : bledger * list (Z * bool) :=
  let '(st', cl) := b_frames (b_op bl o (o_code ob) (o_frames ob), []) (o_frames ob) in
  (fst st', cl ++ [(13, b_snap (o_strs ob) (fst st'))] ++
            match o with OApi _ => [(12, api_ok false (o_frames ob))] | _ => [] end).

Fixpoint c02_from (i : Z) (st : bledger) (ops : list op) (obs : list sobs) : list (Z * Z * bool) :=
  match ops, obs with
  | o :: r, ob :: r' =>
    let '(st', cl) := b_step st o ob in
    map (fun c => (fst c, i, snd c)) cl ++ c02_from (i + 1) st' r r'
  | [], [] => []
  | _, _ => [(0, i, false)]
  end.

Definition c02 (ops : list op) (obs : list sobs) : list (Z * Z * bool) := c02_from 0 [] ops obs.
Definition clauses_C02 := clauses_of c02.
Definition holds_C02 (ops obs : list word) : bool := all_ok (clauses_C02 ops obs).
Definition check_case_C02 (c : case) : verdict :=
  decide (run (c_cfg c) (c_ops c)) (c_obs c) (clauses_C02 (c_ops c) (c_obs c)).

(* ================= C03: no lost wake-up (safety form of the liveness claim) ================= *)
(* clause 21, on the state observed after every item: a stream parked in waitingOnStreamQuota
   has no stream-level credit (oiws - bytesOutStanding <= 0).  The second disjunct is the int64
   wrap of `int(l.oiws) - str.bytesOutStanding`: it needs more than 2^62 bytes of un-used
   WINDOW_UPDATE credit on one stream (> 2^30 updates of 2^32-1) and is there to keep the
   invariant exact for op lists of any length. *)
Definition neg62 : Z := - 2 ^ 62.
Definition c03_str (w : Z) (q : Z * (Z * Z * Z)) : bool :=
  let '(_, (s, b, _)) := q in negb (s =? ST_WAITING) || (w - b <=? 0) || (b <? neg62).
Definition c03_obs (ob : sobs) : bool := forallb (c03_str (o_oiws ob)) (o_strs ob).

(* clauses 22 and 23 look at one processData call: P is the state observed before it, ob after it.
   22 progress: connection quota (sendQuota <> 0), a head stream with stream credit => the call
      writes a DATA frame of that stream first and does not report isEmpty;
   23 round robin: the active list afterwards is the rest in unchanged order, or the rest with the
      served stream re-queued at the tail; without quota / without active streams it is unchanged. *)
Definition init_sobs : sobs := mkO 0 false [] defaultWindow defaultWindow false [] [].
Definition credit (P : sobs) (id : Z) : bool :=
  match aget id (o_strs P) with
  | Some (_, b, _) => (0 <? o_oiws P - b) && (neg62 <=? b)
  | None => false
  end.
Definition head_data (id : Z) (fs : list frame) : bool :=
  match fs with FData i _ _ _ :: _ => i =? id | _ => false end.
Definition c22 (P : sobs) (o : op) (ob : sobs) : bool :=
  match o with
  | OProcess =>
    if executed (o_code ob) then
      match o_act P with
      | id :: _ => if negb (o_sq P =? 0) && credit P id
                   then head_data id (o_frames ob) && negb (o_empty ob) else true
      | [] => true
      end
    else true
  | _ => true
  end.
Definition c23 (P : sobs) (o : op) (ob : sobs) : bool :=
  match o with
  | OProcess =>
    if executed (o_code ob) then
      match o_act P with
      | id :: rest => if o_sq P =? 0 then word_eqb (o_act ob) (o_act P)
                      else word_eqb (o_act ob) rest || word_eqb (o_act ob) (rest ++ [id])
      | [] => word_eqb (o_act ob) []
      end
    else true
  | _ => true
  end.

(* 24: processData reports isEmpty exactly when it could not serve anybody (no connection quota or
   no active stream); a call that dequeued a stream must report false, otherwise run() stops
   although other streams may be active *)
Definition c24 (P : sobs) (o : op) (ob : sobs) : bool :=
  match o with
  | OProcess =>
    if executed (o_code ob)
    then Bool.eqb (o_empty ob) ((o_sq P =? 0) || match o_act P with [] => true | _ => false end)
    else true
  | _ => true
  end.

Fixpoint c03_from (i : Z) (P : sobs) (ops : list op) (obs : list sobs) : list (Z * Z * bool) :=
  match ops, obs with
  | o :: r, ob :: r' =>
    (21, i, c03_obs ob) :: (22, i, c22 P o ob) :: (23, i, c23 P o ob) :: (24, i, c24 P o ob) ::
    c03_from (i + 1) ob r r'
  | [], [] => []
  | _, _ => [(0, i, false)]
  end.
Definition c03 (ops : list op) (obs : list sobs) : list (Z * Z * bool) := c03_from 0 init_sobs ops obs.
Definition clauses_C03 := clauses_of c03.
Definition holds_C03 (ops obs : list word) : bool := all_ok (clauses_C03 ops obs).
Definition check_case_C03 (c : case) : verdict :=
  decide (run (c_cfg c) (c_ops c)) (c_obs c) (clauses_C03 (c_ops c) (c_obs c)).
