(* C31: serialized callbacks.  Transcribes
     internal/buffer/unbounded.go         (Unbounded: Put / Load / Close / receive on Get())
     internal/grpcsync/callback_serializer.go (CallbackSerializer: ScheduleOr / run / Done)
     internal/grpcsync/pubsub.go          (PubSub: Subscribe / Publish / cancel)
   Granularity (DESIGN 4, concurrency (i)): every method of Unbounded and PubSub holds the
   object's mutex for its whole body and only does non-blocking channel sends inside, so a
   method call is one atomic step; a channel receive is one step; the serializer's run
   goroutine is a small program (receive; Load; call) advanced by an explicit step op, so
   "all schedules" = all lists of fine-grained ops.  No proofs in this file. *)
From Coq Require Import List ZArith Bool.
From VLib Require Import Codec.
Import ListNotations.
Open Scope Z_scope.

(* ================= Unbounded[T] ================= *)
Section UB.
Context {A : Type}.
(* slot = the capacity-1 channel b.c; closed = close(b.c) was executed *)
Record ub := mkub { slot : option A; closing : bool; closed : bool; backlog : list A }.
Definition ub0 : ub := mkub None false false [].

Definition ub_put (v : A) (b : ub) : ub * bool :=
  if closing b then (b, false) else
  match backlog b, slot b with
  | [], None => (mkub (Some v) (closing b) (closed b) [], true)
  | _, _ => (mkub (slot b) (closing b) (closed b) (backlog b ++ [v]), true)
  end.

Definition ub_load (b : ub) : ub :=
  match backlog b with
  | x :: r => match slot b with
              | None => mkub (Some x) (closing b) (closed b) r
              | Some _ => b
              end
  | [] => if closing b && negb (closed b) then mkub (slot b) true true [] else b
  end.

Definition ub_close (b : ub) : ub :=
  if closing b then b else
  mkub (slot b) true (match backlog b with [] => true | _ => false end) (backlog b).

Inductive rcv := REmpty | RVal (v : A) | REos.
(* non-blocking receive from Get(): a buffered value is delivered even when the channel
   is closed; a closed empty channel yields end-of-stream *)
Definition ub_recv (b : ub) : ub * rcv :=
  match slot b with
  | Some v => (mkub None (closing b) (closed b) (backlog b), RVal v)
  | None => if closed b then (b, REos) else (b, REmpty)
  end.

Definition o2l (o : option A) : list A := match o with Some v => [v] | None => [] end.
Definition pending (b : ub) : list A := o2l (slot b) ++ backlog b.

(* program counter of CallbackSerializer.run:  for cb := range Get() { Load(); cb(ctx) } *)
Inductive rpc := PRecv | PLoad (a : A) | PRun (a : A) | PDone.
Definition inflight (p : rpc) : list A := match p with PLoad a => [a] | _ => [] end.
End UB.
Arguments ub : clear implicits.
Arguments rcv : clear implicits.
Arguments rpc : clear implicits.

(* ---- kind 1: Unbounded[int] driven directly ----
   op [1;v] Put v   obs [ok]      op [2] Load  obs []
   op [3]   Close   obs []        op [4] non-blocking receive  obs [0;0] empty | [1;v] | [2;0] closed *)
Definition step1 (b : ub Z) (op : word) : option (ub Z * word) :=
  match op with
  | [1; v] => let (b', ok) := ub_put v b in Some (b', [b2z ok])
  | [2] => Some (ub_load b, [])
  | [3] => Some (ub_close b, [])
  | [4] => let (b', r) := ub_recv b in
           Some (b', match r with REmpty => [0; 0] | RVal v => [1; v] | REos => [2; 0] end)
  | _ => None
  end.

Fixpoint exec1 (b : ub Z) (ops : list word) : option (list word * ub Z) :=
  match ops with
  | [] => Some ([], b)
  | op :: r => match step1 b op with
               | None => None
               | Some (b', o) => match exec1 b' r with
                                 | Some (os, bf) => Some (o :: os, bf)
                                 | None => None
                                 end
               end
  end.

(* values accepted by Put / delivered by receive, read off a trace *)
Definition acc_op (op obs : word) : list Z :=
  match op, obs with [1; v], [1] => [v] | _, _ => [] end.
Definition del_op (op obs : word) : list Z :=
  match op, obs with [4], [1; v] => [v] | _, _ => [] end.
Fixpoint accepted (ops obs : list word) : list Z :=
  match ops, obs with op :: r, o :: r' => acc_op op o ++ accepted r r' | _, _ => [] end.
Fixpoint delivered (ops obs : list word) : list Z :=
  match ops, obs with op :: r, o :: r' => del_op op o ++ delivered r r' | _, _ => [] end.

(* ================= events ================= *)
Inductive ev := EStart (x : Z) | EFinish (x : Z) | EFail (x : Z) | EDone | EDeliver (s m : Z).
Definition enc_ev (e : ev) : word :=
  match e with
  | EStart x => [1; x; 0] | EFinish x => [2; x; 0] | EFail x => [3; x; 0]
  | EDone => [4; 0; 0] | EDeliver s m => [5; s; m]
  end.
Definition enc_evs (l : list ev) : word := concat (map enc_ev l).
Fixpoint dec_evs_f (fuel : nat) (w : word) : option (list ev) :=
  match w with
  | [] => Some []
  | c :: a :: b :: r =>
    match fuel with
    | O => None
    | S f =>
      let e := if c =? 1 then Some (EStart a) else if c =? 2 then Some (EFinish a) else
               if c =? 3 then Some (EFail a) else if c =? 4 then Some EDone else
               if c =? 5 then Some (EDeliver a b) else None in
      match e, dec_evs_f f r with Some e, Some l => Some (e :: l) | _, _ => None end
    end
  | _ => None
  end.
Definition dec_evs (w : word) : option (list ev) := dec_evs_f (length w) w.

(* ================= CallbackSerializer ================= *)
(* scan = the context passed to NewCallbackSerializer is cancelled;
   sfired = the function registered with context.AfterFunc (callbacks.Close) has run.
   They are distinct steps: AfterFunc runs its function in its own goroutine. *)
Record sz := mksz { sq : ub Z; scan : bool; sfired : bool; spc : rpc Z }.
Definition sz0 : sz := mksz ub0 false false PRecv.

Inductive fop2 := FSched (x : Z) | FRelease | FCancel | FAfter | FRun.

(* one instruction of the run goroutine, shared by serializer and pubsub
   (PRun is handled by the caller: what a callback does differs) *)
Definition run_step {A} (q : ub A) (p : rpc A) : ub A * rpc A * bool (* done closed now *) :=
  match p with
  | PRecv => match ub_recv q with
             | (q', RVal a) => (q', PLoad a, false)
             | (q', REos) => (q', PDone, true)
             | (q', REmpty) => (q', PRecv, false)
             end
  | PLoad a => (ub_load q, PRun a, false)
  | _ => (q, p, false)
  end.

Definition step2 (s : sz) (o : fop2) : sz * list ev :=
  match o with
  | FSched x => let (q', ok) := ub_put x (sq s) in
                (mksz q' (scan s) (sfired s) (spc s), if ok then [] else [EFail x])
  | FRelease => match spc s with
                | PRun x => (mksz (sq s) (scan s) (sfired s) PRecv, [EFinish x])
                | _ => (s, [])
                end
  | FCancel => (mksz (sq s) true (sfired s) (spc s), [])
  | FAfter => if scan s && negb (sfired s)
              then (mksz (ub_close (sq s)) true true (spc s), []) else (s, [])
  | FRun => match spc s with
            | PRun _ | PDone => (s, [])
            | p => let '(q', p', dn) := run_step (sq s) p in
                   (mksz q' (scan s) (sfired s) p',
                    match p' with PRun x => [EStart x] | _ => [] end ++ if dn then [EDone] else [])
            end
  end.

Fixpoint steps2 (s : sz) (l : list fop2) : sz * list ev :=
  match l with
  | [] => (s, [])
  | o :: r => let (s1, e1) := step2 s o in let (s2, e2) := steps2 s1 r in (s2, e1 ++ e2)
  end.

(* driver ops (each is followed by synctest.Wait(): the run goroutine advances until it blocks)
   [1;x] ScheduleOr(cb x, onFailure x)   [2] let the running callback return
   [3] cancel the context   [4] the AfterFunc goroutine runs   [5] = [3] then [4] *)
Definition settle2 : list fop2 := [FRun; FRun; FRun].
Definition expand2 (op : word) : option (list fop2) :=
  match op with
  | [1; x] => Some (FSched x :: settle2)
  | [2] => Some (FRelease :: settle2)
  | [3] => Some (FCancel :: settle2)
  | [4] => Some (FAfter :: settle2)
  | [5] => Some (FCancel :: FAfter :: settle2)
  | _ => None
  end.

Fixpoint exec2 (s : sz) (ops : list word) : option (list word * sz) :=
  match ops with
  | [] => Some ([], s)
  | op :: r => match expand2 op with
               | None => None
               | Some l => let (s', e) := steps2 s l in
                           match exec2 s' r with
                           | Some (os, sf) => Some (enc_evs e :: os, sf)
                           | None => None
                           end
               end
  end.

(* ================= PubSub ================= *)
Fixpoint memz (x : Z) (l : list Z) : bool :=
  match l with [] => false | y :: r => (x =? y) || memz x r end.
Fixpoint ins_sorted (x : Z) (l : list Z) : list Z :=
  match l with
  | [] => [x]
  | y :: r => if x <? y then x :: l else y :: ins_sorted x r
  end.
Definition insz (x : Z) (l : list Z) : list Z :=   (* set insert, ascending order kept *)
  if memz x l then l else ins_sorted x l.
Definition remz (x : Z) (l : list Z) : list Z := filter (fun y => negb (x =? y)) l.

Record ps := mkps { pq : ub (Z * Z); pcan : bool; pfired : bool; ppc : rpc (Z * Z);
                    pmsg : option Z; psubs : list Z }.
Definition ps0 : ps := mkps ub0 false false PRecv None [].

(* GPub m ord: the range over the subscribers map visits them in an unspecified order;
   ord chooses it (subscribers listed in ord first, in that order, the rest ascending) *)
Inductive fop3 := GSub (s : Z) | GUnsub (s : Z) | GPub (m : Z) (ord : list Z)
                | GCancel | GAfter | GRun
                (* test instrumentation: a callback (-1, 0) scheduled directly on the PubSub's
                   serializer that blocks until GRelease, so that the queue behind it lags *)
                | GBlock | GRelease.
Definition blocker : Z := -1.

Definition pub_order (subs ord : list Z) : list Z :=
  let a := filter (fun s => memz s subs) (nodup Z.eq_dec ord) in
  a ++ filter (fun s => negb (memz s a)) subs.

Definition try_sched {A} (q : ub A) (a : A) : ub A := fst (ub_put a q).   (* TrySchedule *)

Definition step3 (p : ps) (o : fop3) : ps * list ev :=
  match o with
  | GSub s =>
    let q' := match pmsg p with Some m => try_sched (pq p) (s, m) | None => pq p end in
    (mkps q' (pcan p) (pfired p) (ppc p) (pmsg p) (insz s (psubs p)), [])
  | GUnsub s => (mkps (pq p) (pcan p) (pfired p) (ppc p) (pmsg p) (remz s (psubs p)), [])
  | GPub m ord =>
    let q' := fold_left (fun q s => try_sched q (s, m)) (pub_order (psubs p) ord) (pq p) in
    (mkps q' (pcan p) (pfired p) (ppc p) (Some m) (psubs p), [])
  | GCancel => (mkps (pq p) true (pfired p) (ppc p) (pmsg p) (psubs p), [])
  | GAfter => if pcan p && negb (pfired p)
              then (mkps (ub_close (pq p)) true true (ppc p) (pmsg p) (psubs p), []) else (p, [])
  | GRun =>
    match ppc p with
    | PDone => (p, [])
    | PRun (s, m) =>   (* the callback: lock; if !subscribers[s] return; s.OnMessage(m) *)
      if s =? blocker then (p, []) else
      (mkps (pq p) (pcan p) (pfired p) PRecv (pmsg p) (psubs p),
       if memz s (psubs p) then [EDeliver s m] else [])
    | pc => let '(q', pc', dn) := run_step (pq p) pc in
            (mkps q' (pcan p) (pfired p) pc' (pmsg p) (psubs p), if dn then [EDone] else [])
    end
  | GBlock => (mkps (try_sched (pq p) (blocker, 0)) (pcan p) (pfired p) (ppc p) (pmsg p) (psubs p), [])
  | GRelease =>
    match ppc p with
    | PRun (s, m) => if s =? blocker
                     then (mkps (pq p) (pcan p) (pfired p) PRecv (pmsg p) (psubs p), []) else (p, [])
    | _ => (p, [])
    end
  end.

Fixpoint steps3 (p : ps) (l : list fop3) : ps * list ev :=
  match l with
  | [] => (p, [])
  | o :: r => let (p1, e1) := step3 p o in let (p2, e2) := steps3 p1 r in (p2, e1 ++ e2)
  end.

(* driver ops, each followed by synctest.Wait() (everything queued is delivered):
   [1;s] Subscribe (ignored when s is subscribed)  [2;m] Publish  [6;s] cancel s's subscription
   [3] cancel ctx  [4] AfterFunc goroutine runs  [5] = [3];[4]
   [7] schedule a blocking callback on the PubSub's serializer  [8] let it return *)
Definition base3 (p : ps) (op : word) : option (list fop3) :=
  match op with
  | [1; s] => Some (if memz s (psubs p) then [] else [GSub s])
  | [2; m] => Some [GPub m []]
  | [6; s] => Some (if memz s (psubs p) then [GUnsub s] else [])
  | [3] => Some [GCancel]
  | [4] => Some [GAfter]
  | [5] => Some [GCancel; GAfter]
  | [7] => Some [GBlock]
  | [8] => Some [GRelease]
  | _ => None
  end.
Definition settle3 (p : ps) : list fop3 :=
  repeat GRun (3 * (length (pending (pq p)) + 2)).

(* Publish ranges over a map, so the driver reports the deliveries of one op stably sorted by
   subscriber (Done last); the model does the same *)
Definition le3 (e x : ev) : bool :=
  match e, x with
  | EDeliver s _, EDeliver s' _ => s <=? s'
  | EDeliver _ _, _ => true
  | _, EDeliver _ _ => false
  | _, _ => true
  end.
Fixpoint ins3 (e : ev) (l : list ev) : list ev :=
  match l with
  | [] => [e]
  | x :: r => if le3 e x then e :: l else x :: ins3 e r
  end.
Definition sort3 (l : list ev) : list ev := fold_right ins3 [] l.

Fixpoint exec3 (p : ps) (ops : list word) : option (list word * ps) :=
  match ops with
  | [] => Some ([], p)
  | op :: r => match base3 p op with
               | None => None
               | Some l => let (p1, e1) := steps3 p l in
                           let (p2, e2) := steps3 p1 (settle3 p1) in
                           match exec3 p2 r with
                           | Some (os, pf) => Some (enc_evs (sort3 (e1 ++ e2)) :: os, pf)
                           | None => None
                           end
               end
  end.

(* ================= run ================= *)
Definition run (cfg : word) (ops : list word) : option (list word) :=
  match cfg with
  | [1] => option_map fst (exec1 ub0 ops)
  | [2] => option_map fst (exec2 sz0 ops)
  | [3] => option_map fst (exec3 ps0 ops)
  | _ => None
  end.

(* ================= the property as monitors over (ops, obs) =================
   clause ids
    1 Unbounded: a received value is the oldest accepted value not yet received
    2 Unbounded: end-of-stream only after Close and after every accepted value was received; sticky
    3 Unbounded: Put fails iff Close was called before
    4 serializer: a callback starts only when none is running, it is the oldest accepted one
      not yet started; a finish matches the running callback
    5 serializer: Done only after shutdown, with everything accepted started and finished; once
    6 serializer: Schedule after the buffer was closed => onFailure inline (and the callback is
      never accepted); Schedule before the context was cancelled => accepted
    7 pubsub: a delivery to s is the oldest value owed to s (latest value at subscription, then
      every later publish, in order)
    8 pubsub: no delivery to a subscriber that is not subscribed
    9 pubsub: Done only after shutdown and after everything owed to subscribers was delivered
   10 FINDING serializer: Schedule after the context was cancelled but before the AfterFunc
      goroutine closed the buffer is accepted (ScheduleOr's contract says onFailure)
   11 FINDING pubsub: a Subscriber object that was unsubscribed and subscribed again receives a
      value that was queued for its earlier subscription *)
Definition cl := (Z * Z * bool)%type.

(* kind 1 *)
Record mon1 := mkm1 { m1pend : list Z; m1close : bool; m1eos : bool }.
Definition mon1_0 := mkm1 [] false false.
Definition clause1 (m : mon1) (op obs : word) : mon1 * list cl :=
  match op, obs with
  | [1; v], [ok] =>
    (mkm1 (if ok =? 1 then m1pend m ++ [v] else m1pend m) (m1close m) (m1eos m),
     [(3, v, if m1close m then ok =? 0 else ok =? 1)])
  | [2], [] => (m, [])
  | [3], [] => (mkm1 (m1pend m) true (m1eos m), [])
  | [4], [k; v] =>
    if k =? 0 then (m, [(2, 0, negb (m1eos m))]) else
    if k =? 1 then
      match m1pend m with
      | x :: r => (mkm1 r (m1close m) (m1eos m), [(1, v, (x =? v) && negb (m1eos m))])
      | [] => (m, [(1, v, false)])
      end else
    if k =? 2 then
      (mkm1 (m1pend m) (m1close m) true,
       [(2, 1, match m1pend m with [] => m1close m | _ => false end)])
    else (m, [(0, 0, false)])
  | _, _ => (m, [(0, 0, false)])
  end.
Fixpoint clauses1 (m : mon1) (ops obs : list word) : list cl :=
  match ops, obs with
  | op :: r, o :: r' => let (m', c) := clause1 m op o in c ++ clauses1 m' r r'
  | [], [] => []
  | _, _ => [(0, 0, false)]
  end.

(* kind 2 *)
Record mon2 := mkm2 { m2pend : list Z; m2run : option Z; m2can : bool; m2fired : bool; m2done : bool }.
Definition mon2_0 := mkm2 [] None false false false.
Definition mon2_ev (m : mon2) (e : ev) : mon2 * list cl :=
  match e with
  | EStart x =>
    match m2pend m, m2run m with
    | y :: r, None => (mkm2 r (Some x) (m2can m) (m2fired m) (m2done m),
                       [(4, x, (x =? y) && negb (m2done m))])
    | _, _ => (m, [(4, x, false)])
    end
  | EFinish x =>
    match m2run m with
    | Some y => (mkm2 (m2pend m) None (m2can m) (m2fired m) (m2done m), [(4, x, x =? y)])
    | None => (m, [(4, x, false)])
    end
  | EDone =>
    (mkm2 (m2pend m) (m2run m) (m2can m) (m2fired m) true,
     [(5, 0, m2fired m && negb (m2done m) &&
             match m2pend m, m2run m with [], None => true | _, _ => false end)])
  | EFail x => (m, [(6, x, false)])       (* onFailure outside its ScheduleOr call *)
  | EDeliver _ _ => (m, [(0, 0, false)])
  end.
Fixpoint mon2_evs (m : mon2) (l : list ev) : mon2 * list cl :=
  match l with
  | [] => (m, [])
  | e :: r => let (m1, c1) := mon2_ev m e in let (m2, c2) := mon2_evs m1 r in (m2, c1 ++ c2)
  end.
(* the op's own effect; returns the monitor, clauses and the events still to process *)
Definition mon2_op (m : mon2) (op : word) (evs : list ev) : mon2 * list cl * list ev :=
  match op with
  | [1; x] =>
    match evs with
    | EFail y :: r =>
      (m, [(6, x, (x =? y) && m2can m)], r)    (* rejected: only legitimate after cancellation *)
    | _ =>
      (mkm2 (m2pend m ++ [x]) (m2run m) (m2can m) (m2fired m) (m2done m),
       [(6, x, negb (m2fired m)); (10, x, negb (m2can m) || m2fired m)], evs)
    end
  | [2] => (m, [], evs)
  | [3] => (mkm2 (m2pend m) (m2run m) true (m2fired m) (m2done m), [], evs)
  | [4] => (mkm2 (m2pend m) (m2run m) (m2can m) (m2can m || m2fired m) (m2done m), [], evs)
  | [5] => (mkm2 (m2pend m) (m2run m) true true (m2done m), [], evs)
  | _ => (m, [(0, 0, false)], evs)
  end.
Definition clause2 (m : mon2) (op obs : word) : mon2 * list cl :=
  match dec_evs obs with
  | None => (m, [(0, 1, false)])
  | Some evs => let '(m1, c1, r) := mon2_op m op evs in
                let (m2, c2) := mon2_evs m1 r in (m2, c1 ++ c2)
  end.
Fixpoint clauses2 (m : mon2) (ops obs : list word) : list cl :=
  match ops, obs with
  | op :: r, o :: r' => let (m', c) := clause2 m op o in c ++ clauses2 m' r r'
  | [], [] => []
  | _, _ => [(0, 0, false)]
  end.

(* kind 3: owed = what is queued for currently subscribed subscribers, in queue order *)
Record mon3 := mkm3 { m3owed : list (Z * Z); m3subs : list Z; m3msg : option Z;
                      m3can : bool; m3fired : bool; m3done : bool;
                      m3stale : list (Z * Z) (* queued for a subscription that was cancelled *) }.
Definition mon3_0 := mkm3 [] [] None false false false [].
(* remove the first entry for subscriber s; returns its value *)
Fixpoint take_first (s : Z) (l : list (Z * Z)) : option (Z * list (Z * Z)) :=
  match l with
  | [] => None
  | (s', m) :: r => if s =? s' then Some (m, r) else
                    match take_first s r with
                    | Some (v, r') => Some (v, (s', m) :: r')
                    | None => None
                    end
  end.
Definition mon3_ev (m : mon3) (e : ev) : mon3 * list cl :=
  match e with
  | EDeliver s v =>
    if negb (memz s (m3subs m)) then (m, [(8, s, false)]) else
    match take_first s (m3owed m) with
    | Some (v', r) =>
      if v =? v' then
        (mkm3 r (m3subs m) (m3msg m) (m3can m) (m3fired m) (m3done m) (m3stale m), [(7, s, negb (m3done m))])
      else
        match take_first s (m3stale m) with
        | Some (v'', r') =>
          if v =? v'' then (mkm3 (m3owed m) (m3subs m) (m3msg m) (m3can m) (m3fired m) (m3done m) r', [(11, s, false)])
          else (m, [(7, s, false)])
        | None => (m, [(7, s, false)])
        end
    | None =>
      match take_first s (m3stale m) with
      | Some (v'', r') =>
        if v =? v'' then (mkm3 (m3owed m) (m3subs m) (m3msg m) (m3can m) (m3fired m) (m3done m) r', [(11, s, false)])
        else (m, [(7, s, false)])
      | None => (m, [(7, s, false)])
      end
    end
  | EDone =>
    (mkm3 (m3owed m) (m3subs m) (m3msg m) (m3can m) (m3fired m) true (m3stale m),
     [(9, 0, m3fired m && negb (m3done m) && match m3owed m with [] => true | _ => false end)])
  | _ => (m, [(0, 0, false)])
  end.
Fixpoint mon3_evs (m : mon3) (l : list ev) : mon3 * list cl :=
  match l with
  | [] => (m, [])
  | e :: r => let (m1, c1) := mon3_ev m e in let (m2, c2) := mon3_evs m1 r in (m2, c1 ++ c2)
  end.
Definition mon3_op (m : mon3) (op : word) : mon3 * list cl :=
  match op with
  | [1; s] =>
    if memz s (m3subs m) then (m, []) else
    (mkm3 (m3owed m ++ match m3msg m with
                       | Some v => if m3fired m then [] else [(s, v)]
                       | None => [] end)
          (insz s (m3subs m)) (m3msg m) (m3can m) (m3fired m) (m3done m) (m3stale m), [])
  | [2; v] =>
    (mkm3 (m3owed m ++ if m3fired m then [] else map (fun s => (s, v)) (m3subs m))
          (m3subs m) (Some v) (m3can m) (m3fired m) (m3done m) (m3stale m), [])
  | [6; s] =>
    (mkm3 (filter (fun sm => negb (s =? fst sm)) (m3owed m)) (remz s (m3subs m)) (m3msg m)
          (m3can m) (m3fired m) (m3done m)
          (m3stale m ++ filter (fun sm => s =? fst sm) (m3owed m)), [])
  | [3] => (mkm3 (m3owed m) (m3subs m) (m3msg m) true (m3fired m) (m3done m) (m3stale m), [])
  | [4] => (mkm3 (m3owed m) (m3subs m) (m3msg m) (m3can m) (m3can m || m3fired m) (m3done m) (m3stale m), [])
  | [5] => (mkm3 (m3owed m) (m3subs m) (m3msg m) true true (m3done m) (m3stale m), [])
  | [7] | [8] => (m, [])
  | _ => (m, [(0, 0, false)])
  end.
Definition clause3 (m : mon3) (op obs : word) : mon3 * list cl :=
  match dec_evs obs with
  | None => (m, [(0, 1, false)])
  | Some evs => let (m1, c1) := mon3_op m op in
                let (m2, c2) := mon3_evs m1 evs in (m2, c1 ++ c2)
  end.
Fixpoint clauses3 (m : mon3) (ops obs : list word) : list cl :=
  match ops, obs with
  | op :: r, o :: r' => let (m', c) := clause3 m op o in c ++ clauses3 m' r r'
  | [], [] => []
  | _, _ => [(0, 0, false)]
  end.

Definition clauses (cfg : word) (ops obs : list word) : list cl :=
  match cfg with
  | [1] => clauses1 mon1_0 ops obs
  | [2] => clauses2 mon2_0 ops obs
  | [3] => clauses3 mon3_0 ops obs
  | _ => [(0, 0, false)]
  end.

Definition holds_b (cfg : word) (ops obs : list word) : bool :=
  forallb (fun c => snd c) (clauses cfg ops obs).

Definition check_case (c : case) : verdict :=
  decide (run (c_cfg c) (c_ops c)) (c_obs c) (clauses (c_cfg c) (c_ops c) (c_obs c)).

(* ---- well-formedness of driver op lists (hypothesis of the bridge theorem) ---- *)
Definition op_wf1 (op : word) : bool :=
  match op with [1; _] | [2] | [3] | [4] => true | _ => false end.
(* kind 2: no Schedule inside the cancel window (that is the clause-10 finding) *)
Fixpoint wf2 (can fired : bool) (ops : list word) : bool :=
  match ops with
  | [] => true
  | [1; _] :: r => (negb can || fired) && wf2 can fired r
  | [2] :: r => wf2 can fired r
  | [3] :: r => wf2 true fired r
  | [4] :: r => wf2 can (can || fired) r
  | [5] :: r => wf2 true true r
  | _ => false
  end.
(* kind 3: a subscriber id is subscribed at most once (fresh Subscriber objects) *)
Fixpoint wf3 (ever : list Z) (ops : list word) : bool :=
  match ops with
  | [] => true
  | [1; s] :: r => (0 <=? s) && negb (memz s ever) && wf3 (s :: ever) r
  | [2; _] :: r | [6; _] :: r | [3] :: r | [4] :: r | [5] :: r | [7] :: r | [8] :: r => wf3 ever r
  | _ => false
  end.
Definition wf (cfg : word) (ops : list word) : bool :=
  match cfg with
  | [1] => forallb op_wf1 ops
  | [2] => wf2 false false ops
  | [3] => wf3 [] ops
  | _ => false
  end.
