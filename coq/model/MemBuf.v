(* C53: pooled buffers (mem.Buffer / BufferSlice / Reader) and buffer pools.
   Transcribes
     mem/buffers.go        NewBuffer, Copy, buffer.Ref/Free/Slice/split/read/ReadOnlyData,
                           SliceBuffer and emptyBuffer methods
     mem/buffer_slice.go   BufferSlice.Ref/Len/CopyTo/MaterializeToBuffer/Reader,
                           Reader.Read/Discard/Peek/Close/freeFirstBufferIfEmpty
     internal/mem/buffer_pool.go  (cfg 2) TieredBufferPool.getPool, BinaryTieredBufferPool
                           poolForGet, sizedBufferPool.Get / SimpleBufferPool.Get result shape
   A pooled allocation (root *buffer + the *buffer objects derived from it by Slice/split) is
   a [fam]; SliceBuffer values are immutable byte lists.  One handle = one owned reference.
   Executable definitions only; proofs are in proof/MemBuf_proofs.v. *)
From Coq Require Import List ZArith Bool.
From VLib Require Import Codec Machine.
Import ListNotations.
Open Scope Z_scope.

Definition zlen {A} (l : list A) : Z := Z.of_nat (length l).
Fixpoint upd {A} (i : nat) (x : A) (l : list A) : list A :=
  match l, i with
  | [], _ => []
  | _ :: r, O => x :: r
  | y :: r, S i' => y :: upd i' x r
  end.
Definition window {A} (off len : Z) (l : list A) : list A :=
  firstn (Z.to_nat len) (skipn (Z.to_nat off) l).

(* ------------------------------------------------------------------ *)
(* one pooled allocation: the root buffer object and its derived objects *)
Record der := mkD { d_refs : Z; d_live : bool; d_off : Z; d_len : Z }.
Record fam := mkF { f_refs : Z;        (* root.refs *)
                    f_live : bool;     (* root.rootBuf != nil *)
                    f_puts : Z;        (* number of pool.Put(root.origData) so far *)
                    f_bytes : list Z;  (* the pooled array *)
                    f_off : Z; f_len : Z;   (* root.data as a window of the array *)
                    f_der : list der }.
Definition fam_new (bytes : list Z) : fam := mkF 1 true 0 bytes 0 (zlen bytes) [].
Definition set_root (f : fam) (refs : Z) (live : bool) (puts off len : Z) : fam :=
  mkF refs live puts (f_bytes f) off len (f_der f).
Definition set_der (f : fam) (j : nat) (d : der) : fam :=
  mkF (f_refs f) (f_live f) (f_puts f) (f_bytes f) (f_off f) (f_len f) (upd j d (f_der f)).
Definition add_der (f : fam) (d : der) : fam :=
  mkF (f_refs f) (f_live f) (f_puts f) (f_bytes f) (f_off f) (f_len f) (f_der f ++ [d]).
Definition dead_der : der := mkD 0 false 0 0.
Definition get_der (f : fam) (j : nat) : der := nth j (f_der f) dead_der.

(* member 0 = root, member j+1 = derived object j; None = the Go code panics *)
Definition m_live (f : fam) (m : nat) : bool :=
  match m with O => f_live f | S j => d_live (get_der f j) end.
Definition m_off (f : fam) (m : nat) : Z := match m with O => f_off f | S j => d_off (get_der f j) end.
Definition m_len (f : fam) (m : nat) : Z := match m with O => f_len f | S j => d_len (get_der f j) end.
Definition m_data (f : fam) (m : nat) : list Z := window (m_off f m) (m_len f m) (f_bytes f).

(* root.Ref(): refs.Add(1) <= 1 panics *)
Definition root_ref (f : fam) : option fam :=
  if f_refs f + 1 <=? 1 then None
  else Some (set_root f (f_refs f + 1) (f_live f) (f_puts f) (f_off f) (f_len f)).
(* root.Free() *)
Definition root_free (f : fam) : option fam :=
  let r := f_refs f - 1 in
  if r <? 0 then None else
  if r >? 0 then Some (set_root f r (f_live f) (f_puts f) (f_off f) (f_len f))
  else Some (set_root f 0 false (f_puts f + 1) (f_off f) (f_len f)).

Definition fam_ref (f : fam) (m : nat) : option fam :=
  match m with
  | O => root_ref f
  | S j => let d := get_der f j in
           if d_refs d + 1 <=? 1 then None
           else Some (set_der f j (mkD (d_refs d + 1) (d_live d) (d_off d) (d_len d)))
  end.
Definition fam_free (f : fam) (m : nat) : option fam :=
  match m with
  | O => root_free f
  | S j => let d := get_der f j in
           let r := d_refs d - 1 in
           if r <? 0 then None else
           if r >? 0 then Some (set_der f j (mkD r (d_live d) (d_off d) (d_len d)))
           else match root_free f with
                | Some f' => Some (set_der f' j (mkD 0 false (d_off d) (d_len d)))
                | None => None
                end
  end.

(* result of Slice / split / read on a member *)
Inductive sres := SEmpty | SSame | SNew (j : nat).
(* b.Slice(s, e) with 0 <= s <= e <= len *)
Definition fam_slice (f : fam) (m : nat) (s e : Z) : option (fam * sres) :=
  if negb (m_live f m) then None else
  if e - s =? 0 then Some (f, SEmpty) else
  if e - s =? m_len f m then
    match fam_ref f m with Some f' => Some (f', SSame) | None => None end
  else
    match root_ref f with
    | Some f' => Some (add_der f' (mkD 1 true (m_off f m + s) (e - s)), SNew (length (f_der f)))
    | None => None
    end.
(* b.split(n) with 0 <= n <= len: the receiver keeps data[:n], the new object gets data[n:] *)
Definition fam_split (f : fam) (m : nat) (n : Z) : option (fam * nat) :=
  if negb (m_live f m) then None else
  match root_ref f with
  | None => None
  | Some f1 =>
    let f2 := add_der f1 (mkD 1 true (m_off f m + n) (m_len f m - n)) in
    let f3 := match m with
              | O => set_root f2 (f_refs f2) (f_live f2) (f_puts f2) (f_off f2) n
              | S j => let d := get_der f2 j in set_der f2 j (mkD (d_refs d) (d_live d) (d_off d) n)
              end in
    Some (f3, length (f_der f))
  end.
(* b.read(buf) with len(buf) = n: (bytes copied, family, receiver consumed and freed?) *)
Definition fam_read (f : fam) (m : nat) (n : Z) : option (list Z * fam * bool) :=
  if negb (m_live f m) then None else
  let k := Z.min n (m_len f m) in
  let out := firstn (Z.to_nat k) (m_data f m) in
  if k =? m_len f m then
    match fam_free f m with Some f' => Some (out, f', true) | None => None end
  else
    let f' := match m with
              | O => set_root f (f_refs f) (f_live f) (f_puts f) (f_off f + k) (f_len f - k)
              | S j => let d := get_der f j in set_der f j (mkD (d_refs d) (d_live d) (d_off d + k) (d_len d - k))
              end in
    Some (out, f', false).

(* ------------------------------------------------------------------ *)
(* handles, readers, state                                             *)
Inductive handle := HDead | HBuf (f m : nat) | HPlain (bytes : list Z) | HEmpty.
(* r_orig: the buffers the reader was created over (until Close), used only by the
   exclusive-ownership guard of the Unsafe operations *)
Record reader := mkRd { r_data : list handle; r_len : Z; r_idx : Z; r_orig : list handle }.
Record state := mkS { s_thr : Z; s_fams : list fam; s_hs : list handle; s_rds : list reader }.

Definition dead_fam : fam := mkF 0 false 0 [] 0 0 [].
Definition get_fam (st : state) (i : nat) : fam := nth i (s_fams st) dead_fam.
Definition set_fam (st : state) (i : nat) (f : fam) : state :=
  mkS (s_thr st) (upd i f (s_fams st)) (s_hs st) (s_rds st).
Definition get_h (st : state) (i : Z) : handle :=
  if i <? 0 then HDead else nth (Z.to_nat i) (s_hs st) HDead.
Definition add_h (st : state) (h : handle) : state :=
  mkS (s_thr st) (s_fams st) (s_hs st ++ [h]) (s_rds st).
Definition set_h (st : state) (i : Z) (h : handle) : state :=
  mkS (s_thr st) (s_fams st) (upd (Z.to_nat i) h (s_hs st)) (s_rds st).
Definition is_dead (h : handle) : bool := match h with HDead => true | _ => false end.

Definition h_data (st : state) (h : handle) : list Z :=
  match h with
  | HBuf f m => m_data (get_fam st f) m
  | HPlain b => b
  | _ => []
  end.
Definition h_kind (h : handle) : Z := match h with HPlain _ => 1 | _ => 0 end.

(* number of Puts of family i caused by a step from st to st' *)
Definition puts_between (st st' : state) : list Z :=
  flat_map (fun i => if f_puts (get_fam st i) <? f_puts (get_fam st' i) then [Z.of_nat i] else [])
           (seq 0 (length (s_fams st'))).

(* b.Ref() / b.Free() on what a handle denotes; None = panic *)
Definition h_ref (st : state) (h : handle) : option state :=
  match h with
  | HBuf f m => match fam_ref (get_fam st f) m with Some f' => Some (set_fam st f f') | None => None end
  | HDead => None
  | _ => Some st
  end.
Definition h_free (st : state) (h : handle) : option state :=
  match h with
  | HBuf f m => match fam_free (get_fam st f) m with Some f' => Some (set_fam st f f') | None => None end
  | HDead => None
  | _ => Some st
  end.
Fixpoint refs_all (st : state) (l : list handle) : option state :=
  match l with
  | [] => Some st
  | h :: r => match h_ref st h with Some st' => refs_all st' r | None => None end
  end.
Fixpoint frees_all (st : state) (l : list handle) : option state :=
  match l with
  | [] => Some st
  | h :: r => match h_free st h with Some st' => frees_all st' r | None => None end
  end.

(* NewBuffer(&data, pool) with cap(data) = len(data): SliceBuffer below the threshold *)
Definition new_buffer (st : state) (bytes : list Z) : state * handle :=
  if zlen bytes <=? s_thr st then (st, HPlain bytes)
  else (mkS (s_thr st) (s_fams st ++ [fam_new bytes]) (s_hs st) (s_rds st),
        HBuf (length (s_fams st)) 0).

Definition gen_bytes (len seed : Z) : list Z :=
  map (fun i => (seed + Z.of_nat i) mod 200) (seq 0 (Z.to_nat len)).

(* Reader.Read loop; returns (state, remaining data, idx, rlen, bytes read) *)
Fixpoint rd_read (st : state) (data : list handle) (idx n rlen : Z) (acc : list Z)
  : option (state * list handle * Z * Z * list Z) :=
  match data with
  | [] => Some (st, [], idx, rlen, acc)
  | h :: rest =>
    if (n =? 0) || (rlen =? 0) then Some (st, data, idx, rlen, acc) else
    let d := h_data st h in
    let c := Z.min n (zlen d - idx) in
    let acc' := acc ++ window idx c d in
    if idx + c =? zlen d then
      match h_free st h with
      | Some st' => rd_read st' rest 0 (n - c) (rlen - c) acc'
      | None => None
      end
    else Some (st, data, idx + c, rlen - c, acc')
  end.
(* Reader.Discard loop; returns (state, data, idx, rlen, n left) *)
Fixpoint rd_discard (st : state) (data : list handle) (idx n rlen : Z)
  : option (state * list handle * Z * Z * Z) :=
  match data with
  | [] => Some (st, [], idx, rlen, n)
  | h :: rest =>
    if negb ((n >? 0) && (rlen >? 0)) then Some (st, data, idx, rlen, n) else
    let d := h_data st h in
    let c := Z.min n (zlen d - idx) in
    if idx + c >=? zlen d then
      match h_free st h with
      | Some st' => rd_discard st' rest 0 (n - c) (rlen - c)
      | None => None
      end
    else Some (st, data, idx + c, rlen - c, n - c)
  end.
(* Reader.Peek *)
Fixpoint rd_peek (st : state) (data : list handle) (start n : Z) (acc : list Z) : option (list Z) :=
  if n <=? 0 then Some acc else
  match data with
  | [] => None
  | h :: rest =>
    let d := h_data st h in
    let c := Z.min n (zlen d - start) in
    rd_peek st rest 0 (n - c) (acc ++ window start c d)
  end.

Definition get_rd (st : state) (i : Z) : option reader :=
  if i <? 0 then None else nth_error (s_rds st) (Z.to_nat i).
Definition set_rd (st : state) (i : Z) (r : reader) : state :=
  mkS (s_thr st) (s_fams st) (s_hs st) (upd (Z.to_nat i) r (s_rds st)).

(* ------------------------------------------------------------------ *)
(* operations                                                          *)
Inductive mop :=
| MNew (len seed : Z) | MCopy (len seed : Z) | MRef (h : Z) | MFree (h : Z)
| MSlice (h s e : Z) | MSplit (h n : Z) | MRead (h n : Z) | MData (h : Z)
| MReader (hs : list Z) | MRdRead (r n : Z) | MRdDiscard (r n : Z) | MRdClose (r : Z)
| MMaterialize (hs : list Z) | MRdPeek (r n : Z).

Definition get_zlist (w : word) : option (list Z) :=
  match w with
  | n :: r => if (n <? 0) || negb (Z.of_nat (length r) =? n) then None else Some r
  | [] => None
  end.
Definition get_mop (op : word) : option mop :=
  match op with
  | [1; len; seed] => Some (MNew len seed)
  | [2; len; seed] => Some (MCopy len seed)
  | [3; h] => Some (MRef h)
  | [4; h] => Some (MFree h)
  | [5; h; s; e] => Some (MSlice h s e)
  | [6; h; n] => Some (MSplit h n)
  | [7; h; n] => Some (MRead h n)
  | [8; h] => Some (MData h)
  | 9 :: r => match get_zlist r with Some l => Some (MReader l) | None => None end
  | [10; r; n] => Some (MRdRead r n)
  | [11; r; n] => Some (MRdDiscard r n)
  | [12; r] => Some (MRdClose r)
  | 13 :: r => match get_zlist r with Some l => Some (MMaterialize l) | None => None end
  | [14; r; n] => Some (MRdPeek r n)
  | _ => None
  end.

Definition skip : word := [-1].
(* obs of an executed op: 0 :: [families put during the op] ++ [meta] ++ [bytes read], each
   as a length-prefixed list *)
Definition mk_obs (st st' : state) (meta bytes : list Z) : word :=
  0 :: put_bytes (puts_between st st') ++ put_bytes meta ++ put_bytes bytes.
Definition new_obs (st st' : state) (h : handle) : word :=
  mk_obs st st' [h_kind h; zlen (h_data st' h)] [].

(* SplitUnsafe / ReadUnsafe mutate the receiver: they are only applied to a buffer object that
   has exactly one handle and is not in the list of an open reader *)
Definition same_obj (f m : nat) (h : handle) : bool :=
  match h with HBuf f' m' => Nat.eqb f f' && Nat.eqb m m' | _ => false end.
Definition exclusive (st : state) (h : handle) : bool :=
  match h with
  | HBuf f m => (length (filter (same_obj f m) (s_hs st)) =? 1)%nat &&
                negb (existsb (fun r => existsb (same_obj f m) (r_orig r)) (s_rds st))
  | _ => true
  end.

Definition handles_of (st : state) (l : list Z) : list handle := map (get_h st) l.

Definition apply_op (st : state) (o : mop) : state * word :=
  match o with
  | MNew len seed | MCopy len seed =>
    if (len <? 0) || (len >? 64) then (st, skip) else
    let '(st1, h) := new_buffer st (gen_bytes len seed) in
    let st' := add_h st1 h in (st', new_obs st st' h)
  | MRef hi =>
    let h := get_h st hi in
    match (if is_dead h then None else h_ref st h) with
    | Some st1 => let st' := add_h st1 h in (st', new_obs st st' h)
    | None => (st, skip)
    end
  | MFree hi =>
    let h := get_h st hi in
    match (if is_dead h then None else h_free st h) with
    | Some st1 => let st' := set_h st1 hi HDead in (st', mk_obs st st' [] [])
    | None => (st, skip)
    end
  | MSlice hi s e =>
    let h := get_h st hi in
    if negb ((0 <=? s) && (s <=? e) && (e <=? zlen (h_data st h))) then (st, skip) else
    match h with
    | HBuf f m =>
      match fam_slice (get_fam st f) m s e with
      | Some (f', r) =>
        let nh := match r with SEmpty => HEmpty | SSame => h | SNew j => HBuf f (S j) end in
        let st' := add_h (set_fam st f f') nh in (st', new_obs st st' nh)
      | None => (st, skip)
      end
    | HPlain b => let nh := HPlain (window s (e - s) b) in
                  let st' := add_h st nh in (st', new_obs st st' nh)
    | HEmpty => let st' := add_h st HEmpty in (st', new_obs st st' HEmpty)
    | HDead => (st, skip)
    end
  | MSplit hi n =>
    let h := get_h st hi in
    if negb ((0 <=? n) && (n <=? zlen (h_data st h)) && exclusive st h) then (st, skip) else
    match h with
    | HBuf f m =>
      match fam_split (get_fam st f) m n with
      | Some (f', j) => let nh := HBuf f (S j) in
                        let st' := add_h (set_fam st f f') nh in (st', new_obs st st' nh)
      | None => (st, skip)
      end
    | HPlain b => let nh := HPlain (window n (zlen b - n) b) in
                  let st' := add_h (set_h st hi (HPlain (window 0 n b))) nh in (st', new_obs st st' nh)
    | HEmpty => let st' := add_h st HEmpty in (st', new_obs st st' HEmpty)
    | HDead => (st, skip)
    end
  | MRead hi n =>
    let h := get_h st hi in
    if (n <? 0) || (n >? 64) || negb (exclusive st h) then (st, skip) else
    match h with
    | HBuf f m =>
      match fam_read (get_fam st f) m n with
      | Some (out, f', consumed) =>
        let st1 := set_fam st f f' in
        let st' := if consumed then set_h st1 hi HDead else st1 in
        (st', mk_obs st st' [b2z consumed] out)
      | None => (st, skip)
      end
    | HPlain b =>
      let k := Z.min n (zlen b) in
      let consumed := k =? zlen b in
      let st' := set_h st hi (if consumed then HDead else HPlain (window k (zlen b - k) b)) in
      (st', mk_obs st st' [b2z consumed] (window 0 k b))
    | HEmpty => (st, mk_obs st st [0] [])
    | HDead => (st, skip)
    end
  | MData hi =>
    let h := get_h st hi in
    if is_dead h then (st, skip) else (st, mk_obs st st [] (h_data st h))
  | MReader his =>
    let hl := handles_of st his in
    if existsb is_dead hl then (st, skip) else
    match refs_all st hl with
    | Some st1 =>
      let len := fold_right (fun h a => zlen (h_data st1 h) + a) 0 hl in
      let st' := mkS (s_thr st1) (s_fams st1) (s_hs st1) (s_rds st1 ++ [mkRd hl len 0 hl]) in
      (st', mk_obs st st' [len] [])
    | None => (st, skip)
    end
  | MRdRead ri n =>
    if (n <? 0) || (n >? 64) then (st, skip) else
    match get_rd st ri with
    | Some r =>
      if r_len r =? 0 then (st, mk_obs st st [1] []) else
      match rd_read st (r_data r) (r_idx r) n (r_len r) [] with
      | Some (st1, data, idx, rlen, out) =>
        let st' := set_rd st1 ri (mkRd data rlen idx (r_orig r)) in
        (st', mk_obs st st' [0] out)
      | None => (st, skip)
      end
    | None => (st, skip)
    end
  | MRdDiscard ri n =>
    match get_rd st ri with
    | Some r =>
      match rd_discard st (r_data r) (r_idx r) n (r_len r) with
      | Some (st1, data, idx, rlen, nleft) =>
        let st' := set_rd st1 ri (mkRd data rlen idx (r_orig r)) in
        (st', mk_obs st st' [n - nleft; b2z (nleft >? 0)] [])
      | None => (st, skip)
      end
    | None => (st, skip)
    end
  | MRdClose ri =>
    match get_rd st ri with
    | Some r =>
      match frees_all st (r_data r) with
      | Some st1 => let st' := set_rd st1 ri (mkRd [] 0 0 []) in (st', mk_obs st st' [] [])
      | None => (st, skip)
      end
    | None => (st, skip)
    end
  | MMaterialize his =>
    let hl := handles_of st his in
    if existsb is_dead hl then (st, skip) else
    match hl with
    | [h] =>
      match h_ref st h with
      | Some st1 => let st' := add_h st1 h in (st', new_obs st st' h)
      | None => (st, skip)
      end
    | _ =>
      let bytes := flat_map (h_data st) hl in
      if zlen bytes =? 0 then let st' := add_h st HEmpty in (st', new_obs st st' HEmpty) else
      let '(st1, h) := new_buffer st bytes in
      let st' := add_h st1 h in (st', new_obs st st' h)
    end
  | MRdPeek ri n =>
    match get_rd st ri with
    | Some r =>
      match rd_peek st (r_data r) (r_idx r) n [] with
      | Some out => (st, mk_obs st st [1] out)
      | None => (st, mk_obs st st [0] [])
      end
    | None => (st, skip)
    end
  end.

Fixpoint run_ops (st : state) (ops : list word) : option (list word) :=
  match ops with
  | [] => Some []
  | op :: r => match get_mop op with
               | Some o => match run_ops (fst (apply_op st o)) r with
                           | Some os => Some (snd (apply_op st o) :: os)
                           | None => None
                           end
               | None => None
               end
  end.
Definition init (thr : Z) : state := mkS thr [] [] [].

(* ================================================================== *)
(* cfg 2: buffer pools                                                 *)
(* a byte buffer as the pool sees it: (len, contents of the whole capacity) *)
Definition pbuf := (Z * list Z)%type.
Definition zeros (n : nat) : list Z := repeat 0 n.
(* sizedBufferPool.Get(size): rec = what sync.Pool.Get returned, if anything *)
Definition sized_get (rec : option (list Z)) (size dsize : Z) (zero : bool) : pbuf :=
  match rec with
  | None => (size, zeros (Z.to_nat dsize))
  | Some c => (size, if zero then zeros (length c) else c)
  end.
Definition page_round (size : Z) : Z := ((size + 4095) / 4096) * 4096.
(* SimpleBufferPool.Get(size) *)
Definition simple_get (rec : option (list Z)) (size : Z) (zero : bool) : pbuf :=
  match rec with
  | Some c => if zlen c >=? size then (size, if zero then zeros (length c) else c)
              else (size, zeros (Z.to_nat (page_round size)))
  | None => (size, zeros (Z.to_nat (page_round size)))
  end.
(* TieredBufferPool.getPool: first tier (sizes sorted) with defaultSize >= size;
   BinaryTieredBufferPool.poolForGet: the same over the tier sizes 2^e, except size 0 and
   sizes above the largest tier, which go to the fallback pool *)
Fixpoint tier_for (tiers : list Z) (size : Z) : option Z :=
  match tiers with
  | [] => None
  | t :: r => if t >=? size then Some t else tier_for r size
  end.
Fixpoint insert_sorted (x : Z) (l : list Z) : list Z :=
  match l with
  | [] => [x]
  | y :: r => if x <=? y then x :: l else y :: insert_sorted x r
  end.
Definition sort_z (l : list Z) : list Z := fold_right insert_sorted [] l.
Definition pool_tier (kind : Z) (tiers : list Z) (size : Z) : option Z :=
  if kind =? 0 then tier_for (sort_z tiers) size
  else if size =? 0 then None else tier_for (sort_z (map (fun e => 2 ^ e) tiers)) size.
(* op [1; n] Get(n): obs [len; cap (-1 for the fallback pool, whose capacity depends on what
   sync.Pool hands back); all bytes of the capacity zero];  op [2; i] Put of the i-th buffer *)
Definition pool_get_obs (kind : Z) (tiers : list Z) (n : Z) : word :=
  match pool_tier kind tiers n with
  | Some t => let b := sized_get None n t true in [fst b; zlen (snd b); b2z (forallb (Z.eqb 0) (snd b))]
  | None => let b := simple_get None n true in [fst b; -1; b2z (forallb (Z.eqb 0) (snd b))]
  end.
Inductive pop := PGet (n : Z) | PPut (i : Z).
Definition get_pop (op : word) : option pop :=
  match op with
  | [1; n] => Some (PGet n)
  | [2; i] => Some (PPut i)
  | _ => None
  end.
Definition pool_step (kind : Z) (tiers : list Z) (op : word) : option word :=
  match get_pop op with
  | Some (PGet n) => if (0 <=? n) && (n <=? 20000) then Some (pool_get_obs kind tiers n) else None
  | Some (PPut _) => Some []
  | None => None
  end.
Fixpoint pool_run (kind : Z) (tiers : list Z) (ops : list word) : option (list word) :=
  match ops with
  | [] => Some []
  | op :: r => match pool_step kind tiers op, pool_run kind tiers r with
               | Some o, Some os => Some (o :: os)
               | _, _ => None
               end
  end.

(* ================================================================== *)
(* the property on observations                                        *)
(* clause 1: a pooled allocation is returned to the pool at most once over the whole trace;
   clause 4: every Put observed at a step is a Put of the model at that step, i.e. the step
             that frees the last outside reference (fails on an early or spurious Put);
   clause 5: every Put of the model at a step is observed at that step (fails on a leak or a
             late Put);
   clause 2: the bytes read through a live reference are the original bytes of its window
             (the tracking pool overwrites an array with 238 on Put);
   clause 3 (cfg 2): Get(n) has length n, capacity >= n and only zero bytes *)
Fixpoint nodup_z (l : list Z) : bool :=
  match l with
  | [] => true
  | x :: r => negb (existsb (Z.eqb x) r) && nodup_z r
  end.
Definition get_obs3 (o : word) : option (list Z * list Z * list Z) :=
  match o with
  | 0 :: r =>
    match get_bytes r with
    | Some (puts, r1) =>
      match get_bytes r1 with
      | Some (meta, r2) =>
        match get_bytes r2 with
        | Some (bytes, []) => Some (puts, meta, bytes)
        | _ => None
        end
      | None => None
      end
    | None => None
    end
  | _ => None
  end.
Definition is_skip (o : word) : bool := word_eqb o skip.
Definition subset_z (a b : list Z) : bool := forallb (fun p => existsb (Z.eqb p) b) a.
(* the clauses thread the model state: the model (proved in MemBuf_proofs.v to put an
   allocation exactly at the step that frees its last outside reference) says at which step
   each allocation goes back to the pool and which bytes a live reference reads *)
Fixpoint buf_clauses (st : state) (seen : list Z) (k : Z) (ops obs : list word) : list (Z * Z * bool) :=
  match ops, obs with
  | [], [] => []
  | op :: r, o :: r' =>
    match get_mop op with
    | None => [(0, k, false)]
    | Some mo =>
      let st' := fst (apply_op st mo) in
      let m := snd (apply_op st mo) in
      if is_skip o || is_skip m then buf_clauses st' seen (k + 1) r r' else
      match get_obs3 o, get_obs3 m with
      | Some (po, _, bo), Some (pm, _, bm) =>
        (1, k, forallb (fun p => negb (existsb (Z.eqb p) seen)) po && nodup_z po) ::
        (4, k, subset_z po pm) :: (5, k, subset_z pm po) :: (2, k, word_eqb bo bm) ::
        buf_clauses st' (po ++ seen) (k + 1) r r'
      | _, _ => [(0, k, false)]
      end
    end
  | _, _ => [(0, 0, false)]
  end.
Fixpoint pool_clauses (ops obs : list word) : list (Z * Z * bool) :=
  match ops, obs with
  | op :: r, o :: r' =>
    match get_pop op, o with
    | Some (PGet n), [len; cap; zero] =>
      (3, n, (len =? n) && ((cap =? -1) || (n <=? cap)) && (zero =? 1)) :: pool_clauses r r'
    | Some (PPut _), [] => pool_clauses r r'
    | _, _ => [(0, 0, false)]
    end
  | [], [] => []
  | _, _ => [(0, 0, false)]
  end.

Definition run (cfg : word) (ops : list word) : option (list word) :=
  match cfg with
  | [1; thr] => run_ops (init thr) ops
  | 2 :: kind :: tiers => pool_run kind tiers ops
  | _ => None
  end.
Definition clauses (cfg : word) (ops obs : list word) : list (Z * Z * bool) :=
  match cfg with
  | [1; thr] => buf_clauses (init thr) [] 0 ops obs
  | 2 :: kind :: tiers => pool_clauses ops obs
  | _ => [(0, 0, false)]
  end.
Definition holds_b (cfg : word) (ops obs : list word) : bool :=
  forallb (fun c => snd c) (clauses cfg ops obs).
Definition check_case (c : case) : verdict :=
  decide (run (c_cfg c) (c_ops c)) (c_obs c) (clauses (c_cfg c) (c_ops c) (c_obs c)).
