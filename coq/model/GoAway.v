(* C14: GOAWAY and graceful drain.
   Client side = the reader machine of model/ClientFrames.v (handleGoAway, NewStream refusal
   while draining, loopy exit when the last stream of a draining transport is cleaned up) plus
   http2Client.GracefulClose (local drain: state = draining without a GOAWAY; Close at once when
   no stream is active).
   Server side, transcribed here from internal/transport/http2_server.go:
     Drain (drainEvent, heads-up goAway), outgoingGoAwayHandler (GOAWAY(2^31-1) + PING, then after
     the PING ack or 5 s GOAWAY(maxStreamID), state = draining; loopy exits when no stream is left,
     the connection is closed 1 s later), handlePing (ack of goAwayPing fires drainEvent),
     operateHeaders for a well-formed request with a legal id (accept / REFUSED_STREAM / dropped
     when not reachable; see model/ServerHeaders.v), handleRSTStream / WriteStatus on streams,
     Write + WriteStatus of a response that waits in loopy for the stream's send window
     (finishStream: the stream stays in t.activeStreams until the END_STREAM trailers are written),
     WINDOW_UPDATE (the queued DATA and trailers are flushed).
   Time is virtual milliseconds.  No proofs here. *)
From Coq Require Import List ZArith Bool.
From VLib Require Import Codec Machine.
From VModel Require ClientFrames.
Import ListNotations.
Open Scope Z_scope.

Module CF := ClientFrames.
Definition lenZ {A} (l : list A) : Z := Z.of_nat (length l).

(* ================= server ================= *)
Record gstate := mkg {
  g_max : Z;                   (* t.maxStreamID *)
  g_active : list (Z * Z);     (* t.activeStreams: (id, 0 active / 1 read-done / 3, 4 streamDone (was 0 / 1)
                                  but loopy still holds DATA + trailers behind the send window) *)
  g_handled : Z;               (* handler invocations *)
  g_reach : bool;              (* t.state == reachable *)
  g_phase : Z;                 (* 0 no drain, 1 heads-up GOAWAY + PING sent, 2 final GOAWAY sent *)
  g_timer : Z;                 (* phase 1: when the 5 s timer fires *)
  g_loopy : bool;              (* loopy writer still running *)
  g_linger : Z;                (* loopy exited: time at which the connection is closed *)
  g_closed : bool;
  g_now : Z;
  g_oiws : Z;                  (* loopy's oiws: the client's SETTINGS_INITIAL_WINDOW_SIZE *)
  g_win : list (Z * Z) }.      (* per stream: WINDOW_UPDATE credit received minus bytes handed to loopy *)
Definition ginit (oiws : Z) := mkg 0 [] 0 true 0 0 true 0 false 0 oiws [].
Definition g0 := ginit 65535.

Definition upd_active (g : gstate) (l : list (Z * Z)) : gstate :=
  mkg (g_max g) l (g_handled g) (g_reach g) (g_phase g) (g_timer g) (g_loopy g) (g_linger g) (g_closed g) (g_now g) (g_oiws g) (g_win g).
Definition set_now (g : gstate) (t : Z) : gstate :=
  mkg (g_max g) (g_active g) (g_handled g) (g_reach g) (g_phase g) (g_timer g) (g_loopy g) (g_linger g) (g_closed g) t (g_oiws g) (g_win g).
Definition is_nil {A} (l : list A) : bool := match l with [] => true | _ => false end.

(* cleanupStreamHandler / outgoingGoAwayHandler: a draining loopy with no stream left returns;
   the connection is closed one second later *)
Definition loopy_check (g : gstate) : gstate :=
  if g_loopy g && (g_phase g =? 2) && is_nil (g_active g)
  then mkg (g_max g) (g_active g) (g_handled g) (g_reach g) (g_phase g) (g_timer g) false (g_now g + 1000) (g_closed g) (g_now g) (g_oiws g) (g_win g)
  else g.

(* the second goAway item: state = draining, GOAWAY(maxStreamID, NO_ERROR) *)
Definition final_goaway (g : gstate) : gstate * list Z :=
  if g_closed g || negb (g_loopy g) || negb (g_phase g =? 1) then (g, [])
  else
    (loopy_check (mkg (g_max g) (g_active g) (g_handled g) false 2 (g_timer g) true (g_linger g) false (g_now g) (g_oiws g) (g_win g)),
     [7; g_max g; 0; 0]).

Definition close_now (g : gstate) : gstate * list Z :=
  (mkg (g_max g) [] (g_handled g) (g_reach g) (g_phase g) (g_timer g) false (g_linger g) true (g_now g) (g_oiws g) (g_win g), [8; 0; 0; 0]).

Fixpoint find_stream (sid : Z) (l : list (Z * Z)) : option Z :=
  match l with
  | [] => None
  | (i, s) :: r => if i =? sid then Some s else find_stream sid r
  end.
Definition del_stream (sid : Z) (l : list (Z * Z)) : list (Z * Z) := filter (fun e => negb (fst e =? sid)) l.
Fixpoint set_stream (sid s : Z) (l : list (Z * Z)) : list (Z * Z) :=
  match l with
  | [] => []
  | (i, s0) :: r => if i =? sid then (i, s) :: r else (i, s0) :: set_stream sid s r
  end.

(* stream states 3 / 4: streamDone, the response (DATA + END_STREAM trailers) waits in loopy *)
Definition is_done (s : Z) : bool := (s =? 3) || (s =? 4).
Definition fin_blocked (s : Z) : Z := if s =? 0 then 3 else 4.
(* the stream's send window: oiws - bytesOutStanding *)
Definition window (g : gstate) (sid : Z) : Z :=
  g_oiws g + match find_stream sid (g_win g) with Some d => d | None => 0 end.
Definition with_win (g : gstate) (sid d : Z) : gstate :=
  mkg (g_max g) (g_active g) (g_handled g) (g_reach g) (g_phase g) (g_timer g) (g_loopy g) (g_linger g) (g_closed g) (g_now g)
      (g_oiws g) ((sid, d) :: del_stream sid (g_win g)).
(* END_STREAM trailers of stream sid (grpc-status 0), then RST_STREAM(NO_ERROR) when the client
   has not half-closed *)
Definition ev_trailers (sid http : Z) (rst : bool) : list Z :=
  [1; sid; http; 0] ++ (if rst then [3; sid; 0; 0] else []).

Inductive sop :=
| SHeaders (sid : Z) (ended : bool)
| SRst (sid : Z)
| SFinish (sid : Z)
| SDrain
| SAck
| SSleep (ms : Z)
| SWriteFinish (sid n : Z)
| SWindow (sid inc : Z).

(* the application finishes stream sid: WriteStatus(OK), after a Write of a 5 + n byte message
   when wr = Some n.  The stream leaves t.activeStreams when loopy writes the END_STREAM trailers
   (cleanupStream.onWrite), which it does only after the DATA queued before them; loopy runs
   whenever a stream is active (proved) *)
Definition finish (g : gstate) (sid : Z) (wr : option Z) : gstate * list Z :=
  match find_stream sid (g_active g) with
  | None => (g, [])
  | Some s =>
    if is_done s then (g, [])          (* streamDone: Write and WriteStatus return at once *)
    else
      let gone := loopy_check (upd_active g (del_stream sid (g_active g))) in
      match wr with
      | None => (gone, ev_trailers sid 200 (s =? 0))
      | Some n =>
        (* HEADERS (no END_STREAM) at once; DATA as far as the send window allows; the trailers
           only after the last byte of DATA *)
        let w := window g sid - (5 + n) in
        if 0 <=? w then (gone, [1; sid; 1200; -1] ++ ev_trailers sid (-1) (s =? 0))
        else (with_win (upd_active g (set_stream sid (fin_blocked s) (g_active g))) sid (w - g_oiws g),
              [1; sid; 1200; -1])
      end
  end.

(* what the handler of the scripted request reports: no deadline, 2 metadata keys/values
   (:authority, content-type), method "/s/m", authority "a.b" *)
Definition handler_event (sid : Z) (ended : bool) : list Z :=
  [9; sid; 0; b2z ended; 2; 2; 4; 47; 115; 47; 109; 3; 97; 46; 98].

Definition sstep (maxs : Z) (g : gstate) (o : sop) : gstate * list Z :=
  if g_closed g then (g, []) else
  match o with
  | SHeaders sid ended =>
    (* the id is legal (checked on the op list): maxStreamID = sid; then the state and
       MaxConcurrentStreams checks of operateHeaders *)
    let g1 := mkg sid (g_active g) (g_handled g) (g_reach g) (g_phase g) (g_timer g) (g_loopy g) (g_linger g) false (g_now g) (g_oiws g) (g_win g) in
    if negb (g_reach g) then (g1, [])
    else if maxs <=? lenZ (g_active g) then (g1, [3; sid; 7; 0])
    else (mkg sid (g_active g ++ [(sid, b2z ended)]) (g_handled g + 1) true (g_phase g) (g_timer g) (g_loopy g) (g_linger g) false (g_now g) (g_oiws g) (g_win g),
          handler_event sid ended)
  | SRst sid => (loopy_check (upd_active g (del_stream sid (g_active g))), [])
  | SFinish sid => finish g sid None
  | SWriteFinish sid n => finish g sid (Some n)
  | SWindow sid inc =>
    (* WINDOW_UPDATE(sid, inc > 0): loopy adds the credit; a finished stream whose queued DATA now
       fits is flushed: DATA, END_STREAM trailers (+ RST_STREAM), and only now it leaves
       t.activeStreams (and a draining loopy with no stream left returns) *)
    match find_stream sid (g_active g) with
    | None => (g, [])
    | Some s =>
      let w := window g sid + inc in
      if is_done s && (0 <=? w)
      then (loopy_check (upd_active g (del_stream sid (g_active g))), ev_trailers sid (-1) (s =? 3))
      else (with_win g sid (w - g_oiws g), [])
    end
  | SDrain =>
    if negb (g_phase g =? 0) || negb (g_loopy g) then (g, [])
    else (mkg (g_max g) (g_active g) (g_handled g) (g_reach g) 1 (g_now g + 5000) true (g_linger g) false (g_now g) (g_oiws g) (g_win g),
          [7; 2147483647; 0; 0; 6; 0; 0; 0])
  | SAck => final_goaway g
  | SSleep ms =>
    let now' := g_now g + ms in
    if (g_phase g =? 1) && (g_timer g <=? now') then
      let '(g1, ev1) := final_goaway (set_now g (g_timer g)) in
      if negb (g_loopy g1) && (g_linger g1 <=? now') then
        let '(g2, ev2) := close_now (set_now g1 now') in (g2, ev1 ++ ev2)
      else (set_now g1 now', ev1)
    else if negb (g_loopy g) && (g_linger g <=? now') then close_now (set_now g now')
    else (set_now g now', [])
  end.

Definition shdr (g : gstate) : list Z := [lenZ (g_active g); g_handled g; g_max g].
Fixpoint srun (maxs : Z) (g : gstate) (ops : list sop) : list word :=
  match ops with
  | [] => []
  | o :: r => let '(g', ev) := sstep maxs g o in (shdr g' ++ ev) :: srun maxs g' r
  end.

(* server ops; HEADERS ids must be odd and strictly increasing over the op list *)
Definition decode_sop (last : Z) (w : word) : option (sop * Z) :=
  match w with
  | [1; sid; e] => if Z.odd sid && (last <? sid) && (sid <? 2147483647) && ((e =? 0) || (e =? 1))
                   then Some (SHeaders sid (e =? 1), sid) else None
  | [2; sid] => if (1 <=? sid) && (sid <? 2147483648) then Some (SRst sid, last) else None
  | [3; sid] => if (1 <=? sid) && (sid <? 2147483648) then Some (SFinish sid, last) else None
  | [7] => Some (SDrain, last)
  | [8] => Some (SAck, last)
  | [12; ms] => if (1 <=? ms) && (ms <=? 60000) then Some (SSleep ms, last) else None
  | [9; sid; n] => if (1 <=? sid) && (sid <? 2147483648) && (0 <=? n) && (n <=? 1000)
                   then Some (SWriteFinish sid n, last) else None
  | [10; sid; inc] => if (1 <=? sid) && (sid <? 2147483648) && (1 <=? inc) && (inc <=? 2147483647)
                      then Some (SWindow sid inc, last) else None
  | _ => None
  end.
Fixpoint decode_sops (last : Z) (ws : list word) : option (list sop) :=
  match ws with
  | [] => Some []
  | w :: r => match decode_sop last w with
              | Some (o, last') => match decode_sops last' r with
                                   | Some os => Some (o :: os)
                                   | None => None
                                   end
              | None => None
              end
  end.

(* ================= client: the C11 reader machine + GracefulClose ================= *)
Inductive cop :=
| CO (o : CF.op)
| CGraceful.            (* http2Client.GracefulClose *)

(* GracefulClose: only from reachable; state = draining, loopy is told to drain (incomingGoAway);
   with no active stream the transport is closed at once.  t.goAway stays open and
   t.prevGoAwayID stays 0: no GOAWAY has been received *)
Definition graceful (c : CF.conn) : CF.conn * list CF.ev4 :=
  if CF.k_mode c =? 0 then
    if CF.any_active c
    then (CF.mkconn (CF.k_streams c) (CF.k_next c) 1 (CF.k_goaway c) (CF.k_prev c) (CF.k_now c), [])
    else CF.close_conn c
  else (c, []).
(* NewStream on a transport that drains locally while t.goAway is still open: checkForStreamQuota
   refuses (state == draining) and NewStream waits for a GOAWAY, the end of the transport or its
   context; the driver cancels the context at the quiescent point: event (0, -2, 0, 0) *)
Definition new_waits (c : CF.conn) : bool := (CF.k_mode c =? 1) && negb (CF.k_goaway c).
Definition cstep (c : CF.conn) (o : cop) : CF.conn * list CF.ev4 :=
  match o with
  | CO (CF.ONew dl) => if new_waits c then (c, [(0, -2, 0, 0)]) else CF.step c (CF.ONew dl)
  | CO o => CF.step c o
  | CGraceful => graceful c
  end.
Fixpoint crun_ops (c : CF.conn) (ops : list cop) : list (list CF.ev4) :=
  match ops with
  | [] => [CF.final c]
  | o :: r => let '(c', ev) := cstep c o in ev :: crun_ops c' r
  end.
Definition decode_cop (w : word) : option cop :=
  match w with
  | [30] => Some CGraceful
  | _ => match CF.decode_op w with Some o => Some (CO o) | None => None end
  end.
Fixpoint decode_cops (ws : list word) : option (list cop) :=
  match ws with
  | [] => Some []
  | w :: r => match decode_cop w, decode_cops r with
              | Some o, Some os => Some (o :: os)
              | _, _ => None
              end
  end.

(* cfg [0]: client; [1; maxStreams] / [1; maxStreams; zw]: server (zw = 1: the client advertises
   SETTINGS_INITIAL_WINDOW_SIZE = 0) *)
Definition decode_scfg (cfg : word) : option (Z * Z) :=
  match cfg with
  | [1; maxs] => if (0 <=? maxs) && (maxs <=? max_u32) then Some (maxs, 65535) else None
  | [1; maxs; zw] => if (0 <=? maxs) && (maxs <=? max_u32) && ((zw =? 0) || (zw =? 1))
                     then Some (maxs, if zw =? 1 then 0 else 65535) else None
  | _ => None
  end.
Definition is_client (cfg : word) : bool := match cfg with [0] => true | _ => false end.
Definition run (cfg : word) (ops : list word) : option (list word) :=
  if is_client cfg then
    match decode_cops ops with
    | Some os => Some (map CF.flatten (crun_ops CF.conn0 os))
    | None => None
    end
  else
    match decode_scfg cfg, decode_sops 0 ops with
    | Some (maxs, oiws), Some os => Some (srun maxs (ginit oiws) os)
    | _, _ => None
    end.

(* ================= the property on observations ================= *)
(* The clauses are evaluated on the implementation's observations; the classification of an
   op (has a GOAWAY been accepted before, is this a later GOAWAY with a larger id, has the
   final GOAWAY been sent) comes from the history of the ops, replayed on the model. *)

(* ---- client traces (events as in ClientFrames) ---- *)
Definition has_eof (ev : list CF.ev4) : bool := existsb (fun e => CF.tag e =? 8) ev.
Definition goaway_even (id : Z) : bool := (0 <? id) && Z.even id.
Definition goaway_larger (c : CF.conn) (id : Z) : bool := CF.k_goaway c && (CF.k_prev c <? id).

(* clause ids, client:
   1 after a GOAWAY has been accepted every NewStream fails
   2 a GOAWAY(N) terminates only streams with id > N, and those end Unavailable + unprocessed
   6 a GOAWAY with a non-zero even last-stream-id is a connection error (the connection is closed)
   7 a later GOAWAY with a larger id is a connection error (the connection is closed); "later" =
     after a GOAWAY that was accepted, whether the transport was reachable or already draining
     locally (GracefulClose) when that one arrived *)
Definition cclause (c : CF.conn) (o : cop) (ev : list CF.ev4) : list (Z * Z * bool) :=
  match o with
  | CO (CF.ONew _) =>
    [ (1, 0, negb (CF.k_goaway c) || forallb (fun e => negb (CF.tag e =? 0) || (CF.esid e =? -1)) ev) ]
  | CO (CF.OGoAway id code) =>
    if CF.k_mode c =? 2 then []
    else if goaway_even id then [ (6, id, has_eof ev) ]
    else if goaway_larger c id then [ (7, id, has_eof ev) ]
    else [ (2, id, forallb (fun e => negb (CF.tag e =? 1) ||
                                     ((id <? CF.esid e) && (CF.ecode e =? 14) && (snd e =? 1))) ev) ]
  | _ => []
  end.
Fixpoint cclauses (c : CF.conn) (ops : list cop) (obs : list (list CF.ev4)) : list (Z * Z * bool) :=
  match ops, obs with
  | o :: r, ev :: r' => cclause c o ev ++ cclauses (fst (cstep c o)) r r'
  | [], [_] => []
  | _, _ => [(0, 0, false)]
  end.

(* ---- server traces ---- *)
(* first GOAWAY event that is not the heads-up one; events are 4 integers, a handler event
   (tag 9, variable length) is always last *)
Fixpoint find_final (fuel : nat) (ev : list Z) : option Z :=
  match fuel with
  | O => None
  | S f => match ev with
           | t :: a :: b :: c :: r =>
             if (t =? 7) && negb (a =? 2147483647) then Some a
             else if t =? 9 then None else find_final f r
           | _ => None
           end
  end.
Fixpoint has_close (fuel : nat) (ev : list Z) : bool :=
  match fuel with
  | O => false
  | S f => match ev with
           | t :: a :: b :: c :: r => (t =? 8) || (if t =? 9 then false else has_close f r)
           | _ => false
           end
  end.
(* END_STREAM trailers with grpc-status 0 for stream sid among the events *)
Fixpoint has_trailers (fuel : nat) (sid : Z) (ev : list Z) : bool :=
  match fuel with
  | O => false
  | S f => match ev with
           | t :: a :: b :: c :: r =>
             ((t =? 1) && (a =? sid) && (b <? 1000) && (c =? 0)) || (if t =? 9 then false else has_trailers f sid r)
           | _ => false
           end
  end.
Definition list_max (l : list Z) : Z := fold_right Z.max 0 l.
(* WINDOW_UPDATE(sid, inc) that makes the queued response of a finished stream fit *)
Definition flush_due (g : gstate) (o : sop) : option Z :=
  if g_closed g then None else
  match o with
  | SWindow sid inc =>
    match find_stream sid (g_active g) with
    | Some s => if is_done s && (0 <=? window g sid + inc) then Some sid else None
    | None => None
    end
  | _ => None
  end.

(* clause ids, server (acc = ids the implementation handed to a handler so far):
   5 the final GOAWAY's id is not below any stream handed to a handler
   8 the final GOAWAY's id IS the highest stream id handed to a handler (literal reading;
     see C14_final_id_refuted: a refused or dropped stream id is counted too)
   9 no handler is invoked after the final GOAWAY
   10 the connection is closed only when no accepted stream is still active (a stream whose
      handler has returned but whose response and status wait for flow-control window is active)
   11 a finished stream whose response waited for window gets the rest of the response and its
      status (END_STREAM trailers) as soon as the client grants the window, draining or not *)
Definition sclause_base (g : gstate) (acc : list Z) (o : sop) (ob : word) : list (Z * Z * bool) * list Z :=
  match ob with
  | n :: h :: m :: ev =>
    let invoked := g_handled g <? h in
    let acc' := match o with
                | SHeaders sid _ => if invoked then acc ++ [sid] else acc
                | _ => acc
                end in
    let fuel := length ev in
    let c9 := (9, 0, negb (g_phase g =? 2) || (h =? g_handled g)) in
    let c10 := (10, 0, negb (has_close fuel ev) || is_nil (g_active g)) in
    (match find_final fuel ev with
     | Some id => [ (5, id, list_max acc' <=? id); (8, id, id =? list_max acc'); c9; c10 ]
     | None => [ c9; c10 ]
     end, acc')
  | _ => ([ (0, 0, false) ], acc)
  end.
Definition clause11 (g : gstate) (o : sop) (ob : word) : list (Z * Z * bool) :=
  match flush_due g o with
  | Some sid => [ (11, sid, has_trailers (length ob) sid (skipn 3 ob)) ]
  | None => []
  end.
Definition sclause (g : gstate) (acc : list Z) (o : sop) (ob : word) : list (Z * Z * bool) * list Z :=
  (fst (sclause_base g acc o ob) ++ clause11 g o ob, snd (sclause_base g acc o ob)).
Fixpoint sclauses (maxs : Z) (g : gstate) (acc : list Z) (ops : list sop) (obs : list word) : list (Z * Z * bool) :=
  match ops, obs with
  | o :: r, ob :: r' => let '(cl, acc') := sclause g acc o ob in cl ++ sclauses maxs (fst (sstep maxs g o)) acc' r r'
  | [], [] => []
  | _, _ => [(0, 0, false)]
  end.

Definition clauses (cfg : word) (ops obs : list word) : list (Z * Z * bool) :=
  if is_client cfg then
    match decode_cops ops with
    | Some os => cclauses CF.conn0 os (map CF.evs obs)
    | None => [(0, 0, false)]
    end
  else
    match decode_scfg cfg, decode_sops 0 ops with
    | Some (maxs, oiws), Some os => sclauses maxs (ginit oiws) [] os obs
    | _, _ => [(0, 0, false)]
    end.

(* clause 8 is the literal reading that the code does not satisfy *)
Definition finding_clause (c : Z) : bool := c =? 8.
Definition holds_b (cfg : word) (ops obs : list word) : bool :=
  forallb (fun c => finding_clause (fst (fst c)) || snd c) (clauses cfg ops obs).

Definition check_case (c : case) : verdict :=
  decide (run (c_cfg c) (c_ops c)) (c_obs c) (clauses (c_cfg c) (c_ops c) (c_obs c)).

(* correspondence only (used when debugging the model: known-finding clauses do not mask a
   disagreement) *)
Definition check_case_corr (c : case) : verdict :=
  decide (run (c_cfg c) (c_ops c)) (c_obs c)
         (filter (fun x => negb (finding_clause (fst (fst x)))) (clauses (c_cfg c) (c_ops c) (c_obs c))).
