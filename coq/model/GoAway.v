(* C14: GOAWAY and graceful drain.
   Client side = the reader machine of model/ClientFrames.v (handleGoAway, NewStream refusal
   while draining, loopy exit when the last stream of a draining transport is cleaned up).
   Server side, transcribed here from internal/transport/http2_server.go:
     Drain (drainEvent, heads-up goAway), outgoingGoAwayHandler (GOAWAY(2^31-1) + PING, then after
     the PING ack or 5 s GOAWAY(maxStreamID), state = draining; loopy exits when no stream is left,
     the connection is closed 1 s later), handlePing (ack of goAwayPing fires drainEvent),
     operateHeaders for a well-formed request with a legal id (accept / REFUSED_STREAM / dropped
     when not reachable; see model/ServerHeaders.v), handleRSTStream / WriteStatus on streams.
   Time is virtual milliseconds.  No proofs here. *)
From Coq Require Import List ZArith Bool.
From VLib Require Import Codec Machine.
From VModel Require ClientFrames.
Import ListNotations.
Open Scope Z_scope.

Module CF := ClientFrames.
Definition lenZ {A} (l : list A) : Z := Z.of_nat (length l).

(* ================= server ================= *)
Record gstate := mkg {
  g_max : Z;                   (* t.maxStreamID *)
  g_active : list (Z * Z);     (* t.activeStreams: (id, 0 active / 1 read-done) *)
  g_handled : Z;               (* handler invocations *)
  g_reach : bool;              (* t.state == reachable *)
  g_phase : Z;                 (* 0 no drain, 1 heads-up GOAWAY + PING sent, 2 final GOAWAY sent *)
  g_timer : Z;                 (* phase 1: when the 5 s timer fires *)
  g_loopy : bool;              (* loopy writer still running *)
  g_linger : Z;                (* loopy exited: time at which the connection is closed *)
  g_closed : bool;
  g_now : Z }.
Definition g0 := mkg 0 [] 0 true 0 0 true 0 false 0.

Definition upd_active (g : gstate) (l : list (Z * Z)) : gstate :=
  mkg (g_max g) l (g_handled g) (g_reach g) (g_phase g) (g_timer g) (g_loopy g) (g_linger g) (g_closed g) (g_now g).
Definition set_now (g : gstate) (t : Z) : gstate :=
  mkg (g_max g) (g_active g) (g_handled g) (g_reach g) (g_phase g) (g_timer g) (g_loopy g) (g_linger g) (g_closed g) t.
Definition is_nil {A} (l : list A) : bool := match l with [] => true | _ => false end.

(* cleanupStreamHandler / outgoingGoAwayHandler: a draining loopy with no stream left returns;
   the connection is closed one second later *)
Definition loopy_check (g : gstate) : gstate :=
  if g_loopy g && (g_phase g =? 2) && is_nil (g_active g)
  then mkg (g_max g) (g_active g) (g_handled g) (g_reach g) (g_phase g) (g_timer g) false (g_now g + 1000) (g_closed g) (g_now g)
  else g.

(* the second goAway item: state = draining, GOAWAY(maxStreamID, NO_ERROR) *)
Definition final_goaway (g : gstate) : gstate * list Z :=
  if g_closed g || negb (g_loopy g) || negb (g_phase g =? 1) then (g, [])
  else
    (loopy_check (mkg (g_max g) (g_active g) (g_handled g) false 2 (g_timer g) true (g_linger g) false (g_now g)),
     [7; g_max g; 0; 0]).

Definition close_now (g : gstate) : gstate * list Z :=
  (mkg (g_max g) [] (g_handled g) (g_reach g) (g_phase g) (g_timer g) false (g_linger g) true (g_now g), [8; 0; 0; 0]).

Fixpoint find_stream (sid : Z) (l : list (Z * Z)) : option Z :=
  match l with
  | [] => None
  | (i, s) :: r => if i =? sid then Some s else find_stream sid r
  end.
Definition del_stream (sid : Z) (l : list (Z * Z)) : list (Z * Z) := filter (fun e => negb (fst e =? sid)) l.

Inductive sop :=
| SHeaders (sid : Z) (ended : bool)
| SRst (sid : Z)
| SFinish (sid : Z)
| SDrain
| SAck
| SSleep (ms : Z).

(* what the handler of the scripted request reports: no deadline, 2 metadata keys/values
   (:authority, content-type), method "/s/m", authority "a.b" *)
Definition handler_event (sid : Z) (ended : bool) : list Z :=
  [9; sid; 0; b2z ended; 2; 2; 4; 47; 115; 47; 109; 3; 97; 46; 98].

Definition sstep (maxs : Z) (g : gstate) (o : sop) : gstate * list Z :=
  if g_closed g then (g, []) else
  match o with
  | SHeaders sid ended =>
    (* the id is legal (checked on the op list): maxStreamID = sid; then the state and
       MaxConcurrentStreams checks of operateHeaders *)
    let g1 := mkg sid (g_active g) (g_handled g) (g_reach g) (g_phase g) (g_timer g) (g_loopy g) (g_linger g) false (g_now g) in
    if negb (g_reach g) then (g1, [])
    else if maxs <=? lenZ (g_active g) then (g1, [3; sid; 7; 0])
    else (mkg sid (g_active g ++ [(sid, b2z ended)]) (g_handled g + 1) true (g_phase g) (g_timer g) (g_loopy g) (g_linger g) false (g_now g),
          handler_event sid ended)
  | SRst sid => (loopy_check (upd_active g (del_stream sid (g_active g))), [])
  | SFinish sid =>
    match find_stream sid (g_active g) with
    | None => (g, [])
    | Some s =>
      (* loopy runs whenever a stream is active (proved), so the trailers are written *)
      (loopy_check (upd_active g (del_stream sid (g_active g))),
       [1; sid; 200; 0] ++ (if s =? 0 then [3; sid; 0; 0] else []))
    end
  | SDrain =>
    if negb (g_phase g =? 0) || negb (g_loopy g) then (g, [])
    else (mkg (g_max g) (g_active g) (g_handled g) (g_reach g) 1 (g_now g + 5000) true (g_linger g) false (g_now g),
          [7; 2147483647; 0; 0; 6; 0; 0; 0])
  | SAck => final_goaway g
  | SSleep ms =>
    let now' := g_now g + ms in
    if (g_phase g =? 1) && (g_timer g <=? now') then
      let '(g1, ev1) := final_goaway (set_now g (g_timer g)) in
      if negb (g_loopy g1) && (g_linger g1 <=? now') then
        let '(g2, ev2) := close_now (set_now g1 now') in (g2, ev1 ++ ev2)
      else (set_now g1 now', ev1)
    else if negb (g_loopy g) && (g_linger g <=? now') then close_now (set_now g now')
    else (set_now g now', [])
  end.

Definition shdr (g : gstate) : list Z := [lenZ (g_active g); g_handled g; g_max g].
Fixpoint srun (maxs : Z) (g : gstate) (ops : list sop) : list word :=
  match ops with
  | [] => []
  | o :: r => let '(g', ev) := sstep maxs g o in (shdr g' ++ ev) :: srun maxs g' r
  end.

(* server ops; HEADERS ids must be odd and strictly increasing over the op list *)
Definition decode_sop (last : Z) (w : word) : option (sop * Z) :=
  match w with
  | [1; sid; e] => if Z.odd sid && (last <? sid) && (sid <? 2147483647) && ((e =? 0) || (e =? 1))
                   then Some (SHeaders sid (e =? 1), sid) else None
  | [2; sid] => if (1 <=? sid) && (sid <? 2147483648) then Some (SRst sid, last) else None
  | [3; sid] => if (1 <=? sid) && (sid <? 2147483648) then Some (SFinish sid, last) else None
  | [7] => Some (SDrain, last)
  | [8] => Some (SAck, last)
  | [12; ms] => if (1 <=? ms) && (ms <=? 60000) then Some (SSleep ms, last) else None
  | _ => None
  end.
Fixpoint decode_sops (last : Z) (ws : list word) : option (list sop) :=
  match ws with
  | [] => Some []
  | w :: r => match decode_sop last w with
              | Some (o, last') => match decode_sops last' r with
                                   | Some os => Some (o :: os)
                                   | None => None
                                   end
              | None => None
              end
  end.

Definition run (cfg : word) (ops : list word) : option (list word) :=
  match cfg with
  | [0] => CF.run [] ops
  | [1; maxs] => if (0 <=? maxs) && (maxs <=? max_u32) then
                   match decode_sops 0 ops with
                   | Some os => Some (srun maxs g0 os)
                   | None => None
                   end
                 else None
  | _ => None
  end.

(* ================= the property on observations ================= *)
(* The clauses are evaluated on the implementation's observations; the classification of an
   op (has a GOAWAY been accepted before, is this a later GOAWAY with a larger id, has the
   final GOAWAY been sent) comes from the history of the ops, replayed on the model. *)

(* ---- client traces (events as in ClientFrames) ---- *)
Definition has_eof (ev : list CF.ev4) : bool := existsb (fun e => CF.tag e =? 8) ev.
Definition goaway_even (id : Z) : bool := (0 <? id) && Z.even id.
Definition goaway_larger (c : CF.conn) (id : Z) : bool := CF.k_goaway c && (CF.k_prev c <? id).

(* clause ids, client:
   1 after a GOAWAY has been accepted every NewStream fails
   2 a GOAWAY(N) terminates only streams with id > N, and those end Unavailable + unprocessed
   6 a GOAWAY with a non-zero even last-stream-id is a connection error (the connection is closed)
   7 a later GOAWAY with a larger id is a connection error (the connection is closed) *)
Definition cclause (c : CF.conn) (o : CF.op) (ev : list CF.ev4) : list (Z * Z * bool) :=
  match o with
  | CF.ONew _ =>
    [ (1, 0, negb (CF.k_goaway c) || forallb (fun e => negb (CF.tag e =? 0) || (CF.esid e =? -1)) ev) ]
  | CF.OGoAway id code =>
    if CF.k_mode c =? 2 then []
    else if goaway_even id then [ (6, id, has_eof ev) ]
    else if goaway_larger c id then [ (7, id, has_eof ev) ]
    else [ (2, id, forallb (fun e => negb (CF.tag e =? 1) ||
                                     ((id <? CF.esid e) && (CF.ecode e =? 14) && (snd e =? 1))) ev) ]
  | _ => []
  end.
Fixpoint cclauses (c : CF.conn) (ops : list CF.op) (obs : list (list CF.ev4)) : list (Z * Z * bool) :=
  match ops, obs with
  | o :: r, ev :: r' => cclause c o ev ++ cclauses (fst (CF.step c o)) r r'
  | [], [_] => []
  | _, _ => [(0, 0, false)]
  end.

(* ---- server traces ---- *)
(* first GOAWAY event that is not the heads-up one; events are 4 integers, a handler event
   (tag 9, variable length) is always last *)
Fixpoint find_final (fuel : nat) (ev : list Z) : option Z :=
  match fuel with
  | O => None
  | S f => match ev with
           | t :: a :: b :: c :: r =>
             if (t =? 7) && negb (a =? 2147483647) then Some a
             else if t =? 9 then None else find_final f r
           | _ => None
           end
  end.
Fixpoint has_close (fuel : nat) (ev : list Z) : bool :=
  match fuel with
  | O => false
  | S f => match ev with
           | t :: a :: b :: c :: r => (t =? 8) || (if t =? 9 then false else has_close f r)
           | _ => false
           end
  end.
Definition list_max (l : list Z) : Z := fold_right Z.max 0 l.

(* clause ids, server (acc = ids the implementation handed to a handler so far):
   5 the final GOAWAY's id is not below any stream handed to a handler
   8 the final GOAWAY's id IS the highest stream id handed to a handler (literal reading;
     see C14_final_id_refuted: a refused or dropped stream id is counted too)
   9 no handler is invoked after the final GOAWAY
   10 the connection is closed only when no accepted stream is still active *)
Definition sclause (g : gstate) (acc : list Z) (o : sop) (ob : word) : list (Z * Z * bool) * list Z :=
  match ob with
  | n :: h :: m :: ev =>
    let invoked := g_handled g <? h in
    let acc' := match o with
                | SHeaders sid _ => if invoked then acc ++ [sid] else acc
                | _ => acc
                end in
    let fuel := length ev in
    let c9 := (9, 0, negb (g_phase g =? 2) || (h =? g_handled g)) in
    let c10 := (10, 0, negb (has_close fuel ev) || is_nil (g_active g)) in
    (match find_final fuel ev with
     | Some id => [ (5, id, list_max acc' <=? id); (8, id, id =? list_max acc'); c9; c10 ]
     | None => [ c9; c10 ]
     end, acc')
  | _ => ([ (0, 0, false) ], acc)
  end.
Fixpoint sclauses (maxs : Z) (g : gstate) (acc : list Z) (ops : list sop) (obs : list word) : list (Z * Z * bool) :=
  match ops, obs with
  | o :: r, ob :: r' => let '(cl, acc') := sclause g acc o ob in cl ++ sclauses maxs (fst (sstep maxs g o)) acc' r r'
  | [], [] => []
  | _, _ => [(0, 0, false)]
  end.

Definition clauses (cfg : word) (ops obs : list word) : list (Z * Z * bool) :=
  match cfg with
  | [0] => match CF.decode_ops ops with
           | Some os => cclauses CF.conn0 os (map CF.evs obs)
           | None => [(0, 0, false)]
           end
  | [1; maxs] => match decode_sops 0 ops with
                 | Some os => sclauses maxs g0 [] os obs
                 | None => [(0, 0, false)]
                 end
  | _ => [(0, 0, false)]
  end.

(* clause 8 is the literal reading that the code does not satisfy *)
Definition finding_clause (c : Z) : bool := c =? 8.
Definition holds_b (cfg : word) (ops obs : list word) : bool :=
  forallb (fun c => finding_clause (fst (fst c)) || snd c) (clauses cfg ops obs).

Definition check_case (c : case) : verdict :=
  decide (run (c_cfg c) (c_ops c)) (c_obs c) (clauses (c_cfg c) (c_ops c) (c_obs c)).

(* correspondence only (used when debugging the model: known-finding clauses do not mask a
   disagreement) *)
Definition check_case_corr (c : case) : verdict :=
  decide (run (c_cfg c) (c_ops c)) (c_obs c)
         (filter (fun x => negb (finding_clause (fst (fst x)))) (clauses (c_cfg c) (c_ops c) (c_obs c))).
