(* C08: grpc-message percent-encoding.
   Transcribes internal/transport/http_util.go: encodeGrpcMessage,
   encodeGrpcMessageUnchecked, decodeGrpcMessage, decodeGrpcMessageUnchecked, with
   unicode/utf8.DecodeRuneInString and runtime.encoderune (string(rune)) as used there.
   Strings are byte lists (list Z, every element in [0,255]).  Masks and shifts on
   bytes are written arithmetically: b & 0x3F = b mod 64, x << 6 = 64 * x, and an
   `|` of disjoint bit fields is a sum.  No proofs here. *)
From Coq Require Import List ZArith Bool.
From VLib Require Import Codec Machine.
Import ListNotations.
Open Scope Z_scope.

Definition is_byte (b : Z) : bool := (0 <=? b) && (b <=? 255).

Definition rune_error : Z := 65533.   (* U+FFFD, encoded EF BF BD *)
Definition fffd : list Z := [239; 191; 189].

(* ---- utf8.DecodeRuneInString ----
   first[s0]: 00-7F ASCII; 80-C1 and F5-FF invalid; C2-DF size 2; E0-EF size 3;
   F0-F4 size 4.  acceptRanges for the second byte: E0 -> A0..BF, ED -> 80..9F,
   F0 -> 90..BF, F4 -> 80..8F, otherwise 80..BF.  Third and fourth bytes 80..BF. *)
Definition acc_lo (s0 : Z) : Z := if s0 =? 224 then 160 else if s0 =? 240 then 144 else 128.
Definition acc_hi (s0 : Z) : Z := if s0 =? 237 then 159 else if s0 =? 244 then 143 else 191.
Definition is_cont (b : Z) : bool := (128 <=? b) && (b <=? 191).

Definition decode_rune (s : list Z) : Z * Z :=
  match s with
  | [] => (rune_error, 0)
  | s0 :: t =>
    if s0 <? 128 then (s0, 1) else
    if (s0 <? 194) || (244 <? s0) then (rune_error, 1) else
    if s0 <? 224 then                                   (* sz = 2 *)
      match t with
      | s1 :: _ =>
        if (s1 <? acc_lo s0) || (acc_hi s0 <? s1) then (rune_error, 1)
        else (64 * (s0 mod 32) + s1 mod 64, 2)
      | _ => (rune_error, 1)
      end
    else if s0 <? 240 then                              (* sz = 3 *)
      match t with
      | s1 :: s2 :: _ =>
        if (s1 <? acc_lo s0) || (acc_hi s0 <? s1) then (rune_error, 1) else
        if negb (is_cont s2) then (rune_error, 1)
        else (4096 * (s0 mod 16) + 64 * (s1 mod 64) + s2 mod 64, 3)
      | _ => (rune_error, 1)
      end
    else                                                (* sz = 4 *)
      match t with
      | s1 :: s2 :: s3 :: _ =>
        if (s1 <? acc_lo s0) || (acc_hi s0 <? s1) then (rune_error, 1) else
        if negb (is_cont s2) then (rune_error, 1) else
        if negb (is_cont s3) then (rune_error, 1)
        else (262144 * (s0 mod 8) + 4096 * (s1 mod 64) + 64 * (s2 mod 64) + s3 mod 64, 4)
      | _ => (rune_error, 1)
      end
  end.

(* ---- runtime.encoderune: []byte(string(r)) ---- *)
Definition enc3 (r : Z) : list Z :=
  [224 + r / 4096; 128 + (r / 64) mod 64; 128 + r mod 64].
Definition encode_rune (r : Z) : list Z :=
  if r <=? 127 then [r] else
  if r <=? 2047 then [192 + r / 64; 128 + r mod 64] else
  if (1114111 <? r) || ((55296 <=? r) && (r <=? 57343)) then enc3 rune_error else
  if r <=? 65535 then enc3 r else
  [240 + r / 262144; 128 + (r / 4096) mod 64; 128 + (r / 64) mod 64; 128 + r mod 64].

(* ---- encoder ---- *)
Definition safe (b : Z) : bool := (32 <=? b) && (b <=? 126) && negb (b =? 37).
Definition hexdig (d : Z) : Z := if d <? 10 then 48 + d else 55 + d.   (* %02X: upper case *)
Definition pct (b : Z) : list Z := [37; hexdig (b / 16); hexdig (b mod 16)].

(* body of the outer loop for one decoded rune *)
Definition enc_chunk (r size : Z) : list Z :=
  flat_map (fun b => if 1 <? size then pct b else if safe b then [b] else pct b)
           (encode_rune r).

(* for len(msg) > 0 { r, size := DecodeRuneInString(msg); ...; msg = msg[size:] }
   fuel = len(msg) is enough because size >= 1 *)
Fixpoint encodeU (fuel : nat) (msg : list Z) : list Z :=
  match fuel with
  | O => []
  | S f =>
    match msg with
    | [] => []
    | _ => let '(r, size) := decode_rune msg in
           enc_chunk r size ++ encodeU f (skipn (Z.to_nat size) msg)
    end
  end.

Definition encode (msg : list Z) : list Z :=
  if forallb safe msg then msg else encodeU (length msg) msg.

(* ---- decoder ---- *)
(* strconv.ParseUint(two bytes, 16, 8): both must be hex digits (either case) *)
Definition hexval (c : Z) : option Z :=
  if (48 <=? c) && (c <=? 57) then Some (c - 48) else
  if (65 <=? c) && (c <=? 70) then Some (c - 55) else
  if (97 <=? c) && (c <=? 102) then Some (c - 87) else None.

(* index loop of decodeGrpcMessageUnchecked; "i+2 < lenMsg" = two more bytes follow *)
Fixpoint decodeU (msg : list Z) : list Z :=
  match msg with
  | [] => []
  | c :: r =>
    if c =? 37 then
      match r with
      | x :: y :: r' =>
        match hexval x, hexval y with
        | Some a, Some b => (16 * a + b) :: decodeU r'
        | _, _ => c :: decodeU r
        end
      | _ => c :: decodeU r
      end
    else c :: decodeU r
  end.

(* some i with msg[i] == '%' && i+2 < lenMsg *)
Fixpoint has_pct (msg : list Z) : bool :=
  match msg with
  | [] => false
  | c :: r => ((c =? 37) && (2 <=? Z.of_nat (length r))) || has_pct r
  end.

Definition decode (msg : list Z) : list Z :=
  if has_pct msg then decodeU msg else msg.

(* ---- specification functions ---- *)
(* a position is invalid exactly when DecodeRune reports (RuneError, 1) *)
Definition invalid_at (r size : Z) : bool := (r =? rune_error) && (size =? 1).

(* every invalid byte replaced by EF BF BD, every valid encoding copied *)
Fixpoint sanitize_f (fuel : nat) (msg : list Z) : list Z :=
  match fuel with
  | O => []
  | S f =>
    match msg with
    | [] => []
    | _ => let '(r, size) := decode_rune msg in
           (if invalid_at r size then fffd else firstn (Z.to_nat size) msg)
             ++ sanitize_f f (skipn (Z.to_nat size) msg)
    end
  end.
Definition sanitize (msg : list Z) : list Z := sanitize_f (length msg) msg.

(* utf8.ValidString *)
Fixpoint valid_f (fuel : nat) (msg : list Z) : bool :=
  match fuel with
  | O => true
  | S f =>
    match msg with
    | [] => true
    | _ => let '(r, size) := decode_rune msg in
           negb (invalid_at r size) && valid_f f (skipn (Z.to_nat size) msg)
    end
  end.
Definition valid_utf8 (msg : list Z) : bool := valid_f (length msg) msg.

Definition printable (b : Z) : bool := (32 <=? b) && (b <=? 126).

(* ---- cases ----
   op [1; len; bytes]  obs put_bytes (encodeGrpcMessage m) ++ put_bytes (decodeGrpcMessage of it)
   op [2; len; bytes]  obs put_bytes (decodeGrpcMessage s)                                   *)
Definition run_op (op : word) : option word :=
  match op with
  | 1 :: r =>
    match get_bytes r with
    | Some (m, []) => if forallb is_byte m
                      then Some (put_bytes (encode m) ++ put_bytes (decode (encode m)))
                      else None
    | _ => None
    end
  | 2 :: r =>
    match get_bytes r with
    | Some (s, []) => if forallb is_byte s then Some (put_bytes (decode s)) else None
    | _ => None
    end
  | _ => None
  end.

Fixpoint run (ops : list word) : option (list word) :=
  match ops with
  | [] => Some []
  | op :: r => match run_op op, run r with
               | Some o, Some os => Some (o :: os)
               | _, _ => None
               end
  end.

Fixpoint list_eqb (a b : list Z) : bool :=
  match a, b with
  | [], [] => true
  | x :: a', y :: b' => (x =? y) && list_eqb a' b'
  | _, _ => false
  end.

Fixpoint count_pct (s : list Z) : Z :=
  match s with [] => 0 | c :: r => (if c =? 37 then 1 else 0) + count_pct r end.

(* clause 1: the encoded value is printable ASCII
   clause 2: it decodes to sanitize m (= m when m is valid UTF-8)
   clause 3: decoding an arbitrary value: output is bytes, never longer than the
             input, shorter by exactly 2 per interpreted escape (so by at most
             2 * number of '%'), and unchanged when the input has no '%' *)
Definition clause_op (op obs : word) : list (Z * Z * bool) :=
  match op with
  | 1 :: r =>
    match get_bytes r with
    | Some (m, []) =>
      match get_bytes obs with
      | Some (e, rest) =>
        match get_bytes rest with
        | Some (d, []) =>
          [(1, 0, forallb printable e);
           (2, 0, list_eqb d (sanitize m) && (negb (valid_utf8 m) || list_eqb d m))]
        | _ => [(1, 0, false)]
        end
      | None => [(1, 0, false)]
      end
    | _ => [(0, 0, false)]
    end
  | 2 :: r =>
    match get_bytes r, get_bytes obs with
    | Some (s, []), Some (d, []) =>
      let ls := Z.of_nat (length s) in let ld := Z.of_nat (length d) in
      [(3, 0, forallb is_byte d && (ld <=? ls) && (ls - ld <=? 2 * count_pct s)
              && Z.even (ls - ld) && ((0 <? count_pct s) || list_eqb d s))]
    | _, _ => [(3, 0, false)]
    end
  | _ => [(0, 0, false)]
  end.

Fixpoint clauses (ops obs : list word) : list (Z * Z * bool) :=
  match ops, obs with
  | op :: r, o :: r' => clause_op op o ++ clauses r r'
  | [], [] => []
  | _, _ => [(0, 0, false)]
  end.

Definition holds_b (ops obs : list word) : bool :=
  forallb (fun c => snd c) (clauses ops obs).

Definition check_case (c : case) : verdict :=
  decide (run (c_ops c)) (c_obs c) (clauses (c_ops c) (c_obs c)).
