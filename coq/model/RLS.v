(* C41: RLS request keys, RLS data cache, adaptive throttler lookback.
   Transcribes
     balancer/rls/internal/keys/builder.go       BuilderMap.RLSKey, builder.buildHeaderKeys,
                                                 mapToString  (MakeBuilderMap's validation is
                                                 not modelled: configurations are valid ones)
     balancer/rls/cache.go                       dataCache.addEntry / getEntry / resize /
                                                 evictExpiredEntries / updateEntrySize /
                                                 removeEntryForTesting / deleteAndCleanup / stop
     balancer/rls/internal/adaptive/lookback.go  lookback.advance / add / sum
     balancer/rls/internal/adaptive/adaptive.go  Throttler.ShouldThrottle / RegisterBackendResponse
   One case exercises one of the three parts, selected by cfg[0] (1 keys, 2 cache, 3 throttler).
   Executable definitions only; proofs are in proof/RLS_proofs.v. *)
From Coq Require Import List ZArith Bool.
From VLib Require Import Codec Machine.
Import ListNotations.
Open Scope Z_scope.

Definition str := list Z.
Definition is_empty {A} (l : list A) : bool := match l with [] => true | _ => false end.

(* ------------------------------------------------------------------ *)
(* decoding of nested words                                            *)
Section Parse.
  Context {A : Type}.
  Variable g : word -> option (A * word).
  Fixpoint get_n (n : nat) (w : word) : option (list A * word) :=
    match n with
    | O => Some ([], w)
    | S n' => match g w with
              | Some (a, r) => match get_n n' r with
                               | Some (l, r') => Some (a :: l, r')
                               | None => None
                               end
              | None => None
              end
    end.
  Definition get_list (w : word) : option (list A * word) :=
    match w with
    | [] => None
    | n :: r => if n <? 0 then None else get_n (Z.to_nat n) r
    end.
End Parse.

Definition get_pair (w : word) : option ((str * str) * word) :=
  match get_bytes w with
  | Some (a, r) => match get_bytes r with
                   | Some (b, r') => Some ((a, b), r')
                   | None => None
                   end
  | None => None
  end.
Definition get_named_list (w : word) : option ((str * list str) * word) :=
  match get_bytes w with
  | Some (a, r) => match get_list get_bytes r with
                   | Some (l, r') => Some ((a, l), r')
                   | None => None
                   end
  | None => None
  end.

(* ================================================================== *)
(* Part 1: keys                                                        *)

(* Go string comparison: lexicographic on bytes *)
Fixpoint str_ltb (a b : str) : bool :=
  match a, b with
  | [], [] => false
  | [], _ :: _ => true
  | _ :: _, [] => false
  | x :: a', y :: b' => if x <? y then true else if y <? x then false else str_ltb a' b'
  end.

(* map[string]string kept as an association list sorted by key (the Go map has no order;
   mapToString sorts the keys, observations are sorted).  kv_set is m[k] = v. *)
Definition kv := list (str * str).
Fixpoint kv_set (k v : str) (m : kv) : kv :=
  match m with
  | [] => [(k, v)]
  | (k', v') :: r => if str_ltb k k' then (k, v) :: m else
                     if word_eqb k k' then (k, v) :: r else (k', v') :: kv_set k v r
  end.
Fixpoint assoc {B} (k : str) (l : list (str * B)) : option B :=
  match l with
  | [] => None
  | (k', v) :: r => if word_eqb k k' then Some v else assoc k r
  end.
Definition kv_get (k : str) (m : kv) : option str := assoc k m.

(* strings.ToLower on ASCII *)
Definition lower (c : Z) : Z := if (65 <=? c) && (c <=? 90) then c + 32 else c.
Definition to_lower (s : str) : str := map lower s.

(* metadata.MD: stored key -> values;  md.Get(name) = md[strings.ToLower(name)] *)
Definition mdata := list (str * list str).
Definition md_get (name : str) (md : mdata) : option (list str) := assoc (to_lower name) md.
Fixpoint first_present (names : list str) (md : mdata) : option (list str) :=
  match names with
  | [] => None
  | n :: r => match md_get n md with Some v => Some v | None => first_present r md end
  end.
(* strings.Join(vals, ",") *)
Fixpoint join_comma (vals : list str) : str :=
  match vals with
  | [] => []
  | v :: r => match r with [] => v | _ => v ++ 44 :: join_comma r end
  end.

Record builder := mkB { b_hdrs : list (str * list str); b_consts : list (str * str);
                        b_host : str; b_svc : str; b_meth : str }.

Definition hdr_step (md : mdata) (m : kv) (h : str * list str) : kv :=
  match first_present (snd h) md with
  | Some vals => kv_set (fst h) (join_comma vals) m
  | None => m
  end.
Definition build_header_keys (b : builder) (md : mdata) : kv :=
  if is_empty md then [] else fold_left (hdr_step md) (b_hdrs b) [].

Definition set_nonempty (k v : str) (m : kv) : kv := if is_empty k then m else kv_set k v m.
Definition const_step (m : kv) (c : str * str) : kv := kv_set (fst c) (snd c) m.

(* strings.Trim(s, "/") *)
Fixpoint drop_slash (s : str) : str :=
  match s with
  | c :: r => if c =? 47 then drop_slash r else s
  | [] => []
  end.
Definition trim_slash (s : str) : str := rev (drop_slash (rev (drop_slash s))).

Definition builder_map (b : builder) (md : mdata) (host service method : str) : kv :=
  let m := build_header_keys b md in
  let m := set_nonempty (b_host b) host m in
  let m := set_nonempty (b_svc b) (trim_slash service) m in
  let m := set_nonempty (b_meth b) method m in
  fold_left const_step (b_consts b) m.

(* strings.LastIndex(path, "/") *)
Fixpoint last_index_from (i best : Z) (s : str) : Z :=
  match s with
  | [] => best
  | x :: r => last_index_from (i + 1) (if x =? 47 then i else best) r
  end.
Definition split_path (path : str) : str * str :=
  let i := last_index_from 0 (-1) path in
  (firstn (Z.to_nat (i + 1)) path, skipn (Z.to_nat (i + 1)) path).

Definition bmap := list (str * builder).
Definition find_builder (bm : bmap) (path : str) : option builder :=
  match assoc path bm with
  | Some b => Some b
  | None => assoc (fst (split_path path)) bm
  end.
(* None = KeyMap{} (no builder for the path) *)
Definition rls_key (bm : bmap) (md : mdata) (host path : str) : option kv :=
  match find_builder bm path with
  | Some b => Some (builder_map b md host (fst (split_path path)) (snd (split_path path)))
  | None => None
  end.

(* mapToString: "k=v" joined by "," in key order *)
Fixpoint kv_str (m : kv) : str :=
  match m with
  | [] => []
  | (k, v) :: r => k ++ 61 :: v ++ match r with [] => [] | _ => 44 :: kv_str r end
  end.

(* ---- configuration and operations of part 1 ---- *)
(* builder word: names (list of (service, method)); host key; service key; method key;
   constant keys (list of (k, v)); headers (list of (key, names)) *)
Definition get_builder (w : word) : option ((list (str * str) * builder) * word) :=
  match get_list get_pair w with
  | Some (names, r1) =>
    match get_bytes r1 with
    | Some (hk, r2) =>
      match get_bytes r2 with
      | Some (sk, r3) =>
        match get_bytes r3 with
        | Some (mk, r4) =>
          match get_list get_pair r4 with
          | Some (cs, r5) =>
            match get_list get_named_list r5 with
            | Some (hs, r6) => Some ((names, mkB hs cs hk sk mk), r6)
            | None => None
            end
          | None => None
          end
        | None => None
        end
      | None => None
      end
    | None => None
    end
  | None => None
  end.
Definition name_path (n : str * str) : str := 47 :: fst n ++ 47 :: snd n.
Definition bm_of (l : list (list (str * str) * builder)) : bmap :=
  flat_map (fun nb => map (fun n => (name_path n, snd nb)) (fst nb)) l.
Definition get_bmap (w : word) : option bmap :=
  match get_list get_builder w with
  | Some (l, []) => Some (bm_of l)
  | _ => None
  end.

Record request := mkR { r_md : mdata; r_host : str; r_path : str }.
Definition get_request (op : word) : option request :=
  match op with
  | 1 :: r =>
    match get_list get_named_list r with
    | Some (md, r1) =>
      match get_bytes r1 with
      | Some (host, r2) =>
        match get_bytes r2 with
        | Some (path, []) => Some (mkR md host path)
        | _ => None
        end
      | None => None
      end
    | None => None
    end
  | _ => None
  end.

Definition put_kv (m : kv) : word :=
  Z.of_nat (length m) :: flat_map (fun p => put_bytes (fst p) ++ put_bytes (snd p)) m.
(* obs of a request: [found; n; (k, v)...; Str] *)
Definition keys_obs (bm : bmap) (rq : request) : word :=
  match rls_key bm (r_md rq) (r_host rq) (r_path rq) with
  | Some m => 1 :: put_kv m ++ put_bytes (kv_str m)
  | None => [0; 0; 0]
  end.
Fixpoint keys_run (bm : bmap) (ops : list word) : option (list word) :=
  match ops with
  | [] => Some []
  | op :: r => match get_request op, keys_run bm r with
               | Some rq, Some os => Some (keys_obs bm rq :: os)
               | _, _ => None
               end
  end.

(* ---- the property on observations (part 1) ---- *)
Definition opt_str_eqb (a b : option str) : bool :=
  match a, b with
  | Some x, Some y => word_eqb x y
  | None, None => true
  | _, _ => false
  end.
Definition mem (k : str) (l : list str) : bool := existsb (word_eqb k) l.

(* the header key builder (key, names): key -> comma-joined values of the first header
   of names present in md; absent from the map when none is present *)
Definition hdr_ok (md : mdata) (M : kv) (h : str * list str) : bool :=
  opt_str_eqb (kv_get (fst h) M) (option_map join_comma (first_present (snd h) md)).
Definition extra_ok (key value : str) (M : kv) : bool :=
  is_empty key || opt_str_eqb (kv_get key M) (Some value).
Definition const_ok (M : kv) (c : str * str) : bool :=
  opt_str_eqb (kv_get (fst c) M) (Some (snd c)).
Definition key_allowed (b : builder) (k : str) : bool :=
  mem k (map fst (b_hdrs b)) || mem k (map fst (b_consts b)) ||
  (negb (is_empty k) && (word_eqb k (b_host b) || word_eqb k (b_svc b) || word_eqb k (b_meth b))).
(* an extra key is shadowed when a later extra key (host < service < method) has the same name *)
Definition host_shadowed (b : builder) : bool :=
  negb (is_empty (b_host b)) && (word_eqb (b_host b) (b_svc b) || word_eqb (b_host b) (b_meth b)).
Definition svc_shadowed (b : builder) : bool :=
  negb (is_empty (b_svc b)) && word_eqb (b_svc b) (b_meth b).

Definition map_ok (b : builder) (md : mdata) (host service method : str) (M : kv) : bool :=
  forallb (hdr_ok md M) (b_hdrs b) &&
  (host_shadowed b || extra_ok (b_host b) host M) &&
  (svc_shadowed b || extra_ok (b_svc b) (trim_slash service) M) &&
  extra_ok (b_meth b) method M &&
  forallb (const_ok M) (b_consts b) &&
  forallb (fun p => key_allowed b (fst p)) M.
Definition shadow_ok (b : builder) (host service : str) (M : kv) : bool :=
  (negb (host_shadowed b) || extra_ok (b_host b) host M) &&
  (negb (svc_shadowed b) || extra_ok (b_svc b) (trim_slash service) M).

(* mapToString is injective on maps whose keys contain neither ',' nor '=' and whose
   values contain no ',' *)
Definition no_byte (c : Z) (s : str) : bool := forallb (fun x => negb (x =? c)) s.
Definition guard_pair (p : str * str) : bool :=
  no_byte 44 (fst p) && no_byte 61 (fst p) && no_byte 44 (snd p).
Definition guard_map (m : kv) : bool := forallb guard_pair m.

Fixpoint kv_eqb (a b : kv) : bool :=
  match a, b with
  | [], [] => true
  | (k, v) :: a', (k', v') :: b' => word_eqb k k' && word_eqb v v' && kv_eqb a' b'
  | _, _ => false
  end.

Definition get_kv_obs (o : word) : option (kv * str) :=
  match o with
  | 1 :: r => match get_list get_pair r with
              | Some (m, r') => match get_bytes r' with
                                | Some (s, []) => Some (m, s)
                                | _ => None
                                end
              | None => None
              end
  | _ => None
  end.

(* clause 11 / 14 for one request *)
Definition keys_clause_op (bm : bmap) (op obs : word) : list (Z * Z * bool) :=
  match get_request op with
  | None => [(0, 0, false)]
  | Some rq =>
    match find_builder bm (r_path rq) with
    | None => [(11, 0, word_eqb obs [0; 0; 0])]
    | Some b =>
      match get_kv_obs obs with
      | None => [(11, 1, false)]
      | Some (M, s) =>
        let sp := split_path (r_path rq) in
        [(11, 2, map_ok b (r_md rq) (r_host rq) (fst sp) (snd sp) M);
         (14, 0, shadow_ok b (r_host rq) (fst sp) M)]
      end
    end
  end.

(* clauses 12 / 13: two requests with the same path (cache key = path + Str) and different
   key maps must have different Str *)
Definition share_ok (p q : str * (kv * str)) : bool :=
  negb (word_eqb (fst p) (fst q)) || kv_eqb (fst (snd p)) (fst (snd q)) ||
  negb (word_eqb (snd (snd p)) (snd (snd q))).
Definition share_clause (p q : str * (kv * str)) : Z * Z * bool :=
  if guard_map (fst (snd p)) && guard_map (fst (snd q)) then (12, 0, share_ok p q)
  else (13, 0, share_ok p q).
Fixpoint share_clauses (seen : list (str * (kv * str))) (l : list (str * (kv * str))) : list (Z * Z * bool) :=
  match l with
  | [] => []
  | p :: r => map (share_clause p) seen ++ share_clauses (p :: seen) r
  end.
Fixpoint found_maps (ops obs : list word) : list (str * (kv * str)) :=
  match ops, obs with
  | op :: r, o :: r' =>
    match get_request op, get_kv_obs o with
    | Some rq, Some ms => (r_path rq, ms) :: found_maps r r'
    | _, _ => found_maps r r'
    end
  | _, _ => []
  end.
Fixpoint keys_clauses_ops (bm : bmap) (ops obs : list word) : list (Z * Z * bool) :=
  match ops, obs with
  | op :: r, o :: r' => keys_clause_op bm op o ++ keys_clauses_ops bm r r'
  | [], [] => []
  | _, _ => [(0, 0, false)]
  end.
(* order: 11 first, then 12, and the clauses of the known findings (13, 14) last so that they
   never hide another failure *)
Definition is_known (c : Z * Z * bool) : bool := (fst (fst c) =? 13) || (fst (fst c) =? 14).
Definition keys_clauses (bm : bmap) (ops obs : list word) : list (Z * Z * bool) :=
  let l := keys_clauses_ops bm ops obs ++ share_clauses [] (found_maps ops obs) in
  filter (fun c => negb (is_known c)) l ++ filter is_known l.

(* ================================================================== *)
(* Part 2: data cache                                                  *)
(* The list (LRU order, least recently used first) and the entries map of dataCache are
   kept as one list of entries; the driver reports both structures so that the
   correspondence run checks that they are in sync. *)
Record entry := mkE { e_key : Z; e_size : Z; e_evict : Z; e_exp : Z; e_boexp : Z }.
Record cache := mkC { c_max : Z; c_cur : Z; c_ents : list entry; c_now : Z; c_stopped : bool }.

Definition sum_sizes (l : list entry) : Z := fold_right (fun e a => e_size e + a) 0 l.
Fixpoint find_entry (k : Z) (l : list entry) : option entry :=
  match l with
  | [] => None
  | e :: r => if e_key e =? k then Some e else find_entry k r
  end.
Fixpoint remove_entry (k : Z) (l : list entry) : list entry :=
  match l with
  | [] => []
  | e :: r => if e_key e =? k then r else e :: remove_entry k r
  end.
Fixpoint resize_entry (k sz : Z) (l : list entry) : list entry :=
  match l with
  | [] => []
  | e :: r => if e_key e =? k then mkE (e_key e) sz (e_evict e) (e_exp e) (e_boexp e) :: r
              else e :: resize_entry k sz r
  end.

(* the loop of resize: for dc.currentSize > size { front; stop when not yet evictable;
   deleteAndCleanup }.  Returns (remaining entries, currentSize, evicted entries). *)
Fixpoint evict (now size : Z) (l : list entry) (cur : Z) : list entry * Z * list entry :=
  match l with
  | [] => ([], cur, [])
  | e :: r => if cur >? size then
                if e_evict e >? now then (l, cur, [])
                else let '(l', cur', ev) := evict now size r (cur - e_size e) in (l', cur', e :: ev)
              else (l, cur, [])
  end.

Definition c_resize (c : cache) (size : Z) : cache :=
  if c_stopped c then c else
  let '(l, cur, _) := evict (c_now c) size (c_ents c) (c_cur c) in
  mkC size cur l (c_now c) false.

(* addEntry on a key that is absent (the guard every caller establishes); ret: 1 ok, 0 not added *)
Definition c_add (c : cache) (e : entry) : cache * Z :=
  if c_stopped c then (c, 0) else
  if e_size e >? c_max c then (c, 0) else
  let c1 := mkC (c_max c) (c_cur c + e_size e) (c_ents c ++ [e]) (c_now c) false in
  (if c_cur c1 >? c_max c1 then c_resize c1 (c_max c1) else c1, 1).

Definition c_get (c : cache) (k : Z) : cache * option entry :=
  if c_stopped c then (c, None) else
  match find_entry k (c_ents c) with
  | None => (c, None)
  | Some e => (mkC (c_max c) (c_cur c) (remove_entry k (c_ents c) ++ [e]) (c_now c) false, Some e)
  end.

Definition c_delete (c : cache) (e : entry) : cache :=
  mkC (c_max c) (c_cur c - e_size e) (remove_entry (e_key e) (c_ents c)) (c_now c) (c_stopped c).

Definition expired (now : Z) (e : entry) : bool := negb ((e_exp e >? now) || (e_boexp e >? now)).
(* evictExpiredEntries: every expired entry is deleted (deleteAndCleanup); the iteration
   order over the Go map does not matter *)
Definition c_evict_expired (c : cache) : cache * Z :=
  if c_stopped c then (c, 0) else
  (mkC (c_max c) (c_cur c - sum_sizes (filter (expired (c_now c)) (c_ents c)))
       (filter (fun e => negb (expired (c_now c) e)) (c_ents c)) (c_now c) false,
   b2z (existsb (expired (c_now c)) (c_ents c))).

Definition c_update_size (c : cache) (k sz : Z) : cache :=
  match find_entry k (c_ents c) with
  | None => c
  | Some e => mkC (c_max c) (c_cur c - e_size e + sz) (resize_entry k sz (c_ents c)) (c_now c) (c_stopped c)
  end.
Definition c_remove (c : cache) (k : Z) : cache :=
  match find_entry k (c_ents c) with
  | None => c
  | Some e => c_delete c e
  end.
(* stop: deleteAndCleanup of every entry, then the shutdown event fires *)
Definition c_stop (c : cache) : cache :=
  mkC (c_max c) (c_cur c - sum_sizes (c_ents c)) [] (c_now c) true.

(* obs: [ret; aux; now; currentSize; sum of entry sizes; maxSize; n; (key, earliestEvict)...] *)
Definition put_lru (l : list entry) : word :=
  Z.of_nat (length l) :: flat_map (fun e => [e_key e; e_evict e]) l.
Definition cache_obs (ret aux : Z) (c : cache) : word :=
  [ret; aux; c_now c; c_cur c; sum_sizes (c_ents c); c_max c] ++ put_lru (c_ents c).

Inductive cop :=
| CAdd (k sz evd expd bod : Z) | CGet (k : Z) | CResize (sz : Z) | CExpire
| CUpdate (k sz : Z) | CRemove (k : Z) | CSleep (d : Z) | CStop.
Definition get_cop (op : word) : option cop :=
  match op with
  | [1; k; sz; evd; expd; bod] => Some (CAdd k sz evd expd bod)
  | [2; k] => Some (CGet k)
  | [3; sz] => Some (CResize sz)
  | [4] => Some CExpire
  | [5; k; sz] => Some (CUpdate k sz)
  | [6; k] => Some (CRemove k)
  | [7; d] => Some (CSleep d)
  | [8] => Some CStop
  | _ => None
  end.
Definition cache_apply (c : cache) (o : cop) : cache * word :=
  match o with
  | CAdd k sz evd expd bod =>
    match find_entry k (c_ents c) with
    | Some _ => (c, cache_obs (-1) 0 c)
    | None => let r := c_add c (mkE k sz (c_now c + evd) (c_now c + expd) (c_now c + bod)) in
              (fst r, cache_obs (snd r) 0 (fst r))
    end
  | CGet k => let r := c_get c k in
              (fst r, match snd r with Some e => cache_obs 1 (e_size e) (fst r) | None => cache_obs 0 0 (fst r) end)
  | CResize sz => let c' := c_resize c sz in (c', cache_obs 0 0 c')
  | CExpire => let r := c_evict_expired c in (fst r, cache_obs (snd r) 0 (fst r))
  | CUpdate k sz => let c' := c_update_size c k sz in (c', cache_obs 0 0 c')
  | CRemove k => let c' := c_remove c k in (c', cache_obs 0 0 c')
  | CSleep d => let c' := mkC (c_max c) (c_cur c) (c_ents c) (c_now c + d) (c_stopped c) in
                (c', cache_obs 0 0 c')
  | CStop => let c' := c_stop c in (c', cache_obs 0 0 c')
  end.
Fixpoint cache_run (c : cache) (ops : list word) : option (list word) :=
  match ops with
  | [] => Some []
  | op :: r => match get_cop op with
               | Some o => match cache_run (fst (cache_apply c o)) r with
                           | Some os => Some (snd (cache_apply c o) :: os)
                           | None => None
                           end
               | None => None
               end
  end.
Definition cache_init (maxsize : Z) : cache := mkC maxsize 0 [] 0 false.

(* ---- the property on observations (part 2) ---- *)
Fixpoint get_lru_n (n : nat) (w : word) : option (list (Z * Z)) :=
  match n, w with
  | O, [] => Some []
  | S n', k :: ev :: r => match get_lru_n n' r with Some l => Some ((k, ev) :: l) | None => None end
  | _, _ => None
  end.
Record cobs := mkCO { o_ret : Z; o_now : Z; o_cur : Z; o_sum : Z; o_max : Z; o_lru : list (Z * Z) }.
Definition get_cobs (o : word) : option cobs :=
  match o with
  | ret :: _ :: now :: cur :: sum :: mx :: n :: r =>
    if n <? 0 then None else
    match get_lru_n (Z.to_nat n) r with
    | Some l => Some (mkCO ret now cur sum mx l)
    | None => None
    end
  | _ => None
  end.
Fixpoint lru_eqb (a b : list (Z * Z)) : bool :=
  match a, b with
  | [], [] => true
  | (k, e) :: a', (k', e') :: b' => (k =? k') && (e =? e') && lru_eqb a' b'
  | _, _ => false
  end.
(* eviction pass from [before] to [after] at time now with target size [limit]:
   a prefix (least recently used first) was removed, every removed entry was evictable,
   and the pass stopped because the size is reached, the cache is empty, or the next
   entry is not yet evictable *)
Definition lru_pass_ok (before after : list (Z * Z)) (now cur limit : Z) : bool :=
  let n := (length before - length after)%nat in
  (length after <=? length before)%nat &&
  lru_eqb (skipn n before) after &&
  forallb (fun p => snd p <=? now) (firstn n before) &&
  ((cur <=? limit) || match after with [] => true | p :: _ => snd p >? now end).

Definition cache_clause_op (prev : list (Z * Z)) (op : cop) (o : cobs) : list (Z * Z * bool) :=
  (21, o_cur o, o_cur o =? o_sum o) ::
  match op with
  | CResize sz => [(22, 3, lru_pass_ok prev (o_lru o) (o_now o) (o_cur o) sz)]
  | CAdd k sz evd expd bod =>
    if o_ret o =? 1
    then [(22, 1, lru_pass_ok (prev ++ [(k, o_now o + evd)]) (o_lru o) (o_now o) (o_cur o) (o_max o))]
    else []
  | _ => []
  end.
Fixpoint cache_clauses (prev : list (Z * Z)) (ops obs : list word) : list (Z * Z * bool) :=
  match ops, obs with
  | op :: r, o :: r' =>
    match get_cop op, get_cobs o with
    | Some cp, Some co => cache_clause_op prev cp co ++ cache_clauses (o_lru co) r r'
    | _, _ => [(0, 0, false)]
    end
  | [], [] => []
  | _, _ => [(0, 0, false)]
  end.

(* ================================================================== *)
(* Part 3: lookback and throttler                                      *)
Record lb := mkLB { l_bins : Z; l_width : Z; l_head : Z; l_total : Z; l_buf : list Z }.
Definition lb_new (bins dur : Z) : lb :=
  mkLB bins (Z.quot dur bins) 0 0 (repeat 0 (Z.to_nat bins)).
Fixpoint upd (i : nat) (x : Z) (l : list Z) : list Z :=
  match l, i with
  | [], _ => []
  | _ :: r, O => x :: r
  | y :: r, S i' => y :: upd i' x r
  end.
Definition bget (i : Z) (l : list Z) : Z := nth (Z.to_nat i) l 0.

(* the loop of advance: for j < jmax { i := (ch+j+1) % bins; total -= buf[i]; buf[i] = 0 } *)
Fixpoint lb_clear (n : nat) (bins ch total : Z) (buf : list Z) : Z * list Z :=
  match n with
  | O => (total, buf)
  | S n' => let i := Z.rem (ch + 1) bins in
            lb_clear n' bins (ch + 1) (total - bget i buf) (upd (Z.to_nat i) 0 buf)
  end.
Definition lb_advance (l : lb) (t : Z) : lb * Z :=
  let ch := l_head l in
  let nh := Z.quot t (l_width l) in
  if nh <=? ch then (l, nh) else
  let jmax := Z.min (l_bins l) (nh - ch) in
  let '(total, buf) := lb_clear (Z.to_nat jmax) (l_bins l) ch (l_total l) (l_buf l) in
  (mkLB (l_bins l) (l_width l) nh total buf, nh).
Definition lb_add (l : lb) (t v : Z) : lb :=
  let '(l1, pos) := lb_advance l t in
  if l_head l1 - pos >=? l_bins l1 then l1 else
  let i := Z.rem pos (l_bins l1) in
  mkLB (l_bins l1) (l_width l1) (l_head l1) (l_total l1 + v)
       (upd (Z.to_nat i) (bget i (l_buf l1) + v) (l_buf l1)).
Definition lb_sum (l : lb) (t : Z) : lb * Z :=
  let '(l1, _) := lb_advance l t in (l1, l_total l1).

(* sum of the values added at bin indices in (head - bins, head]; h = list of (time, value) *)
Fixpoint wsum (width bins head : Z) (h : list (Z * Z)) : Z :=
  match h with
  | [] => 0
  | (t, v) :: r => (if head - bins <? Z.quot t width then v else 0) + wsum width bins head r
  end.

(* Throttler with ratioForAccepts 2 and requestsPadding 8; the pinned random number is
   rnd/1024.  throttleProbability = (requests - 2*accepts) / (requests + 8) > rnd/1024,
   evaluated exactly (for counts below 2^40 the float64 evaluation decides the same way). *)
Record thr := mkT { t_acc : lb; t_thr : lb }.
Definition prob_gt (a tcnt rnd : Z) : bool := (tcnt - a) * 1024 >? rnd * (a + tcnt + 8).
Definition should_throttle (s : thr) (now rnd : Z) : thr * bool :=
  let '(la, a) := lb_sum (t_acc s) now in
  let '(lt1, tcnt) := lb_sum (t_thr s) now in
  if prob_gt a tcnt rnd then (mkT la (lb_add lt1 now 1), true) else (mkT la lt1, false).
Definition register (s : thr) (now : Z) (throttled : bool) : thr :=
  if throttled then mkT (t_acc s) (lb_add (t_thr s) now 1) else mkT (lb_add (t_acc s) now 1) (t_thr s).

Record tstate := mkTS { s_lb : lb; s_thr : thr }.
Definition sum_list (l : list Z) : Z := fold_right Z.add 0 l.
Definition lb_obs (l : lb) : word := [l_head l; l_total l; sum_list (l_buf l)].
Definition thr_obs (r : Z) (s : thr) : word :=
  [r; l_head (t_acc s); l_total (t_acc s); l_head (t_thr s); l_total (t_thr s)].
Inductive top := TAdd (t v : Z) | TSum (t : Z) | TShould (t rnd : Z) | TReg (t x : Z).
Definition get_top (op : word) : option top :=
  match op with
  | [1; t; v] => Some (TAdd t v)
  | [2; t] => Some (TSum t)
  | [3; t; rnd] => Some (TShould t rnd)
  | [4; t; x] => Some (TReg t x)
  | _ => None
  end.
Definition thr_apply (s : tstate) (o : top) : tstate * word :=
  match o with
  | TAdd t v => let l := lb_add (s_lb s) t v in (mkTS l (s_thr s), lb_obs l)
  | TSum t => let l := fst (lb_sum (s_lb s) t) in (mkTS l (s_thr s), lb_obs l)
  | TShould t rnd => let th := fst (should_throttle (s_thr s) t rnd) in
                     (mkTS (s_lb s) th, thr_obs (b2z (snd (should_throttle (s_thr s) t rnd))) th)
  | TReg t x => let th := register (s_thr s) t (negb (x =? 0)) in (mkTS (s_lb s) th, thr_obs 0 th)
  end.
Fixpoint thr_run (s : tstate) (ops : list word) : option (list word) :=
  match ops with
  | [] => Some []
  | op :: r => match get_top op with
               | Some o => match thr_run (fst (thr_apply s o)) r with
                           | Some os => Some (snd (thr_apply s o) :: os)
                           | None => None
                           end
               | None => None
               end
  end.
Definition thr_init (bins dur : Z) : tstate :=
  mkTS (lb_new bins dur) (mkT (lb_new bins dur) (lb_new bins dur)).

(* ---- the property on observations (part 3) ----
   hl / ha / ht: (time, value) histories of the plain lookback, of the accepts and of the
   throttles, rebuilt from the operations and the observed decisions *)
Definition lb_clause (width bins : Z) (h : list (Z * Z)) (t : Z) (o : word) : bool :=
  match o with
  | [head; total; bufsum] =>
    (total =? wsum width bins head h) && (total =? bufsum) && (Z.quot t width <=? head)
  | _ => false
  end.
Fixpoint thr_clauses (width bins : Z) (hl ha ht : list (Z * Z)) (ops obs : list word) : list (Z * Z * bool) :=
  match ops, obs with
  | op :: r, o :: r' =>
    match get_top op with
    | Some (TAdd t v) =>
      (31, 1, lb_clause width bins ((t, v) :: hl) t o) :: thr_clauses width bins ((t, v) :: hl) ha ht r r'
    | Some (TSum t) =>
      (31, 2, lb_clause width bins hl t o) :: thr_clauses width bins hl ha ht r r'
    | Some (TShould t rnd) =>
      match o with
      | [res; ah; at_; th; tcnt] =>
        let ht' := if res =? 0 then ht else (t, 1) :: ht in
        (* the decision is taken on the sums before the throttle of this call is recorded *)
        (32, 3, (at_ =? wsum width bins ah ha) && (tcnt =? wsum width bins th ht') &&
                ((res =? 0) || (res =? 1)) &&
                Bool.eqb (res =? 1) (prob_gt (wsum width bins ah ha) (wsum width bins th ht) rnd) &&
                (Z.quot t width <=? ah) && (Z.quot t width <=? th)) ::
        thr_clauses width bins hl ha ht' r r'
      | _ => [(0, 0, false)]
      end
    | Some (TReg t x) =>
      match o with
      | [_; ah; at_; th; tcnt] =>
        let ha' := if x =? 0 then (t, 1) :: ha else ha in
        let ht' := if x =? 0 then ht else (t, 1) :: ht in
        (32, 4, (at_ =? wsum width bins ah ha') && (tcnt =? wsum width bins th ht')) ::
        thr_clauses width bins hl ha' ht' r r'
      | _ => [(0, 0, false)]
      end
    | None => [(0, 0, false)]
    end
  | [], [] => []
  | _, _ => [(0, 0, false)]
  end.

(* ================================================================== *)
Definition run (cfg : word) (ops : list word) : option (list word) :=
  match cfg with
  | 1 :: r => match get_bmap r with Some bm => keys_run bm ops | None => None end
  | [2; mx] => cache_run (cache_init mx) ops
  | [3; bins; dur] => thr_run (thr_init bins dur) ops
  | _ => None
  end.

Definition clauses (cfg : word) (ops obs : list word) : list (Z * Z * bool) :=
  match cfg with
  | 1 :: r => match get_bmap r with Some bm => keys_clauses bm ops obs | None => [(0, 0, false)] end
  | [2; mx] => cache_clauses [] ops obs
  | [3; bins; dur] => thr_clauses (Z.quot dur bins) bins [] [] [] ops obs
  | _ => [(0, 0, false)]
  end.

Definition holds_b (cfg : word) (ops obs : list word) : bool :=
  forallb (fun c => snd c) (clauses cfg ops obs).

Definition check_case (c : case) : verdict :=
  decide (run (c_cfg c) (c_ops c)) (c_obs c) (clauses (c_cfg c) (c_ops c) (c_obs c)).
