(* C09: user metadata across the wire (unary, server-streaming and client-streaming RPCs).
   Transcribes isReservedHeader / isWhitelistedHeader / encodeMetadataHeader /
   decodeMetadataHeader / encodeBinHeader / decodeBinHeader (internal/transport/http_util.go),
   imetadata.Validate / ValidatePair / ValidateKey (internal/metadata/metadata.go), the
   metadata checks of newClientStream (stream.go), the user part of createHeaderFields
   (internal/transport/http2_client.go), the header loop and the :authority/host/connection
   rules of http2Server.operateHeaders, appendHeaderFieldsFromMD / writeHeaderLocked /
   writeStatus (http2_server.go) and the header loop of http2Client.operateHeaders.
   HPACK + the HTTP/2 framer are an order-preserving transport of (name, value) lists.
   Strings are byte lists; Go maps are association lists in ranging order (MDApi).
   Two transport constants are abbreviated (the driver abbreviates them the same way):
   "CT" is the content-type value application/grpc, "UA" the channel's user-agent.
   No proofs here. *)
From Coq Require Import List ZArith Bool String Ascii.
From VLib Require Import Codec.
From VModel Require Import MDApi.
Import ListNotations.
Open Scope Z_scope.

Definition s2l (s : string) : str := map (fun a => Z.of_nat (nat_of_ascii a)) (list_ascii_of_string s).

Definition n_authority : str := Eval vm_compute in s2l ":authority".
Definition n_method : str := Eval vm_compute in s2l ":method".
Definition v_post : str := Eval vm_compute in s2l "POST".
Definition n_connection : str := Eval vm_compute in s2l "connection".
Definition n_content_type : str := Eval vm_compute in s2l "content-type".
Definition n_grpc_accept_encoding : str := Eval vm_compute in s2l "grpc-accept-encoding".
Definition n_host : str := Eval vm_compute in s2l "host".
Definition n_user_agent : str := Eval vm_compute in s2l "user-agent".

Definition n_scheme : str := Eval vm_compute in s2l ":scheme".
Definition v_http : str := Eval vm_compute in s2l "http".
Definition n_path : str := Eval vm_compute in s2l ":path".
Definition n_te : str := Eval vm_compute in s2l "te".
Definition v_trailers : str := Eval vm_compute in s2l "trailers".
Definition n_status : str := Eval vm_compute in s2l ":status".
Definition v_200 : str := Eval vm_compute in s2l "200".
Definition n_grpc_status : str := Eval vm_compute in s2l "grpc-status".
Definition n_grpc_message : str := Eval vm_compute in s2l "grpc-message".

(* ---- http_util.go ---- *)
Definition reserved_names : list str := Eval vm_compute in
  map s2l ["content-type"; "user-agent"; "grpc-message-type"; "grpc-encoding"; "grpc-message";
           "grpc-status"; "grpc-timeout"; "te"]%string.
Definition is_pseudo (h : str) : bool := match h with c :: _ => c =? 58 | [] => false end.
Definition is_reserved (h : str) : bool := is_pseudo h || existsb (str_eqb h) reserved_names.
Definition is_whitelisted (h : str) : bool :=
  str_eqb h n_authority || str_eqb h n_user_agent.

Fixpoint ends_bin (k : str) : bool :=       (* strings.HasSuffix(k, "-bin") *)
  match k with
  | [] => false
  | c :: r => str_eqb k [45; 98; 105; 110] || ends_bin r
  end.

(* base64, standard alphabet *)
Definition b64char (s : Z) : Z :=
  if s <? 26 then 65 + s else if s <? 52 then 71 + s else if s <? 62 then s - 4
  else if s =? 62 then 43 else 47.
Definition b64val (c : Z) : option Z :=
  if (65 <=? c) && (c <=? 90) then Some (c - 65)
  else if (97 <=? c) && (c <=? 122) then Some (c - 71)
  else if (48 <=? c) && (c <=? 57) then Some (c + 4)
  else if c =? 43 then Some 62 else if c =? 47 then Some 63 else None.

(* base64.RawStdEncoding.EncodeToString *)
Fixpoint enc64 (v : list Z) : list Z :=
  match v with
  | a :: b :: c :: r =>
    b64char (a / 4) :: b64char ((a mod 4) * 16 + b / 16) :: b64char ((b mod 16) * 4 + c / 64) ::
    b64char (c mod 64) :: enc64 r
  | [a; b] => [b64char (a / 4); b64char ((a mod 4) * 16 + b / 16); b64char ((b mod 16) * 4)]
  | [a] => [b64char (a / 4); b64char ((a mod 4) * 16)]
  | [] => []
  end.

Definition dec1 (c1 c2 : Z) : option (list Z) :=
  match b64val c1, b64val c2 with
  | Some s1, Some s2 => Some [s1 * 4 + s2 / 16]
  | _, _ => None
  end.
Definition dec2 (c1 c2 c3 : Z) : option (list Z) :=
  match b64val c1, b64val c2, b64val c3 with
  | Some s1, Some s2, Some s3 => Some [s1 * 4 + s2 / 16; (s2 mod 16) * 16 + s3 / 4]
  | _, _, _ => None
  end.
Definition dec3 (c1 c2 c3 c4 : Z) : option (list Z) :=
  match b64val c1, b64val c2, b64val c3, b64val c4 with
  | Some s1, Some s2, Some s3, Some s4 =>
    Some [s1 * 4 + s2 / 16; (s2 mod 16) * 16 + s3 / 4; (s3 mod 4) * 64 + s4]
  | _, _, _, _ => None
  end.
Definition ocat (a b : option (list Z)) : option (list Z) :=
  match a, b with Some x, Some y => Some (x ++ y) | _, _ => None end.

(* base64.RawStdEncoding.DecodeString (non-strict: trailing bits ignored); '=' is not in
   the alphabet.  Go's decoder also skips CR and LF, which cannot occur in an HTTP/2
   field value and are not modelled. *)
Fixpoint dec_raw (s : list Z) : option (list Z) :=
  match s with
  | [] => Some []
  | [_] => None
  | [c1; c2] => dec1 c1 c2
  | [c1; c2; c3] => dec2 c1 c2 c3
  | c1 :: c2 :: c3 :: c4 :: r => ocat (dec3 c1 c2 c3 c4) (dec_raw r)
  end.
(* base64.StdEncoding.DecodeString on an input whose length is a multiple of 4 *)
Fixpoint dec_std (s : list Z) : option (list Z) :=
  match s with
  | [] => Some []
  | c1 :: c2 :: c3 :: c4 :: r =>
    if (c4 =? 61) && match r with [] => true | _ => false end
    then (if c3 =? 61 then dec1 c1 c2 else dec2 c1 c2 c3)
    else ocat (dec3 c1 c2 c3 c4) (dec_std r)
  | _ => None
  end.
Definition decode_bin (s : list Z) : option (list Z) :=
  if Z.of_nat (List.length s) mod 4 =? 0 then dec_std s else dec_raw s.
Definition encode_hdr (k v : str) : str := if ends_bin k then enc64 v else v.
Definition decode_hdr (k v : str) : option str := if ends_bin k then decode_bin v else Some v.
(* what a peer that pads its base64 sends *)
Definition pad64 (s : list Z) : list Z :=
  let m := Z.of_nat (List.length s) mod 4 in
  if m =? 2 then s ++ [61; 61] else if m =? 3 then s ++ [61] else s.

(* ---- internal/metadata: validation ---- *)
Definition printable (v : str) : bool := forallb (fun c => (32 <=? c) && (c <=? 126)) v.
Definition key_char (c : Z) : bool :=
  ((97 <=? c) && (c <=? 122)) || ((48 <=? c) && (c <=? 57)) || (c =? 46) || (c =? 45) || (c =? 95).
Definition validate_key (k : str) : bool :=
  match k with
  | [] => false
  | c :: _ => if c =? 58 then true else forallb key_char k
  end.
Definition validate_pair (k : str) (vals : list str) : bool :=
  validate_key k && (ends_bin k || forallb printable vals).
Definition validate_md (md : mdt) : bool := forallb (fun e => validate_pair (fst e) (snd e)) md.
(* stream.go newClientStream: Validate(md), then ValidatePair on every stored appended pair *)
Definition validate_out (md : mdt) (added : list kvs) : bool :=
  validate_md md && forallb (fun p => validate_pair (fst p) [snd p]) (List.concat added).

(* ---- client: the metadata part of createHeaderFields ---- *)
Definition fields := list (str * str).
Definition md_fields (md : mdt) : fields :=
  flat_map (fun e => if is_reserved (fst e) then []
                     else map (fun v => (fst e, encode_hdr (fst e) v)) (snd e)) md.
Definition added_fields (added : list kvs) : fields :=
  flat_map (fun p => let k := lower (fst p) in
                     if is_reserved k then [] else [(k, encode_hdr k (snd p))]) (List.concat added).
Definition ct_grpc : str := [67; 84].
Definition ua : str := [85; 65].
Definition transport_fields (auth : str) : fields :=
  [(n_method, v_post); (n_scheme, v_http); (n_path, [47]);
   (n_authority, auth); (n_content_type, ct_grpc); (n_user_agent, ua);
   (n_te, v_trailers)].
Definition request_fields (auth : str) (md : mdt) (added : list kvs) : fields :=
  transport_fields auth ++ md_fields md ++ added_fields added.

(* ---- server: operateHeaders ---- *)
Definition store (m : mdt) (k v : str) : mdt := put k (getd k m ++ [v]) m.
Record sacc := mksacc { a_md : mdt; a_grpc : bool; a_perr : bool; a_herr : bool; a_post : bool }.
Definition consumed_names : list str := Eval vm_compute in map s2l ["grpc-encoding"; ":path"; "grpc-timeout"]%string.
Definition srv_step (a : sacc) (f : str * str) : sacc :=
  let n := fst f in let v := snd f in
  if str_eqb n n_content_type then
    (if str_eqb v ct_grpc then mksacc (store (a_md a) n v) true (a_perr a) (a_herr a) (a_post a) else a)
  else if str_eqb n n_grpc_accept_encoding then
    mksacc (store (a_md a) n v) (a_grpc a) (a_perr a) (a_herr a) (a_post a)
  else if str_eqb n n_method then
    mksacc (a_md a) (a_grpc a) (a_perr a) (a_herr a) (str_eqb v v_post)
  else if existsb (str_eqb n) consumed_names then a      (* a malformed grpc-timeout is C07's business *)
  else if str_eqb n n_connection then mksacc (a_md a) (a_grpc a) true (a_herr a) (a_post a)
  else if is_reserved n && negb (is_whitelisted n) then a
  else match decode_hdr n v with
       | None => mksacc (a_md a) (a_grpc a) (a_perr a) true (a_post a)
       | Some v' => mksacc (store (a_md a) n v') (a_grpc a) (a_perr a) (a_herr a) (a_post a)
       end.
Inductive sres := SOk (m : mdt) | SRst | SEarly (code : Z).
Definition lenZ {A} (l : list A) : Z := Z.of_nat (List.length l).
Definition srv_collect (fs : fields) : sres :=
  let a := fold_left srv_step fs (mksacc [] false false false false) in
  let m := a_md a in
  if (lenZ (getd n_authority m) >? 1) || (lenZ (getd n_host m) >? 1) then SEarly 13
  else if a_perr a then SRst
  else if negb (a_grpc a) then SEarly 3
  else if a_herr a then SEarly 13
  else
    let m' := match getd n_authority m with
              | [] => match get n_host m with
                      | Some h => del n_host (put n_authority h m)
                      | None => m
                      end
              | _ => del n_host m
              end in
    if negb (a_post a) then SEarly 13 else SOk m'.

(* ---- server: header and trailer frames ---- *)
Definition response_header_fields (h : mdt) : fields :=
  [(n_status, v_200); (n_content_type, ct_grpc)] ++ md_fields h.
Definition response_trailer_fields (t : mdt) : fields :=
  [(n_grpc_status, [48]); (n_grpc_message, [])] ++ md_fields t.

(* ---- client: operateHeaders ---- *)
Definition cli_consumed : list str := Eval vm_compute in map s2l ["grpc-encoding"; "grpc-status"; "grpc-message"; ":status"]%string.
Definition cli_step (a : option mdt) (f : str * str) : option mdt :=
  match a with
  | None => None
  | Some m =>
    let n := fst f in let v := snd f in
    if str_eqb n n_content_type then (if str_eqb v ct_grpc then Some (store m n v) else Some m)
    else if existsb (str_eqb n) cli_consumed then Some m
    else if is_reserved n && negb (is_whitelisted n) then Some m
    else match decode_hdr n v with None => None | Some v' => Some (store m n v') end
  end.
Definition cli_collect (fs : fields) : option mdt := fold_left cli_step fs (Some []).

(* ---- the peer's HTTP/2 framer (x/net/http2 MetaHeadersFrame checks, httpguts) ---- *)
(* httpguts.IsTokenRune minus upper case (validWireHeaderFieldName) *)
Definition wire_name_char (c : Z) : bool :=
  ((97 <=? c) && (c <=? 122)) || ((48 <=? c) && (c <=? 57)) ||
  existsb (Z.eqb c) [33; 35; 36; 37; 38; 39; 42; 43; 45; 46; 94; 95; 96; 124; 126].
Definition wire_name_ok (k : str) : bool :=
  is_pseudo k || (match k with [] => false | _ => true end && forallb wire_name_char k).
(* httpguts.ValidHeaderFieldValue: no control characters except space and tab, no DEL *)
Definition wire_value_ok (v : str) : bool :=
  forallb (fun c => negb ((c <? 32) && negb (c =? 9)) && negb (c =? 127)) v.
Definition frame_ok (fs : fields) : bool :=
  forallb (fun f => wire_name_ok (fst f) && wire_value_ok (snd f)) fs.

(* ---- one RPC ---- *)
(* mode 0: unary RPC, the handler uses grpc.SetHeader(ctx, h) / grpc.SetTrailer(ctx, t), which
           hand the metadata to the transport stream without validating it (server.go);
   mode 1, 3: server-streaming / client-streaming, ServerStream.SetHeader(h) then SetTrailer(t);
   mode 2: server-streaming, ServerStream.SendHeader(h) then SetTrailer(t).
   ServerStream.SetHeader/SendHeader validate and return INTERNAL (stream.go), and the
   handler returns that error; ServerStream.SetTrailer only logs a validation failure and
   sets the trailer anyway.  A header or trailer block with a field the client's framer
   rejects terminates the stream with INTERNAL.
   observation: [code; handler invoked; request header block written to the wire; code of
   the error the handler got from Set/SendHeader (0 = none)] ++ handler md ++ client
   header ++ client trailer *)
Definition fail_obs (code sent : Z) (trl : mdt) : word :=
  [code; 0; sent; 0] ++ dump [] ++ dump [] ++ dump trl.
(* everything after newClientStream's validation: the attempt's context carries (md, added) *)
Definition rpc_sent (auth : str) (mode : Z) (md : mdt) (added : list kvs) (h t : mdt) : word :=
  match srv_collect (request_fields auth md added) with
  | SRst => fail_obs 13 1 []
  | SEarly code => fail_obs code 1 [(n_content_type, [ct_grpc])]
  | SOk m =>
    let got := dump (from_in m) in
    if negb (mode =? 0) && negb (validate_md h) then
      (* refused by ServerStream.SetHeader/SendHeader: trailers-only INTERNAL response *)
      [13; 1; 1; 13] ++ got ++ dump [] ++ dump [(n_content_type, [ct_grpc])]
    else if negb (frame_ok (response_header_fields h)) then
      [13; 1; 1; 0] ++ got ++ dump [] ++ dump []
    else match cli_collect (response_header_fields h) with
         | None => [13; 1; 1; 0] ++ got ++ dump [] ++ dump []
         | Some hm =>
           if negb (frame_ok (response_trailer_fields t)) then [13; 1; 1; 0] ++ got ++ dump hm ++ dump []
           else match cli_collect (response_trailer_fields t) with
                | None => [13; 1; 1; 0] ++ got ++ dump hm ++ dump []
                | Some tm => [0; 1; 1; 0] ++ got ++ dump hm ++ dump tm
                end
         end
  end.
Definition rpc (auth : str) (mode : Z) (md : mdt) (calls : list kvs) (h t : mdt) : word :=
  let added := map lowkv calls in                      (* AppendToOutgoingContext *)
  if negb (validate_out md added) then fail_obs 13 0 [] else rpc_sent auth mode md added h t.

(* the LB picker returned PickResult.Metadata = p (non-nil): csAttempt.newStream validates p,
   replaces the attempt's outgoing metadata by Join(FromOutgoingContext(ctx), p) installed
   with NewOutgoingContext, and takes the :authority override from p (gRFC A81) *)
Definition rpc_pick (auth : str) (mode : Z) (md : mdt) (calls : list kvs) (h t p : mdt) : word :=
  let added := map lowkv calls in
  if negb (validate_out md added) then fail_obs 13 0 [] else
  if negb (validate_md p) then fail_obs 13 0 [] else
  let merged := join [from_out md added; p] in
  let auth' := match getd n_authority p with v :: _ => v | [] => auth end in
  rpc_sent auth' mode merged [] h t.

(* ---- the property's reference ---- *)
Definition pairs_of (md : mdt) : kvs := flat_map (fun e => map (fun v => (fst e, v)) (snd e)) md.
Definition user_pairs (md : mdt) (calls : list kvs) : kvs := pairs_of md ++ List.concat (map lowkv calls).
Definition visible (ps : kvs) : kvs := filter (fun p => negb (is_reserved (fst p))) ps.
Definition add_kv (o : mdt) (p : str * str) : mdt := store o (fst p) (snd p).
Definition group (ps : kvs) : mdt := fold_left add_kv ps [].
(* "valid user metadata": lowercase keys of [0-9a-z-_.] (pseudo-header names are reserved
   names, not invalid ones), printable values unless the key ends in -bin *)
Definition valid_user (md : mdt) (calls : list kvs) : bool :=
  forallb (fun p => validate_pair (fst p) [snd p]) (user_pairs md calls) && forallb (fun e => validate_key (fst e)) md.
Definition hop_name (k : str) : bool := str_eqb k n_host || str_eqb k n_connection.
Definition has_hop (md : mdt) (calls : list kvs) : bool :=
  existsb (fun p => hop_name (fst p)) (user_pairs md calls).
Definition transport_md (auth : str) : mdt :=
  [(n_authority, [auth]); (n_content_type, [ct_grpc]); (n_user_agent, [ua])].
Definition expect_ok (auth : str) (md : mdt) (calls : list kvs) (h t : mdt) : word :=
  [0; 1; 1; 0] ++ dump (transport_md auth ++ group (visible (user_pairs md calls)))
         ++ dump ((n_content_type, [ct_grpc]) :: group (visible (pairs_of h)))
         ++ dump (group (visible (pairs_of t))).

(* ---- a raw HTTP/2 peer: the request header block is the transport's seven fields followed
   by arbitrary extra fields, one empty message, END_STREAM.  Observation:
   [handler invoked; grpc-status received (-1 = RST_STREAM)] ++ handler md.
   Extra pseudo-header fields are rejected by the server's framer (unknown, duplicate or
   response pseudo-headers), as are invalid names/values. ---- *)
Definition raw_frame_ok (extra : fields) : bool :=
  forallb (fun f => negb (is_pseudo (fst f)) && wire_name_ok (fst f) && wire_value_ok (snd f)) extra.
Definition raw_rpc (auth : str) (extra : fields) : word :=
  if negb (raw_frame_ok extra) then [0; -1] ++ dump [] else
  match srv_collect (transport_fields auth ++ extra) with
  | SOk m => [1; 0] ++ dump (from_in m)
  | SRst => [0; -1] ++ dump []
  | SEarly code => [0; code] ++ dump []
  end.
(* reference for peers whose extra fields are "plain": not content-type / user-agent /
   connection / host, and -bin values that are base64 (padded or not): reserved names are
   dropped, everything else arrives decoded, grouped per key in order *)
Definition raw_plain_field (f : str * str) : bool :=
  negb (existsb (str_eqb (fst f)) [n_content_type; n_user_agent; n_connection; n_host]) &&
  (is_reserved (fst f) || match decode_hdr (fst f) (snd f) with Some _ => true | None => false end).
Definition raw_plain (extra : fields) : bool := raw_frame_ok extra && forallb raw_plain_field extra.
Definition raw_decoded (extra : fields) : kvs :=
  flat_map (fun f => if is_reserved (fst f) then []
                     else match decode_hdr (fst f) (snd f) with Some v => [(fst f, v)] | None => [] end) extra.
Definition raw_expect (auth : str) (extra : fields) : word :=
  [1; 0] ++ dump (transport_md auth ++ group (raw_decoded extra)).

(* reference for the pick-metadata case: what is sent is Join(FromOutgoingContext(ctx), p), with
   FromOutgoingContext given by C28's reference multimap [spec_md] *)
Definition pick_merged (md : mdt) (calls : list kvs) (p : mdt) : mdt := join [spec_md md calls; p].
Definition pick_auth (auth : str) (p : mdt) : str :=
  match getd n_authority p with v :: _ => v | [] => auth end.

(* ---- operations ---- *)
Fixpoint get_calls (n : nat) (w : word) : option (list kvs * word) :=
  match n with
  | O => Some ([], w)
  | S n' => match get_kvs w with
            | Some (kv, r) => match get_calls n' r with
                              | Some (l, r') => Some (kv :: l, r')
                              | None => None
                              end
            | None => None
            end
  end.
Fixpoint get_fields (n : nat) (w : word) : option (fields * word) :=
  match n with
  | O => Some ([], w)
  | S n' => match get_bytes w with
            | Some (k, r) =>
              match get_bytes r with
              | Some (v, r') => match get_fields n' r' with
                                | Some (l, r'') => Some ((k, v) :: l, r'')
                                | None => None
                                end
              | None => None
              end
            | None => None
            end
  end.
(* op [2; n; (name, value)...] : raw peer *)
Definition decode_raw (w : word) : option fields :=
  match w with
  | 2 :: n :: r => if n <? 0 then None else
                   match get_fields (Z.to_nat n) r with Some (fs, []) => Some fs | _ => None end
  | _ => None
  end.
Record rpcop := mkop { o_mode : Z; o_md : mdt; o_calls : list kvs; o_h : mdt; o_t : mdt }.
Definition decode_op (w : word) : option rpcop :=
  match w with
  | 1 :: mode :: r =>
    match get_md r with
    | Some (md, n :: r1) =>
      if (n <? 0) || (mode <? 0) || (mode >? 3) then None else
      match get_calls (Z.to_nat n) r1 with
      | Some (calls, r2) =>
        match get_md r2 with
        | Some (h, r3) => match get_md r3 with
                          | Some (t, []) => Some (mkop mode md calls h t)
                          | _ => None
                          end
        | None => None
        end
      | None => None
      end
    | _ => None
    end
  | _ => None
  end.
(* op [3; mode; md; ncalls; kvs...; H; T; P] *)
Definition decode_pick (w : word) : option (rpcop * mdt) :=
  match w with
  | 3 :: mode :: r =>
    match get_md r with
    | Some (md, n :: r1) =>
      if (n <? 0) || (mode <? 0) || (mode >? 3) then None else
      match get_calls (Z.to_nat n) r1 with
      | Some (calls, r2) =>
        match get_md r2 with
        | Some (h, r3) => match get_md r3 with
                          | Some (t, r4) => match get_md r4 with
                                            | Some (p, []) => Some (mkop mode md calls h t, p)
                                            | _ => None
                                            end
                          | None => None
                          end
        | None => None
        end
      | None => None
      end
    | _ => None
    end
  | _ => None
  end.
Definition get_auth (cfg : word) : option str :=
  match get_bytes cfg with Some (a, []) => Some a | _ => None end.

Definition run_op (auth : str) (w : word) : option word :=
  match decode_op w with
  | Some o => Some (rpc auth (o_mode o) (o_md o) (o_calls o) (o_h o) (o_t o))
  | None =>
    match decode_raw w with
    | Some extra => Some (raw_rpc auth extra)
    | None => match decode_pick w with
              | Some (o, p) => Some (rpc_pick auth (o_mode o) (o_md o) (o_calls o) (o_h o) (o_t o) p)
              | None => None
              end
    end
  end.
Fixpoint run_ops (auth : str) (ops : list word) : option (list word) :=
  match ops with
  | [] => Some []
  | w :: r => match run_op auth w, run_ops auth r with
              | Some o, Some os => Some (o :: os)
              | _, _ => None
              end
  end.
Definition run (cfg : word) (ops : list word) : option (list word) :=
  match get_auth cfg with Some a => run_ops a ops | None => None end.

(* clause ids:
   1  valid user metadata without the names host/connection: the RPC succeeds, the handler
      sees the transport's three entries plus exactly the user's non-reserved pairs grouped
      per key in order, the client sees content-type plus the handler's non-reserved header
      pairs, and the handler's non-reserved trailer pairs
   3  invalid user metadata: INTERNAL, the handler is not invoked and no header field was
      written to the wire (no OutHeader stats event on the client)
   6  valid request metadata, invalid header metadata given to ServerStream.SetHeader /
      SendHeader: the call is refused with INTERNAL and the RPC fails with INTERNAL
   95 clause 1 for metadata that uses the key "host" or "connection" (statement deviation)
   96 clause 6 for invalid header/trailer metadata that the server API does not refuse: the
      unary helpers grpc.SetHeader / grpc.SetTrailer (no validation) and
      ServerStream.SetTrailer (validation failure only logged)
   7  a raw HTTP/2 peer whose extra header fields are plain (see raw_plain): the handler is
      invoked and sees the transport's entries plus the non-reserved extra fields, -bin values
      base64-decoded whether padded or not, grouped per key in order; reserved names are dropped
   0  malformed case *)
Definition server_md_ok (m : mdt) : bool :=
  validate_md m && nodupb (keys m).
Definition clause_rpc (auth : str) (i : Z) (o : rpcop) (obs : word) : Z * Z * bool :=
  if negb (valid_user (o_md o) (o_calls o)) then
    (3, i, match obs with 13 :: 0 :: 0 :: _ => true | _ => false end)
  else if has_hop (o_md o) (o_calls o) then
    (95, i, word_eqb obs (expect_ok auth (o_md o) (o_calls o) (o_h o) (o_t o)))
  else if validate_md (o_h o) && validate_md (o_t o) then
    (1, i, word_eqb obs (expect_ok auth (o_md o) (o_calls o) (o_h o) (o_t o)))
  else
    (if negb (o_mode o =? 0) && negb (validate_md (o_h o)) then 6 else 96, i,
     match obs with 13 :: 1 :: 1 :: 13 :: _ => true | _ => false end).
Definition clause_op (auth : str) (i : Z) (w obs : word) : Z * Z * bool :=
  match decode_op w with
  | Some o => clause_rpc auth i o obs
  | None =>
    match decode_raw w with
    | Some extra => (7, i, if raw_plain extra then word_eqb obs (raw_expect auth extra) else true)
    | None =>
      match decode_pick w with
      | Some (o, p) =>
        (* pick metadata: invalid application or pick metadata => INTERNAL before sending;
           otherwise the RPC carries Join(FromOutgoingContext, p) and nothing else *)
        if negb (valid_user (o_md o) (o_calls o) && validate_md p) then
          (3, i, match obs with 13 :: 0 :: 0 :: _ => true | _ => false end)
        else clause_rpc (pick_auth auth p) i
               (mkop (o_mode o) (pick_merged (o_md o) (o_calls o) p) [] (o_h o) (o_t o)) obs
      | None => (0, i, false)
      end
    end
  end.
Fixpoint clauses_from (auth : str) (i : Z) (ops obs : list word) : list (Z * Z * bool) :=
  match ops, obs with
  | w :: r, ob :: r' => clause_op auth i w ob :: clauses_from auth (i + 1) r r'
  | [], [] => []
  | _, _ => [(0, i, false)]
  end.
Definition clauses (cfg : word) (ops obs : list word) : list (Z * Z * bool) :=
  match get_auth cfg with Some a => clauses_from a 0 ops obs | None => [(0, 0, false)] end.
Definition holds_b (cfg : word) (ops obs : list word) : bool :=
  forallb (fun c => snd c) (clauses cfg ops obs).
Definition check_case (c : case) : verdict :=
  decide (run (c_cfg c) (c_ops c)) (c_obs c) (clauses (c_cfg c) (c_ops c) (c_obs c)).
