(* C27: compression negotiation and the compressed flag.
   Transcribes, over compressor *names*, the decisions of
     stream.go   newClientStreamWithParams (UseCompressor / WithCompressor -> grpc-encoding,
                 AcceptCompressors -> grpc-accept-encoding), csAttempt.recvMsg (choice of the
                 decompressor from the response's grpc-encoding, AcceptCompressors check),
                 serverStream.SendMsg (SetSendCompressor pick-up, which also drops the legacy compressor)
     server.go   processRPC (decompressor / default send compressor, UNIMPLEMENTED),
                 SetSendCompressor / validateSendCompressor
     rpc_util.go compress (flag), checkRecvPayload
   for one ping-pong streaming RPC.  Names: 0 = none (""), 1 = "identity", others = compressor
   names; [reg n] = n is registered with encoding.RegisterCompressor.  No proofs here. *)
From Coq Require Import List ZArith Bool.
From VLib Require Import Codec Machine.
Import ListNotations.
Open Scope Z_scope.

Definition cUnimplemented : Z := 12.
Definition cInternal : Z := 13.

(* name is "" or "identity" *)
Definition plain (n : Z) : bool := (n =? 0) || (n =? 1).

(* One RPC.
   use   UseCompressor(name) call option (0 = absent)
   wc    WithCompressor(legacy Compressor of that Type()) dial option (0 = absent)
   wd    WithDecompressor(legacy Decompressor of that Type()) dial option
   acc   AcceptCompressors(names...) as a predicate on names; None = option absent
   scp   RPCCompressor(legacy) server option,  sdc  RPCDecompressor(legacy) server option
   setn  the handler calls SetSendCompressor(name) before its first send (0 = no call)
   req / resp: lengths of the request and response messages of the ping-pong rounds *)
Record rpc := mkRpc {
  use : Z; wc : Z; wd : Z; acc : option (Z -> bool);
  scp : Z; sdc : Z; setn : Z; rounds : list (Z * Z); mode : Z }.

(* mode bits: 1 = the client sends PreparedMsg (Encode on the client stream, then SendMsg),
   2 = the handler sends PreparedMsg (Encode after its SetSendCompressor call),
   4 = unary: ClientConn.Invoke against a MethodDesc handler (one round).
   Only bit 2 changes the behaviour: PreparedMsg.Encode compresses with the compressors
   stored in the rpcInfo of the stream's context, which the server fills in when the stream
   is created (server_default), before any SetSendCompressor. *)
Definition prep_s (r : rpc) : bool := Z.testbit (mode r) 1.

(* ---- client, creating the stream ---- *)

(* grpc-encoding the client announces; None = the RPC fails with INTERNAL before anything is
   sent (UseCompressor names a compressor that is not registered) *)
Definition client_send (reg : Z -> bool) (r : rpc) : option Z :=
  if negb (use r =? 0) then
    if (use r =? 1) || reg (use r) then Some (use r) else None
  else Some (wc r).                       (* 0 when WithCompressor is absent *)

(* does the client hold a compressor (V1 from the registry or the legacy V0)? and its codec *)
Definition client_codec (r : rpc) : Z :=
  if negb (use r =? 0) then (if use r =? 1 then 0 else use r) else wc r.

(* names advertised in grpc-accept-encoding *)
Definition adv (reg : Z -> bool) (r : rpc) (n : Z) : bool :=
  match acc r with
  | None => reg n
  | Some f => f n
  end.

(* rpc_util.compress: the flag of a message of length len under codec c (0 = no compressor) *)
Definition flag_of (codec len : Z) : Z := if negb (codec =? 0) && negb (len =? 0) then 1 else 0.

(* ---- server, before the handler ---- *)

(* Some true: legacy decompressor matches; Some false: registry (or nothing needed);
   None: UNIMPLEMENTED *)
Definition server_accepts (reg : Z -> bool) (r : rpc) (rc : Z) : bool :=
  (negb (sdc r =? 0) && (sdc r =? rc)) || plain rc || reg rc.

(* default send compressor: (legacy codec V0, registry codec V1, name for the header) *)
Definition server_default (reg : Z -> bool) (r : rpc) (rc : Z) : Z * Z * Z :=
  if negb (scp r =? 0) then (scp r, 0, scp r)
  else if negb (plain rc) && reg rc then (0, rc, rc)
  else (0, 0, 0).

(* validateSendCompressor *)
Definition set_valid (reg : Z -> bool) (r : rpc) (n : Z) : bool :=
  (n =? 1) || (reg n && adv reg r n).

(* after the handler's SetSendCompressor and serverStream.SendMsg's pick-up:
   (V0, V1, header name) *)
Definition server_send (reg : Z -> bool) (r : rpc) (rc : Z) : Z * Z * Z :=
  let '(v0, v1, name) := server_default reg r rc in
  if negb (setn r =? 0) && set_valid reg r (setn r) then
    if setn r =? name then (v0, v1, name)
    else (0, (if reg (setn r) then setn r else 0), setn r)
         (* the handler's choice drops the legacy compressor: V0 = nil, V1 = GetCompressor(name) *)
  else (v0, v1, name).

(* compress uses the encoding.Compressor when there is one, else the legacy one *)
Definition pick (v0 v1 : Z) : Z := if negb (v1 =? 0) then v1 else v0.

(* the compressor the server's messages are actually compressed with *)
Definition server_codec (reg : Z -> bool) (r : rpc) (rc : Z) : Z :=
  let '(v0, v1, _) := (if prep_s r then server_default reg r rc else server_send reg r rc) in
  pick v0 v1.

(* ---- client, receiving ---- *)

(* csAttempt.recvMsg, first call: the codec the client will decode with (0 = none), or
   None = INTERNAL because AcceptCompressors does not allow the response's encoding *)
Definition client_decoder (reg : Z -> bool) (r : rpc) (ct : Z) : option Z :=
  if plain ct then Some 0
  else
    let d := if negb (wd r =? 0) && (wd r =? ct) then ct else if reg ct then ct else 0 in
    match acc r with
    | Some f => if f ct then Some d else None
    | None => Some d
    end.

(* checkRecvPayload + decompress of one response message compressed with codec [by]
   (0 = not compressed) under header ct with decoder d: true = delivered intact *)
Definition client_takes (ct d by_ : Z) : bool :=
  (by_ =? 0) || (negb (plain ct) && negb (d =? 0) && (d =? by_)).

(* ---- one RPC: observation ----
   [code; reached; setres; reqEnc; respEnc; dReq; dResp] ++ [nq; qflags...] ++ [nr; rflags...]
   code     status code seen by the client (0 OK)
   reached  the handler ran;  setres 0 no call / not reached, 1 SetSendCompressor ok, 2 error
   reqEnc / respEnc  grpc-encoding of the request / response headers (0 absent)
   dReq / dResp  messages delivered (intact) to the handler / to the client
   qflags / rflags  compressed flags of the messages that provably crossed the wire *)

(* the rounds: returns (client code, delivered requests, delivered responses, qflags, rflags) *)
Fixpoint play (ccodec scodec ct d : Z) (rs : list (Z * Z)) : Z * Z * Z * list Z * list Z :=
  match rs with
  | [] => (0, 0, 0, [], [])
  | (l, m) :: rest =>
    let qf := flag_of ccodec l in
    let rf := flag_of scodec m in
    if client_takes ct d (if rf =? 1 then scodec else 0) then
      let '(code, dq, dr, qs, fs) := play ccodec scodec ct d rest in
      (code, dq + 1, dr + 1, qf :: qs, rf :: fs)
    else (cInternal, 1, 0, [qf], [rf])
  end.

Definition obs_of (code reached setres reqEnc respEnc dq dr : Z) (qs fs : list Z) : word :=
  [code; reached; setres; reqEnc; respEnc; dq; dr] ++ put_bytes qs ++ put_bytes fs.

Definition run_rpc (reg : Z -> bool) (r : rpc) : word :=
  match client_send reg r with
  | None => obs_of cInternal 0 0 0 0 0 0 [] []
  | Some rc =>
    if negb (server_accepts reg r rc) then obs_of cUnimplemented 0 0 rc 0 0 0 [] []
    else
      let '(v0, v1, ct) := server_send reg r rc in
      let setres := if setn r =? 0 then 0 else if set_valid reg r (setn r) then 1 else 2 in
      match rounds r with
      | [] => obs_of 0 1 setres rc 0 0 0 [] []     (* no message: no response headers needed *)
      | (l, _) :: _ =>
        match client_decoder reg r ct with
        | None => obs_of cInternal 1 setres rc ct 1 0 [flag_of (client_codec r) l] []
        | Some d =>
          let '(code, dq, dr, qs, fs) :=
              play (client_codec r) (server_codec reg r rc) ct d (rounds r) in
          obs_of code 1 setres rc ct dq dr qs fs
        end
      end
  end.

(* ---- cases ----
   cfg []   (the registry of the driver is fixed: gzip = 2, x-va = 3, x-vb = 4; 5 = "x-unreg"
            exists only as legacy objects / as a name)
   op [1; use; wc; wd; accmask; scp; sdc; setn; n; l1; m1; ...; ln; mn]         (mode 0)
   op [2; mode; use; wc; wd; accmask; scp; sdc; setn; n; l1; m1; ...; ln; mn]
      accmask 0 = AcceptCompressors absent, else bit 1 gzip, bit 2 x-va, bit 4 x-vb *)
Definition reg0 (n : Z) : bool := (n =? 2) || (n =? 3) || (n =? 4).

Definition mask_has (m n : Z) : bool :=
  if n =? 2 then Z.testbit m 0 else if n =? 3 then Z.testbit m 1
  else if n =? 4 then Z.testbit m 2 else false.

Fixpoint pairs (w : list Z) : option (list (Z * Z)) :=
  match w with
  | [] => Some []
  | l :: m :: r => match pairs r with Some ps => Some ((l, m) :: ps) | None => None end
  | _ => None
  end.

Definition parse_body (md : Z) (w : word) : option rpc :=
  match w with
  | u :: c :: d :: am :: sc :: sd :: sn :: n :: r =>
    match pairs r with
    | Some ps =>
      if (Z.of_nat (length ps) =? n) && (1 <=? n) && (0 <=? am) && (am <=? 7) &&
         negb (c =? 1) && negb (sc =? 1)   (* no legacy Compressor whose Type() is "identity" *)
      then Some (mkRpc u c d (if am =? 0 then None else Some (mask_has am)) sc sd sn ps md)
      else None
    | None => None
    end
  | _ => None
  end.

Definition parse_op (w : word) : option rpc :=
  match w with
  | 1 :: b => parse_body 0 b
  | 2 :: md :: b =>
    if (0 <=? md) && (md <=? 4) then
      match parse_body md b with
      | Some r => if (md =? 4) && negb (Z.of_nat (length (rounds r)) =? 1) then None else Some r
      | None => None
      end
    else None
  | _ => None
  end.

Fixpoint run (ops : list word) : option (list word) :=
  match ops with
  | [] => Some []
  | w :: k => match parse_op w, run k with
              | Some r, Some os => Some (run_rpc reg0 r :: os)
              | _, _ => None
              end
  end.

(* ---- the property on observations ----
   1  requests: flag = 1 <-> the request's grpc-encoding is non-identity and the message is
      non-empty
   2  responses: the same with the response's grpc-encoding (outside the class of clause 8)
   3  the response's grpc-encoding is absent/identity, advertised by the client, or the
      client's own grpc-encoding (outside clause 9)
   4  SetSendCompressor succeeds <-> identity or (registered and advertised)
   5  every message counted as delivered arrived intact, and the counts are consistent
   6  unsupported encoding: server -> UNIMPLEMENTED without running the handler; client ->
      INTERNAL, the message is not delivered
   7  (statement deviation, finding class) an empty message under a non-identity
      grpc-encoding carries flag 1  -- the code sends it uncompressed, flag 0
   8  legacy RPCCompressor + SetSendCompressor("identity"): the response header says identity
      and no response message is compressed (flag 0) -- the handler's choice overrides the
      legacy compressor (repaired defect, /repo commit 6f92b96; kept as its own clause so
      that a regression is reported under this id)
   9  (statement deviation, finding class) legacy RPCCompressor: the server compresses with
      it although the client neither advertised nor used it
   10 (finding class) the handler sends PreparedMsg after a SetSendCompressor that changed the
      send compressor: the flag rule of clause 2 and the completion rule of clause 11 for
      that RPC (false when Encode still used the compressor of stream creation)
   11 the RPC completes with OK and every response delivered unless the client named an
      unregistered compressor, the request encoding is unsupported, AcceptCompressors
      forbids the response encoding, or a flagged response cannot be decoded *)
Fixpoint flag_rows (cl : Z) (enc : Z) (lens flags : list Z) (i : Z) : list (Z * Z * bool) :=
  match lens, flags with
  | l :: ls, f :: fs =>
    (cl, i, f =? (if negb (plain enc) && negb (l =? 0) then 1 else 0))
    :: (if negb (plain enc) && (l =? 0) then [(7, i, f =? 1)] else [])
    ++ flag_rows cl enc ls fs (i + 1)
  | _, _ => []
  end.

Definition rows_req (r : rpc) (reqEnc : Z) (qs : list Z) : list (Z * Z * bool) :=
  flag_rows 1 reqEnc (map fst (rounds r)) qs 0.

(* the class of clause 10: the handler sends PreparedMsg after a successful
   SetSendCompressor that changed the stream's send compressor *)
Definition f10 (reg : Z -> bool) (r : rpc) (reqEnc : Z) : bool :=
  prep_s r && negb (setn r =? 0) && set_valid reg r (setn r) &&
  negb (setn r =? snd (server_default reg r reqEnc)).

Definition rows_resp (reg : Z -> bool) (r : rpc) (reqEnc respEnc : Z) (fs : list Z)
  : list (Z * Z * bool) :=
  if f10 reg r reqEnc then flag_rows 10 respEnc (map snd (rounds r)) fs 0
  else if negb (scp r =? 0) && (setn r =? 1) && plain respEnc
  then map (fun f => (8, 0, f =? 0)) fs
  else flag_rows 2 respEnc (map snd (rounds r)) fs 0.

(* the RPC completes (status OK, every response delivered) unless there is a reason the
   property names: unregistered UseCompressor, unsupported request encoding, response
   encoding not allowed by AcceptCompressors, or a flagged response the client cannot decode *)
Definition rows_done (reg : Z -> bool) (r : rpc) (code reqEnc respEnc dr : Z) (fs : list Z)
  : list (Z * Z * bool) :=
  let reason :=
    match client_send reg r with None => true | Some _ => false end ||
    negb (server_accepts reg r reqEnc) ||
    match client_decoder reg r respEnc with
    | None => true
    | Some d => existsb (fun f => f =? 1) fs && (plain respEnc || (d =? 0))
    end in
  [((if f10 reg r reqEnc then 10 else 11), 0,
    reason || ((code =? 0) && (dr =? Z.of_nat (length (rounds r)))))].

Definition rows_choice (reg : Z -> bool) (r : rpc) (reqEnc respEnc : Z) : list (Z * Z * bool) :=
  [((if negb (scp r =? 0) && (respEnc =? scp r) then 9 else 3), 0,
    plain respEnc || adv reg r respEnc || (respEnc =? reqEnc))].

Definition rows_set (reg : Z -> bool) (r : rpc) (reached setres : Z) : list (Z * Z * bool) :=
  if (reached =? 1) && negb (setn r =? 0)
  then [(4, 0, Bool.eqb (setres =? 1) (set_valid reg r (setn r)) &&
               ((setres =? 1) || (setres =? 2)))]
  else [(4, 0, setres =? 0)].

Definition rows_count (r : rpc) (code dq dr nq nr : Z) : list (Z * Z * bool) :=
  [(5, 0, (0 <=? dr) && (dr <=? dq) && (dq <=? nq) && (dr <=? nr) && (nr <=? nq) &&
          (nq <=? Z.of_nat (length (rounds r))) &&
          ((code =? 0) || (dr <? Z.of_nat (length (rounds r)))))].

Definition rows_unsupp (reg : Z -> bool) (r : rpc) (code reached reqEnc respEnc dq dr : Z)
           (fs : list Z) : list (Z * Z * bool) :=
  [(6, 0,
    (* server side *)
    (if negb (plain reqEnc) && negb (reg reqEnc) && negb (sdc r =? reqEnc)
     then (code =? cUnimplemented) && (reached =? 0) && (dq =? 0) else true) &&
    (* client side: a flagged message under an encoding the client cannot decode *)
    (if existsb (fun f => f =? 1) fs &&
        (plain respEnc || (negb (reg respEnc) && negb (wd r =? respEnc)))
     then (code =? cInternal) && (dr <? Z.of_nat (length fs)) else true))].

Definition clause_rows (reg : Z -> bool) (r : rpc) (code reached setres reqEnc respEnc dq dr : Z)
           (qs fs : list Z) : list (Z * Z * bool) :=
  rows_req r reqEnc qs ++ rows_resp reg r reqEnc respEnc fs ++ rows_choice reg r reqEnc respEnc ++
  rows_set reg r reached setres ++
  rows_count r code dq dr (Z.of_nat (length qs)) (Z.of_nat (length fs)) ++
  rows_unsupp reg r code reached reqEnc respEnc dq dr fs ++
  rows_done reg r code reqEnc respEnc dr fs.

Definition clause_rpc (reg : Z -> bool) (r : rpc) (o : word) : list (Z * Z * bool) :=
  match o with
  | code :: reached :: setres :: reqEnc :: respEnc :: dq :: dr :: rest =>
    match get_bytes rest with
    | Some (qs, rest') =>
      match get_bytes rest' with
      | Some (fs, []) => clause_rows reg r code reached setres reqEnc respEnc dq dr qs fs
      | _ => [(0, 0, false)]
      end
    | None => [(0, 0, false)]
    end
  | _ => [(0, 0, false)]
  end.

Fixpoint clauses (ops obs : list word) : list (Z * Z * bool) :=
  match ops, obs with
  | w :: k, o :: k' =>
    match parse_op w with
    | Some r => clause_rpc reg0 r o
    | None => []
    end ++ clauses k k'
  | [], [] => []
  | _, _ => [(0, 0, false)]
  end.

Definition is_finding_clause (c : Z * Z * bool) : bool :=
  (fst (fst c) =? 7) || (fst (fst c) =? 9) || (fst (fst c) =? 10).
Definition holds_b (ops obs : list word) : bool :=
  forallb (fun c => is_finding_clause c || snd c) (clauses ops obs).

Definition op_wf (w : word) : bool := match parse_op w with Some _ => true | None => false end.

Definition check_case (c : case) : verdict :=
  let cl := clauses (c_ops c) (c_obs c) in
  let m := run (c_ops c) in
  match decide m (c_obs c) (filter (fun x => negb (is_finding_clause x)) cl) with
  | Agree => decide m (c_obs c) (filter is_finding_clause cl)
  | v => v
  end.
