(* C30: connectivity state reporting.
   Part A transcribes connectivityStateManager (clientconn.go: updateState / getState /
   getNotifyChan, each one critical section of csm.mu) and ClientConn.WaitForStateChange
   (getNotifyChan; getState; select) as a per-watcher program with one step per critical
   section.
   Part B transcribes the addrConn state machine at the level of its state updates
   (connect / resetTransportAndUnlock / createTransport success and failure / the onClose
   callback of the transport (connection lost, or GOAWAY received) / the back-off wait /
   resetConnectBackoff / updateAddrs / tearDown / startHealthCheck and its
   setConnectivityState closure), every
   update going through addrConn.updateConnectivityState (no-op when the state is unchanged)
   into acBalancerWrapper.updateState = a FIFO (the balancer wrapper's CallbackSerializer,
   C31) drained by ADeliver; the callback drops the update when the serializer context is
   cancelled (ccBalancerWrapper closed).  Dial mechanics are abstracted to the outcome of
   the dial (op ADial).  Each op is one critical section of ac.mu plus the goroutine-local
   code up to the next blocking point (dial, back-off select, health stream receive).
   States: 0 IDLE, 1 CONNECTING, 2 READY, 3 TRANSIENT_FAILURE, 4 SHUTDOWN.
   updateAddrs is modelled for single-address lists that are either the current list (no-op)
   or a never-used address (so a READY sub-channel is "connected to the wrong address").
   Client-side health checking (gRFC A17, the addrConn-level mechanism: service config
   healthCheckConfig + NewSubConnOptions.HealthCheckEnabled + internal.HealthCheckFunc):
   createTransport's success does not report READY; startHealthCheck starts the health
   checker, whose protocol loop (health/client.go clientHealthCheck) is transcribed as hph /
   hmsg: it reports CONNECTING when it opens a Watch stream, READY on SERVING, TF on any
   other status, READY and stops on Unimplemented, TF on any other stream error and then
   retries (at once if a message had been received on the stream, else after its own
   back-off); every report goes through setConnectivityState, which is dropped once
   ac.transport is no longer the transport the checker was started for.
   Not modelled: several addresses per sub-channel, the "transport created but already
   closed" branch of createTransport (hctx.Err() != nil => IDLE), the health producer
   (SubConn.RegisterHealthListener), which leaves ac.state alone.  No proofs in this file. *)
From Coq Require Import List ZArith Bool.
From VLib Require Import Codec.
Import ListNotations.
Open Scope Z_scope.

(* ================= Part A: connectivityStateManager ================= *)
(* nch = csm.notifyChan (None = nil); channels are numbered; closedch = channels closed so far *)
Record csm := mkcsm { cst : Z; nch : option Z; nextch : Z; closedch : list Z }.
Definition csm0 : csm := mkcsm 0 None 0 [].

Definition mem (c : Z) (l : list Z) : bool := existsb (Z.eqb c) l.

Definition csm_update (m : csm) (s : Z) : csm :=
  if cst m =? 4 then m else
  if cst m =? s then m else
  match nch m with
  | Some c => mkcsm s None (nextch m) (c :: closedch m)
  | None => mkcsm s None (nextch m) (closedch m)
  end.

Definition csm_notify (m : csm) : csm * Z :=
  match nch m with
  | Some c => (m, c)
  | None => (mkcsm (cst m) (Some (nextch m)) (nextch m + 1) (closedch m), nextch m)
  end.

(* watcher: ph 0 not started, 1 holds channel wch (between getNotifyChan and getState),
   2 blocked in the select, 3 returned true, 4 returned false; wsrc = sourceState;
   wcan = its context is cancelled.
   Ghost: wdiff = the state differed from wsrc at the call (first critical section) or at
   some later time. *)
Record watcher := mkw { ph : Z; wsrc : Z; wch : Z; wcan : bool; wdiff : bool }.
Definition w0 : watcher := mkw 0 0 0 false false.

Record stA := mkA { cm : csm; ws : list watcher }.

Inductive aop := AUpdate (s : Z) | AGet | AW1 (w s : Z) | AW2 (w : Z) | ACancel (w : Z) | ANop.

Fixpoint upd {A} (l : list A) (n : nat) (x : A) : list A :=
  match l, n with
  | [], _ => []
  | _ :: r, O => x :: r
  | y :: r, S n' => y :: upd r n' x
  end.
Definition getw (a : stA) (w : Z) : option watcher :=
  if w <? 0 then None else nth_error (ws a) (Z.to_nat w).

(* after an update: blocked watchers whose channel is closed return true; ghost bookkeeping *)
Definition wake1 (m : csm) (x : watcher) : watcher :=
  let d := wdiff x || ((0 <? ph x) && (ph x <? 3) && negb (cst m =? wsrc x)) in
  if (ph x =? 2) && mem (wch x) (closedch m) then mkw 3 (wsrc x) (wch x) (wcan x) d
  else mkw (ph x) (wsrc x) (wch x) (wcan x) d.

Definition astep (a : stA) (o : aop) : stA :=
  match o with
  | AUpdate s => let m := csm_update (cm a) s in mkA m (map (wake1 m) (ws a))
  | AGet => a
  | AW1 w s =>
    match getw a w with
    | Some x => if ph x =? 0 then
                  let '(m, c) := csm_notify (cm a) in
                  mkA m (upd (ws a) (Z.to_nat w) (mkw 1 s c (wcan x) (negb (cst m =? s))))
                else a
    | None => a
    end
  | AW2 w =>
    match getw a w with
    | Some x => if ph x =? 1 then
                  let r := if negb (cst (cm a) =? wsrc x) then 3          (* getState() != sourceState *)
                           else if mem (wch x) (closedch (cm a)) then 3   (* case <-ch *)
                           else if wcan x then 4                          (* case <-ctx.Done() *)
                           else 2 in
                  mkA (cm a) (upd (ws a) (Z.to_nat w) (mkw r (wsrc x) (wch x) (wcan x) (wdiff x)))
                else a
    | None => a
    end
  | ACancel w =>
    match getw a w with
    | Some x => if wcan x then a else
                mkA (cm a) (upd (ws a) (Z.to_nat w)
                             (mkw (if ph x =? 2 then 4 else ph x) (wsrc x) (wch x) true (wdiff x)))
    | None => a
    end
  | ANop => a
  end.

Fixpoint arun (a : stA) (l : list aop) : stA :=
  match l with [] => a | o :: r => arun (astep a o) r end.

(* ================= Part B: addrConn ================= *)
(* ast = ac.state; phase: 0 no connect goroutine, 1 parked in the dial, 2 parked in the
   back-off select; tr = ac.transport != nil; q = updates scheduled on the serializer and not
   yet run; lbopen = serializer context live; dl = updates delivered to the LB policy's
   StateListener (ghost: hist = every update ever emitted); chs = channel state manager fed
   by the LB policy, which republishes every sub-channel state except SHUTDOWN.
   hcf = client-side health checking is configured for this sub-channel (constant);
   hph = the health checker goroutine of the current transport: 0 none (never started,
   returned, or its context is cancelled), 1 blocked in RecvMsg on an open Watch stream,
   2 blocked in its retry back-off; hmsg = a response was received on the current stream
   (clientHealthCheck's tryCnt is 0). *)
Record stB := mkB { ast : Z; phase : Z; tr : bool; q : list Z; lbopen : bool; dl : list Z;
                    hist : list Z; chs : Z; ccclosed : bool; hcf : bool; hph : Z; hmsg : bool }.
Definition stBi (h : bool) : stB := mkB 0 0 false [] true [] [] 1 false h 0 false.
Definition stB0 : stB := stBi false.

(* BHealth k: the health stream delivers 1 SERVING, 0 any other status, 2 an error other than
   Unimplemented, 3 Unimplemented.  BServerClose g: onClose of the current transport, g = it
   is a GOAWAY (graceful) rather than a lost connection. *)
Inductive bop := BConnect | BDial (ok : bool) | BServerClose (g : bool) | BTimer | BDialLost | BShutdown | BClose | BReset
               | BUpdAddrs (fresh : bool) | BHealth (k : Z) | BHBackoff | BDeliver | BNop.

(* addrConn.updateConnectivityState *)
Definition emit (b : stB) (s : Z) : stB :=
  if ast b =? s then b else
  mkB s (phase b) (tr b) (q b ++ [s]) (lbopen b) (dl b) (hist b ++ [s]) (chs b) (ccclosed b)
      (hcf b) (hph b) (hmsg b).
Definition set_phase (b : stB) (ph : Z) : stB :=
  mkB (ast b) ph (tr b) (q b) (lbopen b) (dl b) (hist b) (chs b) (ccclosed b) (hcf b) (hph b) (hmsg b).
Definition set_tr (b : stB) (t : bool) : stB :=
  mkB (ast b) (phase b) t (q b) (lbopen b) (dl b) (hist b) (chs b) (ccclosed b) (hcf b) (hph b) (hmsg b).
Definition set_h (b : stB) (hp : Z) (hm : bool) : stB :=
  mkB (ast b) (phase b) (tr b) (q b) (lbopen b) (dl b) (hist b) (chs b) (ccclosed b) (hcf b) hp hm.
(* the health checker's context (hctx) is cancelled: it makes one more report, which
   setConnectivityState drops (ac.transport != currentTr), and returns *)
Definition kill_h (b : stB) : stB := set_h b 0 false.

(* tearDown: Shutdown first, then cancel (which ends a parked connect goroutine) *)
Definition teardown (b : stB) : stB :=
  if ast b =? 4 then b else set_phase (emit (set_tr (kill_h b) false) 4) 0.

Definition ch_update (c s : Z) : Z := if c =? 4 then c else s.

Definition bstep (b : stB) (o : bop) : stB :=
  match o with
  | BConnect =>            (* connect(): only from IDLE; CONNECTING, then the dial *)
    if (ast b =? 0) && (phase b =? 0) then set_phase (emit b 1) 1 else b
  | BDial ok =>
    if phase b =? 1 then
      if ok then                                 (* ac.transport = newTr; startHealthCheck: *)
        if hcf b then                            (* the checker manages the state: it reports *)
          set_phase (set_h (set_tr b true) 1 false) 0   (* CONNECTING (no change), opens its stream *)
        else set_phase (emit (set_tr b true) 2) 0       (* no health checking => READY *)
      else                                       (* TRANSIENT_FAILURE, then wait for the back-off *)
        set_phase (emit b 3) 2
    else b
  | BServerClose _ =>      (* onClose of the current transport (connection lost / GOAWAY): hcancel, *)
    if tr b && negb (ast b =? 4) then emit (set_tr (kill_h b) false) 0 else b   (* transport = nil, IDLE *)
  | BTimer =>              (* back-off timer fired *)
    if phase b =? 2 then set_phase (emit b 0) 0 else b
  | BDialLost =>           (* the connection is established and lost again (GOAWAY / drop) before
                              createTransport re-acquires ac.mu: onClose ran with ac.transport == nil and
                              only cancelled hctx; createTransport sees hctx.Err() != nil, does NOT install
                              the transport (no READY, no health checker) and reports IDLE; no back-off *)
    if phase b =? 1 then set_phase (emit b 0) 0 else b
  | BReset =>              (* resetConnectBackoff closes the resetBackoff channel *)
    if phase b =? 2 then set_phase (emit b 0) 0 else b
  | BShutdown => teardown b
  | BUpdAddrs fresh =>     (* addrConn.updateAddrs: same list => nothing.  A new address: *)
    if fresh then
      if (ast b =? 2) || (ast b =? 1) then
        (* READY, connected to an address no longer listed, or CONNECTING (dialing, or the health
           checker of a fresh transport says so): cancel ac.ctx, drop the transport, go
           resetTransportAndUnlock: CONNECTING, one dial parked *)
        set_phase (emit (set_tr (kill_h b) false) 1) 1
      else b               (* SHUTDOWN / TRANSIENT_FAILURE / IDLE: only ac.addrs changes ("we were not
                              connecting"), also when the TRANSIENT_FAILURE is the health checker's *)
    else b
  | BHealth k =>           (* the Watch stream yields a response / ends; setConnectivityState *)
    if hph b =? 1 then
      if k =? 1 then emit (set_h b 1 true) 2                 (* SERVING *)
      else if k =? 0 then emit (set_h b 1 true) 3            (* NOT_SERVING, UNKNOWN, SERVICE_UNKNOWN *)
      else if k =? 3 then emit (set_h b 0 false) 2           (* Unimplemented: READY, checker returns *)
      else if k =? 2 then                                    (* other error: TRANSIENT_FAILURE, retry: *)
        let b1 := emit b 3 in
        if hmsg b then emit (set_h b1 1 false) 1             (* at once: CONNECTING, new stream *)
        else set_h b1 2 false                                (* after the checker's back-off *)
      else b
    else b
  | BHBackoff =>           (* the checker's retry back-off ends: CONNECTING, new stream *)
    if hph b =? 2 then emit (set_h b 1 false) 1 else b
  | BClose =>              (* ClientConn.Close: csMgr SHUTDOWN, balancer wrapper closed, conns torn down *)
    if ccclosed b then b else
    let b1 := teardown b in
    mkB (ast b1) (phase b1) (tr b1) (q b1) false (dl b1) (hist b1) 4 true (hcf b1) (hph b1) (hmsg b1)
  | BDeliver =>            (* the serializer runs the oldest callback *)
    match q b with
    | [] => b
    | s :: r =>
      if lbopen b then
        mkB (ast b) (phase b) (tr b) r (lbopen b) (dl b ++ [s]) (hist b)
            (if s =? 4 then chs b else ch_update (chs b) s) (ccclosed b) (hcf b) (hph b) (hmsg b)
      else mkB (ast b) (phase b) (tr b) r (lbopen b) (dl b) (hist b) (chs b) (ccclosed b)
               (hcf b) (hph b) (hmsg b)
    end
  | BNop => b
  end.

Fixpoint brun (b : stB) (l : list bop) : stB :=
  match l with [] => b | o :: r => brun (bstep b o) r end.

Fixpoint drain (fuel : nat) (b : stB) : stB :=
  match fuel with
  | O => b
  | S f => match q b with [] => b | _ => drain f (bstep b BDeliver) end
  end.

(* ================= wire format ================= *)
(* cfg [0; nw]  part A driven directly on a connectivityStateManager with nw watchers
     [1;s] updateState(s)    [2] getState()    [3;w;s] go WaitForStateChange(ctx_w, s)
     [4;w] cancel ctx_w
     obs [state; phase of every watcher]     (a started watcher is observed blocked (2),
                                              returned true (3) or false (4))
   cfg [1]      part B: one sub-channel of a real ClientConn
     [1] SubConn.Connect  [2;ok] the pending dial succeeds / fails  [3] the server closes the
     connection  [4] the back-off time passes  [5] SubConn.Shutdown  [6] ClientConn.Close
     [7] ResetConnectBackoff  [8;same] SubConn.UpdateAddresses(the current list if same<>0, else
     one address never used before)  [9] SubConn.Shutdown scheduled so that, when the
     sub-channel is backing off, the back-off ends (resetBackoff closed) while tearDown is
     already waiting for ac.mu: tearDown runs first and the connect goroutine's re-check of
     its context must keep it from reporting IDLE after SHUTDOWN - same model step as [5]
     [12] the server sends GOAWAY on the connection (graceful close)
     obs [n; the n states delivered to the LB policy during the op; ac.state; channel state;
          health checker phase]
   cfg [1;h]    as [1]; h=1: client-side health checking is on for the sub-channel (service
                config healthCheckConfig, NewSubConnOptions.HealthCheckEnabled, a health check
                function installed in internal.HealthCheckFunc), further ops:
     [10;k] the Watch stream of the health checker yields k: 1 SERVING, 0 NOT_SERVING,
     2 an error other than Unimplemented, 3 Unimplemented   [11] the checker's retry back-off ends
     health checker phase in obs: 0 not running, 1 waiting on its stream, 2 in its back-off *)
Definition decA (op : word) : list aop :=
  match op with
  | [1; s] => if (0 <=? s) && (s <=? 4) then [AUpdate s] else []
  | [2] => [AGet]
  | [3; w; s] => if (0 <=? s) && (s <=? 4) then [AW1 w s; AW2 w] else []
  | [4; w] => [ACancel w]
  | _ => []
  end.
Definition decB (op : word) : bop :=
  match op with
  | [1] => BConnect
  | [2; ok] => if ok =? 2 then BDialLost else BDial (negb (ok =? 0))
  | [3] => BServerClose false
  | [4] => BTimer
  | [5] => BShutdown
  | [6] => BClose
  | [7] => BReset
  | [8; same] => BUpdAddrs (same =? 0)
  | [9] => BShutdown
  | [10; k] => if (0 <=? k) && (k <=? 3) then BHealth k else BNop
  | [11] => BHBackoff
  | [12] => BServerClose true
  | _ => BNop
  end.

Definition obsA (a : stA) : word := cst (cm a) :: map ph (ws a).
Fixpoint execA (a : stA) (ops : list word) : list word :=
  match ops with
  | [] => []
  | op :: r => let a1 := arun a (decA op) in obsA a1 :: execA a1 r
  end.

Definition stepB (b : stB) (op : word) : stB :=
  let b1 := bstep b (decB op) in drain (S (length (q b1))) b1.
Definition obsB (b0 b1 : stB) : word :=
  let d := skipn (length (dl b0)) (dl b1) in
  Z.of_nat (length d) :: d ++ [ast b1; chs b1; hph b1].
Fixpoint execB (b : stB) (ops : list word) : list word :=
  match ops with
  | [] => []
  | op :: r => let b1 := stepB b op in obsB b b1 :: execB b1 r
  end.

Definition run (cfg : word) (ops : list word) : option (list word) :=
  match cfg with
  | [0; n] => if (0 <=? n) && (n <=? 6) then Some (execA (mkA csm0 (repeat w0 (Z.to_nat n))) ops) else None
  | [1] => Some (execB stB0 ops)
  | [1; h] => if (h =? 0) || (h =? 1) then Some (execB (stBi (h =? 1)) ops) else None
  | _ => None
  end.

(* ================= the property on observed traces ================= *)
(* allowed sub-channel transitions named by the statement *)
Definition allowed (o n : Z) : bool :=
  negb (o =? 4) && negb (o =? n) && (if n =? 2 then o =? 1 else true) &&
  (if o =? 3 then (n =? 0) || (n =? 4) else true).

Fixpoint chain_ok (o : Z) (l : list Z) : bool :=
  match l with [] => true | n :: r => allowed o n && chain_ok n r end.

(* part A, per op, relative to the model state a before the op (the walk stops at the first
   difference between model and implementation, as in Picker.v):
   1 nothing leaves SHUTDOWN; the reported state is the last published one
   2 a watcher that was blocked is released (true) exactly when the state changed, and returns
     false only in an op that cancels a context; a watcher started by this op returns true at
     once iff the state differs from its source state, false only if its context was already
     cancelled; nothing else changes *)
Definition lastpub (c : Z) (op : word) : Z :=
  match op with
  | [1; s] => if (0 <=? s) && (s <=? 4) && negb (c =? 4) then s else c
  | _ => c
  end.
Fixpoint all2 (f : watcher -> Z -> bool) (l : list watcher) (o : word) : bool :=
  match l, o with
  | x :: r, p' :: r' => f x p' && all2 f r r'
  | [], [] => true
  | _, _ => false
  end.
Definition watch1 (c c' : Z) (op : word) (x : watcher) (p' : Z) : bool :=
  if ph x =? 2 then
    (if negb (c =? c') then p' =? 3
     else (p' =? 2) || (match op with [4; _] => p' =? 4 | _ => false end))
  else if ph x =? 0 then
    (p' =? 0) || (match op with
                  | [3; _; s] => (0 <=? s) && (s <=? 4) &&
                                 (if negb (c' =? s) then p' =? 3 else (p' =? 2) || (wcan x && (p' =? 4)))
                  | _ => false
                  end)
  else if ph x =? 1 then true   (* between its two critical sections: never at an op boundary *)
  else p' =? ph x.
Definition watch_ok (c c' : Z) (op : word) (l : list watcher) (o : word) : bool := all2 (watch1 c c' op) l o.
Definition clausesA_op (a : stA) (op o : word) : list (Z * Z * bool) :=
  match o with
  | c' :: pw => [(1, c', c' =? lastpub (cst (cm a)) op); (2, 0, watch_ok (cst (cm a)) c' op (ws a) pw)]
  | [] => [(0, 0, false)]
  end.

(* What client-side health checking adds to the transitions the statement names (gRFC A17):
   while the health checker manages the state of a connected sub-channel (f), TRANSIENT_FAILURE
   is also left to READY (the server reports SERVING again / Unimplemented) and to CONNECTING
   (the checker retries its stream) *)
Definition allowedR (f : bool) (o n : Z) : bool :=
  allowed o n || (f && (o =? 3) && ((n =? 2) || (n =? 1))).
Fixpoint chain_okR (f : bool) (o : Z) (l : list Z) : bool :=
  match l with [] => true | n :: r => allowedR f o n && chain_okR f n r end.

(* IDLE straight after TRANSIENT_FAILURE is delivered only in an op that ends the back-off;
   f: or in an op that takes the connection away from a sub-channel whose health checker
   had reported TRANSIENT_FAILURE *)
Definition idle_rule (f : bool) (prev : Z) (d : list Z) (o : bop) : bool :=
  if (prev =? 3) && (match d with 0 :: _ => true | _ => false end)
  then match o with BTimer | BReset => true | BServerClose _ => f | _ => false end else true.

(* the health checker manages the state: health checking configured and a transport present *)
Definition hmanaged (b : stB) : bool := hcf b && tr b.

(* part B, per op, relative to the model state b before the op:
   3 the states delivered to the LB policy continue the chain of allowed transitions from the
     last delivered one (hence nothing after SHUTDOWN, READY only after CONNECTING, TF only to
     IDLE or SHUTDOWN), and a delivery of IDLE after TRANSIENT_FAILURE happens only in an op
     that lets the back-off end (time passes / ResetConnectBackoff); when the health checker
     manages the state before the op, the relation is the one extended by gRFC A17
   4 none missed: after the op the last state delivered to the LB policy is the sub-channel's
     current state (while the balancer wrapper is open); the channel reports SHUTDOWN after
     Close
   5 nothing leaves SHUTDOWN: once the sub-channel was SHUTDOWN before the op, or SHUTDOWN is
     delivered during it, ac.state after the op is SHUTDOWN
   (client-side health checking is not among the event kinds C30 ranges over; the gRFC A17
   transitions of a health-managed sub-channel - TRANSIENT_FAILURE -> READY / CONNECTING, or
   -> IDLE on losing its connection - are in the model, compared by correspondence, and
   accepted by clause 3 through the extended relation; there is no separate literal clause) *)
Definition last_or (d : Z) (l : list Z) : Z := last l d.
Definition clausesB_op (b : stB) (op o : word) : list (Z * Z * bool) :=
  match o with
  | n :: r =>
    if n <? 0 then [(0, 0, false)] else
    match take_n (Z.to_nat n) r with
    | Some (d, [a'; c'; _]) =>
      let prev := last_or 0 (dl b) in
      let f := hmanaged b in
      [(3, n, chain_okR f prev d && idle_rule f prev d (decB op));
       (4, a', (if lbopen b && negb (match decB op with BClose => negb (ccclosed b) | _ => false end)
                then last_or prev d =? a' else true) &&
               (if ccclosed (bstep b (decB op)) then c' =? 4 else true));
       (5, a', if (ast b =? 4) || mem 4 d then a' =? 4 else true);
       (6, n, match decB op with BDialLost => negb (mem 2 d) | _ => true end)]
    | _ => [(0, 0, false)]
    end
  | [] => [(0, 0, false)]
  end.

Fixpoint walkA (a : stA) (ops obs : list word) : list (Z * Z * bool) :=
  match ops, obs with
  | op :: r, o :: r' =>
    let a1 := arun a (decA op) in
    clausesA_op a op o ++ (if word_eqb (obsA a1) o then walkA a1 r r' else [])
  | [], [] => []
  | _, _ => [(0, 0, false)]
  end.
Fixpoint walkB (b : stB) (ops obs : list word) : list (Z * Z * bool) :=
  match ops, obs with
  | op :: r, o :: r' =>
    let b1 := stepB b op in
    clausesB_op b op o ++ (if word_eqb (obsB b b1) o then walkB b1 r r' else [])
  | [], [] => []
  | _, _ => [(0, 0, false)]
  end.

Definition clauses (cfg : word) (ops obs : list word) : list (Z * Z * bool) :=
  match cfg with
  | [0; n] => if (0 <=? n) && (n <=? 6) then walkA (mkA csm0 (repeat w0 (Z.to_nat n))) ops obs else [(0, 0, false)]
  | [1] => walkB stB0 ops obs
  | [1; h] => if (h =? 0) || (h =? 1) then walkB (stBi (h =? 1)) ops obs else [(0, 0, false)]
  | _ => [(0, 0, false)]
  end.
Definition holds_b (cfg : word) (ops obs : list word) : bool :=
  forallb (fun c => snd c) (clauses cfg ops obs).

Definition check_case (c : case) : verdict :=
  decide (run (c_cfg c) (c_ops c)) (c_obs c) (clauses (c_cfg c) (c_ops c) (c_obs c)).
