(* C34: pick_first (balancer/pickfirst/pickfirst.go).
   An address is a code fam*1000+n (fam 0 unknown / 1 IPv4 / 2 IPv6).
   Transcribed function by function: deDupAddresses, interleaveAddresses, addressList,
   UpdateClientConnState, resolverErrorLocked, ExitIdle, startFirstPassLocked,
   closeSubConnsLocked, reconcileSubConnsLocked, shutdownRemainingLocked,
   requestConnectionLocked, scheduleNextConnectionLocked (+ the timer callback),
   updateSubConnState (all branches), endFirstPassIfPossibleLocked, isActiveSCData,
   updateBalancerState / forceUpdateConcludedStateLocked.
   Not modelled: health listener (healthCheckingEnabled = false), shuffling, Endpoints
   input, lastErr (error values), Close (only at the end of a history).
   Sub-channels are numbered in creation order; b.subConns is the list of the numbers of
   the active scData in increasing order (map iteration order is normalised by sorting).
   No proofs here. *)
From Coq Require Import List ZArith Bool Arith.
From VLib Require Import Codec.
Import ListNotations.
Open Scope Z_scope.

Definition IDLE : Z := 0.
Definition CONNECTING : Z := 1.
Definition READY : Z := 2.
Definition TF : Z := 3.

(* ---------- address pre-processing ---------- *)

Definition memz (x : Z) (l : list Z) : bool := existsb (Z.eqb x) l.

(* deDupAddresses: keep the first occurrence *)
Fixpoint dedup_acc (seen l : list Z) : list Z :=
  match l with
  | [] => []
  | a :: r => if memz a seen then dedup_acc seen r else a :: dedup_acc (a :: seen) r
  end.
Definition dedup (l : list Z) : list Z := dedup_acc [] l.

Definition fam (a : Z) : Z := a / 1000.

(* interleaveAddresses: families in order of first appearance, one queue per family,
   round robin over the families taking the head of every non-empty queue *)
Definition heads (qs : list (list Z)) : list Z :=
  flat_map (fun q => match q with [] => [] | a :: _ => [a] end) qs.
Definition tails (qs : list (list Z)) : list (list Z) := map (@tl Z) qs.
Fixpoint rr (fuel : nat) (qs : list (list Z)) : list Z :=
  match fuel with
  | O => []
  | S f => heads qs ++ rr f (tails qs)
  end.
Definition fam_queues (l : list Z) : list (list Z) :=
  map (fun f => filter (fun a => fam a =? f) l) (dedup (map fam l)).
Definition interleave (l : list Z) : list Z := rr (length l) (fam_queues l).

Definition preprocess (l : list Z) : list Z := interleave (dedup l).

(* ---------- the policy ---------- *)

Definition SHUTDOWN : Z := 4.

(* scData (+ ghost: Shutdown() was called on the sub-channel) *)
Record sdr := mksd { d_addr : Z; d_raw : Z; d_eff : Z; d_failed : bool; d_shut : bool }.

Record st := mkst {
  bstate : Z;                 (* b.state *)
  subs : list nat;            (* b.subConns: numbers of the active scData, increasing *)
  sds : nat -> sdr;           (* every scData ever created (old listeners keep updating theirs) *)
  nsc : nat;                  (* sub-channels created so far *)
  addrs : list Z;             (* b.addressList.addresses *)
  idx : nat;                  (* b.addressList.idx *)
  firstPass : bool;
  numTF : Z;
  timer : bool;               (* a happy-eyeballs timer is scheduled and not cancelled *)
  sticky : bool;              (* ghost: TF was published by the end of a pass and nothing but TF has
                                 been published since, nor an empty address list received *)
  midstart : bool             (* ghost: the last startFirstPassLocked found the cursor not at the first
                                 address (before 5362b94: ExitIdle after the cursor moved while IDLE) *)
}.

Definition dummy_sd : sdr := mksd (-1) IDLE IDLE false false.
Definition init : st := mkst CONNECTING [] (fun _ => dummy_sd) O [] O false 0 false false false.

Definition zn (n : nat) : Z := Z.of_nat n.
Definition evU (s sc : Z) : word := [1; s; sc].
Definition evN (sc : nat) (a : Z) : word := [2; zn sc; a].
Definition evC (sc : nat) : word := [3; zn sc].
Definition evS (sc : nat) : word := [14; zn sc].

Definition valid_addr (a : Z) : bool := (0 <=? a) && (a <? 3000) && (a mod 1000 <? 256).

Definition set_bstate (s : st) (v : Z) (k : bool) : st :=
  mkst v (subs s) (sds s) (nsc s) (addrs s) (idx s) (firstPass s) (numTF s) (timer s) k (midstart s).
Definition set_subs (s : st) (l : list nat) : st :=
  mkst (bstate s) l (sds s) (nsc s) (addrs s) (idx s) (firstPass s) (numTF s) (timer s) (sticky s) (midstart s).
Definition set_sds (s : st) (f : nat -> sdr) (n : nat) : st :=
  mkst (bstate s) (subs s) f n (addrs s) (idx s) (firstPass s) (numTF s) (timer s) (sticky s) (midstart s).
Definition set_list (s : st) (l : list Z) (i : nat) : st :=
  mkst (bstate s) (subs s) (sds s) (nsc s) l i (firstPass s) (numTF s) (timer s) (sticky s) (midstart s).
Definition set_pass (s : st) (fp : bool) (n : Z) : st :=
  mkst (bstate s) (subs s) (sds s) (nsc s) (addrs s) (idx s) fp n (timer s) (sticky s) (midstart s).
Definition set_timer (s : st) (t : bool) : st :=
  mkst (bstate s) (subs s) (sds s) (nsc s) (addrs s) (idx s) (firstPass s) (numTF s) t (sticky s) (midstart s).
Definition set_sticky (s : st) (k : bool) : st :=
  mkst (bstate s) (subs s) (sds s) (nsc s) (addrs s) (idx s) (firstPass s) (numTF s) (timer s) k (midstart s).
Definition set_mid (s : st) (m : bool) : st :=
  mkst (bstate s) (subs s) (sds s) (nsc s) (addrs s) (idx s) (firstPass s) (numTF s) (timer s) (sticky s) m.

Definition fupd {A} (f : nat -> A) (n : nat) (g : A -> A) : nat -> A :=
  fun x => if Nat.eqb x n then g (f x) else f x.
Definition upd_sd (s : st) (sc : nat) (g : sdr -> sdr) : st := set_sds s (fupd (sds s) sc g) (nsc s).
Definition d_set_raw (v : Z) (d : sdr) := mksd (d_addr d) v (d_eff d) (d_failed d) (d_shut d).
Definition d_set_eff (v : Z) (d : sdr) := mksd (d_addr d) (d_raw d) v (d_failed d) (d_shut d).
Definition d_set_failed (b : bool) (d : sdr) := mksd (d_addr d) (d_raw d) (d_eff d) b (d_shut d).
Definition d_set_shut (d : sdr) := mksd (d_addr d) (d_raw d) (d_eff d) (d_failed d) true.

(* addressList *)
Definition al_valid (s : st) : bool := (idx s <? length (addrs s))%nat.
Definition cur_addr (s : st) : Z := if al_valid s then nth (idx s) (addrs s) (-1) else -1.
Definition al_has_next (s : st) : bool := al_valid s && (idx s + 1 <? length (addrs s))%nat.
(* increment: the new state and the result *)
Definition al_increment (s : st) : st * bool :=
  if al_valid s then
    let s1 := set_list s (addrs s) (S (idx s)) in (s1, al_valid s1)
  else (s, false).
Fixpoint index_of (a : Z) (l : list Z) : option nat :=
  match l with
  | [] => None
  | x :: r => if x =? a then Some O else match index_of a r with Some i => Some (S i) | None => None end
  end.
Definition al_seek (s : st) (a : Z) : st * bool :=
  match index_of a (addrs s) with
  | Some i => (set_list s (addrs s) i, true)
  | None => (s, false)
  end.

(* b.subConns.Get(addr) *)
Definition lookup (s : st) (a : Z) : option nat :=
  find (fun sc => d_addr (sds s sc) =? a) (subs s).
(* isActiveSCData *)
Definition is_active (s : st) (sc : nat) : bool :=
  match lookup s (d_addr (sds s sc)) with Some sc' => Nat.eqb sc' sc | None => false end.

Definition cancel_timer (s : st) : st := set_timer s false.

(* sc.Shutdown() for a list of sub-channels (increasing) *)
Definition shutdown_all (s : st) (l : list nat) : st * list word :=
  (set_sds s (fun x => if existsb (Nat.eqb x) l then d_set_shut (sds s x) else sds s x) (nsc s), map evS l).

(* forceUpdateConcludedStateLocked / updateBalancerState; pk = what the picker returns *)
Definition force_state (s : st) (v pk : Z) : st * list word :=
  (set_bstate s v (if v =? TF then sticky s else false), [evU v pk]).
Definition update_state (s : st) (v pk : Z) : st * list word :=
  if (v =? bstate s) && negb (bstate s =? TF) then (s, []) else force_state s v pk.

(* scheduleNextConnectionLocked *)
Definition schedule_next (s : st) : st :=
  let s1 := cancel_timer s in
  if al_has_next s1 then set_timer s1 true else s1.

(* endFirstPassIfPossibleLocked *)
Definition end_first_pass (s : st) : st * list word :=
  if al_valid s then (s, [])
  else if forallb (fun sc => d_failed (sds s sc)) (subs s) then
    let s1 := set_pass s false (numTF s) in
    let '(s2, e) := update_state s1 TF (-1) in
    (set_sticky s2 true, e ++ map evC (filter (fun sc => d_raw (sds s2 sc) =? IDLE) (subs s2)))
  else (s, []).

(* requestConnectionLocked: the loop, at most fuel iterations *)
Fixpoint req_loop (fuel : nat) (s : st) : st * list word :=
  match fuel with
  | O => (s, [])
  | S f =>
    let a := cur_addr s in
    let '(s1, e1, sc) :=
      match lookup s a with
      | Some sc => (s, [], sc)
      | None =>
        let sc := nsc s in
        (set_subs (set_sds s (fupd (sds s) sc (fun _ => mksd a IDLE IDLE false false)) (S sc)) (subs s ++ [sc]),
         [evN sc a], sc)
      end in
    let raw := d_raw (sds s1 sc) in
    if raw =? IDLE then (schedule_next s1, e1 ++ [evC sc])
    else if raw =? TF then
      let s2 := upd_sd s1 sc (d_set_failed true) in
      let '(s3, more) := al_increment s2 in
      if more then let '(s4, e4) := req_loop f s3 in (s4, e1 ++ e4)
      else let '(s4, e4) := end_first_pass s3 in (s4, e1 ++ e4)
    else if raw =? CONNECTING then (schedule_next s1, e1)
    else (s1, e1)
  end.
Definition request_connection (s : st) : st * list word :=
  if al_valid s then req_loop (S (length (addrs s))) s else (s, []).

(* startFirstPassLocked *)
Definition start_first_pass (s : st) : st * list word :=
  let s1 := set_mid (set_pass s true 0) (negb (Nat.eqb (idx s) O)) in
  let s2 := set_sds s1 (fun x => if existsb (Nat.eqb x) (subs s1) then d_set_failed false (sds s1 x) else sds s1 x) (nsc s1) in
  request_connection s2.

(* resolverErrorLocked *)
Definition resolver_error (s : st) : st * list word :=
  if negb (bstate s =? TF) && (0 <? length (addrs s))%nat then (s, [])
  else update_state s TF (-1).

(* shutdownRemainingLocked *)
Definition shutdown_remaining (s : st) (sc : nat) : st * list word :=
  let s1 := cancel_timer s in
  let '(s2, e) := shutdown_all s1 (filter (fun x => negb (Nat.eqb x sc)) (subs s1)) in
  (set_subs s2 [sc], e).

(* UpdateClientConnState; the last event is the result *)
Definition resolver_update (s : st) (l0 : list Z) : st * list word :=
  let l := filter valid_addr l0 in
  let s0 := cancel_timer s in
  match l with
  | [] =>
    let '(s1, e1) := shutdown_all s0 (subs s0) in
    let s2 := set_sticky (set_list (set_subs s1 []) [] O) false in
    let '(s3, e3) := resolver_error s2 in
    (s3, e1 ++ e3 ++ [[12; 1]])
  | _ =>
    let l' := preprocess l in
    let prev := cur_addr s0 in
    let prev_ready := match lookup s0 prev with
                      | Some sc => d_raw (sds s0 sc) =? READY
                      | None => false
                      end in
    let prev_count := length (addrs s0) in
    let s1 := set_list s0 l' O in
    let '(s1k, kept) := if prev_ready then al_seek s1 prev else (s1, false) in
    if kept then (s1k, [[12; 0]])
    else
      (* reconcileSubConnsLocked *)
      let gone := filter (fun sc => negb (memz (d_addr (sds s1 sc)) l')) (subs s1) in
      let '(s2, e2) := shutdown_all s1 gone in
      let s3 := set_subs s2 (filter (fun sc => memz (d_addr (sds s1 sc)) l') (subs s1)) in
      if prev_ready || (bstate s3 =? CONNECTING) || (prev_count =? 0)%nat then
        let '(s4, e4) := force_state s3 CONNECTING (-1) in
        let '(s5, e5) := start_first_pass s4 in
        (s5, e2 ++ e4 ++ e5 ++ [[12; 0]])
      else if bstate s3 =? TF then
        let '(s5, e5) := start_first_pass s3 in
        (s5, e2 ++ e5 ++ [[12; 0]])
      else (s3, e2 ++ [[12; 0]])
  end.

(* updateSubConnState for the scData of sub-channel sc (any sub-channel ever created) *)
Definition sc_state (s : st) (sc : nat) (v : Z) : st * list word :=
  let old := d_raw (sds s sc) in
  let s1 := upd_sd s sc (d_set_raw v) in
  if negb (is_active s1 sc) then (s1, [])
  else if v =? SHUTDOWN then (upd_sd s1 sc (d_set_eff SHUTDOWN), [])
  else
    let s2 := if v =? TF then upd_sd s1 sc (d_set_failed true) else s1 in
    if v =? READY then
      let '(s3, e3) := shutdown_remaining s2 sc in
      let '(s4, found) := al_seek s3 (d_addr (sds s3 sc)) in
      if negb found then (s4, e3)
      else
        let '(s5, e5) := update_state (upd_sd s4 sc (d_set_eff READY)) READY (zn sc) in
        (s5, e3 ++ e5)
    else if (old =? READY) || ((old =? CONNECTING) && (v =? IDLE)) then
      let '(s3, e3) := shutdown_remaining s2 sc in
      let s4 := set_list (upd_sd s3 sc (d_set_eff v)) (addrs s3) O in
      let '(s5, e5) := update_state s4 IDLE (-1) in
      (s5, e3 ++ e5)
    else if firstPass s2 then
      if v =? CONNECTING then
        if negb (d_eff (sds s2 sc) =? TF) then
          let s3 := upd_sd s2 sc (d_set_eff CONNECTING) in
          if negb (bstate s3 =? TF) then update_state s3 CONNECTING (-1) else (s3, [])
        else (s2, [])
      else if v =? TF then
        let s3 := upd_sd s2 sc (d_set_eff TF) in
        if cur_addr s3 =? d_addr (sds s3 sc) then
          let s4 := cancel_timer s3 in
          let '(s5, more) := al_increment s4 in
          if more then request_connection s5 else end_first_pass s5
        else end_first_pass s3
      else (s2, [])
    else if v =? TF then
      let n := Z.of_nat (length (subs s2)) in
      let s3 := set_pass s2 (firstPass s2) ((numTF s2 + 1) mod n) in
      if (numTF s3 mod n) =? 0 then update_state s3 TF (-1) else (s3, [])
    else if v =? IDLE then (s2, [evC sc])
    else (s2, []).

(* the timer callback of scheduleNextConnectionLocked *)
Definition timer_fire (s : st) : st * list word :=
  if timer s then
    let s1 := set_timer s false in
    let '(s2, more) := al_increment s1 in
    if more then request_connection s2 else (s2, [])
  else (s, []).

Definition exit_idle (s : st) : st * list word :=
  if bstate s =? IDLE then
    let '(s1, e1) := update_state s CONNECTING (-1) in
    (* b.addressList.reset() (5362b94): the pass starts at the first address *)
    let '(s2, e2) := start_first_pass (set_list s1 (addrs s1) O) in (s2, e1 ++ e2)
  else (s, []).

Definition sc_of (s : st) (z : Z) : option nat :=
  if (0 <=? z) && (z <? zn (nsc s)) then Some (Z.to_nat z) else None.

(* ops: [1; a1..an] resolver update | [2; sc; state] sub-channel state | [4] resolver error
        | [5] 250ms pass (the timer fires if scheduled) | [6] ExitIdle
        | [8; k] a cancelled timer callback runs late: no-op (the `cancelled` flag), like every other word *)
Definition step_main (s : st) (op : word) : st * list word :=
  match op with
  | 1 :: l => resolver_update s l
  | [2; z; v] => match sc_of s z with
                 | Some sc => if (0 <=? v) && (v <=? 4) then sc_state s sc v else (s, [])
                 | None => (s, [])
                 end
  | 4 :: _ => resolver_error s
  | 5 :: _ => timer_fire s
  | 6 :: _ => exit_idle s
  | _ => (s, [])
  end.

Definition step (s : st) (op : word) : st * list word :=
  let '(s1, e) := step_main s op in (s1, e ++ [[0]]).

Fixpoint run_from (s : st) (ops : list word) : st * list word :=
  match ops with
  | [] => (s, [])
  | op :: r => let '(s1, e) := step s op in
               let '(s2, e') := run_from s1 r in (s2, e ++ e')
  end.

Definition run (ops : list word) : option (list word) := Some (snd (run_from init ops)).

(* ================= the property as a predicate on observations ================= *)

Definition u_events (l : list word) : list (Z * Z) :=
  flat_map (fun w => match w with [1; v; sc] => [(v, sc)] | _ => [] end) l.
Definition s_scs (l : list word) : list Z :=
  flat_map (fun w => match w with [14; sc] => [sc] | _ => [] end) l.
Definition n_scs (l : list word) : list Z :=
  flat_map (fun w => match w with [2; sc; _] => [sc] | _ => [] end) l.

(* clause 1 (READY soundness): READY is published only while processing the READY report of
   the very sub-channel the picker returns, that sub-channel has not been shut down, and
   by the end of the operation every other sub-channel ever created has received Shutdown *)
Definition ready_ok (s : st) (op : word) (chunk : list word) : bool :=
  forallb (fun u =>
    negb (fst u =? READY) ||
    match op with
    | [2; z; v] =>
      (v =? READY) && (z =? snd u) &&
      match sc_of s z with
      | Some x =>
        negb (d_shut (sds s x)) &&
        forallb (fun sc => Nat.eqb sc x || d_shut (sds s sc) || memz (zn sc) (s_scs chunk)) (seq O (nsc s)) &&
        match n_scs chunk with [] => true | _ => false end
      | None => false
      end
    | _ => false
    end) (u_events chunk).

(* clause 3 (TF after all failed, the end of a pass): a first pass ends (firstPass true before
   the operation, false after it: the list is exhausted and every sub-channel is marked as
   failed) only by publishing TRANSIENT_FAILURE in that operation.
   clause 5 (no silent all-failed state): a running pass is never left with the list exhausted
   and every active sub-channel's latest state TRANSIENT_FAILURE unless TRANSIENT_FAILURE is
   published in that operation (C34_no_silent_all_failed).  (Before 5362b94 ExitIdle could start a pass with the cursor
   not at the first address, the ghost flag midstart; such a pass never ended.) *)
Definition all_failed (s : st) : bool :=
  negb (al_valid s) && negb (match subs s with [] => true | _ => false end) &&
  forallb (fun sc => d_raw (sds s sc) =? TF) (subs s).
Definition tf_published (chunk : list word) : bool := existsb (fun u => fst u =? TF) (u_events chunk).
Definition tf_ok (s s' : st) (chunk : list word) : bool :=
  negb (firstPass s && negb (firstPass s')) || tf_published chunk.
Definition stuck_ok (s' : st) (chunk : list word) : bool :=
  negb (all_failed s' && firstPass s') || tf_published chunk.

(* clause 4 (sticky TF): while TF published at the end of a pass over a non-empty list stands -
   nothing else published since, no empty address list since, and no active sub-channel whose
   latest state is READY ("until some subchannel becomes READY") - CONNECTING is not
   published; a published READY or IDLE (which the code treats as a connection that was
   READY and got lost) ends it *)
Definition sticky_eff (s : st) : bool :=
  sticky s && forallb (fun sc => negb (d_raw (sds s sc) =? READY)) (subs s) &&
  negb (match addrs s with [] => true | _ => false end).
Fixpoint sticky_walk (k : bool) (us : list (Z * Z)) : bool :=
  match us with
  | [] => true
  | (v, _) :: r =>
    if v =? CONNECTING then negb k && sticky_walk k r
    else if (v =? READY) || (v =? IDLE) then sticky_walk false r
    else sticky_walk k r
  end.
Definition sticky_ok (s : st) (op : word) (chunk : list word) : bool :=
  let k := match op with
           | 1 :: l => match filter valid_addr l with [] => false | _ => sticky_eff s end
           | _ => sticky_eff s
           end in
  sticky_walk k (u_events chunk).

(* clause 2 (order): connection requests made while a pass runs (those before the pass's
   closing TF in the chunk) are at most one per operation and go to the address the pass has
   advanced to, which lies strictly after the previous position unless the pass (re)started *)
Fixpoint connects_before_tf (chunk : list word) : list Z :=
  match chunk with
  | [] => []
  | [1; v; _] :: r => if v =? TF then [] else connects_before_tf r
  | [3; sc] :: r => sc :: connects_before_tf r
  | _ :: r => connects_before_tf r
  end.
Definition is_start (s : st) (op : word) : bool :=
  match op with 1 :: _ => true | 6 :: _ => bstate s =? IDLE | _ => false end.
Definition order_ok (s s' : st) (op : word) (chunk : list word) : bool :=
  negb (firstPass s' && (firstPass s || is_start s op)) ||
  match connects_before_tf chunk with
  | [] => true
  | [z] => match sc_of s' z with
           | Some sc => (d_addr (sds s' sc) =? cur_addr s') && (is_start s op || (idx s <? idx s')%nat || negb (firstPass s))
           | None => false
           end
  | _ => false
  end.

Definition clause_op (s : st) (op : word) (chunk : list word) (i : Z) : list (Z * Z * bool) :=
  let s' := fst (step_main s op) in
  [ (1, i, ready_ok s op chunk);
    (2, i, order_ok s s' op chunk);
    (3, i, tf_ok s s' chunk);
    (4, i, sticky_ok s op chunk);
    (5, i, stuck_ok s' chunk) ].

Fixpoint split_chunk (obs : list word) : option (list word * list word) :=
  match obs with
  | [] => None
  | [0] :: r => Some ([], r)
  | w :: r => match split_chunk r with
              | Some (a, b) => Some (w :: a, b)
              | None => None
              end
  end.

Fixpoint clauses_from (s : st) (ops obs : list word) (i : Z) : list (Z * Z * bool) :=
  match ops with
  | [] => match obs with [] => [] | _ => [(0, i, false)] end
  | op :: r =>
    match split_chunk obs with
    | None => [(0, i, false)]
    | Some (chunk, rest) => clause_op s op chunk i ++ clauses_from (fst (step s op)) r rest (i + 1)
    end
  end.

Definition clauses (ops obs : list word) : list (Z * Z * bool) := clauses_from init ops obs 0.

Definition holds_b (ops obs : list word) : bool := forallb (fun c => snd c) (clauses ops obs).

Definition check_case (c : case) : verdict :=
  decide (run (c_ops c)) (c_obs c) (clauses (c_ops c) (c_obs c)).
