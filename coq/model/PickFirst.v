(* C34: pick_first (balancer/pickfirst/pickfirst.go), driven in rounds.
   An address is a code fam*1000+n (fam 0 unknown / 1 IPv4 / 2 IPv6).
   Transcribed: deDupAddresses, interleaveAddresses, and the effect of
   UpdateClientConnState / updateSubConnState / requestConnectionLocked /
   endFirstPassIfPossibleLocked / shutdownRemainingLocked / reconcileSubConnsLocked /
   resolverErrorLocked / updateBalancerState on the histories the driver produces:
   a resolver update followed by the answers CONNECTING,TRANSIENT_FAILURE (or
   CONNECTING,READY for the k-th request) to every connection request, in request order.
   Between rounds every surviving sub-channel is in TRANSIENT_FAILURE, or there is exactly
   one and it is READY.  No health listener, no shuffling, timer never fires.
   No proofs here. *)
From Coq Require Import List ZArith Bool Arith.
From VLib Require Import Codec.
Import ListNotations.
Open Scope Z_scope.

Definition IDLE : Z := 0.
Definition CONNECTING : Z := 1.
Definition READY : Z := 2.
Definition TF : Z := 3.

(* ---------- address pre-processing ---------- *)

Definition memz (x : Z) (l : list Z) : bool := existsb (Z.eqb x) l.

(* deDupAddresses: keep the first occurrence *)
Fixpoint dedup_acc (seen l : list Z) : list Z :=
  match l with
  | [] => []
  | a :: r => if memz a seen then dedup_acc seen r else a :: dedup_acc (a :: seen) r
  end.
Definition dedup (l : list Z) : list Z := dedup_acc [] l.

Definition fam (a : Z) : Z := a / 1000.

(* interleaveAddresses: families in order of first appearance, one queue per family,
   round robin over the families taking the head of every non-empty queue *)
Definition heads (qs : list (list Z)) : list Z :=
  flat_map (fun q => match q with [] => [] | a :: _ => [a] end) qs.
Definition tails (qs : list (list Z)) : list (list Z) := map (@tl Z) qs.
Fixpoint rr (fuel : nat) (qs : list (list Z)) : list Z :=
  match fuel with
  | O => []
  | S f => heads qs ++ rr f (tails qs)
  end.
Definition fam_queues (l : list Z) : list (list Z) :=
  map (fun f => filter (fun a => fam a =? f) l) (dedup (map fam l)).
Definition interleave (l : list Z) : list Z := rr (length l) (fam_queues l).

Definition preprocess (l : list Z) : list Z := interleave (dedup l).

(* ---------- the policy between rounds ---------- *)

Record st := mkst {
  bstate : Z;                 (* b.state *)
  subs : list (Z * Z);        (* b.subConns with raw state TRANSIENT_FAILURE: (address, sub-channel), increasing sub-channel *)
  rdy : option (Z * Z);       (* the sub-channel with raw state READY (then subs = []) *)
  naddrs : Z;                 (* b.addressList.size() *)
  nsc : Z                     (* sub-channels created so far *)
}.
Definition init : st := mkst CONNECTING [] None 0 0.

Definition evU (s sc : Z) : word := [1; s; sc].
Definition evN (sc a : Z) : word := [2; sc; a].
Definition evC (sc : Z) : word := [3; sc].
Definition evS (sc : Z) : word := [14; sc].

Definition valid_addr (a : Z) : bool := (0 <=? a) && (a <? 3000) && (a mod 1000 <? 256).

Definition has_addr (a : Z) (l : list (Z * Z)) : bool := existsb (fun p => fst p =? a) l.

Fixpoint take {A} (n : nat) (l : list A) : list A :=
  match n, l with
  | S m, x :: r => x :: take m r
  | _, _ => []
  end.

(* sub-channel numbers nsc, nsc+1, ... for a list of attempted addresses *)
Fixpoint number (n : Z) (l : list Z) : list (Z * Z) :=
  match l with
  | [] => []
  | a :: r => (a, n) :: number (n + 1) r
  end.

(* the CONNECTING report of the first fresh sub-channel (updateSubConnState, firstPass):
   b.state is CONNECTING (cn: forced at the resolver update; updateBalancerState drops the
   repetition) or TRANSIENT_FAILURE (not published: "if b.state != TransientFailure", fix
   4e698e5; before the fix this was [evU CONNECTING (-1)]) *)
Definition connecting_report (cn : bool) : list word := if cn then [] else [].

(* first pass over the fresh addresses F (those without a retained sub-channel), the k-th
   request succeeds; cn = the policy already reports CONNECTING *)
Definition pass (s : st) (retained : list (Z * Z)) (F : list Z) (k : Z) (cn : bool) (n_new : Z) : st * list word :=
  let success := (0 <=? k) && (k <? Z.of_nat (length F)) in
  let A := if success then take (S (Z.to_nat k)) F else F in
  let created := number (nsc s) A in
  let nsc' := nsc s + Z.of_nat (length A) in
  let reqs := flat_map (fun p => [evN (snd p) (fst p); evC (snd p)]) in
  match created with
  | [] => (mkst TF retained None n_new nsc', [evU TF (-1)])
  | first :: rest =>
    let head := reqs [first] ++ connecting_report cn ++ reqs rest in
    if success then
      let win := last created first in
      (mkst READY [] (Some win) n_new nsc',
       head ++ map (fun p => evS (snd p)) (retained ++ removelast created) ++ [evU READY (snd win)])
    else
      (mkst TF (retained ++ created) None n_new nsc', head ++ [evU TF (-1)])
  end.

(* op [1; k; a1..an] *)
Definition round (s : st) (k : Z) (l0 : list Z) : st * list word :=
  let l := filter valid_addr l0 in
  match l with
  | [] =>
    (* closeSubConnsLocked, updateAddrs(nil), resolverErrorLocked *)
    let all := subs s ++ match rdy s with Some p => [p] | None => [] end in
    (mkst TF [] None 0 (nsc s), [[12; 1]] ++ map (fun p => evS (snd p)) all ++ [evU TF (-1)])
  | _ =>
    let l' := preprocess l in
    let n_new := Z.of_nat (length l') in
    let keep_ready := match rdy s with Some p => memz (fst p) l' | None => false end in
    if keep_ready then (mkst (bstate s) (subs s) (rdy s) n_new (nsc s), [[12; 0]])
    else
      let all := subs s ++ match rdy s with Some p => [p] | None => [] end in
      let retained := filter (fun p => memz (fst p) l') (subs s) in
      let removed := filter (fun p => negb (memz (fst p) l')) all in
      let F := filter (fun a => negb (has_addr a retained)) l' in
      let e0 := [[12; 0]] ++ map (fun p => evS (snd p)) removed in
      let was_ready := match rdy s with Some _ => true | None => false end in
      if was_ready || (bstate s =? CONNECTING) || (naddrs s =? 0) then
        let '(s1, e) := pass s retained F k true n_new in
        (s1, e0 ++ [evU CONNECTING (-1)] ++ e)
      else if bstate s =? TF then
        let '(s1, e) := pass s retained F k false n_new in
        (s1, e0 ++ e)
      else (mkst (bstate s) retained None n_new (nsc s), e0)
  end.

(* op [4]: resolverErrorLocked *)
Definition resolver_error (s : st) : st * list word :=
  if negb (bstate s =? TF) && (0 <? naddrs s) then (s, [])
  else (mkst TF (subs s) (rdy s) (naddrs s) (nsc s), [evU TF (-1)]).

Definition step (s : st) (op : word) : st * list word :=
  let '(s1, e) :=
    match op with
    | 1 :: k :: l => round s k l
    | 4 :: _ => resolver_error s
    | _ => (s, [])
    end in
  (s1, e ++ [[0]]).

Fixpoint run_from (s : st) (ops : list word) : st * list word :=
  match ops with
  | [] => (s, [])
  | op :: r => let '(s1, e) := step s op in
               let '(s2, e') := run_from s1 r in (s2, e ++ e')
  end.

Definition run (ops : list word) : option (list word) := Some (snd (run_from init ops)).

(* ================= the property as a predicate on observations ================= *)

Fixpoint sublist_b (a b : list Z) : bool :=
  match a, b with
  | [], _ => true
  | _ :: _, [] => false
  | x :: a', y :: b' => if x =? y then sublist_b a' b' else sublist_b a b'
  end.

Definition n_addrs (l : list word) : list Z :=
  flat_map (fun w => match w with [2; _; a] => [a] | _ => [] end) l.
Definition n_scs (l : list word) : list Z :=
  flat_map (fun w => match w with [2; sc; _] => [sc] | _ => [] end) l.
Definition c_scs (l : list word) : list Z :=
  flat_map (fun w => match w with [3; sc] => [sc] | _ => [] end) l.
Definition s_scs (l : list word) : list Z :=
  flat_map (fun w => match w with [14; sc] => [sc] | _ => [] end) l.
Definition u_events (l : list word) : list (Z * Z) :=
  flat_map (fun w => match w with [1; v; sc] => [(v, sc)] | _ => [] end) l.

(* clause 1: READY is published only with a picker returning the sub-channel that was just
   answered READY (the last one requested), after every other sub-channel of the policy
   (older ones and the ones created in this round) received Shutdown *)
Definition ready_ok (s : st) (chunk : list word) : bool :=
  forallb (fun u =>
    negb (fst u =? READY) ||
    match rev (n_scs chunk) with
    | win :: others =>
      (snd u =? win) &&
      forallb (fun sc => memz sc (s_scs chunk))
              (others ++ map snd (subs s) ++ match rdy s with Some p => [snd p] | None => [] end)
    | [] => false
    end) (u_events chunk).

(* clause 2: connections are requested for fresh sub-channels only, once each, in the order
   of the pre-processed address list *)
Definition order_ok (l' : list Z) (chunk : list word) : bool :=
  sublist_b (n_addrs chunk) l' && word_eqb (c_scs chunk) (n_scs chunk).

(* clause 3: a pass in which every address failed ends with TRANSIENT_FAILURE *)
Definition tf_ok (k : Z) (chunk : list word) : bool :=
  ((0 <=? k) && (k <? Z.of_nat (length (n_scs chunk)))) ||
  match rev (u_events chunk) with
  | (v, _) :: _ => v =? TF
  | [] => false
  end.

(* sticky TRANSIENT_FAILURE: the policy reported TF after a pass over a non-empty list (A62).
   TF caused by an empty address list (naddrs = 0) is not sticky: the next non-empty update
   forces CONNECTING (prevAddrsCount == 0 in UpdateClientConnState).
   clause 4: while sticky no CONNECTING is published before READY ahead of any NewSubConn;
   clause 5: ... nor by a sub-channel created in this round (the class repaired by 4e698e5) *)
Definition sticky (s : st) : bool := (bstate s =? TF) && (0 <? naddrs s).

(* is CONNECTING published before READY in this chunk?  with/without a NewSubConn before it *)
Fixpoint connecting_before_ready (chunk : list word) (seen_new : bool) : option bool :=
  match chunk with
  | [] => None
  | [1; v; _] :: r => if v =? CONNECTING then Some seen_new
                      else if v =? READY then None else connecting_before_ready r seen_new
  | (2 :: _) :: r => connecting_before_ready r true
  | _ :: r => connecting_before_ready r seen_new
  end.

Definition round_clauses (s : st) (k : Z) (l0 : list Z) (chunk : list word) (i : Z) : list (Z * Z * bool) :=
  let l := filter valid_addr l0 in
  let l' := preprocess l in
  let keep_ready := match rdy s with Some p => memz (fst p) l' | None => false end in
  let passes := negb (match l with [] => true | _ => false end) && negb keep_ready in
  [ (1, i, ready_ok s chunk);
    (2, i, order_ok l' chunk);
    (3, i, negb passes || tf_ok k chunk);
    (4, i, negb (sticky s) || match connecting_before_ready chunk false with Some false => false | _ => true end);
    (5, i, negb (sticky s) || match connecting_before_ready chunk false with Some true => false | _ => true end) ].

Definition clause_op (s : st) (op : word) (chunk : list word) (i : Z) : list (Z * Z * bool) :=
  match op with
  | 1 :: k :: l => round_clauses s k l chunk i
  | _ => [ (1, i, ready_ok s chunk); (2, i, order_ok [] chunk);
           (4, i, negb (sticky s) || match connecting_before_ready chunk false with Some _ => false | None => true end) ]
  end.

Fixpoint split_chunk (obs : list word) : option (list word * list word) :=
  match obs with
  | [] => None
  | [0] :: r => Some ([], r)
  | w :: r => match split_chunk r with
              | Some (a, b) => Some (w :: a, b)
              | None => None
              end
  end.

Fixpoint clauses_from (s : st) (ops obs : list word) (i : Z) : list (Z * Z * bool) :=
  match ops with
  | [] => match obs with [] => [] | _ => [(0, i, false)] end
  | op :: r =>
    match split_chunk obs with
    | None => [(0, i, false)]
    | Some (chunk, rest) => clause_op s op chunk i ++ clauses_from (fst (step s op)) r rest (i + 1)
    end
  end.

Definition clauses (ops obs : list word) : list (Z * Z * bool) := clauses_from init ops obs 0.

Definition holds_b (ops obs : list word) : bool := forallb (fun c => snd c) (clauses ops obs).

Definition check_case (c : case) : verdict :=
  decide (run (c_ops c)) (c_obs c) (clauses (c_ops c) (c_obs c)).
