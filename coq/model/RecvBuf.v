(* C05: received stream bytes are delivered in order, once, then the end/error.
   Transcribes internal/transport/transport.go: recvBuffer.{put,compactBacklogLocked,load} and
   recvBufferReader.{Read,ReadMessageHeader,read,readAdditional,readMessageHeaderAdditional}
   (server-side reader: clientStream = nil, context never cancelled).
   The channel b.c (capacity 1) is an option; a message received from the channel but not yet
   processed by readAdditional (the window in which a concurrent put can run) is [pend].
   Payloads are byte lists.  [acc]/[dlv] are ghost histories (bytes accepted / delivered).
   No proofs here. *)
From Coq Require Import List ZArith Bool.
From VLib Require Import Codec Machine.
Import ListNotations.
Open Scope Z_scope.

Inductive msg := MData (b : list Z) | MErr (c : Z).

Definition mbytes (m : msg) : list Z := match m with MData b => b | MErr _ => [] end.
Definition is_data (m : msg) : bool := match m with MData _ => true | MErr _ => false end.
Definition qbytes (q : list msg) : list Z := concat (map mbytes q).
Definition len (b : list Z) : Z := Z.of_nat (length b).
Definition olist {A} (o : option A) : list A := match o with Some x => [x] | None => [] end.
Definition obytes (o : option (list Z)) : list Z := match o with Some b => b | None => [] end.

(* envconfig.EnableReceiveBufferCompaction, compactionThreshold, recvMsgSize; utilizationFactor = 2 *)
Record conf := mkconf { en : bool; thr : Z; rms : Z }.

Record state := mkstate {
  ch : option msg;          (* b.c *)
  bl : list msg;            (* b.backlog *)
  sfx : Z;                  (* b.uncompactedSuffixLen *)
  ub : Z;                   (* b.uncompactedBytes *)
  berr : bool;              (* b.err != nil *)
  last : option (list Z);   (* r.last *)
  rerr : Z;                 (* r.err: 0 = nil, otherwise the error's code *)
  pend : option msg;        (* received from b.c, readAdditional not yet run *)
  acc : list Z;             (* ghost: payload bytes accepted by put *)
  dlv : list Z              (* ghost: bytes returned to the application *)
}.

Definition init_state : state := mkstate None [] 0 0 false None 0 None [] [].

(* the compaction branch of compactBacklogLocked: the trailing sfx messages are copied into one
   buffer of exactly ub bytes obtained from the pool (zero-filled if ub were too large) *)
Definition compact_do (bl : list msg) (sfx ub : Z) : list msg :=
  let k := Z.to_nat (Z.of_nat (length bl) - sfx) in
  let newb := firstn (Z.to_nat ub) (qbytes (skipn k bl) ++ repeat 0 (Z.to_nat ub)) in
  firstn k bl ++ [MData newb].

(* compactBacklogLocked(r), called after r was appended to the backlog; returns (bl, sfx, ub) *)
Definition compact (c : conf) (m : msg) (bl : list msg) (sfx ub : Z) : list msg * Z * Z :=
  if negb (en c) then (bl, sfx, ub) else
  match m with
  | MErr _ => (bl, 0, 0)
  | MData b =>
    let sfx' := sfx + 1 in
    let ub' := ub + len b in
    let heap := sfx' * rms c + ub' in
    if heap <=? 2 * ub' then (bl, 0, 0)
    else if heap <=? thr c then (bl, sfx', ub')
    else (compact_do bl sfx' ub', 0, 0)
  end.

Definition put (c : conf) (m : msg) (s : state) : state :=
  if berr s then s else
  let e := negb (is_data m) in
  let acc' := acc s ++ mbytes m in
  match bl s, ch s with
  | [], None => mkstate (Some m) [] (sfx s) (ub s) e (last s) (rerr s) (pend s) acc' (dlv s)
  | _, _ =>
    let '(bl', sfx', ub') := compact c m (bl s ++ [m]) (sfx s) (ub s) in
    mkstate (ch s) bl' sfx' ub' e (last s) (rerr s) (pend s) acc' (dlv s)
  end.

Definition load (c : conf) (s : state) : state :=
  match bl s, ch s with
  | m0 :: rest, None =>
    let upd := en c && (sfx s =? Z.of_nat (length (bl s))) in
    mkstate (Some m0) rest (if upd then sfx s - 1 else sfx s) (if upd then ub s - len (mbytes m0) else ub s)
            (berr s) (last s) (rerr s) (pend s) (acc s) (dlv s)
  | _, _ => s
  end.

(* what a read returns *)
Inductive out := ONone | OData (b : list Z) | OErr (c : Z) | OPutDone | ORecvDone.

(* split a buffer for a request of n bytes: both mem.SplitUnsafe (Read) and mem.ReadUnsafe
   (ReadMessageHeader) hand out the first n bytes and keep the rest iff more than n are there *)
Definition take (n : Z) (b : list Z) : list Z * option (list Z) :=
  if len b >? n then (firstn (Z.to_nat n) b, Some (skipn (Z.to_nat n) b)) else (b, None).

Definition set_reader (s : state) (l : option (list Z)) (e : Z) (p : option msg) (d : list Z) : state :=
  mkstate (ch s) (bl s) (sfx s) (ub s) (berr s) l e p (acc s) d.

(* readAdditional / readMessageHeaderAdditional on the received message m *)
Definition finish (c : conf) (m : msg) (n : Z) (s : state) : out * state :=
  let s1 := load c s in
  match m with
  | MErr code => (OErr code, set_reader s1 None code None (dlv s1))
  | MData b => let (x, rest) := take n b in (OData x, set_reader s1 rest 0 None (dlv s1 ++ x))
  end.

(* Read(n) / ReadMessageHeader(header[:n]) as one atomic step; ONone = it would block *)
Definition read (c : conf) (n : Z) (s : state) : out * state :=
  match pend s with Some _ => (ONone, s) | None =>
  if negb (rerr s =? 0) then (OErr (rerr s), s) else
  match last s with
  | Some b => let (x, rest) := take n b in (OData x, set_reader s rest 0 None (dlv s ++ x))
  | None =>
    match ch s with
    | None => (ONone, s)
    | Some m =>
      finish c m n (mkstate None (bl s) (sfx s) (ub s) (berr s) (last s) (rerr s) None (acc s) (dlv s))
    end
  end end.

(* the channel receive alone *)
Definition recv_start (s : state) : out * state :=
  match pend s, last s, ch s with
  | None, None, Some m =>
    if rerr s =? 0 then
      (ORecvDone, mkstate None (bl s) (sfx s) (ub s) (berr s) None 0 (Some m) (acc s) (dlv s))
    else (ONone, s)
  | _, _, _ => (ONone, s)
  end.

Definition recv_finish (c : conf) (n : Z) (s : state) : out * state :=
  match pend s with
  | Some m => finish c m n (set_reader s (last s) (rerr s) None (dlv s))
  | None => (ONone, s)
  end.

Inductive opk := KPut (b : list Z) | KPutErr (c : Z) | KRead (n : Z) | KHdr (n : Z)
               | KRecv | KFinRead (n : Z) | KFinHdr (n : Z).

Definition stepk (c : conf) (s : state) (k : opk) : out * state :=
  match k with
  | KPut b => (OPutDone, put c (MData b) s)
  | KPutErr code => (OPutDone, put c (MErr code) s)
  | KRead n | KHdr n => read c n s
  | KRecv => recv_start s
  | KFinRead n | KFinHdr n => recv_finish c n s
  end.

Fixpoint runk (c : conf) (s : state) (ks : list opk) : list out * state :=
  match ks with
  | [] => ([], s)
  | k :: r => let (o, s1) := stepk c s k in let (os, s2) := runk c s1 r in (o :: os, s2)
  end.

(* ---------------- word level ---------------- *)

(* payload of the put that starts at stream position p: byte i is byte_at (p + i) *)
Definition byte_at (p : Z) : Z := (p * 167 + 13) mod 251.
Fixpoint gen_bytes (p : Z) (n : nat) : list Z :=
  match n with O => [] | S n' => byte_at p :: gen_bytes (p + 1) n' end.

Fixpoint sums (i : Z) (b : list Z) (s1 s2 : Z) : Z * Z :=
  match b with
  | [] => (s1 mod 65521, s2 mod 65521)
  | x :: r => sums (i + 1) r (s1 + x) (s2 + i * x)
  end.
Definition cksum (b : list Z) : Z * Z := sums 1 b 0 0.

Definition decode_conf (cfg : word) : option conf :=
  match cfg with
  | [e; t; r] => Some (mkconf (z2b e) t r)
  | _ => None
  end.

(* [1; n] put n bytes   [2; code] put error   [3; n] Read(n)   [4; n] ReadMessageHeader(n)
   [5] receive from the channel only   [6; n] readAdditional(m, n)   [7; n] readMessageHeaderAdditional *)
Definition decode_op (pos : Z) (op : word) : option opk :=
  match op with
  | [t] => if t =? 5 then Some KRecv else None
  | [t; n] =>
    if t =? 1 then (if (0 <=? n) && (n <=? 65536) then Some (KPut (gen_bytes pos (Z.to_nat n))) else None)
    else if t =? 2 then (if 1 <=? n then Some (KPutErr n) else None)
    else if 0 <=? n then
      (if t =? 3 then Some (KRead n) else if t =? 4 then Some (KHdr n)
       else if t =? 6 then Some (KFinRead n) else if t =? 7 then Some (KFinHdr n) else None)
    else None
  | _ => None
  end.

Definition op_bytes (k : opk) : Z := match k with KPut b => len b | _ => 0 end.

Definition enc_out (o : out) : word :=
  match o with
  | ONone => [0]
  | OData b => let (s1, s2) := cksum b in [1; len b; s1; s2]
  | OErr c => [2; c]
  | OPutDone => [3]
  | ORecvDone => [4]
  end.

Definition snap (s : state) : word :=
  [Z.of_nat (length (bl s)); sfx s; ub s; b2z (match ch s with Some _ => true | None => false end);
   match last s with Some b => len b | None => -1 end; b2z (berr s)].

Fixpoint run_from (c : conf) (pos : Z) (s : state) (ops : list word) : option (list word) :=
  match ops with
  | [] => Some []
  | op :: r =>
    match decode_op pos op with
    | Some k =>
      let (o, s1) := stepk c s k in
      match run_from c (pos + op_bytes k) s1 r with
      | Some os => Some ((enc_out o ++ snap s1) :: os)
      | None => None
      end
    | None => None
    end
  end.

Definition run (cfg : word) (ops : list word) : option (list word) :=
  match decode_conf cfg with Some c => run_from c 0 init_state ops | None => None end.

(* ---- the property on an observation list ----
   ledger: rem = bytes put (before any error put) and not yet delivered; eput = code of the
   error that was put (0 none); eseen = the reader has reported the error; lpend = a message
   is in flight between the channel receive and readAdditional *)
Record led := mkled { rem : list Z; eput : Z; eseen : bool; lpend : bool; lpos : Z }.
Definition linit : led := mkled [] 0 false false 0.

(* clause 1: a read returns (a checksum-equal copy of) the next bytes of the put stream, at most n
   clause 2: an error is reported only when it was put and every byte put before it was delivered
   clause 3: after the error nothing else is delivered
   clause 4: a read blocks only when nothing is deliverable (no byte, no error outstanding) *)
Definition is_read (k : opk) : option Z :=
  match k with KRead n | KHdr n | KFinRead n | KFinHdr n => Some n | _ => None end.

Definition lstep (i : Z) (L : led) (k : opk) (o : word) : option (led * list (Z * Z * bool)) :=
  let L0 := mkled (rem L) (eput L) (eseen L) (lpend L) (lpos L + op_bytes k) in
  match k, o with
  | KPut b, 3 :: _ =>
    Some (if eput L =? 0 then mkled (rem L ++ b) 0 (eseen L) (lpend L) (lpos L0) else L0, [])
  | KPutErr c, 3 :: _ =>
    Some (if eput L =? 0 then mkled (rem L) c (eseen L) (lpend L) (lpos L0) else L0, [])
  | KRecv, 4 :: _ => Some (mkled (rem L) (eput L) (eseen L) true (lpos L), [])
  | KRecv, 0 :: _ => Some (L, [])
  | _, 0 :: _ =>
    match is_read k with
    | Some n =>
      let waiting := match k with KRead _ | KHdr _ => negb (lpend L) | _ => false end in
      Some (L, if waiting then
                 [(4, i, match rem L with [] => true | _ => false end && (eput L =? 0))]
               else [])
    | None => None
    end
  | _, 1 :: l :: s1 :: s2 :: _ =>
    match is_read k with
    | Some n =>
      let x := firstn (Z.to_nat l) (rem L) in
      let (e1, e2) := cksum x in
      Some (mkled (skipn (Z.to_nat l) (rem L)) (eput L) (eseen L) false (lpos L),
            [(3, i, negb (eseen L));
             (1, i, (0 <=? l) && (l <=? n) && (l <=? len (rem L)) && (s1 =? e1) && (s2 =? e2))])
    | None => None
    end
  | _, 2 :: c :: _ =>
    match is_read k with
    | Some n =>
      Some (mkled (rem L) (eput L) true false (lpos L),
            [(2, i, negb (eput L =? 0) && (c =? eput L) && match rem L with [] => true | _ => false end)])
    | None => None
    end
  | _, _ => None
  end.

Fixpoint clauses_from (i : Z) (L : led) (ops obs : list word) : list (Z * Z * bool) :=
  match ops, obs with
  | [], [] => []
  | op :: r, o :: r' =>
    match decode_op (lpos L) op with
    | Some k =>
      match lstep i L k o with
      | Some (L', cs) => cs ++ clauses_from (i + 1) L' r r'
      | None => [(0, i, false)]
      end
    | None => []
    end
  | _, _ => [(0, i, false)]
  end.

Definition clauses (cfg : word) (ops obs : list word) : list (Z * Z * bool) :=
  match decode_conf cfg with
  | Some c => clauses_from 0 linit ops obs
  | None => []
  end.

Definition holds_b (cfg : word) (ops obs : list word) : bool :=
  forallb (fun c => snd c) (clauses cfg ops obs).

Fixpoint ops_wf (pos : Z) (ops : list word) : bool :=
  match ops with
  | [] => true
  | op :: r => match decode_op pos op with Some k => ops_wf (pos + op_bytes k) r | None => false end
  end.

Definition wf (cfg : word) (ops : list word) : bool :=
  match decode_conf cfg with Some c => ops_wf 0 ops | None => false end.

Definition check_case (c : case) : verdict :=
  decide (run (c_cfg c) (c_ops c)) (c_obs c) (clauses (c_cfg c) (c_ops c) (c_obs c)).
