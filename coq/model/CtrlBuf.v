(* C16: controlBuffer throttling and close.
   Transcribes internal/transport/controlbuf.go: controlBuffer.executeAndPut / put,
   getOnceLocked (= get(false)), finish, and the two instructions of throttle()
   (atomic load of trfChan, blocking receive on the loaded channel or done).

   Atomicity (DESIGN §4(i)): executeAndPut, get's locked section and finish hold c.mu
   for their whole body and only use non-blocking channel operations inside it, so
   each is one atomic step.  throttle() takes no lock: its atomic pointer load and
   its channel receive are separate steps (ALoad / AWait) that interleave freely
   with everything else.  Channels are generation numbers; closing a channel adds
   its generation to [cg].  No proofs here. *)
From Coq Require Import List ZArith Bool.
From VLib Require Import Codec Machine.
Import ListNotations.
Open Scope Z_scope.

(* an item is (kind, id): kind 0 = unthrottled non-header (serverHeaders),
   1 = throttled (every item embedding throttledItem), 2 = clientHeaders *)
Definition item := (Z * Z)%type.
Definition is_thr (k : Z) : bool := k =? 1.
Definition is_hdr (it : item) : bool := fst it =? 2.
Definition hdr_ids (l : list item) : list Z := map snd (filter is_hdr l).
Definition cnt_thr (l : list item) : Z :=
  fold_right (fun it n => if is_thr (fst it) then n + 1 else n) 0 l.

(* a reader inside throttle(): (id, (auto, loaded channel)); auto = real goroutine *)
Definition reader := (Z * (bool * option Z))%type.

Record st := mk {
  mx : Z;                 (* maxQueuedControlBufferItems *)
  closed : bool;          (* c.closed *)
  dn : bool;              (* c.done is closed *)
  q : list item;          (* c.list *)
  trf : Z;                (* c.transportResponseFrames *)
  cur : option Z;         (* c.trfChan: nil or the generation of the current channel *)
  ngen : Z;               (* next fresh generation (make(chan)) *)
  cg : list Z;            (* generations that have been closed *)
  rds : list reader;      (* threads currently inside throttle() after their load *)
  pan : bool;             (* close of a nil channel pointer would have panicked *)
  (* ghost history, never read by the transitions *)
  acc : list item;        (* every item ever accepted, in order *)
  got : list item;        (* every item handed to the consumer by get, in order *)
  dropped : list item;    (* what finish() removed from the list *)
  orph : list Z           (* ids for which finish() called onOrphaned, in order *)
}.

Definition init (m : Z) : st := mk m false false [] 0 None 0 [] [] false [] [] [] [].

Inductive act :=
| APut (hasf fok : bool) (it : option item)   (* executeAndPut(f, it); put = no f *)
| AGet                                        (* get(false) = lock; getOnceLocked; unlock *)
| AFinish
| ADone                                       (* the transport's done channel is closed *)
| ALoad (r : Z) (auto : bool)                 (* throttle(): ch := c.trfChan.Load() *)
| AWait (r : Z).                              (* throttle(): select { <-*ch ; <-c.done } *)

Fixpoint lookup (r : Z) (l : list reader) : option (bool * option Z) :=
  match l with
  | [] => None
  | (r', v) :: l' => if r =? r' then Some v else lookup r l'
  end.
Fixpoint remove_rd (r : Z) (l : list reader) : list reader :=
  match l with
  | [] => []
  | (r', v) :: l' => if r =? r' then l' else (r', v) :: remove_rd r l'
  end.
Definition chan_closed (s : st) (g : Z) : bool := existsb (Z.eqb g) (cg s).

Definition set_rds (s : st) (l : list reader) : st :=
  mk (mx s) (closed s) (dn s) (q s) (trf s) (cur s) (ngen s) (cg s) l (pan s)
     (acc s) (got s) (dropped s) (orph s).

Definition put (s : st) (hasf fok : bool) (it : option item) : st * word :=
  if closed s then (s, [0; 1; 0]) else
  if hasf && negb fok then (s, [0; 0; 1]) else
  match it with
  | None => (s, [1; 0; b2z hasf])
  | Some i =>
    let q' := q s ++ [i] in
    let acc' := acc s ++ [i] in
    if is_thr (fst i) then
      let t' := trf s + 1 in
      if t' =? mx s then
        (* ch := make(chan struct{}); c.trfChan.Store(&ch) -- overwrites, closes nothing *)
        (mk (mx s) false (dn s) q' t' (Some (ngen s)) (ngen s + 1) (cg s) (rds s) (pan s)
            acc' (got s) (dropped s) (orph s), [1; 0; b2z hasf])
      else
        (mk (mx s) false (dn s) q' t' (cur s) (ngen s) (cg s) (rds s) (pan s)
            acc' (got s) (dropped s) (orph s), [1; 0; b2z hasf])
    else
      (mk (mx s) false (dn s) q' (trf s) (cur s) (ngen s) (cg s) (rds s) (pan s)
          acc' (got s) (dropped s) (orph s), [1; 0; b2z hasf])
  end.

(* output [res; kind; id]: res 0 = nothing queued, 1 = item, 2 = ErrConnClosing *)
Definition get (s : st) : st * word :=
  if closed s then (s, [2; 0; 0]) else
  match q s with
  | [] => (s, [0; 0; 0])
  | h :: q' =>
    let got' := got s ++ [h] in
    if is_thr (fst h) then
      if trf s =? mx s then
        match cur s with
        | Some g =>   (* ch := c.trfChan.Swap(nil); close( *ch) *)
          (mk (mx s) false (dn s) q' (trf s - 1) None (ngen s) (g :: cg s) (rds s) (pan s)
              (acc s) got' (dropped s) (orph s), [1; fst h; snd h])
        | None =>     (* close of a nil pointer: panic *)
          (mk (mx s) false (dn s) q' (trf s) None (ngen s) (cg s) (rds s) true
              (acc s) got' (dropped s) (orph s), [3; fst h; snd h])
        end
      else
        (mk (mx s) false (dn s) q' (trf s - 1) (cur s) (ngen s) (cg s) (rds s) (pan s)
            (acc s) got' (dropped s) (orph s), [1; fst h; snd h])
    else
      (mk (mx s) false (dn s) q' (trf s) (cur s) (ngen s) (cg s) (rds s) (pan s)
          (acc s) got' (dropped s) (orph s), [1; fst h; snd h])
  end.

(* output: the ids passed to onOrphaned, in order *)
Definition finish (s : st) : st * word :=
  if closed s then (s, []) else
  let o := hdr_ids (q s) in
  (mk (mx s) true (dn s) [] (trf s) None (ngen s)
      (match cur s with Some g => g :: cg s | None => cg s end) (rds s) (pan s)
      (acc s) (got s) (q s) o, o).

(* output [1] = throttle() returns, [0] = stays blocked, [2] = no such reader *)
Definition wait (s : st) (r : Z) : st * word :=
  match lookup r (rds s) with
  | None => (s, [2])
  | Some (_, None) => (set_rds s (remove_rd r (rds s)), [1])
  | Some (_, Some g) =>
    if dn s || chan_closed s g then (set_rds s (remove_rd r (rds s)), [1]) else (s, [0])
  end.

Definition astep (s : st) (a : act) : st * word :=
  if pan s then (s, []) else
  match a with
  | APut hf fo it => put s hf fo it
  | AGet => get s
  | AFinish => finish s
  | ADone => (mk (mx s) (closed s) true (q s) (trf s) (cur s) (ngen s) (cg s) (rds s) (pan s)
                 (acc s) (got s) (dropped s) (orph s), [])
  | ALoad r au =>
    match lookup r (rds s) with
    | Some _ => (s, [0])
    | None => (set_rds s (rds s ++ [(r, (au, cur s))]), [1])
    end
  | AWait r => wait s r
  end.

Definition exec (s : st) (l : list act) : st := fold_left (fun s a => fst (astep s a)) l s.

(* ---- operations of a case: each is a short sequence of atomic steps ----
   cfg [max]
   [1; hasf; fok; kind; id]  executeAndPut / put (kind 3 = nil item)   out [ok; err; fcalled]
   [2] get(false)   out [res; kind; id]
   [3] finish       out orphaned ids
   [4] close(done)
   [5; r] a goroutine runs the real throttle(): load, then wait       out [started]
   [6; r] reader r performs the load only                            out [started]
   [7; r] reader r (started by 6) attempts the receive               out [released]
   After every operation all goroutine readers that can run do run (synctest.Wait):
   [sweep].  The observation is [trf; chan<>nil; len; closed; #blocked goroutines] ++ out. *)
Definition auto_ids (l : list reader) : list Z :=
  map fst (filter (fun x => fst (snd x)) l).
Definition sweep (s : st) : st := exec s (map AWait (auto_ids (rds s))).

Definition op_acts (s : st) (op : word) : option (list act * bool) :=
  (* (atomic steps, report the output of the last one?) *)
  match op with
  | [1; hf; fo; k; id] =>
    Some ([APut (z2b hf) (z2b fo) (if k =? 3 then None else Some (k, id))], true)
  | [2] => Some ([AGet], true)
  | [3] => Some ([AFinish], true)
  | [4] => Some ([ADone], true)
  | [5; r] => Some ([ALoad r true], true)
  | [6; r] => Some ([ALoad r false], true)
  | [7; r] => match lookup r (rds s) with
              | Some (false, _) => Some ([AWait r], true)
              | _ => Some ([], false)
              end
  | _ => None
  end.

Definition common (s : st) : word :=
  [trf s; match cur s with Some _ => 1 | None => 0 end; Z.of_nat (length (q s));
   b2z (closed s); Z.of_nat (length (auto_ids (rds s)))].

Definition op_step (s : st) (op : word) : option (st * word) :=
  match op_acts s op with
  | None => None
  | Some ([a], _) => let '(s1, o) := astep s a in
                     let s2 := sweep s1 in Some (s2, common s2 ++ o)
  | Some (_, _) => let s2 := sweep s in Some (s2, common s2 ++ [2])
  end.

Fixpoint go (s : st) (ops : list word) : option (list word) :=
  match ops with
  | [] => Some []
  | op :: r => match op_step s op with
               | Some (s', o) => match go s' r with Some os => Some (o :: os) | None => None end
               | None => None
               end
  end.

(* Race mode, cfg [max; 1]: op [8; iterations; queued headers] runs finish() against
   concurrently running producers/consumers on fresh control buffers in real goroutines
   (no fake clock) and validates, in the driver, consequences of the theorems that hold
   for every interleaving of whole methods; the observation is the number of violations
   [trfChan left non-nil / throttle() blocked after finish returned;
    an accepted clientHeaders neither orphaned exactly once nor rejected, or list not empty;
    panics inside controlBuffer methods; goroutines that did not finish within the deadline].
   The model's answer is that none of them can happen. *)
Definition race_obs (op : word) : option word :=
  match op with [8; _; _] => Some [0; 0; 0; 0] | _ => None end.

Fixpoint race_go (ops : list word) : option (list word) :=
  match ops with
  | [] => Some []
  | op :: r => match race_obs op, race_go r with
               | Some o, Some os => Some (o :: os)
               | _, _ => None
               end
  end.

Definition run (cfg : word) (ops : list word) : option (list word) :=
  match cfg with
  | [m] => go (init m) ops
  | [_; 1] => race_go ops
  | _ => None
  end.

(* ---- the property as a predicate on an observed trace ----
   The tracker reconstructs from the observations themselves which items were
   accepted and not yet handed out, and whether finish / close(done) happened.
   clause 1: before finish trfChan <> nil iff trf >= max; after finish it is nil
   clause 2: a reader is blocked only while trf >= max, not closed, done open
   clause 3: after finish nothing is accepted (error, f not run, list stays empty), get fails
   clause 4: finish orphans exactly the queued clientHeaders, once, in order
   clause 5: get hands items out in the order they were accepted *)
Record trk := mkt { t_pend : list item; t_fin : bool; t_dn : bool }.

Definition item_eqb (a b : item) : bool := (fst a =? fst b) && (snd a =? snd b).

Definition cl_common (m : Z) (t : trk) (trf ch ql cl nb : Z) : list (Z * Z * bool) :=
  [(1, trf, if cl =? 0 then Bool.eqb (ch =? 1) (m <=? trf) && ((ch =? 0) || (ch =? 1)) else ch =? 0);
   (2, nb, (nb <=? 0) || ((m <=? trf) && (cl =? 0) && negb (t_dn t)));
   (3, ql, (cl =? b2z (t_fin t)) && (ql =? Z.of_nat (length (t_pend t))) &&
           (if t_fin t then ql =? 0 else true))].

Definition cl_op (m : Z) (t : trk) (op obs : word) : trk * list (Z * Z * bool) :=
  match obs with
  | trf :: ch :: ql :: cl :: nb :: out =>
    let '(t', cs) :=
      match op, out with
      | [1; hf; fo; k; id], [ok; err; fc] =>
        let t' := if (ok =? 1) && negb (k =? 3) then mkt (t_pend t ++ [(k, id)]) (t_fin t) (t_dn t) else t in
        (t', [(3, 1, if t_fin t then (ok =? 0) && (err =? 1) && (fc =? 0) else err =? 0)])
      | [2], [res; k; id] =>
        let t' := if res =? 1 then mkt (tl (t_pend t)) (t_fin t) (t_dn t) else t in
        (t', [(3, 2, if t_fin t then res =? 2 else (res =? 0) || (res =? 1));
              (5, id, if t_fin t then true else
                      if res =? 1 then match t_pend t with h :: _ => item_eqb h (k, id) | [] => false end
                      else match t_pend t with [] => true | _ => false end)])
      | [3], ids =>
        (mkt [] true (t_dn t),
         [(4, Z.of_nat (length ids), if t_fin t then match ids with [] => true | _ => false end
                                     else word_eqb ids (hdr_ids (t_pend t)))])
      | [4], [] => (mkt (t_pend t) (t_fin t) true, [])
      | [5; _], [_] => (t, [])
      | [6; _], [_] => (t, [])
      | [7; r], [rel] =>
        (t, [(2, r, negb (rel =? 0) || ((m <=? trf) && (cl =? 0) && negb (t_dn t)))])
      | _, _ => (t, [(0, 0, false)])
      end in
    (t', cs ++ cl_common m t' trf ch ql cl nb)
  | _ => (t, [(0, 0, false)])
  end.

Fixpoint cl_go (m : Z) (t : trk) (ops obs : list word) : list (Z * Z * bool) :=
  match ops, obs with
  | op :: r, o :: r' => let '(t', cs) := cl_op m t op o in cs ++ cl_go m t' r r'
  | [], [] => []
  | _, _ => [(0, 0, false)]
  end.

(* clause 6: after finish() returned trfChan is nil and throttle() returns
   clause 7: a clientHeaders put that raced with finish() was rejected, or accepted and
             orphaned exactly once; the list is empty after finish()
   clause 8: no panic inside a controlBuffer method
   clause 10: every racing goroutine finished within the driver's deadline *)
Definition race_cl (op obs : word) : list (Z * Z * bool) :=
  match op, obs with
  | [8; _; _], [a; b; c; d] => [(6, a, a =? 0); (7, b, b =? 0); (8, c, c =? 0); (10, d, d =? 0)]
  | _, _ => [(0, 0, false)]
  end.

Fixpoint race_cl_go (ops obs : list word) : list (Z * Z * bool) :=
  match ops, obs with
  | op :: r, o :: r' => race_cl op o ++ race_cl_go r r'
  | [], [] => []
  | _, _ => [(0, 0, false)]
  end.

Definition clauses (cfg : word) (ops obs : list word) : list (Z * Z * bool) :=
  match cfg with
  | [m] => cl_go m (mkt [] false false) ops obs
  | [_; 1] => race_cl_go ops obs
  | _ => [(0, 0, false)]
  end.

Definition holds_b (cfg : word) (ops obs : list word) : bool :=
  forallb (fun c => snd c) (clauses cfg ops obs).

Definition check_case (c : case) : verdict :=
  decide (run (c_cfg c) (c_ops c)) (c_obs c) (clauses (c_cfg c) (c_ops c) (c_obs c)).
