(* C22: deadlines and cancellation propagate to both ends.
   Client side: the places where an RPC can block -
     1 pickerWrapper.pick (no READY sub-channel)            select { ctx.Done, blockingCh }
     2 http2Client.NewStream waiting for stream quota       select { ctx.Done, ch, goAway, ctxDone }
     3 SendMsg waiting for flow-control / write quota       select { s.ctx.Done, wq.ch, done }
     4 ClientStream.Header() waiting for the server header  select { s.ctx.Done, headerChan }
     5 RecvMsg waiting for data (recvBufferReader.read)     select { ctxDone, recv.get() }
     6 a unary RPC waiting for the rest of a message's payload after its 5-byte prefix
       (recvBufferReader.readClient)                        select { ctxDone, recv.get() }
       - unary RPCs have no context-watcher goroutine, this select is their only exit; it closes
       the stream, which sends RST_STREAM(CANCEL) to the peer
     7 the back-off sleep before a retry attempt (csAttempt.shouldRetry)  select { t.C, cs.ctx.Done }
       - the RPC's first attempt reached a handler, which answered trailers-only with a retryable
       status; the exit returns the CONTEXT's status, not the failed attempt's
   - each is a select that includes the RPC's context, so a done context enables the exit,
   and the error is mapped by ContextErr / toRPCErr: DeadlineExceeded -> DEADLINE_EXCEEDED (4),
   Canceled -> CANCELLED (1).
   Server side (http2_server.operateHeaders): the handler context gets the deadline
   arrival + decodeTimeout(grpc-timeout), where the client sent grpc-timeout =
   EncodeDuration(remaining) (model/Timeout.v, C07); a timer at that deadline and a client
   RST_STREAM(CANCEL) cancel the handler's context.
   The model is a table of these facts; what ties it to the code is the correspondence run
   (every blocking point provoked on a real ClientConn / Server under virtual time).
   No proofs in this file. *)
From Coq Require Import List ZArith Bool.
From VLib Require Import Codec Machine.
From VModel Require Import Timeout.
Import ListNotations.
Open Scope Z_scope.

(* kind: 1 the context is cancelled, 2 its deadline passes *)
Definition status_of (kind : Z) : Z := if kind =? 2 then 4 else 1.

(* does an RPC blocked at this point have a stream on the server? *)
Definition reaches_server (point : Z) : bool := ((3 <=? point) && (point <=? 5)) || (point =? 7).

Definition valid_point (point : Z) : bool := (1 <=? point) && (point <=? 7).

(* is the peer told (handler context cancelled / RST_STREAM received by the raw peer of point 6)? *)
Definition peer_told (point : Z) : bool := reaches_server point || (point =? 6).

(* the deadline the server handler sees, relative to the arrival of the request, for a
   client whose remaining time at send is d nanoseconds *)
Definition server_timeout (d : Z) : Z := match decode (encode d) with Some v => v | None => 0 end.

(* op [point; kind; t; d]: an RPC with timeout d ns is driven to block at [point]; kind 1: the
   application cancels after t ns (t < d), kind 2: nothing else happens (the deadline passes)
   obs [status code; ns between the context becoming done and the blocked call returning;
        1 iff a handler ran; handler deadline minus client deadline in ns; 1 iff the handler's
        context was cancelled once the client was done (point 6, whose peer is a scripted raw
        HTTP/2 endpoint and not a grpc server: 1 iff that peer received RST_STREAM for the RPC)] *)
Definition op_ok (op : word) : bool :=
  match op with
  | [point; kind; t; d] => valid_point point && ((kind =? 1) || (kind =? 2)) && (0 <? t) && (t <? d) && (d <=? max_i64)
  | _ => false
  end.

Definition run_op (op : word) : option word :=
  match op with
  | [point; kind; t; d] =>
    if op_ok op then
      Some (if reaches_server point then [status_of kind; 0; 1; server_timeout d - d; 1]
            else [status_of kind; 0; 0; 0; b2z (peer_told point)])
    else None
  | _ => None
  end.

Fixpoint run_ops (ops : list word) : option (list word) :=
  match ops with
  | [] => Some []
  | op :: r => match run_op op, run_ops r with
               | Some o, Some os => Some (o :: os)
               | _, _ => None
               end
  end.
Definition run (cfg : word) (ops : list word) : option (list word) := run_ops ops.

(* clauses
   1 the client call ends with DEADLINE_EXCEEDED when the deadline passed, CANCELLED when the
     application cancelled
   2 it ends within a bounded time of the context becoming done (virtual time: at most 1 ms)
   3 an RPC blocked after its request went out (points 3-5) was given to a handler, and the
     handler's deadline is no earlier than the client's (and less than one hour later)
   4 the handler's context is cancelled when the client cancels or the deadline passes (point 6:
     the raw peer received RST_STREAM, which is what cancels a server's handler) *)
Definition clause_op (op obs : word) : list (Z * Z * bool) :=
  match op, obs with
  | [point; kind; t; d], [code; lat; reached; delta; hcan] =>
    [(1, code, code =? status_of kind);
     (2, lat, (0 <=? lat) && (lat <=? 1000000));
     (3, delta, if reaches_server point || (reached =? 1)
                then (reached =? 1) && (0 <=? delta) && (delta <? ns_hour) else true);
     (4, hcan, if peer_told point || (reached =? 1) then hcan =? 1 else true)]
  | _, _ => [(0, 0, false)]
  end.

Fixpoint clauses_ops (ops obs : list word) : list (Z * Z * bool) :=
  match ops, obs with
  | op :: r, o :: r' => clause_op op o ++ clauses_ops r r'
  | [], [] => []
  | _, _ => [(0, 0, false)]
  end.
Definition clauses (cfg : word) (ops obs : list word) : list (Z * Z * bool) := clauses_ops ops obs.
Definition holds_b (cfg : word) (ops obs : list word) : bool := forallb (fun c => snd c) (clauses cfg ops obs).

Definition check_case (c : case) : verdict :=
  decide (run (c_cfg c) (c_ops c)) (c_obs c) (clauses (c_cfg c) (c_ops c) (c_obs c)).
