(* C38: weighted random choice, xDS drops, circuit breaking, EDF selector.
   Transcribes
     internal/wrr/random.go                          randomWRR.Add / Next (sort.Search)
     internal/wrr/edf.go                             edfWrr.Add / Next (float64 deadlines)
     internal/xds/balancer/clusterimpl/clusterimpl.go dropRequestsPerMillion
     internal/xds/balancer/clusterimpl/picker.go      gcd, newDropper, dropper.drop, picker.Pick
     internal/xds/xdsclient/requests_counter.go       StartRequest / EndRequest (uint32)
   Executable definitions only; proofs are in proof/WRand_proofs.v. *)
From Coq Require Import List ZArith Bool Floats Uint63.
From VLib Require Import Codec Machine.
Import ListNotations.
Open Scope Z_scope.

Definition zlen {A} (l : list A) : Z := Z.of_nat (length l).

(* ------------------------------------------------------------------ *)
(* randomWRR                                                           *)

(* accumulatedWeight of each item, in Add order *)
Fixpoint accum (acc : Z) (ws : list Z) : list Z :=
  match ws with
  | [] => []
  | w :: r => (acc + w) :: accum (acc + w) r
  end.

(* equalWeights: every Add compares with the previous item's weight *)
Fixpoint adj_eq (ws : list Z) : bool :=
  match ws with
  | a :: ((b :: _) as r) => (b =? a) && adj_eq r
  | _ => true
  end.

(* sort.Search(n, f): i, j := 0, n; for i < j { h := (i+j)/2; if !f(h) {i = h+1} else {j = h} } *)
Fixpoint bsearch (fuel : nat) (f : Z -> bool) (i j : Z) : Z :=
  match fuel with
  | O => i
  | S k => if i <? j
           then let h := (i + j) / 2 in
                if f h then bsearch k f i h else bsearch k f (h + 1) j
           else i
  end.

Definition nthz (l : list Z) (i : Z) : Z := nth (Z.to_nat i) l 0.

(* the argument Next passes to randInt64n; -1 when the random source is not consulted *)
Definition rw_bound (ws : list Z) : Z :=
  if zlen ws =? 0 then -1 else
  if adj_eq ws then zlen ws else last (accum 0 ws) 0.

(* the pinned random source: value r, reduced into [0, bound) *)
Definition rsrc (r bound : Z) : Z := if bound <=? 0 then 0 else r mod bound.

(* index of the item Next returns when the random source yields r; -1 = nil *)
Definition rw_next (ws : list Z) (r : Z) : Z :=
  if zlen ws =? 0 then -1 else
  if adj_eq ws then rsrc r (zlen ws) else
  let acc := accum 0 ws in
  let rw := rsrc r (last acc 0) in
  bsearch (S (length ws)) (fun i => nthz acc i >? rw) 0 (zlen ws).

(* ------------------------------------------------------------------ *)
(* drops                                                               *)
Definition million : Z := 1000000.

(* dropRequestsPerMillion(numerator, denominator uint32) *)
Definition rpm_of (num den : Z) : Z :=
  let x := u64 (num * million) / den in
  if x >? million then million else u32 x.

(* gcd(a, b uint32): for b != 0 { t := b; b = a % b; a = t }; None = out of fuel *)
Fixpoint gcd_fuel (fuel : nat) (a b : Z) : option Z :=
  match fuel with
  | O => None
  | S k => if b =? 0 then Some a else gcd_fuel k b (a mod b)
  end.
Definition gcd_go (a b : Z) : Z := match gcd_fuel 64 a b with Some g => g | None => 0 end.

(* newDropper: weights of the items true / false *)
Definition dropper_ws (rpm : Z) : list Z :=
  let g := gcd_go rpm million in
  [rpm / g; u32 (million - rpm) / g].

(* dropper.drop with the random source yielding r: item 0 is `true` *)
Definition drop (rpm r : Z) : bool := rw_next (dropper_ws rpm) r =? 0.

(* ------------------------------------------------------------------ *)
(* picker.Pick: category drops, then circuit breaking                  *)
Fixpoint first_drop (j : Z) (rpms rs : list Z) : option Z :=
  match rpms with
  | [] => None
  | rpm :: rest =>
    let r := match rs with [] => 0 | r :: _ => r end in
    if drop rpm r then Some j else first_drop (j + 1) rest (tl rs)
  end.

(* counter value (uint32, as the code computes it) and number of admitted RPCs whose Done
   has not run (ledger) *)
Record cb := mkcb { cb_num : Z; cb_out : Z }.

(* result codes: 0 admitted, 10+j dropped by category j, 2 circuit-breaker drop,
   3 inner pick failed (request count released immediately) *)
Definition pick (rpms : list Z) (c : cb) (st mx fail : Z) (rs : list Z) : cb * Z :=
  match (if st =? 2 then first_drop 0 rpms rs else None) with
  | Some j => (c, 10 + j)
  | None =>
    if cb_num c >=? mx then (c, 2) else
    let n1 := u32 (cb_num c + 1) in
    if fail =? 1 then (mkcb (u32 (n1 + (2 ^ 32 - 1))) (cb_out c), 3)
    else (mkcb n1 (cb_out c + 1), 0)
  end.

Definition done (c : cb) : cb :=
  if cb_out c >? 0 then mkcb (u32 (cb_num c + (2 ^ 32 - 1))) (cb_out c - 1) else c.

(* load reporting of one Pick: CallDropped is called once iff the RPC is dropped (by a category
   or by circuit breaking), and the droppers after the first one that fires are not consulted *)
Definition ndrop (res : Z) : Z := if (10 <=? res) || (res =? 2) then 1 else 0.
Definition nconsult (rpms : list Z) (st res : Z) : Z :=
  if st =? 2 then (if 10 <=? res then res - 10 + 1 else zlen rpms) else 0.

(* ------------------------------------------------------------------ *)
(* EDF (float64)                                                       *)
Record edfe := mke { e_dl : float; e_w : Z; e_off : Z }.

Definition wfloat (w : Z) : float := PrimFloat.of_uint63 (Uint63.of_Z w).
Definition period (w : Z) : float := PrimFloat.div PrimFloat.one (wfloat w).

Definition less (a b : edfe) : bool :=
  PrimFloat.ltb (e_dl a) (e_dl b) || (PrimFloat.eqb (e_dl a) (e_dl b) && (e_off a <? e_off b)).

Fixpoint argmin (best : edfe) (l : list edfe) : edfe :=
  match l with
  | [] => best
  | e :: r => argmin (if less e best then e else best) r
  end.

Fixpoint edf_init (off : Z) (ws : list Z) : list edfe :=
  match ws with
  | [] => []
  | w :: r => mke (PrimFloat.add PrimFloat.zero (period w)) w off :: edf_init (off + 1) r
  end.

Definition edf_step (l : list edfe) : list edfe * Z :=
  match l with
  | [] => ([], -1)
  | e0 :: r =>
    let m := argmin e0 r in
    let t := e_dl m in
    (map (fun e => if e_off e =? e_off m then mke (PrimFloat.add t (period (e_w m))) (e_w m) (e_off m) else e) l,
     e_off m)
  end.

Fixpoint edf_run (k : nat) (l : list edfe) : list Z :=
  match k with
  | O => []
  | S k' => let '(l', i) := edf_step l in i :: edf_run k' l'
  end.

(* exact-arithmetic EDF (the rational idealisation of edfWrr): with exact deadlines the
   deadline of item i after c_i picks is (c_i+1)/w_i, so the state is the vector of pick
   counts; Next picks the least (c_i+1)/w_i, ties to the lower index (orderOffset) *)
Fixpoint q_argmin (bi bc bw : Z) (i : Z) (cs ws : list Z) : Z * Z * Z :=
  match cs, ws with
  | c :: cr, w :: wr =>
    if (c + 1) * bw <? (bc + 1) * w then q_argmin i c w (i + 1) cr wr
    else q_argmin bi bc bw (i + 1) cr wr
  | _, _ => (bi, bc, bw)
  end.
Definition q_next (cs ws : list Z) : Z :=
  match cs, ws with
  | c :: cr, w :: wr => fst (fst (q_argmin 0 c w 1 cr wr))
  | _, _ => -1
  end.
Fixpoint bump (i : Z) (cs : list Z) : list Z :=
  match cs with
  | [] => []
  | c :: r => if i =? 0 then (c + 1) :: r else c :: bump (i - 1) r
  end.
(* pick counts after k picks *)
Fixpoint q_run (k : nat) (cs ws : list Z) : list Z :=
  match k with
  | O => cs
  | S k' => q_run k' (bump (q_next cs ws) cs) ws
  end.

(* ------------------------------------------------------------------ *)
(* ops; cfg = [num1; den1; num2; den2; ...] drop categories of the picker
   [1; w1; ...; wn]           randomWRR with these weights, every value of the random source:
                              obs [bound; idx(r=0); ...; idx(r=bound-1)]   (bound <= 4000, else [bound])
   [2; r; w1; ...; wn]        one Next with random value r                  obs [bound; idx]
   [3; num; den]              dropRequestsPerMillion + newDropper, every random value:
                              obs [rpm; bound; d(0); ...; d(bound-1)]       (bound <= 4000, else [rpm; bound])
   [4; num; den; r]           one dropper.drop with random value r          obs [rpm; bound; d]
   [5; st; max; fail; r1...]  picker.Pick (child state st, countMax max, inner pick fails iff fail=1)
                              obs [result; inflight; CallDropped calls; droppers consulted]
   [6]                        Done of one admitted RPC (ignored if none)     obs [inflight]
   [7; k; w1; ...; wn]        EDF with these weights, k picks               obs [idx1; ...; idxk]
   [8; m1; m2; k]             real cluster_impl balancer: max_requests m1, update to m2, k picks
                              obs [new picker pushed by the update; picks admitted]  *)
Definition maxEnum : Z := 4000.
Definition maxEdf : Z := 2000.
Definition maxCfgPicks : Z := 64.

Definition zrange (n : Z) : list Z := map Z.of_nat (seq 0 (Z.to_nat n)).

Fixpoint pairs (l : list Z) : option (list (Z * Z)) :=
  match l with
  | [] => Some []
  | a :: b :: r => match pairs r with Some p => Some ((a, b) :: p) | None => None end
  | _ => None
  end.

Definition cfg_rpms (cfg : word) : option (list Z) :=
  match pairs cfg with
  | Some ps => Some (map (fun p => rpm_of (fst p) (snd p)) ps)
  | None => None
  end.

Inductive opc :=
| ORwAll (ws : list Z) | ORwOne (r : Z) (ws : list Z)
| ODropAll (num den : Z) | ODropOne (num den r : Z)
| OPick (st mx fail : Z) (rs : list Z) | ODone
| OEdf (k : Z) (ws : list Z)
| OCfg (m1 m2 k : Z).

Definition decode (op : word) : option opc :=
  match op with
  | 1 :: ws => Some (ORwAll ws)
  | 2 :: r :: ws => Some (ORwOne r ws)
  | [3; num; den] => Some (ODropAll num den)
  | [4; num; den; r] => Some (ODropOne num den r)
  | 5 :: st :: mx :: fail :: rs => Some (OPick st mx fail rs)
  | [6] => Some ODone
  | 7 :: k :: ws => Some (OEdf k ws)
  | [8; m1; m2; k] => Some (OCfg m1 m2 k)
  | _ => None
  end.

Definition step (rpms : list Z) (c : cb) (op : opc) : cb * word :=
  match op with
  | ORwAll ws =>
    let b := rw_bound ws in
    (c, if b <=? maxEnum then b :: map (rw_next ws) (zrange b) else [b])
  | ORwOne r ws => (c, [rw_bound ws; rw_next ws r])
  | ODropAll num den =>
    let rpm := rpm_of num den in
    let b := rw_bound (dropper_ws rpm) in
    (c, if b <=? maxEnum then rpm :: b :: map (fun r => b2z (drop rpm r)) (zrange b) else [rpm; b])
  | ODropOne num den r =>
    let rpm := rpm_of num den in
    (c, [rpm; rw_bound (dropper_ws rpm); b2z (drop rpm r)])
  | OPick st mx fail rs =>
    let '(c', res) := pick rpms c st mx fail rs in
    (c', [res; cb_num c'; ndrop res; nconsult rpms st res])
  | ODone => let c' := done c in (c', [cb_num c'])
  | OCfg m1 m2 k =>
    (* a fresh cluster_impl balancer (fresh request counter): child READY under
       max_requests = m1, then a config update changing only max_requests to m2, then k picks
       (none finishes) through the picker the channel holds: was a new picker pushed by the
       second update, and how many picks were admitted *)
    (c, [b2z (negb (m2 =? m1)); Z.min (Z.min (Z.max k 0) maxCfgPicks) m2])
  | OEdf k ws =>
    (c, edf_run (Z.to_nat (Z.min (Z.max k 0) maxEdf)) (edf_init 0 ws))
  end.

Fixpoint run_from (rpms : list Z) (c : cb) (ops : list word) : option (list word) :=
  match ops with
  | [] => Some []
  | op :: r =>
    match decode op with
    | None => None
    | Some oc =>
      let '(c', o) := step rpms c oc in
      match run_from rpms c' r with Some os => Some (o :: os) | None => None end
    end
  end.
(* final counter state after a list of operations *)
Fixpoint final (rpms : list Z) (c : cb) (ops : list word) : option cb :=
  match ops with
  | [] => Some c
  | op :: r => match decode op with
               | None => None
               | Some oc => final rpms (fst (step rpms c oc)) r
               end
  end.
(* every pick of the list uses a limit of at most M *)
Definition picks_max (M : Z) (ops : list word) : bool :=
  forallb (fun op => match decode op with Some (OPick _ mx _ _) => mx <=? M | _ => true end) ops.
Definition cb0 : cb := mkcb 0 0.
Definition run (cfg : word) (ops : list word) : option (list word) :=
  match cfg_rpms cfg with
  | Some rpms => run_from rpms cb0 ops
  | None => None
  end.

(* ------------------------------------------------------------------ *)
(* the property as a predicate on observations                          *)
Fixpoint cnt (s : Z) (l : list Z) : Z :=
  match l with
  | [] => 0
  | x :: r => (if x =? s then 1 else 0) + cnt s r
  end.

Fixpoint sumz (l : list Z) : Z := match l with [] => 0 | x :: r => x + sumz r end.

(* item i is returned for exactly w_i of the [total] values of the random source
   (for exactly one of the n values when all weights are equal) *)
Fixpoint exact_from (i : Z) (ws : list Z) (eq : bool) (res : list Z) : bool :=
  match ws with
  | [] => true
  | w :: r => (cnt i res =? (if eq then 1 else w)) && exact_from (i + 1) r eq res
  end.

Definition ws_ok (ws : list Z) : bool :=
  forallb (fun w => 0 <=? w) ws && (sumz ws <? 2 ^ 63).

(* clauses:
   1  weighted random: over all values of the random source each item is returned for
      exactly weight-many of total-many values (uniform when all weights are equal); a
      single draw returns the item whose cumulative interval contains the value, never a
      zero-weight item unless all weights are equal
   2  drops: rpm = min(floor(num*10^6/den), 10^6) and the dropper returns true for exactly
      the fraction rpm/10^6 of the values of the random source
   3  picker: category drops only while the child is READY; a circuit-breaker drop iff
      in-flight >= max; admission only below max; the counter equals the number of admitted
      unfinished RPCs (so it is 0 when all have finished)
   4  EDF: after every k*W picks (W = sum of weights) item i has been returned k*w_i times,
      up to 1 (float64 deadlines) *)
Definition clause_rw_all (i : Z) (ws : list Z) (o : word) : list (Z * Z * bool) :=
  if negb (ws_ok ws) then [] else
  if zlen ws =? 0 then [(1, i, word_eqb o [-1])] else
  match o with
  | [b] => [(1, i, (maxEnum <? b) && (b =? (if adj_eq ws then zlen ws else sumz ws)))]
  | b :: res =>
    [(1, i, (b =? (if adj_eq ws then zlen ws else sumz ws)) && (zlen res =? b) &&
            exact_from 0 ws (adj_eq ws) res)]
  | _ => [(0, i, false)]
  end.

Definition clause_rw_one (i : Z) (r : Z) (ws : list Z) (o : word) : list (Z * Z * bool) :=
  if negb (ws_ok ws) then [] else
  match o with
  | [b; idx] =>
    [(1, i, if zlen ws =? 0 then (idx =? -1) else
            (0 <=? idx) && (idx <? zlen ws) &&
            (if adj_eq ws then (b =? zlen ws) && (idx =? rsrc r b)
             else (b =? sumz ws) &&
                  let lo := sumz (firstn (Z.to_nat idx) ws) in
                  (lo <=? rsrc r b) && (rsrc r b <? lo + nthz ws idx)))]
  | _ => [(0, i, false)]
  end.

Definition den_ok (num den : Z) : bool :=
  (0 <=? num) && (num <? 2 ^ 32) && (0 <? den) && (den <? 2 ^ 32).

Definition clause_drop_all (i num den : Z) (o : word) : list (Z * Z * bool) :=
  if negb (den_ok num den) then [] else
  match o with
  | rpm :: b :: ds =>
    let rpm_exp := Z.min (num * million / den) million in
    [(2, i, (rpm =? rpm_exp) && (0 <? b) &&
            match ds with
            | [] => maxEnum <? b
            | _ => (zlen ds =? b) && (cnt 1 ds * million =? rpm * b) && (cnt 1 ds + cnt 0 ds =? b)
            end)]
  | _ => [(0, i, false)]
  end.

Definition clause_drop_one (i num den r : Z) (o : word) : list (Z * Z * bool) :=
  if negb (den_ok num den) then [] else
  match o with
  | [rpm; b; d] =>
    let rpm_exp := Z.min (num * million / den) million in
    (* true exactly for the first rpm*b/10^6 values of the b-valued random source *)
    [(2, i, (rpm =? rpm_exp) && (0 <? b) && (million mod b =? 0) && ((rpm * b) mod million =? 0) &&
            (d =? b2z (rsrc r b <? rpm * b / million)))]
  | _ => [(0, i, false)]
  end.

(* the dropper of a category with [rpm] drops per million, as the property states it: a
   source with b = 10^6/gcd values, true for the first rpm/gcd of them *)
Definition drop_spec (rpm r : Z) : bool :=
  let g := Z.gcd rpm million in rsrc r (million / g) <? rpm / g.
Fixpoint first_drop_spec (j : Z) (rpms rs : list Z) : option Z :=
  match rpms with
  | [] => None
  | rpm :: rest =>
    let r := match rs with [] => 0 | r :: _ => r end in
    if drop_spec rpm r then Some j else first_drop_spec (j + 1) rest (tl rs)
  end.

Definition clause_pick (i : Z) (rpms : list Z) (c : cb) (st mx fail : Z) (rs : list Z) (o : word)
  : list (Z * Z * bool) :=
  match o with
  | [res; n; nd; nc] =>
    [(3, i,
      (* drops by category: only while READY, and exactly the configured fraction *)
      (match (if st =? 2 then first_drop_spec 0 rpms rs else None) with
       | Some j => res =? 10 + j
       | None => res <? 10
       end) &&
      (* circuit breaking against the ledger of admitted, unfinished RPCs *)
      (if res =? 0 then (cb_out c <? mx) && (n =? cb_out c + 1)
       else if res =? 2 then (mx <=? cb_out c) && (n =? cb_out c)
       else n =? cb_out c));
     (* one dropped RPC is one drop event: CallDropped once iff dropped, the first firing
        category wins and later droppers are not consulted *)
     (3, i, (nd =? ndrop res) && (nc =? nconsult rpms st res))]
  | _ => [(0, i, false)]
  end.

Definition clause_done (i : Z) (c : cb) (o : word) : list (Z * Z * bool) :=
  match o with
  | [n] => [(3, i, n =? cb_out (done c))]
  | _ => [(0, i, false)]
  end.

Fixpoint edf_dev_from (i : Z) (ws : list Z) (k : Z) (res : list Z) : bool :=
  match ws with
  | [] => true
  | w :: r => (Z.abs (cnt i res - k * w) <=? 1) && edf_dev_from (i + 1) r k res
  end.

Definition clause_edf (i : Z) (k : Z) (ws : list Z) (o : word) : list (Z * Z * bool) :=
  let W := sumz ws in
  if negb (forallb (fun w => (0 <? w) && (w <? 2 ^ 53)) ws) || (W =? 0) then [] else
  let full := zlen o / W in
  [(4, i, edf_dev_from 0 ws full (firstn (Z.to_nat (full * W)) o))].

Definition clause_op (i : Z) (rpms : list Z) (c : cb) (op : opc) (o : word) : list (Z * Z * bool) :=
  match op with
  | ORwAll ws => clause_rw_all i ws o
  | ORwOne r ws => clause_rw_one i r ws o
  | ODropAll num den => clause_drop_all i num den o
  | ODropOne num den r => clause_drop_one i num den r o
  | OPick st mx fail rs => clause_pick i rpms c st mx fail rs o
  | ODone => clause_done i c o
  | OEdf k ws => clause_edf i k ws o
  | OCfg m1 m2 k =>
    (* circuit breaking follows the LATEST max_requests: with none of the RPCs finishing,
       exactly min(k, m2) of k sequential picks are admitted *)
    match o with
    | [p; adm] => [(3, i, adm =? Z.min (Z.min (Z.max k 0) maxCfgPicks) m2)]
    | _ => [(0, i, false)]
    end
  end.

Fixpoint clauses_from (i : Z) (rpms : list Z) (c : cb) (ops obs : list word) : list (Z * Z * bool) :=
  match ops, obs with
  | op :: r, o :: r' =>
    match decode op with
    | None => [(0, i, false)]
    | Some oc => clause_op i rpms c oc o ++ clauses_from (i + 1) rpms (fst (step rpms c oc)) r r'
    end
  | [], [] => []
  | _, _ => [(0, i, false)]
  end.
Definition clauses (cfg : word) (ops obs : list word) : list (Z * Z * bool) :=
  match cfg_rpms cfg with
  | Some rpms => clauses_from 0 rpms cb0 ops obs
  | None => [(0, 0, false)]
  end.

(* clause 4 (EDF in float64) is checked on traces only; it is not part of the bridge *)
Definition holds_b (cfg : word) (ops obs : list word) : bool :=
  forallb (fun c => (fst (fst c) =? 4) || snd c) (clauses cfg ops obs).

Definition op_wf (op : word) : bool :=
  match decode op with
  | Some (OPick st mx fail rs) => (0 <=? mx) && (mx <? 2 ^ 32)      (* countMax is a uint32 *)
  | Some _ => true
  | None => false
  end.
Definition cfg_wf (cfg : word) : bool :=
  match pairs cfg with
  | Some ps => forallb (fun p => den_ok (fst p) (snd p)) ps
  | None => false
  end.

Definition check_case (c : case) : verdict :=
  decide (run (c_cfg c) (c_ops c)) (c_obs c) (clauses (c_cfg c) (c_ops c) (c_obs c)).
