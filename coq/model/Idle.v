(* C29: internal/idle.Manager - the lock-free idleness protocol.
   Transcribes internal/idle/idle.go at instruction level: every sync/atomic call, every
   idleMu.Lock/Unlock and every ClientConn callback is one instruction of a per-function
   program with a program counter.  Reads/writes of the mutex-protected plain fields
   (actuallyIdle, timer) are fused with a neighbouring instruction of the same critical
   section (no other thread can access them while idleMu is held).
   Any number of threads; a thread at a rest point may call any API function.
   No proofs in this file. *)
From Coq Require Import List ZArith Bool.
From VLib Require Import Codec Machine.
Import ListNotations.
Open Scope Z_scope.

Definition maxI32 : Z := 2147483647.           (* math.MaxInt32 *)

(* observable events.  EvEnter/EvExit = the ClientConn callbacks; EvBeginRet = OnCallBegin
   returns; EvEndCall = OnCallEnd is called; EvClose = Close stores closed=1 *)
Inductive event := EvEnter | EvExit | EvBeginRet | EvEndCall | EvClose.

Record st := mk {
  count : Z;            (* activeCallsCount (int32) *)
  act : bool;           (* activeSinceLastTimerCheck *)
  closed : bool;
  aidle : bool;         (* actuallyIdle (under idleMu) *)
  mu : bool;            (* idleMu held *)
  timeout : Z;          (* immutable *)
  now : Z;              (* clock, ns *)
  lastEnd : Z;          (* lastCallEndTime *)
  timer : option Z;     (* deadline of the pending time.AfterFunc timer (under idleMu) *)
  ccidle : bool;        (* the ClientConn's view: last callback was EnterIdleMode (or none yet) *)
  log : list event      (* ghost: all events, newest first *)
}.

Definition set_count s v := mk v (act s) (closed s) (aidle s) (mu s) (timeout s) (now s) (lastEnd s) (timer s) (ccidle s) (log s).
Definition set_act s v := mk (count s) v (closed s) (aidle s) (mu s) (timeout s) (now s) (lastEnd s) (timer s) (ccidle s) (log s).
Definition set_closed s v := mk (count s) (act s) v (aidle s) (mu s) (timeout s) (now s) (lastEnd s) (timer s) (ccidle s) (log s).
Definition set_aidle s v := mk (count s) (act s) (closed s) v (mu s) (timeout s) (now s) (lastEnd s) (timer s) (ccidle s) (log s).
Definition set_mu s v := mk (count s) (act s) (closed s) (aidle s) v (timeout s) (now s) (lastEnd s) (timer s) (ccidle s) (log s).
Definition set_now s v := mk (count s) (act s) (closed s) (aidle s) (mu s) (timeout s) v (lastEnd s) (timer s) (ccidle s) (log s).
Definition set_lastEnd s v := mk (count s) (act s) (closed s) (aidle s) (mu s) (timeout s) (now s) v (timer s) (ccidle s) (log s).
Definition set_timer s v := mk (count s) (act s) (closed s) (aidle s) (mu s) (timeout s) (now s) (lastEnd s) v (ccidle s) (log s).
Definition set_ccidle s v := mk (count s) (act s) (closed s) (aidle s) (mu s) (timeout s) (now s) (lastEnd s) (timer s) v (log s).
Definition add_log s e := mk (count s) (act s) (closed s) (aidle s) (mu s) (timeout s) (now s) (lastEnd s) (timer s) (ccidle s) (e :: log s).

(* NewManager: begins in idle mode *)
Definition init_st (tmo t0 : Z) : st :=
  mk (- maxI32) false false true false tmo t0 0 None true [].

(* how an RPC's OnCallBegin ended: Unc = saw closed before counting itself;
   CntU = counted itself but ExitIdleMode saw closed (channel may still be idle);
   Prot = counted and the channel was not idle when OnCallBegin returned *)
Inductive ck := Unc | CntU | Prot.
Inductive caller := FromBegin | FromConnect.

Inductive pc :=
| Rest                       (* between API calls, not an RPC *)
| InCall (c : ck)            (* OnCallBegin returned, OnCallEnd not called yet *)
| Leaked                     (* OnCallEnd skipped its decrement (closed): terminal *)
(* OnCallBegin *)
| B0                         (* if m.isClosed() return *)
| B_add                      (* atomic.AddInt32(&count, 1) > 0 ? *)
| B_fast                     (* StoreInt32(&act, 1); return *)
| B_slow (pr : bool)         (* after m.ExitIdleMode(): StoreInt32(&act, 1); return *)
(* ExitIdleMode *)
| X_lock (k : caller)
| X_chk (k : caller)         (* isClosed() || !actuallyIdle ? return : cc.ExitIdleMode() *)
| X_add (k : caller)         (* AddInt32(&count, MaxInt32) *)
| X_clear (k : caller)       (* actuallyIdle = false *)
| X_reset (k : caller)       (* resetIdleTimerLocked(timeout) *)
| X_unlock (k : caller) (pr : bool)
(* OnCallEnd *)
| E0 (c : ck)                (* if m.isClosed() return *)
| E_time                     (* StoreInt64(&lastCallEndTime, now) *)
| E_add                      (* AddInt32(&count, -1) *)
(* handleIdleTimeout *)
| T0 | T1 | T2 | T3 | T4
| R_lock (d : Z)             (* resetIdleTimer(d): Lock *)
| R_body (d : Z)             (* resetIdleTimerLocked(d); Unlock *)
(* tryEnterIdleMode(chk) *)
| Y_cas (chk : bool)
| Y_lock (chk : bool)
| Y_load (chk : bool)        (* LoadInt32(&count) != -MaxInt32 ? *)
| Y_act                      (* chk && LoadInt32(&act) == 1 ? *)
| Y_undo (chk : bool)        (* AddInt32(&count, MaxInt32); return false *)
| Y_enter (chk : bool)       (* cc.EnterIdleMode(); actuallyIdle = true; return true *)
| Y_unlock (chk ok : bool)
(* Close *)
| C0 | C_lock | C_body.

Definition resetLocked (s : st) (d : Z) : st :=
  if closed s || (timeout s =? 0) || aidle s then s else set_timer s (Some (now s + d)).

(* where tryEnterIdleMode's "return false" continues: handleIdleTimeout resets the timer,
   EnterIdleModeForTesting just returns *)
Definition yfail (s : st) (chk : bool) : pc := if chk then R_lock (timeout s) else Rest.

(* one atomic instruction of the thread at pc p; None = p is a rest point or the thread is
   blocked on idleMu *)
Definition exec1 (s : st) (p : pc) : option (st * pc) :=
  match p with
  | Rest | InCall _ | Leaked => None
  | B0 => Some (if closed s then (add_log s EvBeginRet, InCall Unc) else (s, B_add))
  | B_add => let c := i32 (count s + 1) in
             Some (set_count s c, if c >? 0 then B_fast else X_lock FromBegin)
  | B_fast => Some (add_log (set_act s true) EvBeginRet, InCall Prot)
  | B_slow pr => Some (add_log (set_act s true) EvBeginRet, InCall (if pr then Prot else CntU))
  | X_lock k => if mu s then None else Some (set_mu s true, X_chk k)
  | X_chk k => Some (if closed s then (s, X_unlock k false)
                     else if negb (aidle s) then (s, X_unlock k true)
                     else (add_log (set_ccidle s false) EvExit, X_add k))
  | X_add k => Some (set_count s (i32 (count s + maxI32)), X_clear k)
  | X_clear k => Some (set_aidle s false, X_reset k)
  | X_reset k => Some (resetLocked s (timeout s), X_unlock k true)
  | X_unlock k pr => Some (set_mu s false, match k with FromBegin => B_slow pr | FromConnect => Rest end)
  | E0 c => let s1 := add_log s EvEndCall in
            Some (if closed s then (s1, match c with Unc => Rest | _ => Leaked end) else (s1, E_time))
  | E_time => Some (set_lastEnd s (now s), E_add)
  | E_add => Some (set_count s (i32 (count s - 1)), Rest)
  | T0 => Some (s, if closed s then Rest else T1)
  | T1 => Some (s, if count s >? 0 then R_lock (timeout s) else T2)
  | T2 => Some (s, if act s then T3 else Y_cas true)
  | T3 => Some (set_act s false, T4)
  | T4 => Some (s, R_lock (lastEnd s - now s + timeout s))
  | R_lock d => if mu s then None else Some (set_mu s true, R_body d)
  | R_body d => Some (set_mu (resetLocked s d) false, Rest)
  | Y_cas chk => Some (if count s =? 0 then (set_count s (- maxI32), Y_lock chk) else (s, yfail s chk))
  | Y_lock chk => if mu s then None else Some (set_mu s true, Y_load chk)
  | Y_load chk => Some (s, if negb (count s =? - maxI32) then Y_undo chk
                           else if chk then Y_act else Y_enter chk)
  | Y_act => Some (s, if act s then Y_undo true else Y_enter true)
  | Y_undo chk => Some (set_count s (i32 (count s + maxI32)), Y_unlock chk false)
  | Y_enter chk => Some (add_log (set_aidle (set_ccidle s true) true) EvEnter, Y_unlock chk true)
  | Y_unlock chk ok => Some (set_mu s false, if ok then Rest else yfail s chk)
  | C0 => Some (add_log (set_closed s true) EvClose, C_lock)
  | C_lock => if mu s then None else Some (set_mu s true, C_body)
  | C_body => Some (set_mu (set_timer s None) false, Rest)
  end.

(* API calls available at a rest point: OnCallBegin, the timer callback, Connect ->
   ExitIdleMode, Close, EnterIdleModeForTesting; an RPC calls OnCallEnd *)
Definition calls (p : pc) : list pc :=
  match p with
  | Rest => [B0; T0; X_lock FromConnect; C0; Y_cas false]
  | InCall c => [E0 c]
  | _ => []
  end.

(* ---- interleaving semantics: a pool of threads, one instruction per step ---- *)
Inductive tstep : st -> pc -> st -> pc -> Prop :=
| ts_call : forall s p q, In q (calls p) -> tstep s p s q
| ts_instr : forall s p s' p', exec1 s p = Some (s', p') -> tstep s p s' p'.

Inductive step : st * list pc -> st * list pc -> Prop :=
| step_thread : forall s l1 p l2 s' p', tstep s p s' p' ->
    step (s, l1 ++ p :: l2) (s', l1 ++ p' :: l2)
| step_tick : forall s ts d, 0 <= d -> step (s, ts) (set_now s (now s + d), ts)
| step_fire : forall s ts, step (s, ts) (set_timer s None, ts).   (* the runtime consumes the pending
     timer; the callback itself is a thread calling T0, which the semantics allows at any time *)

Definition initial (x : st * list pc) : Prop :=
  exists tmo t0 n, x = (init_st tmo t0, repeat Rest n).

Inductive reachable : st * list pc -> Prop :=
| reach_init : forall x, initial x -> reachable x
| reach_step : forall x y, reachable x -> step x y -> reachable y.

(* ---- the property as an automaton over event logs ---- *)
Definition sst := (bool * Z * bool)%type.         (* channel idle, RPCs in progress, closed *)
Definition sst0 : sst := (true, 0, false).

(* after Close the channel is shutting down: everything is accepted *)
Definition spec_step (x : sst) (e : event) : option sst :=
  let '(i, a, c) := x in
  if c then Some x else
  match e with
  | EvEnter => if negb i && (a =? 0) then Some (true, a, c) else None
  | EvExit => if i then Some (false, a, c) else None
  | EvBeginRet => if negb i then Some (i, a + 1, c) else None
  | EvEndCall => Some (i, a - 1, c)
  | EvClose => Some (i, a, true)
  end.

(* which clause a rejected event violates: 1 enter-idle under an active RPC,
   2 OnCallBegin returned while idle, 3 enter/exit do not alternate *)
Definition spec_clause (x : sst) (e : event) : Z :=
  let '(i, a, c) := x in
  match e with
  | EvEnter => if i then 3 else 1
  | EvExit => 3
  | EvBeginRet => 2
  | _ => 0
  end.

(* newest-first log -> automaton state *)
Fixpoint spec_state (l : list event) : option sst :=
  match l with
  | [] => Some sst0
  | e :: r => match spec_state r with Some x => spec_step x e | None => None end
  end.

(* chronological run *)
Fixpoint spec_run (x : sst) (l : list event) : option sst :=
  match l with
  | [] => Some x
  | e :: r => match spec_step x e with Some y => spec_run y r | None => None end
  end.

(* enter/exit alternation alone (holds even after Close): newest-first log -> idle flag *)
Fixpoint alt_state (l : list event) : option bool :=
  match l with
  | [] => Some true
  | e :: r => match alt_state r with
              | None => None
              | Some i => match e with
                          | EvEnter => if i then None else Some true
                          | EvExit => if i then Some false else None
                          | _ => Some i
                          end
              end
  end.

(* ---- sequential scripts (correspondence with the real Manager under synctest) ---- *)
Definition is_rest (p : pc) : bool :=
  match p with Rest | InCall _ | Leaked => true | _ => false end.

(* run one thread until it reaches a rest point *)
Fixpoint complete (fuel : nat) (s : st) (p : pc) : option (st * pc) :=
  match fuel with
  | O => None
  | S f => match exec1 s p with
           | None => if is_rest p then Some (s, p) else None
           | Some (s', p') => complete f s' p'
           end
  end.

(* fire every timer due up to [target] *)
Fixpoint advance (fuel : nat) (s : st) (target : Z) : option (st * nat) :=
  match fuel with
  | O => None
  | S f =>
    match timer s with
    | Some t =>
      if t <=? target then
        match complete 40 (set_timer (set_now s (Z.max (now s) t)) None) T0 with
        | Some (s2, Rest) => match advance f s2 target with
                             | Some (s3, n) => Some (s3, S n)
                             | None => None
                             end
        | _ => None
        end
      else Some (set_now s (Z.max (now s) target), O)
    | None => Some (set_now s (Z.max (now s) target), O)
    end
  end.

Definition ev_code (e : event) : Z :=
  match e with EvEnter => 0 | EvExit => 1 | EvBeginRet => 2 | EvEndCall => 3 | EvClose => 4 end.
Definition ev_of (z : Z) : option event :=
  if z =? 0 then Some EvEnter else if z =? 1 then Some EvExit else if z =? 2 then Some EvBeginRet
  else if z =? 3 then Some EvEndCall else if z =? 4 then Some EvClose else None.

(* events logged between two states, chronological *)
Definition new_events (old new : list event) : list event :=
  rev (firstn (length new - length old) new).

(* first RPC in progress in the list of used threads *)
Fixpoint find_call (u : list pc) : option (list pc * ck * list pc) :=
  match u with
  | [] => None
  | InCall c :: r => Some ([], c, r)
  | p :: r => match find_call r with
              | Some (a, c, b) => Some (p :: a, c, b)
              | None => None
              end
  end.

Definition unit_ns : Z := 1000000.               (* the driver's time unit: 1ms *)
Definition epoch_ns : Z := 946684800000000000.   (* synctest bubbles start at 2000-01-01 UTC *)

(* sequential state: shared state, threads used so far (each op runs on a fresh thread,
   an End op continues the most recent RPC in progress) *)
Definition fresh_call (s : st) (used : list pc) (entry : pc) : option (st * list pc) :=
  match complete 40 s entry with Some (s', p) => Some (s', p :: used) | None => None end.

Definition seq_op (s : st) (used : list pc) (op : word) : option (st * list pc) :=
  match op with
  | [c] =>
    if c =? 1 then fresh_call s used B0
    else if c =? 2 then
      match find_call used with
      | None => Some (s, used)
      | Some (a, k, b) =>
        match complete 40 s (E0 k) with Some (s', p) => Some (s', a ++ p :: b) | None => None end
      end
    else if c =? 4 then fresh_call s used (X_lock FromConnect)
    else if c =? 5 then fresh_call s used C0
    else if c =? 6 then fresh_call s used (Y_cas false)
    else Some (s, used)
  | [c; d] =>
    if (c =? 3) && (0 <=? d) && (d <=? 1000) then
      match advance 3000 s (now s + d * unit_ns + 1) with
      | Some (s', _) => Some (s', used)
      | None => None
      end
    else Some (s, used)
  | _ => Some (s, used)          (* anything else is ignored by the driver as well *)
  end.

Definition op_code (op : word) : Z := match op with c :: _ => c | [] => 0 end.

Fixpoint seq_run (s : st) (used : list pc) (ops : list word) : option (list word * st * list pc) :=
  match ops with
  | [] => Some ([], s, used)
  | op :: r =>
    match seq_op s used op with
    | None => None
    | Some (s', used') =>
      match seq_run s' used' r with
      | None => None
      | Some (os, s'', u'') =>
        Some ((op_code op :: map ev_code (new_events (log s) (log s'))) :: os, s'', u'')
      end
    end
  end.

(* cfg = [0; timeout in units]  sequential script
   cfg = 1 :: _                 goroutine stress: obs = [[event codes, chronological]]
   cfg = 3 :: _                 gated scenario (cc.ExitIdleMode blocks on a gate while other
                                RPCs start): obs = [[event codes, chronological]] *)
Definition run (cfg : word) (ops : list word) : option (list word) :=
  match cfg with
  | [0; tmo] => if (tmo <? 0) || (tmo >? 1000) then None else
                match seq_run (init_st (tmo * unit_ns) epoch_ns) [] ops with
                | Some (os, _, _) => Some os
                | None => None
                end
  | _ => None
  end.

(* all event codes of an observation list, chronological (sequential: drop the op code) *)
Definition obs_codes (cfg : word) (obs : list word) : list Z :=
  match cfg with
  | 1 :: _ | 3 :: _ => concat obs
  | _ => concat (map (fun w => tl w) obs)
  end.

Fixpoint decode_events (l : list Z) : option (list event) :=
  match l with
  | [] => Some []
  | z :: r => match ev_of z, decode_events r with
              | Some e, Some es => Some (e :: es)
              | _, _ => None
              end
  end.

(* evaluate the automaton on a chronological log, one clause entry per event *)
Fixpoint spec_clauses (x : sst) (i : Z) (l : list event) : list (Z * Z * bool) :=
  match l with
  | [] => []
  | e :: r => match spec_step x e with
              | Some y => (spec_clause x e, i, true) :: spec_clauses y (i + 1) r
              | None => [(spec_clause x e, i, false)]
              end
  end.

Definition clauses (cfg : word) (ops obs : list word) : list (Z * Z * bool) :=
  match decode_events (obs_codes cfg obs) with
  | None => [(0, 0, false)]
  | Some es => spec_clauses sst0 0 es
  end.

Definition holds_b (cfg : word) (ops obs : list word) : bool :=
  forallb (fun c => snd c) (clauses cfg ops obs).

(* sequential cases: property on the implementation's log + exact correspondence;
   stress cases (real goroutines, not reproducible): the implementation's log must be
   accepted by the automaton that every model log is proved to satisfy *)
Definition check_case (c : case) : verdict :=
  match c_cfg c with
  | 1 :: _ | 3 :: _ => decide (Some (c_obs c)) (c_obs c) (clauses (c_cfg c) (c_ops c) (c_obs c))
  | _ => decide (run (c_cfg c) (c_ops c)) (c_obs c) (clauses (c_cfg c) (c_ops c) (c_obs c))
  end.
