(* C28: the metadata package API (metadata/metadata.go).
   Strings are byte lists; a Go map[string][]string is an association list with
   pairwise distinct keys, listed in the order the map is ranged over.  Every
   function below is a transcription of the Go function of the same name; value
   slices are immutable values here (there is no heap: the "returns copies"
   sentence is checked on the implementation by the driver's mutation probes).
   Keys are ASCII: [lower] acts on A-Z only, which is strings.ToLower on ASCII
   strings, and [eqfold] is strings.EqualFold on ASCII strings.  No proofs here. *)
From Coq Require Import List ZArith Bool.
From VLib Require Import Codec.
Import ListNotations.
Open Scope Z_scope.

Definition str := list Z.
Definition mdt := list (str * list str).      (* MD *)
Definition kvs := list (str * str).           (* kv ...string, paired *)

Definition lower_b (c : Z) : Z := if (65 <=? c) && (c <=? 90) then c + 32 else c.
Definition lower (s : str) : str := map lower_b s.
Definition str_eqb (a b : str) : bool := word_eqb a b.
Definition eqfold (a b : str) : bool := str_eqb (lower a) (lower b).

(* ---- Go map operations on association lists ---- *)
Fixpoint get (k : str) (m : mdt) : option (list str) :=
  match m with
  | [] => None
  | (k', v) :: r => if str_eqb k k' then Some v else get k r
  end.
Definition getd (k : str) (m : mdt) : list str :=
  match get k m with Some v => v | None => [] end.
(* m[k] = v : overwrite in place, a new key goes to the end *)
Fixpoint put (k : str) (v : list str) (m : mdt) : mdt :=
  match m with
  | [] => [(k, v)]
  | (k', v') :: r => if str_eqb k k' then (k', v) :: r else (k', v') :: put k v r
  end.
Fixpoint del (k : str) (m : mdt) : mdt :=
  match m with
  | [] => []
  | (k', v') :: r => if str_eqb k k' then del k r else (k', v') :: del k r
  end.
Definition keys (m : mdt) : list str := map fst m.

(* ---- MD functions ---- *)
Definition add_pair (o : mdt) (p : str * str) : mdt :=
  put (lower (fst p)) (getd (lower (fst p)) o ++ [snd p]) o.
Definition pairs (kv : kvs) : mdt := fold_left add_pair kv [].
Definition md_get (k : str) (m : mdt) : list str := getd (lower k) m.
Definition md_set (k : str) (vals : list str) (m : mdt) : mdt :=
  match vals with [] => m | _ => put (lower k) vals m end.
Definition md_append (k : str) (vals : list str) (m : mdt) : mdt :=
  match vals with [] => m | _ => put (lower k) (getd (lower k) m ++ vals) m end.
Definition md_delete (k : str) (m : mdt) : mdt := del (lower k) m.
Definition md_copy (m : mdt) : mdt := fold_left (fun out e => put (fst e) (snd e) out) m [].
Definition join_one (out : mdt) (md : mdt) : mdt :=
  fold_left (fun out e => put (fst e) (getd (fst e) out ++ snd e) out) md out.
Definition join (mds : list mdt) : mdt := fold_left join_one mds [].

(* ---- contexts: rawMD{md, added} ---- *)
Definition lowkv (kv : kvs) : kvs := map (fun p => (lower (fst p), snd p)) kv.
(* AppendToOutgoingContext on (md, added) *)
Definition append_out (c : option (mdt * list kvs)) (kv : kvs) : option (mdt * list kvs) :=
  match c with
  | None => Some ([], [lowkv kv])
  | Some (md, added) => Some (md, added ++ [lowkv kv])
  end.
(* first loop of FromOutgoingContext / the loop of FromIncomingContext *)
Definition from_base (md : mdt) : mdt :=
  fold_left (fun o e => put (lower (fst e)) (snd e) o) md [].
Definition add_pairs (o : mdt) (kv : kvs) : mdt := fold_left add_pair kv o.
Definition from_out (md : mdt) (added : list kvs) : mdt :=
  fold_left add_pairs added (from_base md).
Definition from_in (md : mdt) : mdt := from_base md.

Definition find_fold (key : str) (md : mdt) : option (str * list str) :=
  find (fun e => eqfold (fst e) key) md.
Definition matched_md (key : str) (md : mdt) : list str :=
  match get key md with
  | Some v => v
  | None => match find_fold key md with Some e => snd e | None => [] end
  end.
Definition value_out (key0 : str) (md : mdt) (added : list kvs) : list str :=
  let key := lower key0 in
  matched_md key md ++
  concat (map (fun kv => map snd (filter (fun p => str_eqb (fst p) key || eqfold (fst p) key) kv)) added).
(* ValueFromIncomingContext looks the key up as given, then case-insensitively *)
Definition value_in (key : str) (md : mdt) : list str := matched_md key md.

(* ---- the property's reference: a case-insensitive ordered multimap ---- *)
Definition base_vals (k : str) (md : mdt) : list str :=
  concat (map snd (filter (fun e => str_eqb (lower (fst e)) k) md)).
Definition added_vals (k : str) (added : list kvs) : list str :=
  map snd (filter (fun p => str_eqb (lower (fst p)) k) (concat added)).
Definition mm_lookup (k : str) (md : mdt) (added : list kvs) : list str :=
  base_vals k md ++ added_vals k added.
Definition add_key (ks : list str) (k : str) : list str :=
  if existsb (str_eqb k) ks then ks else ks ++ [k].
Definition okeys (md : mdt) (added : list kvs) : list str :=
  fold_left add_key (map (fun e => lower (fst e)) md ++ map (fun p => lower (fst p)) (concat added)) [].
Definition spec_md (md : mdt) (added : list kvs) : mdt :=
  map (fun k => (k, mm_lookup k md added)) (okeys md added).
(* Join: per key, the values of the arguments in argument order *)
Definition jkeys (mds : list mdt) : list str := fold_left add_key (concat (map keys mds)) [].
Definition spec_join (mds : list mdt) : mdt :=
  map (fun k => (k, concat (map (getd k) mds))) (jkeys mds).

Fixpoint nodupb (l : list str) : bool :=
  match l with [] => true | x :: r => negb (existsb (str_eqb x) r) && nodupb r end.
Definition collides (md : mdt) : bool := negb (nodupb (map lower (keys md))).

(* ---- canonical dump: sorted by key (Go: sort.Strings) ---- *)
Fixpoint str_leb (a b : str) : bool :=
  match a, b with
  | [], _ => true
  | _ :: _, [] => false
  | x :: a', y :: b' => if x <? y then true else if y <? x then false else str_leb a' b'
  end.
Fixpoint insert (e : str * list str) (l : mdt) : mdt :=
  match l with
  | [] => [e]
  | e' :: r => if str_leb (fst e) (fst e') then e :: l else e' :: insert e r
  end.
Definition sortmd (m : mdt) : mdt := fold_right insert [] m.

Definition put_strs (l : list str) : word := Z.of_nat (length l) :: concat (map put_bytes l).
Definition dump (m : mdt) : word :=
  Z.of_nat (length m) :: concat (map (fun e => put_bytes (fst e) ++ put_strs (snd e)) (sortmd m)).

(* ---- decoding of operations ---- *)
Fixpoint get_strs (n : nat) (w : word) : option (list str * word) :=
  match n with
  | O => Some ([], w)
  | S n' => match get_bytes w with
            | Some (s, r) => match get_strs n' r with
                             | Some (l, r') => Some (s :: l, r')
                             | None => None
                             end
            | None => None
            end
  end.
Definition get_strlist (w : word) : option (list str * word) :=
  match w with
  | n :: r => if n <? 0 then None else get_strs (Z.to_nat n) r
  | [] => None
  end.
Fixpoint get_entries (n : nat) (w : word) : option (mdt * word) :=
  match n with
  | O => Some ([], w)
  | S n' => match get_bytes w with
            | Some (k, r) =>
              match get_strlist r with
              | Some (vs, r') => match get_entries n' r' with
                                 | Some (es, r'') => Some ((k, vs) :: es, r'')
                                 | None => None
                                 end
              | None => None
              end
            | None => None
            end
  end.
Definition get_md (w : word) : option (mdt * word) :=
  match w with
  | n :: r => if n <? 0 then None else get_entries (Z.to_nat n) r
  | [] => None
  end.
Fixpoint get_pairs (n : nat) (w : word) : option (kvs * word) :=
  match n with
  | O => Some ([], w)
  | S n' => match get_bytes w with
            | Some (k, r) =>
              match get_bytes r with
              | Some (v, r') => match get_pairs n' r' with
                                | Some (l, r'') => Some ((k, v) :: l, r'')
                                | None => None
                                end
              | None => None
              end
            | None => None
            end
  end.
Definition get_kvs (w : word) : option (kvs * word) :=
  match w with
  | n :: r => if n <? 0 then None else get_pairs (Z.to_nat n) r
  | [] => None
  end.
Fixpoint get_mdn (n : nat) (w : word) : option (list mdt * word) :=
  match n with
  | O => Some ([], w)
  | S n' => match get_md w with
            | Some (m, r) => match get_mdn n' r with
                             | Some (l, r') => Some (m :: l, r')
                             | None => None
                             end
            | None => None
            end
  end.
Definition get_mds (w : word) : option (list mdt * word) :=
  match w with
  | n :: r => if n <? 0 then None else get_mdn (Z.to_nat n) r
  | [] => None
  end.

Inductive op :=
| ONewOut (md : mdt) | OAppendOut (kv : kvs) | OFromOut | OValueOut (k : str)
| ONewIn (md : mdt) | OFromIn | OValueIn (k : str)
| OPairs (kv : kvs) | OSet (k : str) (vs : list str) | OAppend (k : str) (vs : list str)
| ODelete (k : str) | OGet (k : str) | ODump | OJoin (mds : list mdt) | OCopy.

Definition decode_op (w : word) : option op :=
  match w with
  | 1 :: r => match get_md r with Some (m, []) => Some (ONewOut m) | _ => None end
  | 2 :: r => match get_kvs r with Some (kv, []) => Some (OAppendOut kv) | _ => None end
  | [3] => Some OFromOut
  | 4 :: r => match get_bytes r with Some (k, []) => Some (OValueOut k) | _ => None end
  | 5 :: r => match get_md r with Some (m, []) => Some (ONewIn m) | _ => None end
  | [6] => Some OFromIn
  | 7 :: r => match get_bytes r with Some (k, []) => Some (OValueIn k) | _ => None end
  | 8 :: r => match get_kvs r with Some (kv, []) => Some (OPairs kv) | _ => None end
  | 9 :: r => match get_bytes r with
              | Some (k, r') => match get_strlist r' with Some (vs, []) => Some (OSet k vs) | _ => None end
              | None => None
              end
  | 10 :: r => match get_bytes r with
               | Some (k, r') => match get_strlist r' with Some (vs, []) => Some (OAppend k vs) | _ => None end
               | None => None
               end
  | 11 :: r => match get_bytes r with Some (k, []) => Some (ODelete k) | _ => None end
  | 12 :: r => match get_bytes r with Some (k, []) => Some (OGet k) | _ => None end
  | [13] => Some ODump
  | 14 :: r => match get_mds r with Some (l, []) => Some (OJoin l) | _ => None end
  | [15] => Some OCopy
  | _ => None
  end.

(* ---- state: the current context (outgoing rawMD, incoming MD) and one MD register ---- *)
Record state := mkst { s_out : option (mdt * list kvs); s_in : option mdt; s_reg : mdt }.
Definition st0 : state := mkst None None [].

Definition step (st : state) (o : op) : state :=
  match o with
  | ONewOut md => mkst (Some (md, [])) (s_in st) (s_reg st)
  | OAppendOut kv => mkst (append_out (s_out st) kv) (s_in st) (s_reg st)
  | ONewIn md => mkst (s_out st) (Some md) (s_reg st)
  | OPairs kv => mkst (s_out st) (s_in st) (pairs kv)
  | OSet k vs => mkst (s_out st) (s_in st) (md_set k vs (s_reg st))
  | OAppend k vs => mkst (s_out st) (s_in st) (md_append k vs (s_reg st))
  | ODelete k => mkst (s_out st) (s_in st) (md_delete k (s_reg st))
  | _ => st
  end.

Definition len_obs (m : mdt) : word := [Z.of_nat (length m)].

(* what the transcribed code returns.  Observation layout:
   FromOut/FromIn: [0] when absent, else [1; shared; same] ++ dump, where shared = the
   result shares a backing array or the map with the stored MD, same = reading again
   after destructively mutating the first result gives the same dump;
   Copy: [shared; same] ++ dump *)
Definition model_obs (st : state) (o : op) : word :=
  match o with
  | ONewOut _ | OAppendOut _ | ONewIn _ => []
  | OFromOut => match s_out st with
                | None => [0]
                | Some (md, added) => [1; 0; 1] ++ dump (from_out md added)
                end
  | OValueOut k => match s_out st with
                   | None => put_strs []
                   | Some (md, added) => put_strs (value_out k md added)
                   end
  | OFromIn => match s_in st with
               | None => [0]
               | Some md => [1; 0; 1] ++ dump (from_in md)
               end
  | OValueIn k => match s_in st with
                  | None => put_strs []
                  | Some md => put_strs (value_in k md)
                  end
  | OPairs _ | OSet _ _ | OAppend _ _ | ODelete _ => len_obs (s_reg (step st o))
  | OGet k => put_strs (md_get k (s_reg st))
  | ODump => dump (s_reg st)
  | OJoin mds => dump (join mds)
  | OCopy => [0; 1] ++ dump (md_copy (s_reg st))
  end.

(* what the property says the call must return *)
Definition expect (st : state) (o : op) : word :=
  match o with
  | OFromOut => match s_out st with
                | None => [0]
                | Some (md, added) => [1; 0; 1] ++ dump (spec_md md added)
                end
  | OValueOut k => match s_out st with
                   | None => put_strs []
                   | Some (md, added) => put_strs (mm_lookup (lower k) md added)
                   end
  | OFromIn => match s_in st with
               | None => [0]
               | Some md => [1; 0; 1] ++ dump (spec_md md [])
               end
  | OValueIn k => match s_in st with
                  | None => put_strs []
                  | Some md => put_strs (mm_lookup (lower k) md [])
                  end
  | OJoin mds => dump (spec_join mds)
  | OCopy => [0; 1] ++ dump (s_reg st)
  | _ => model_obs st o
  end.

(* clause ids:
   1 FromOutgoingContext = the ordered multimap      91 same, base MD has case-colliding keys
   2 ValueFromOutgoingContext = full lookup          92 same, colliding
   3 FromIncomingContext (lowercased copy)           93 same, colliding
   4 ValueFromIncomingContext = full lookup          94 same, colliding
   5 FromX / Copy results are copies (shared = 0, re-read after mutation unchanged)
   6 MD Get/Set/Append/Delete/Len/Pairs/Dump against the case-insensitive map
   7 Join concatenates in argument order
   0 malformed case *)
Definition out_coll (st : state) : bool :=
  match s_out st with Some (md, _) => collides md | None => false end.
Definition in_coll (st : state) : bool :=
  match s_in st with Some md => collides md | None => false end.
Definition clause_id (st : state) (o : op) : Z :=
  match o with
  | OFromOut => if out_coll st then 91 else 1
  | OValueOut _ => if out_coll st then 92 else 2
  | OFromIn => if in_coll st then 93 else 3
  | OValueIn _ => if in_coll st then 94 else 4
  | OJoin _ => 7
  | OCopy => 6
  | _ => 6
  end.

(* split the copy flags from the content for FromX / Copy observations *)
Definition strip_flags (o : op) (w : word) : word * bool :=
  match o, w with
  | (OFromOut | OFromIn), 1 :: sh :: sm :: d => (1 :: 0 :: 1 :: d, (sh =? 0) && (sm =? 1))
  | OCopy, sh :: sm :: d => (0 :: 1 :: d, (sh =? 0) && (sm =? 1))
  | _, _ => (w, true)
  end.

Definition clause_op (i : Z) (st : state) (o : op) (obs : word) : list (Z * Z * bool) :=
  let '(content, copies) := strip_flags o obs in
  [(clause_id st o, i, word_eqb content (expect st o)); (5, i, copies)].

Fixpoint clauses_from (i : Z) (st : state) (ops obs : list word) : list (Z * Z * bool) :=
  match ops, obs with
  | w :: r, ob :: r' =>
    match decode_op w with
    | Some o => clause_op i st o ob ++ clauses_from (i + 1) (step st o) r r'
    | None => [(0, i, false)]
    end
  | [], [] => []
  | _, _ => [(0, i, false)]
  end.
Definition clauses (ops obs : list word) : list (Z * Z * bool) := clauses_from 0 st0 ops obs.

Fixpoint run_from (st : state) (ops : list word) : option (list word) :=
  match ops with
  | [] => Some []
  | w :: r => match decode_op w with
              | Some o => match run_from (step st o) r with
                          | Some os => Some (model_obs st o :: os)
                          | None => None
                          end
              | None => None
              end
  end.
Definition run (ops : list word) : option (list word) := run_from st0 ops.

Definition holds_b (ops obs : list word) : bool :=
  forallb (fun c => snd c) (clauses ops obs).

Definition check_case (c : case) : verdict :=
  decide (run (c_ops c)) (c_obs c) (clauses (c_ops c) (c_obs c)).
