(* C48: xDS RBAC engine (internal/xds/rbac/rbac_engine.go, matchers.go,
   internal/xds/matcher/{string_matcher,matcher_header}.go) and the authz SDK
   policy translator (authz/rbac_translator.go, after the fix: commit that
   rejects duplicate rule names).

   Strings are byte lists (ASCII domain: [lower] is strings.ToLower on ASCII).
   A Go map[string]*Policy is a list of policies in the order the map is ranged
   over (the decision does not depend on it: RBAC_proofs.find_ok_perm).
   Regular expressions are a two-entry table (0 = ".+", 1 = ".*"), compiled by
   CompileSafeRegex to a full-string match; "." does not match '\n'.
   IP addresses are (family, value): family 4 -> 32 bits, 6 -> 128 bits,
   0 = an address netip.ParseAddr rejects.  No proofs here. *)
From Coq Require Import List ZArith Bool.
From VLib Require Import Codec Machine.
Import ListNotations.
Open Scope Z_scope.

Definition str := list Z.
Definition str_eqb (a b : str) : bool := word_eqb a b.
Definition lower_b (c : Z) : Z := if (65 <=? c) && (c <=? 90) then c + 32 else c.
Definition lower (s : str) : str := map lower_b s.

(* ---- package strings ---- *)
Fixpoint has_prefix (s p : str) : bool :=
  match p, s with
  | [], _ => true
  | x :: p', y :: s' => (x =? y) && has_prefix s' p'
  | _ :: _, [] => false
  end.
Definition has_suffix (s p : str) : bool := has_prefix (rev s) (rev p).
Fixpoint contains (s p : str) : bool :=
  has_prefix s p || match s with [] => false | _ :: s' => contains s' p end.
Fixpoint join (l : list str) : str :=      (* strings.Join(l, ",") *)
  match l with
  | [] => []
  | [a] => a
  | a :: r => a ++ 44 :: join r
  end.

(* strconv.ParseInt(s, 10, 64): optional sign, at least one digit, in range *)
Definition is_digit (c : Z) : bool := (48 <=? c) && (c <=? 57).
Fixpoint parse_dec (acc : Z) (s : str) : option Z :=
  match s with
  | [] => Some acc
  | c :: r => if is_digit c then parse_dec (acc * 10 + (c - 48)) r else None
  end.
Definition parse_udec (s : str) : option Z :=
  match s with [] => None | _ => parse_dec 0 s end.
Definition parse_int (s : str) : option Z :=
  match s with
  | [] => None
  | c :: r =>
    let neg := c =? 45 in
    let ds := if (c =? 43) || (c =? 45) then r else s in
    match parse_udec ds with
    | None => None
    | Some n => let v := if neg then - n else n in
                if in_i64 v then Some v else None
    end
  end.

(* regexp table; MatchString of ^(?:re)$ *)
Definition regex_match (r : Z) (s : str) : bool :=
  forallb (fun c => negb (c =? 10)) s &&
  (if r =? 0 then match s with [] => false | _ => true end else true).

(* ---- StringMatcher (string_matcher.go) ---- *)
Inductive smatch :=
| SExact (p : str) (ic : bool)
| SPrefix (p : str) (ic : bool)
| SSuffix (p : str) (ic : bool)
| SContains (p : str) (ic : bool)
| SRegex (r : Z).

Definition nonempty {A} (s : list A) : bool := match s with [] => false | _ => true end.

(* StringMatcherFromProto returns an error *)
Definition sm_valid (m : smatch) : bool :=
  match m with
  | SExact _ _ => true
  | SPrefix p _ | SSuffix p _ | SContains p _ => nonempty p
  | SRegex _ => true
  end.

Definition fold_case (ic : bool) (s : str) : str := if ic then lower s else s.

(* StringMatcher.Match; the pattern was lower-cased by newStrPtr when ignoreCase *)
Definition sm_match (m : smatch) (s : str) : bool :=
  match m with
  | SExact p ic => str_eqb (fold_case ic s) (fold_case ic p)
  | SPrefix p ic => has_prefix (fold_case ic s) (fold_case ic p)
  | SSuffix p ic => has_suffix (fold_case ic s) (fold_case ic p)
  | SContains p ic => contains (fold_case ic s) (fold_case ic p)
  | SRegex r => regex_match r s
  end.

(* ---- header matchers (matcher_header.go) ---- *)
Inductive hspec :=
| HExact (s : str) | HRegex (r : Z) | HRange (lo hi : Z) | HPresent (b : bool)
| HPrefix (s : str) | HSuffix (s : str) | HContains (s : str) | HString (m : smatch).

Definition hs_valid (h : hspec) : bool :=
  match h with HString m => sm_valid m | _ => true end.

Definition mdt := list (str * list str).
Fixpoint md_get (k : str) (m : mdt) : option (list str) :=
  match m with
  | [] => None
  | (k', v) :: r => if str_eqb k k' then Some v else md_get k r
  end.
Fixpoint md_put (k : str) (v : list str) (m : mdt) : mdt :=
  match m with
  | [] => [(k, v)]
  | (k', v') :: r => if str_eqb k k' then (k', v) :: r else (k', v') :: md_put k v r
  end.
Fixpoint md_del (k : str) (m : mdt) : mdt :=
  match m with
  | [] => []
  | (k', v') :: r => if str_eqb k k' then md_del k r else (k', v') :: md_del k r
  end.

(* valueFromMD *)
Definition value_from_md (md : mdt) (k : str) : option str :=
  match md_get k md with Some vs => Some (join vs) | None => None end.

(* the value test of every matcher except present_match *)
Definition hs_value (h : hspec) (v : str) : bool :=
  match h with
  | HExact s => str_eqb v s
  | HRegex r => regex_match r v
  | HRange lo hi => match parse_int v with
                    | Some i => (lo <=? i) && (i <? hi)
                    | None => false
                    end
  | HPresent _ => false
  | HPrefix s => has_prefix v s
  | HSuffix s => has_suffix v s
  | HContains s => contains v s
  | HString m => sm_match m v
  end.

Definition header_match (md : mdt) (name : str) (h : hspec) (inv : bool) : bool :=
  match h with
  | HPresent b =>
    let present := match value_from_md md name with Some v => nonempty v | None => false end in
    Bool.eqb present (xorb b inv)
  | _ => match value_from_md md name with
         | None => false
         | Some v => xorb (hs_value h v) inv
         end
  end.

(* ---- addresses and CIDR ranges (netip) ---- *)
Definition addr := (Z * Z)%type.                 (* family, value *)
Definition bits_of (fam : Z) : Z := if fam =? 4 then 32 else 128.
Record cidr := mkcidr { c_fam : Z; c_val : Z; c_len : Z }.

(* netip.ParsePrefix succeeds *)
Definition cidr_valid (c : cidr) : bool :=
  ((c_fam c =? 4) || (c_fam c =? 6)) && (0 <=? c_len c) && (c_len c <=? bits_of (c_fam c)).

(* Prefix.Contains: same family, equal leading c_len bits *)
Definition cidr_contains (c : cidr) (a : addr) : bool :=
  let sh := 2 ^ (bits_of (c_fam c) - c_len c) in
  (c_fam c =? fst a) && (c_val c / sh =? snd a / sh).

(* net.IP.String() prints an IPv4-mapped IPv6 address in dotted-quad form, which
   netip.ParseAddr then reads as an IPv4 address *)
Definition norm_ip (a : addr) : addr :=
  if (fst a =? 6) && (snd a / 2 ^ 32 =? 65535) then (4, snd a mod 2 ^ 32) else a.

(* ---- rpcData ---- *)
Record cert := mkcert { ct_uris : list str; ct_dns : list str; ct_subject : str }.
Record rpc := mkrpc {
  r_path : str;                 (* fullMethod *)
  r_md : mdt;                   (* after newRPCData's edits *)
  r_tls : bool;                 (* authType == "tls" *)
  r_cert : option cert;         (* certs[0] when len(certs) > 0 *)
  r_remote : addr;              (* parsed host of peerInfo.Addr *)
  r_local : addr;               (* parsed host of localAddr *)
  r_dport : Z                   (* destinationPort *)
}.

Definition s_method : str := [58; 109; 101; 116; 104; 111; 100].   (* ":method" *)
Definition s_path : str := [58; 112; 97; 116; 104].               (* ":path" *)
Definition s_POST : str := [80; 79; 83; 84].
Definition s_TE : str := [84; 69].                                (* "TE" *)

(* newRPCData: md[":method"] = POST; delete(md, "TE"); md[":path"] = method.
   (FromIncomingContext lower-cased the keys before, so the delete of the
   upper-case key "TE" removes nothing from a real incoming MD.) *)
Definition rpc_md (md : mdt) (path : str) : mdt :=
  md_put s_path [path] (md_del s_TE (md_put s_method [s_POST] md)).

(* ---- permissions / principals ---- *)
Inductive rule :=
| RAnd (l : list rule)
| ROr (l : list rule)
| RNot (r : rule)
| RAny
| RHeader (name : str) (h : hspec) (inv : bool)
| RPath (m : smatch)
| RDestIp (c : cidr)
| RDestPort (p : Z)
| RMeta (inv : bool)
| RSni (m : smatch)
| RAuth (m : option smatch)
| RRemoteIp (c : cidr).

(* side 0 = permission, 1 = principal: which oneof cases exist on each side *)
Fixpoint side_ok (side : Z) (r : rule) : bool :=
  match r with
  | RAnd l | ROr l => forallb (side_ok side) l
  | RNot r' => side_ok side r'
  | RAny | RHeader _ _ _ | RPath _ | RMeta _ => true
  | RDestIp _ | RDestPort _ | RSni _ => side =? 0
  | RAuth _ | RRemoteIp _ => side =? 1
  end.

(* matchersFromPermissions / matchersFromPrincipals return no error *)
Fixpoint rule_valid (r : rule) : bool :=
  match r with
  | RAnd l | ROr l => forallb rule_valid l
  | RNot r' => rule_valid r'
  | RAny | RDestPort _ | RMeta _ => true
  | RHeader _ h _ => hs_valid h
  | RPath m | RSni m => sm_valid m
  | RDestIp c | RRemoteIp c => cidr_valid c
  | RAuth None => true
  | RAuth (Some m) => sm_valid m
  end.

(* the for-loops of orMatcher.match / andMatcher.match *)
Definition or_loop {A} (f : A -> bool) : list A -> bool :=
  fix go (l : list A) : bool :=
    match l with
    | [] => false
    | x :: r => if f x then true else go r
    end.
Definition and_loop {A} (f : A -> bool) : list A -> bool :=
  fix go (l : list A) : bool :=
    match l with
    | [] => true
    | x :: r => if negb (f x) then false else go r
    end.

(* authenticatedMatcher.match *)
Definition auth_match (d : rpc) (m : option smatch) : bool :=
  if negb (r_tls d) then false else
  match m with
  | None => true
  | Some sm =>
    match r_cert d with
    | None => sm_match sm []
    | Some c =>
      if nonempty (ct_uris c) then or_loop (sm_match sm) (ct_uris c)
      else if nonempty (ct_dns c) then or_loop (sm_match sm) (ct_dns c)
      else sm_match sm (ct_subject c)
    end
  end.

(* matcher.match for the matcher built from a permission / principal *)
Fixpoint mmatch (d : rpc) (r : rule) : bool :=
  match r with
  | RAnd l => and_loop (mmatch d) l
  | ROr l => or_loop (mmatch d) l
  | RNot r' => negb (mmatch d r')
  | RAny => true
  | RHeader name h inv => header_match (r_md d) name h inv
  | RPath m => sm_match m (r_path d)
  | RDestIp c => cidr_contains c (r_local d)
  | RDestPort p => r_dport d =? p
  | RMeta inv => inv
  | RSni m => sm_match m []
  | RAuth m => auth_match d m
  | RRemoteIp c => cidr_contains c (r_remote d)
  end.

Record policy := mkpolicy { p_perms : list rule; p_princs : list rule }.

Definition policy_valid (p : policy) : bool :=
  forallb (fun r => side_ok 0 r && rule_valid r) (p_perms p) &&
  forallb (fun r => side_ok 1 r && rule_valid r) (p_princs p).

(* policyMatcher.match *)
Definition policy_match (d : rpc) (p : policy) : bool :=
  or_loop (mmatch d) (p_perms p) && or_loop (mmatch d) (p_princs p).

(* engine: action 0 = ALLOW, 1 = DENY (2 = LOG is rejected by newEngine) *)
Record engine := mkengine { e_action : Z; e_policies : list policy }.

Definition engine_valid (e : engine) : bool :=
  ((e_action e =? 0) || (e_action e =? 1)) && forallb policy_valid (e_policies e).

(* findMatchingPolicy: index of the matching policy in iteration order *)
Fixpoint find_matching (d : rpc) (i : Z) (ps : list policy) : Z * bool :=
  match ps with
  | [] => (-1, false)
  | p :: r => if policy_match d p then (i, true) else find_matching d (i + 1) r
  end.

(* ChainEngine.IsAuthorized: true = nil error *)
Fixpoint is_authorized (d : rpc) (es : list engine) : bool :=
  match es with
  | [] => true
  | e :: r =>
    let ok := snd (find_matching d 0 (e_policies e)) in
    if (e_action e =? 0) && negb ok then false
    else if (e_action e =? 1) && ok then false
    else is_authorized d r
  end.

(* ---- the SDK authorization policy and its translator ---- *)
Record srule := mksrule {
  sr_name : str; sr_principals : list str; sr_paths : list str;
  sr_headers : list (str * list str) }.
Record sdk := mksdk { s_name : str; s_deny : list srule; s_allow : list srule }.

Definition star : Z := 42.
Definition is_star (v : str) : bool := str_eqb v [star].
Definition ends_star (v : str) : bool := has_suffix v [star].
Definition starts_star (v : str) : bool := has_prefix v [star].

(* getStringMatcher *)
Definition get_string_matcher (v : str) : smatch :=
  if is_star v then SRegex 0
  else if ends_star v then SPrefix (removelast v) false
  else if starts_star v then SSuffix (tl v) false
  else SExact v false.

(* getHeaderMatcher *)
Definition get_header_matcher (v : str) : hspec :=
  if is_star v then HRegex 0
  else if ends_star v then HPrefix (removelast v)
  else if starts_star v then HSuffix (tl v)
  else HExact v.

(* parsePeer *)
Definition parse_peer (ps : list str) : rule :=
  match ps with
  | [] => RAny
  | _ => ROr (map (fun p => RAuth (Some (get_string_matcher p))) ps)
  end.

Definition s_grpc_dash : str := [103; 114; 112; 99; 45].
Definition unsupported_list : list str :=
  [ [104;111;115;116]; [99;111;110;110;101;99;116;105;111;110];
    [107;101;101;112;45;97;108;105;118;101];
    [112;114;111;120;121;45;97;117;116;104;101;110;116;105;99;97;116;101];
    [112;114;111;120;121;45;97;117;116;104;111;114;105;122;97;116;105;111;110];
    [116;101]; [116;114;97;105;108;101;114];
    [116;114;97;110;115;102;101;114;45;101;110;99;111;100;105;110;103];
    [117;112;103;114;97;100;101] ].
Definition unsupported_header (k : str) : bool :=
  match k with
  | [] => true
  | c :: _ => (c =? 58) || has_prefix k s_grpc_dash || existsb (str_eqb k) unsupported_list
  end.

(* parseHeaders *)
Fixpoint parse_headers (hs : list (str * list str)) : option (list rule) :=
  match hs with
  | [] => Some []
  | (k, vs) :: r =>
    if negb (nonempty k) then None else
    let k' := lower k in
    if unsupported_header k' then None else
    match vs with
    | [] => None
    | _ => match parse_headers r with
           | None => None
           | Some rs => Some (ROr (map (fun v => RHeader k' (get_header_matcher v) false) vs) :: rs)
           end
    end
  end.

(* parseRequest *)
Definition parse_request (paths : list str) (hs : list (str * list str)) : option rule :=
  let a1 := match paths with
            | [] => []
            | _ => [ROr (map (fun p => RPath (get_string_matcher p)) paths)]
            end in
  match hs with
  | [] => Some (match a1 with [] => RAny | _ => RAnd a1 end)
  | _ => match parse_headers hs with
         | None => None
         | Some h => Some (RAnd (a1 ++ [RAnd h]))
         end
  end.

(* parseRules: the map is keyed by prefix_name, so keys collide exactly when rule
   names do; a collision is an error (fix: commit d7c477f).  Entries are kept in
   insertion order. *)
Fixpoint parse_rules (acc : list (str * policy)) (rules : list srule)
  : option (list (str * policy)) :=
  match rules with
  | [] => Some acc
  | r :: rest =>
    if negb (nonempty (sr_name r)) then None else
    match parse_request (sr_paths r) (sr_headers r) with
    | None => None
    | Some perm =>
      if existsb (fun e => str_eqb (fst e) (sr_name r)) acc then None else
      parse_rules (acc ++ [(sr_name r, mkpolicy [perm] [parse_peer (sr_principals r)])]) rest
    end
  end.

(* translatePolicy *)
Definition translate (p : sdk) : option (list engine) :=
  if negb (nonempty (s_name p)) then None else
  match s_allow p with
  | [] => None
  | _ =>
    match (match s_deny p with
           | [] => Some []
           | _ => match parse_rules [] (s_deny p) with
                  | None => None
                  | Some ps => Some [mkengine 1 (map snd ps)]
                  end
           end) with
    | None => None
    | Some dn =>
      match parse_rules [] (s_allow p) with
      | None => None
      | Some ps => Some (dn ++ [mkengine 0 (map snd ps)])
      end
    end
  end.

(* ================= the property, declaratively (boolean form) ================= *)

(* and/or/not/any over the leaf rules *)
Fixpoint sem_b (d : rpc) (r : rule) : bool :=
  match r with
  | RAnd l => forallb (sem_b d) l
  | ROr l => existsb (sem_b d) l
  | RNot r' => negb (sem_b d r')
  | _ => mmatch d r
  end.
Definition policy_sem_b (d : rpc) (p : policy) : bool :=
  existsb (sem_b d) (p_perms p) && existsb (sem_b d) (p_princs p).
Definition engine_sem_b (d : rpc) (e : engine) : bool :=
  if e_action e =? 1 then negb (existsb (policy_sem_b d) (e_policies e))
  else existsb (policy_sem_b d) (e_policies e).
Definition chain_sem_b (d : rpc) (es : list engine) : bool := forallb (engine_sem_b d) es.

(* SDK policy language: "*" = any non-empty value, "p*" prefix, "*s" suffix, else exact *)
Definition wild_match (pat s : str) : bool :=
  if is_star pat then regex_match 0 s
  else if ends_star pat then has_prefix s (removelast pat)
  else if starts_star pat then has_suffix s (tl pat)
  else str_eqb s pat.

(* the authenticated identities of the peer, in precedence order *)
Definition identities (d : rpc) : list str :=
  match r_cert d with
  | None => [[]]
  | Some c => match ct_uris c with
              | _ :: _ => ct_uris c
              | [] => match ct_dns c with
                      | _ :: _ => ct_dns c
                      | [] => [ct_subject c]
                      end
              end
  end.

Definition srule_b (d : rpc) (r : srule) : bool :=
  (match sr_principals r with
   | [] => true
   | ps => r_tls d && existsb (fun p => existsb (wild_match p) (identities d)) ps
   end) &&
  (match sr_paths r with
   | [] => true
   | ps => existsb (fun p => wild_match p (r_path d)) ps
   end) &&
  forallb (fun h => existsb (fun v =>
             match value_from_md (r_md d) (lower (fst h)) with
             | Some hv => wild_match v hv
             | None => false
             end) (snd h)) (sr_headers r).

Definition sdk_sem_b (d : rpc) (p : sdk) : bool :=
  negb (existsb (srule_b d) (s_deny p)) && existsb (srule_b d) (s_allow p).

(* ================= wire format ================= *)
Definition parser (A : Type) := list Z -> option (A * list Z).

Definition p_z : parser Z := fun w => match w with x :: r => Some (x, r) | [] => None end.
Definition p_bool : parser bool := fun w =>
  match w with 0 :: r => Some (false, r) | 1 :: r => Some (true, r) | _ => None end.
Definition p_str : parser str := get_bytes.
Fixpoint p_rep {A} (p : parser A) (n : nat) : parser (list A) := fun w =>
  match n with
  | O => Some ([], w)
  | S n' => match p w with
            | None => None
            | Some (a, r) => match p_rep p n' r with
                             | None => None
                             | Some (l, r') => Some (a :: l, r')
                             end
            end
  end.
Definition p_list {A} (p : parser A) : parser (list A) := fun w =>
  match w with
  | n :: r => if (n <? 0) || (n >? 1000) then None else p_rep p (Z.to_nat n) r
  | [] => None
  end.
Definition p_strs : parser (list str) := p_list p_str.

Definition p_sm : parser smatch := fun w =>
  match w with
  | 5 :: r :: w' => if (r =? 0) || (r =? 1) then Some (SRegex r, w') else None
  | k :: w1 =>
    match p_bool w1 with
    | None => None
    | Some (ic, w2) =>
      match p_str w2 with
      | None => None
      | Some (s, w3) =>
        if k =? 1 then Some (SExact s ic, w3) else
        if k =? 2 then Some (SPrefix s ic, w3) else
        if k =? 3 then Some (SSuffix s ic, w3) else
        if k =? 4 then Some (SContains s ic, w3) else None
      end
    end
  | [] => None
  end.

Definition p_hs : parser hspec := fun w =>
  match w with
  | 2 :: r :: w' => if (r =? 0) || (r =? 1) then Some (HRegex r, w') else None
  | 3 :: lo :: hi :: w' => Some (HRange lo hi, w')
  | 4 :: w1 => match p_bool w1 with Some (b, w') => Some (HPresent b, w') | None => None end
  | 8 :: w1 => match p_sm w1 with Some (m, w') => Some (HString m, w') | None => None end
  | k :: w1 =>
    match p_str w1 with
    | None => None
    | Some (s, w') =>
      if k =? 1 then Some (HExact s, w') else
      if k =? 5 then Some (HPrefix s, w') else
      if k =? 6 then Some (HSuffix s, w') else
      if k =? 7 then Some (HContains s, w') else None
    end
  | [] => None
  end.

Definition w32 (x : Z) : bool := (0 <=? x) && (x <? 2 ^ 32).
(* [4; v] | [6; a; b; c; d] | [0] *)
Definition p_addr : parser addr := fun w =>
  match w with
  | 0 :: w' => Some ((0, 0), w')
  | 4 :: v :: w' => if w32 v then Some ((4, v), w') else None
  | 6 :: a :: b :: c :: d :: w' =>
    if w32 a && w32 b && w32 c && w32 d
    then Some ((6, ((a * 2 ^ 32 + b) * 2 ^ 32 + c) * 2 ^ 32 + d), w') else None
  | _ => None
  end.
Definition p_cidr : parser cidr := fun w =>
  match p_addr w with
  | Some ((fam, v), len :: w') =>
    if (fam =? 0) || (len <? 0) || (len >? 200) then None else Some (mkcidr fam v len, w')
  | _ => None
  end.

Fixpoint p_rule (fuel : nat) : parser rule := fun w =>
  match fuel with
  | O => None
  | S f =>
    match w with
    | 1 :: w1 => match p_list (p_rule f) w1 with Some (l, w') => Some (RAnd l, w') | None => None end
    | 2 :: w1 => match p_list (p_rule f) w1 with Some (l, w') => Some (ROr l, w') | None => None end
    | 3 :: w1 => match p_rule f w1 with Some (r, w') => Some (RNot r, w') | None => None end
    | 4 :: w' => Some (RAny, w')
    | 5 :: w1 =>
      match p_str w1 with
      | None => None
      | Some (name, w2) =>
        match p_hs w2 with
        | None => None
        | Some (h, w3) => match p_bool w3 with
                          | Some (inv, w') => Some (RHeader name h inv, w')
                          | None => None
                          end
        end
      end
    | 6 :: w1 => match p_sm w1 with Some (m, w') => Some (RPath m, w') | None => None end
    | 7 :: w1 => match p_cidr w1 with Some (c, w') => Some (RDestIp c, w') | None => None end
    | 8 :: p :: w' => if w32 p then Some (RDestPort p, w') else None
    | 9 :: w1 => match p_bool w1 with Some (b, w') => Some (RMeta b, w') | None => None end
    | 10 :: w1 => match p_sm w1 with Some (m, w') => Some (RSni m, w') | None => None end
    | 11 :: 0 :: w' => Some (RAuth None, w')
    | 11 :: 1 :: w1 => match p_sm w1 with Some (m, w') => Some (RAuth (Some m), w') | None => None end
    | 12 :: variant :: w1 =>
      if (variant <? 0) || (variant >? 2) then None else
      match p_cidr w1 with Some (c, w') => Some (RRemoteIp c, w') | None => None end
    | _ => None
    end
  end.

Definition p_policy (fuel : nat) : parser policy := fun w =>
  match p_list (p_rule fuel) w with
  | None => None
  | Some (perms, w1) =>
    match p_list (p_rule fuel) w1 with
    | None => None
    | Some (princs, w') => Some (mkpolicy perms princs, w')
    end
  end.
Definition p_engine (fuel : nat) : parser engine := fun w =>
  match w with
  | a :: w1 =>
    if (a <? 0) || (a >? 2) then None else
    match p_list (p_policy fuel) w1 with
    | Some (ps, w') => Some (mkengine a ps, w')
    | None => None
    end
  | [] => None
  end.

Definition p_header : parser (str * list str) := fun w =>
  match p_str w with
  | None => None
  | Some (k, w1) => match p_strs w1 with
                    | Some (vs, w') => Some ((k, vs), w')
                    | None => None
                    end
  end.
Definition p_srule : parser srule := fun w =>
  match p_str w with
  | None => None
  | Some (name, w1) =>
    match p_strs w1 with
    | None => None
    | Some (princs, w2) =>
      match p_strs w2 with
      | None => None
      | Some (paths, w3) =>
        match p_list p_header w3 with
        | Some (hs, w') => Some (mksrule name princs paths hs, w')
        | None => None
        end
      end
    end
  end.
Definition p_sdk : parser sdk := fun w =>
  match p_str w with
  | None => None
  | Some (name, w1) =>
    match p_list p_srule w1 with
    | None => None
    | Some (dn, w2) => match p_list p_srule w2 with
                       | Some (al, w') => Some (mksdk name dn al, w')
                       | None => None
                       end
    end
  end.

Definition s_CN : str := [67; 78; 61].       (* "CN=" *)
Definition subject_string (cn : str) : str := match cn with [] => [] | _ => s_CN ++ cn end.

(* request: path, md, tls, hascert, uris, dns, cn, remote, local, local port *)
Definition p_rpc : parser rpc := fun w =>
  match p_str w with
  | None => None
  | Some (path, w1) =>
  match p_list p_header w1 with
  | None => None
  | Some (md, w2) =>
  match p_bool w2 with
  | None => None
  | Some (tls, w3) =>
  match p_bool w3 with
  | None => None
  | Some (hascert, w4) =>
  match p_strs w4 with
  | None => None
  | Some (uris, w5) =>
  match p_strs w5 with
  | None => None
  | Some (dns, w6) =>
  match p_str w6 with
  | None => None
  | Some (cn, w7) =>
  match p_addr w7 with
  | None => None
  | Some (remote, w8) =>
  match p_addr w8 with
  | None => None
  | Some (local, lport :: w') =>
    if (fst local =? 0) || (lport <? 0) || (lport >? 65535) then None else
    Some (mkrpc path (rpc_md md path) tls
                (if tls && hascert then Some (mkcert uris dns (subject_string cn)) else None)
                (norm_ip remote) (norm_ip local) lport, w')
  | _ => None
  end end end end end end end end end.

(* decoded operations *)
Inductive dop :=
| OLoad (es : list engine)     (* [1; engines]   NewChainEngine            obs [ok] *)
| OSdk (p : sdk)               (* [2; sdk]       authz.NewStatic           obs [ok] *)
| OReq (d : rpc)               (* [3; request]   IsAuthorized / interceptor obs [code] *)
| OCall (defect via : Z) (d : rpc).
  (* [4; defect; via; request]  the RPC as the server sees it: the interceptor
     (via 0 UnaryInterceptor, 1 StreamInterceptor; a bare chain: IsAuthorized) with a
     handler that records that it ran.  obs [code; handler_invoked]
     defect: 0 none, 1 no metadata in ctx, 2 no peer, 3 no method (transport stream),
             4 no connection, 5 local address without a port.  With a defect newRPCData
             fails: no policy is evaluated, codes.Internal. *)

Definition full {A} (r : option (A * list Z)) : option A :=
  match r with Some (a, []) => Some a | _ => None end.

Definition decode_op (op : word) : option dop :=
  let fuel := S (length op) in
  match op with
  | 1 :: w => match full (p_list (p_engine fuel) w) with Some es => Some (OLoad es) | None => None end
  | 2 :: w => match full (p_sdk w) with Some p => Some (OSdk p) | None => None end
  | 3 :: w => match full (p_rpc w) with Some d => Some (OReq d) | None => None end
  | 4 :: defect :: via :: w =>
    if (defect <? 0) || (defect >? 5) || (via <? 0) || (via >? 1) then None else
    match full (p_rpc w) with Some d => Some (OCall defect via d) | None => None end
  | _ => None
  end.

Fixpoint decode_ops (ops : list word) : option (list dop) :=
  match ops with
  | [] => Some []
  | op :: r => match decode_op op, decode_ops r with
               | Some d, Some ds => Some (d :: ds)
               | _, _ => None
               end
  end.

(* ---- the model's trace ---- *)
Definition load_chain (es : list engine) : option (list engine) :=
  if forallb engine_valid es then Some es else None.

(* authz.NewStatic = translatePolicy, then rbac.NewChainEngine *)
Definition new_static (p : sdk) : option (list engine) :=
  match translate p with Some es => load_chain es | None => None end.

(* obs of a request: 0 = authorized, 1 = PermissionDenied, 2 = nothing loaded *)
Definition req_code (st : option (list engine)) (d : rpc) : Z :=
  match st with
  | None => 2
  | Some es => if is_authorized d es then 0 else 1
  end.

(* StaticInterceptor.UnaryInterceptor / StreamInterceptor around IsAuthorized:
   (code, handler invoked).  code 0 nil, 1 PermissionDenied, 2 another error (Internal).
   The handler runs exactly when the request view could be built and the chain allows. *)
Definition intercept (es : list engine) (defect : Z) (d : rpc) : Z * bool :=
  if negb (defect =? 0) then (2, false)
  else if is_authorized d es then (0, true) else (1, false).

Definition call_word (st : option (list engine)) (defect : Z) (d : rpc) : word :=
  match st with
  | None => [3; 0]
  | Some es => let r := intercept es defect d in [fst r; b2z (snd r)]
  end.

Fixpoint run_d (st : option (list engine)) (ops : list dop) : list word :=
  match ops with
  | [] => []
  | OLoad es :: r => let st' := load_chain es in
                     [b2z (match st' with Some _ => true | None => false end)] :: run_d st' r
  | OSdk p :: r => let st' := new_static p in
                   [b2z (match st' with Some _ => true | None => false end)] :: run_d st' r
  | OReq d :: r => [req_code st d] :: run_d st r
  | OCall defect _ d :: r => call_word st defect d :: run_d st r
  end.

Definition run (ops : list word) : option (list word) :=
  match decode_ops ops with
  | Some ds => Some (run_d None ds)
  | None => None
  end.

(* ---- the property on an observed trace ----
   What is loaded is what the implementation said it accepted.
   clause 1: decision of a loaded RBAC chain = chain_sem_b
   clause 2: decision of an accepted SDK policy = sdk_sem_b
   clause 3: shape of observations / a request with nothing loaded
   clause 4: an RPC reaches the handler only if the request view could be built and the
             loaded policy's semantics allow it (fail closed) *)
Inductive loaded := LNone | LChain (es : list engine) | LSdk (p : sdk).

Definition req_clause (st : loaded) (d : rpc) (code : Z) : Z * Z * bool :=
  match st with
  | LNone => (3, code, code =? 2)
  | LChain es => (1, code, code =? (if chain_sem_b d es then 0 else 1))
  | LSdk p => (2, code, code =? (if sdk_sem_b d p then 0 else 1))
  end.

Definition allowed_b (st : loaded) (d : rpc) : bool :=
  match st with
  | LNone => false
  | LChain es => chain_sem_b d es
  | LSdk p => sdk_sem_b d p
  end.

Definition call_clauses (st : loaded) (defect : Z) (d : rpc) (code h : Z) : list (Z * Z * bool) :=
  [(4, defect, (h =? 0) || ((h =? 1) && (defect =? 0) && allowed_b st d));
   match st with
   | LNone => (3, code, (code =? 3) && (h =? 0))
   | _ => (if match st with LChain _ => true | _ => false end then 1 else 2, code,
           negb (defect =? 0) ||
           ((code =? (if allowed_b st d then 0 else 1)) && (h =? b2z (allowed_b st d))))
   end].

Fixpoint clauses_d (st : loaded) (ops : list dop) (obs : list word) : list (Z * Z * bool) :=
  match ops, obs with
  | [], [] => []
  | OLoad es :: r, [ok] :: r' =>
    (3, 0, (ok =? 0) || (ok =? 1)) :: clauses_d (if ok =? 1 then LChain es else LNone) r r'
  | OSdk p :: r, [ok] :: r' =>
    (3, 0, (ok =? 0) || (ok =? 1)) :: clauses_d (if ok =? 1 then LSdk p else LNone) r r'
  | OReq d :: r, [code] :: r' => req_clause st d code :: clauses_d st r r'
  | OCall defect _ d :: r, [code; h] :: r' => call_clauses st defect d code h ++ clauses_d st r r'
  | _, _ => [(3, -1, false)]
  end.

Definition clauses (ops : list word) (obs : list word) : list (Z * Z * bool) :=
  match decode_ops ops with
  | Some ds => clauses_d LNone ds obs
  | None => [(0, 0, false)]
  end.

Definition holds_b (ops obs : list word) : bool :=
  forallb (fun c => snd c) (clauses ops obs).

Definition ops_wf (ops : list word) : bool :=
  match decode_ops ops with Some _ => true | None => false end.

Definition check_case (c : case) : verdict :=
  decide (run (c_ops c)) (c_obs c) (clauses (c_ops c) (c_obs c)).
