(* C12: what an http2Server does with the frames of a (misbehaving) client.
   Transcribes, from /repo:
     x/net/http2 Framer.readMetaFrame + MetaHeadersFrame.checkPseudos   (fscan, check_pseudos)
     internal/transport/http2_server.go  operateHeaders                  (hstep, decide_req, headers_step)
                                         HandleStreams (StreamError / ConnectionError paths),
                                         handleRSTStream, handleData (empty frames), write, writeStatus,
                                         finishStream, closeStream/deleteStream, writeEarlyAbort,
                                         outgoing GOAWAY
     internal/transport/controlbuf.go    loopy's stream-level flow control as far as it decides WHEN the
                                         END_STREAM trailers of a finished stream are written
                                         (processData / updateStreamAfterWrite / incomingWindowUpdateHandler /
                                         cleanupStreamHandler -> onWrite -> deleteStream)
     internal/grpcutil/method.go         ContentSubtype                   (ct_valid)
     decodeTimeout is model/Timeout.v (C07), decodeBinHeader is MDWire.decode_bin (C09).
   Header field names are drawn from a fixed table (kind -> name), values are byte lists.
   No proofs here. *)
From Coq Require Import List ZArith Bool.
From VLib Require Import Codec Machine.
From VModel Require Timeout MDWire.
Import ListNotations.
Open Scope Z_scope.

Definition lenZ {A} (l : list A) : Z := Z.of_nat (length l).

(* ---- header fields ---- *)
Definition field := (Z * list Z)%type.          (* (kind, value) *)

Definition K_CT := 1.   Definition K_ACCENC := 2. Definition K_ENC := 3.  Definition K_METHOD := 4.
Definition K_PATH := 5. Definition K_TIMEOUT := 6. Definition K_CONN := 7. Definition K_AUTH := 8.
Definition K_HOST := 9. Definition K_USER := 10.  Definition K_BIN := 11.  Definition K_GSTATUS := 12.
Definition K_SCHEME := 13. Definition K_UA := 14. Definition K_STATUS := 15. Definition K_FOO := 16.
Definition K_BADNAME := 17. Definition K_TE := 18.

(* len(name) of: content-type grpc-accept-encoding grpc-encoding :method :path grpc-timeout
   connection :authority host k1 k2-bin grpc-status :scheme user-agent :status :foo Bad te *)
Definition name_len (k : Z) : Z :=
  match k with
  | 1 => 12 | 2 => 20 | 3 => 13 | 4 => 7 | 5 => 5 | 6 => 12 | 7 => 10 | 8 => 10 | 9 => 4
  | 10 => 2 | 11 => 6 | 12 => 11 | 13 => 7 | 14 => 10 | 15 => 7 | 16 => 4 | 17 => 3 | 18 => 2
  | _ => 0
  end.
Definition known_kind (k : Z) : bool := (1 <=? k) && (k <=? 18).
Definition is_pseudo (k : Z) : bool :=
  (k =? 4) || (k =? 5) || (k =? 8) || (k =? 13) || (k =? 15) || (k =? 16).
Definition valid_name (k : Z) : bool := negb (k =? 17).        (* "Bad" has an upper-case letter *)
(* httpguts.ValidHeaderFieldValue: no control characters except TAB *)
Definition valid_value (v : list Z) : bool :=
  forallb (fun b => negb (((b <? 32) && negb (b =? 9)) || (b =? 127))) v.

Fixpoint parse_fields (n : nat) (w : list Z) : option (list field) :=
  match n with
  | O => match w with [] => Some [] | _ => None end
  | S n' =>
    match w with
    | k :: r =>
      match get_bytes r with
      | Some (v, rest) =>
        match parse_fields n' rest with
        | Some fs => Some ((k, v) :: fs)
        | None => None
        end
      | None => None
      end
    | [] => None
    end
  end.

(* ---- x/net/http2: readMetaFrame's emit function, then checkPseudos ---- *)
(* None = `invalid` was set (StreamError PROTOCOL); Some (fields, truncated) otherwise *)
Fixpoint fscan (fs : list field) (remain : Z) (sawReg : bool) : option (list field * bool) :=
  match fs with
  | [] => Some ([], false)
  | (k, v) :: r =>
    if negb (valid_value v) || (if is_pseudo k then sawReg else negb (valid_name k)) then None
    else
      let size := name_len k + lenZ v + 32 in
      if size >? remain then Some ([], true)
      else match fscan r (remain - size) (sawReg || negb (is_pseudo k)) with
           | Some (l, t) => Some ((k, v) :: l, t)
           | None => None
           end
  end.

Fixpoint nodupb (l : list Z) : bool :=
  match l with
  | [] => true
  | x :: r => negb (existsb (Z.eqb x) r) && nodupb r
  end.
Definition pseudo_kinds (fs : list field) : list Z := filter is_pseudo (map fst fs).
Definition check_pseudos (fs : list field) : bool :=
  let pk := pseudo_kinds fs in
  negb (existsb (Z.eqb K_FOO) pk) && nodupb pk &&
  negb (existsb (fun k => negb (k =? K_STATUS)) pk && existsb (Z.eqb K_STATUS) pk).

Inductive meta := MStreamErr | MFrame (fs : list field) (truncated : bool).
Definition read_meta (limit : Z) (fs : list field) : meta :=
  match fscan fs limit false with
  | None => MStreamErr
  | Some (l, t) => if check_pseudos l then MFrame l t else MStreamErr
  end.

(* ---- operateHeaders ---- *)
Definition base_ct : list Z := [97;112;112;108;105;99;97;116;105;111;110;47;103;114;112;99]. (* application/grpc *)
Fixpoint strip_prefix (p s : list Z) : option (list Z) :=
  match p, s with
  | [], _ => Some s
  | a :: p', b :: s' => if a =? b then strip_prefix p' s' else None
  | _ :: _, [] => None
  end.
(* grpcutil.ContentSubtype(...) second result *)
Definition ct_valid (v : list Z) : bool :=
  match strip_prefix base_ct v with
  | Some [] => true
  | Some (c :: _) => (c =? 43) || (c =? 59)
  | None => false
  end.
Definition v_POST : list Z := [80; 79; 83; 84].
Fixpoint bytes_eqb (a b : list Z) : bool :=
  match a, b with
  | [], [] => true
  | x :: a', y :: b' => (x =? y) && bytes_eqb a' b'
  | _, _ => false
  end.

Definition mdt := list (Z * list (list Z)).     (* metadata.MD keyed by field kind *)
Fixpoint md_get (k : Z) (m : mdt) : list (list Z) :=
  match m with
  | [] => []
  | (k', vs) :: r => if k =? k' then vs else md_get k r
  end.
Fixpoint md_add (k : Z) (v : list Z) (m : mdt) : mdt :=
  match m with
  | [] => [(k, [v])]
  | (k', vs) :: r => if k =? k' then (k', vs ++ [v]) :: r else (k', vs) :: md_add k v r
  end.
Definition md_del (k : Z) (m : mdt) : mdt := filter (fun e => negb (fst e =? k)) m.
Definition md_has (k : Z) (m : mdt) : bool := existsb (fun e => fst e =? k) m.
Definition md_nvals (m : mdt) : Z := fold_right (fun e a => lenZ (snd e) + a) 0 m.

Record hacc := mkacc {
  a_grpc : bool;            (* isGRPC *)
  a_method : list Z;        (* httpMethod *)
  a_path : list Z;          (* s.method *)
  a_tset : bool;            (* timeoutSet *)
  a_timeout : Z;            (* timeout *)
  a_proto : bool;           (* protocolError *)
  a_herr : bool;            (* headerError != nil *)
  a_md : mdt }.
Definition acc0 := mkacc false [] [] false 0 false false [].

Definition reserved_skipped (k : Z) : bool :=      (* isReservedHeader && !isWhitelistedHeader, default case *)
  (k =? K_GSTATUS) || (k =? K_SCHEME) || (k =? K_STATUS) || (k =? K_FOO) || (k =? K_TE).

Definition hstep (a : hacc) (f : field) : hacc :=
  let '(k, v) := f in
  if k =? K_CT then
    if ct_valid v then mkacc true (a_method a) (a_path a) (a_tset a) (a_timeout a) (a_proto a) (a_herr a) (md_add k v (a_md a))
    else a
  else if k =? K_ACCENC then
    mkacc (a_grpc a) (a_method a) (a_path a) (a_tset a) (a_timeout a) (a_proto a) (a_herr a) (md_add k v (a_md a))
  else if k =? K_ENC then a
  else if k =? K_METHOD then
    mkacc (a_grpc a) v (a_path a) (a_tset a) (a_timeout a) (a_proto a) (a_herr a) (a_md a)
  else if k =? K_PATH then
    mkacc (a_grpc a) (a_method a) v (a_tset a) (a_timeout a) (a_proto a) (a_herr a) (a_md a)
  else if k =? K_TIMEOUT then
    match Timeout.decode v with
    | Some d => mkacc (a_grpc a) (a_method a) (a_path a) true d (a_proto a) (a_herr a) (a_md a)
    | None => mkacc (a_grpc a) (a_method a) (a_path a) true 0 (a_proto a) true (a_md a)
    end
  else if k =? K_CONN then
    mkacc (a_grpc a) (a_method a) (a_path a) (a_tset a) (a_timeout a) true (a_herr a) (a_md a)
  else if reserved_skipped k then a
  else if k =? K_BIN then
    match MDWire.decode_bin v with
    | Some d => mkacc (a_grpc a) (a_method a) (a_path a) (a_tset a) (a_timeout a) (a_proto a) (a_herr a) (md_add k d (a_md a))
    | None => mkacc (a_grpc a) (a_method a) (a_path a) (a_tset a) (a_timeout a) (a_proto a) true (a_md a)
    end
  else mkacc (a_grpc a) (a_method a) (a_path a) (a_tset a) (a_timeout a) (a_proto a) (a_herr a) (md_add k v (a_md a)).

Definition collect (fs : list field) : hacc := fold_left hstep fs acc0.

(* "If :authority is missing, Host must be renamed to :authority", else Host is discarded *)
Definition fix_authority (m : mdt) : mdt :=
  match md_get K_AUTH m with
  | [] => if md_has K_HOST m then (K_AUTH, md_get K_HOST m) :: md_del K_HOST m else m
  | _ => md_del K_HOST m
  end.

(* HTTP/2 error codes and status codes used below *)
Definition E_NO := 0. Definition E_PROTOCOL := 1. Definition E_INTERNAL := 2.
Definition E_STREAM_CLOSED := 5. Definition E_FRAME_SIZE := 6. Definition E_REFUSED := 7.

Inductive decision :=
| DRst (code : Z)                         (* cleanupStream{rst, code} *)
| DAbort (http grpc : Z)                  (* writeEarlyAbort(http status, grpc code) *)
| DDropped                                (* state != reachable: silently dropped *)
| DAccept (tset : bool) (md : mdt) (path : list Z).

(* operateHeaders after the stream-id check: [reachable] is t.state == reachable,
   [nact] = len(t.activeStreams), [maxs] = t.maxStreams *)
Definition decide_req (reachable : bool) (nact maxs : Z) (fs : list field) : decision :=
  let a := collect fs in
  if (lenZ (md_get K_AUTH (a_md a)) >? 1) || (lenZ (md_get K_HOST (a_md a)) >? 1) then DAbort 400 13
  else if a_proto a then DRst E_PROTOCOL
  else if negb (a_grpc a) then DAbort 415 3
  else if a_herr a then DAbort 400 13
  else if negb reachable then DDropped
  else if nact >=? maxs then DRst E_REFUSED
  else if negb (bytes_eqb (a_method a) v_POST) then DAbort 405 13
  else if a_tset a && (a_timeout a <=? 0) then DAbort 200 4
  else DAccept (a_tset a) (fix_authority (a_md a)) (a_path a).

(* ---- the connection as a state machine ---- *)
(* stream states: 0 streamActive,
     1 streamReadDone by END_STREAM on the HEADERS (nothing has been put into the stream's recvBuffer),
     5 streamReadDone by END_STREAM on a DATA frame (io.EOF has been put: recvBuffer.err is set),
   streamDone but still in t.activeStreams because the END_STREAM trailers have not been written:
     3 / 4 loopy holds DATA + trailers behind the stream's send window (3: the stream was
           streamActive when it finished, RST_STREAM(NO_ERROR) follows the trailers; 4: it was
           streamReadDone),
     7 / 8 = 3 / 4 with recvBuffer.err set (io.EOF was put before or after the finish),
   20 / 21 / 25 = 0 / 1 / 5 detached: a truncated HEADERS frame for the stream made loopy forget
           it (cleanupStream deletes it from estdStreams) while it stays in t.activeStreams;
           loopy drops every later frame of its response,
     2 / 6 streamDone and never to be flushed (finished while detached, or detached while
           blocked): stays in t.activeStreams until the connection goes; 6 = with recvBuffer.err set *)
Definition detached (s : Z) : bool := 20 <=? s.
Definition is_done (s : Z) : bool := negb ((s =? 0) || (s =? 1) || (s =? 5) || detached s).
Definition read_done (s : Z) : bool := (s =? 1) || (s =? 5) || (s =? 21) || (s =? 25).
Definition detach_state (s : Z) : Z :=
  if s =? 0 then 20 else if s =? 1 then 21 else if s =? 5 then 25
  else if (s =? 3) || (s =? 4) then 2 else if (s =? 7) || (s =? 8) then 6 else s.
Definition is_blocked (s : Z) : bool := (s =? 3) || (s =? 4) || (s =? 7) || (s =? 8).
Definition rst_after (s : Z) : bool := (s =? 3) || (s =? 7).
Definition eof_put (s : Z) : bool := (s =? 5) || (s =? 6) || (s =? 7) || (s =? 8) || (s =? 25).
(* state of a stream that finishes while its response cannot be flushed *)
Definition fin_blocked (s : Z) : Z := if s =? 0 then 3 else if s =? 1 then 4 else 8.

Record sstate := mkst {
  s_max : Z;                     (* t.maxStreamID *)
  s_active : list (Z * Z);       (* t.activeStreams: (id, stream state) *)
  s_handled : Z;                 (* number of handler invocations *)
  s_mode : Z;                    (* 0 reachable; 1 draining after the GOAWAY(PROTOCOL), loopy has exited; 2 closed *)
  s_post : Z;                    (* ops executed in mode 1 (driver protocol: at most [budget]) *)
  s_win : list (Z * Z) }.        (* per stream: WINDOW_UPDATE credit received minus bytes handed to loopy
                                    (loopy's -bytesOutStanding once everything sendable is sent) *)
Definition st0 := mkst 0 [] 0 0 0 [].
Definition budget := 20.

(* c_zw: the client's SETTINGS carry INITIAL_WINDOW_SIZE = 0 (loopy's oiws) *)
Record config := mkcfg { c_maxs : Z; c_limit : Z; c_tiny : bool; c_zw : bool }.

Fixpoint find_stream (sid : Z) (l : list (Z * Z)) : option Z :=
  match l with
  | [] => None
  | (i, s) :: r => if i =? sid then Some s else find_stream sid r
  end.
Definition del_stream (sid : Z) (l : list (Z * Z)) : list (Z * Z) := filter (fun e => negb (fst e =? sid)) l.
Fixpoint set_stream (sid s : Z) (l : list (Z * Z)) : list (Z * Z) :=
  match l with
  | [] => []
  | (i, s0) :: r => if i =? sid then (i, s) :: r else (i, s0) :: set_stream sid s r
  end.

Definition alive (st : sstate) : bool := s_mode st =? 0.
(* frames reach the client only while loopy runs *)
Definition out (st : sstate) (ev : list Z) : list Z := if alive st then ev else [].
Definition ev_rst (sid code : Z) : list Z := [3; sid; code; 0].
Definition ev_hdr (sid http grpc : Z) : list Z := [1; sid; http; grpc].
Definition with_active (st : sstate) (l : list (Z * Z)) : sstate :=
  mkst (s_max st) l (s_handled st) (s_mode st) (s_post st) (s_win st).
(* the stream's send window: oiws - bytesOutStanding *)
Definition w0 (cfg : config) : Z := if c_zw cfg then 0 else 65535.        (* oiws *)
Definition window (cfg : config) (st : sstate) (sid : Z) : Z :=
  w0 cfg + match find_stream sid (s_win st) with Some d => d | None => 0 end.
Definition with_win (st : sstate) (sid d : Z) : sstate :=
  mkst (s_max st) (s_active st) (s_handled st) (s_mode st) (s_post st) ((sid, d) :: del_stream sid (s_win st)).

Definition detach (st : sstate) (sid : Z) : sstate :=
  match find_stream sid (s_active st) with
  | Some s => with_active st (set_stream sid (detach_state s) (s_active st))
  | None => st
  end.
(* HandleStreams on http2.StreamError{sid, code}: close the active stream or just RST *)
Definition stream_error (st : sstate) (sid code : Z) : sstate * list Z :=
  (with_active st (del_stream sid (s_active st)), out st (ev_rst sid code)).

(* writeEarlyAbort: HEADERS(END_STREAM) [+ RST_STREAM(NO_ERROR)], or RST_STREAM(INTERNAL) when the
   response exceeds the header list size advertised by the client *)
Definition ev_abort (cfg : config) (sid http grpc : Z) (ended : bool) : list Z :=
  if c_tiny cfg then ev_rst sid E_INTERNAL
  else ev_hdr sid http grpc ++ (if ended then [] else ev_rst sid E_NO).

Definition auth_obs (m : mdt) : list Z :=
  match md_get K_AUTH m with
  | a :: _ => put_bytes a
  | [] => [-1]
  end.

Definition headers_step (cfg : config) (st : sstate) (sid : Z) (ended : bool) (fs : list field)
  : sstate * list Z :=
  match read_meta (c_limit cfg) fs with
  | MStreamErr => stream_error st sid E_PROTOCOL
  | MFrame l true =>
    (* cleanupStream{rst, FRAME_SIZE}: loopy also forgets the stream if it knows it *)
    (if alive st then detach st sid else st, out st (ev_rst sid E_FRAME_SIZE))
  | MFrame l false =>
    if Z.even sid || (sid <=? s_max st) then
      (* illegal stream id: GOAWAY(maxStreamID, PROTOCOL), state = draining, loopy exits *)
      (mkst (s_max st) (s_active st) (s_handled st) 1 (s_post st) (s_win st), out st [7; s_max st; E_PROTOCOL; 0])
    else
      let st1 := mkst sid (s_active st) (s_handled st) (s_mode st) (s_post st) (s_win st) in
      match decide_req (alive st) (lenZ (s_active st)) (c_maxs cfg) l with
      | DRst code => (st1, out st (ev_rst sid code))
      | DAbort http grpc => (st1, out st (ev_abort cfg sid http grpc ended))
      | DDropped => (st1, [])
      | DAccept tset md path =>
        (mkst sid (s_active st ++ [(sid, b2z ended)]) (s_handled st + 1) (s_mode st) (s_post st) (s_win st),
         [9; sid; b2z tset; b2z ended; lenZ md; md_nvals md] ++ put_bytes path ++ auth_obs md)
      end
  end.

Inductive op :=
| OHeaders (sid : Z) (ended : bool) (fs : list field)
| ORst (sid : Z)
| OFinish (sid : Z)
| OData (sid : Z) (ended : bool)
| OConnErr
| OWinUpd (sid : Z)
| OWriteFinish (sid n : Z)
| OWindow (sid inc : Z).

(* the application finishes stream sid: WriteStatus(OK), after a Write of a 5 + n byte message
   when wr = Some n.  The stream leaves t.activeStreams when loopy writes the END_STREAM
   trailers (cleanupStream.onWrite), which it does only after the DATA queued before them *)
Definition finish_op (cfg : config) (st : sstate) (sid : Z) (wr : option Z) : sstate * list Z :=
  match find_stream sid (s_active st) with
  | None => (st, [])
  | Some s =>
    if is_done s then (st, [])         (* streamDone: Write and WriteStatus return at once *)
    else if negb (alive st) then (st, [])
      (* loopy has exited and closed the control buffer (loopyWriter.run's deferred cbuf.finish):
         executeAndPut fails with ErrConnClosing before the header-list check, Write / WriteStatus
         return that error and the stream is left as it is, in t.activeStreams *)
    else if c_tiny cfg then (with_active st (del_stream sid (s_active st)), ev_rst sid E_INTERNAL)
    else if detached s then
      (* loopy does not know the stream: response frames and trailers are dropped, onWrite never runs *)
      (with_active st (set_stream sid (if s =? 25 then 6 else 2) (s_active st)), [])
    else
      let fin := if s =? 0 then ev_rst sid E_NO else [] in
      match wr with
      | None => (with_active st (del_stream sid (s_active st)), ev_hdr sid 200 0 ++ fin)
      | Some n =>
        (* HEADERS (no END_STREAM) at once; DATA as far as the stream's send window allows;
           the trailers only after the last byte of DATA *)
        let w := window cfg st sid - (5 + n) in
        if 0 <=? w then
          (with_active st (del_stream sid (s_active st)), ev_hdr sid 1200 (-1) ++ ev_hdr sid (-1) 0 ++ fin)
        else
          (with_active (with_win st sid (w - w0 cfg)) (set_stream sid (fin_blocked s) (s_active st)),
           ev_hdr sid 1200 (-1))
      end
  end.

(* handleData for an empty DATA frame.  On END_STREAM it runs s.write(recvMsg{err: io.EOF}) unless the
   stream is streamReadDone (then closeStream).  For a stream that is streamDone but still in
   t.activeStreams the state does not change; recvBuffer.put records the first io.EOF
   (recvBuffer.err) and drops every later one (since 1b83f43 without touching the nil buffer of
   the EOF message; before, that was a nil-pointer panic of the reader goroutine). *)
Definition data_op (st : sstate) (sid : Z) (ended : bool) : sstate * list Z :=
  match find_stream sid (s_active st) with
  | None => (st, [])
  | Some s =>
    if read_done s then
      (with_active st (del_stream sid (s_active st)), out st (ev_rst sid E_STREAM_CLOSED))
    else if negb ended then (st, [])
    else if (s =? 0) || (s =? 20) then (with_active st (set_stream sid (s + 5) (s_active st)), [])
    else if eof_put s then (st, [])        (* a second END_STREAM: dropped by recvBuffer.put *)
    else (with_active st (set_stream sid (s + 4) (s_active st)), [])
  end.

Definition exec_op (cfg : config) (st : sstate) (o : op) : sstate * list Z :=
  match o with
  | OHeaders sid ended fs => headers_step cfg st sid ended fs
  | ORst sid => (with_active st (del_stream sid (s_active st)), [])
  | OFinish sid => finish_op cfg st sid None
  | OWriteFinish sid n => finish_op cfg st sid (Some n)
  | OWindow sid inc =>
    (* WINDOW_UPDATE(sid, inc > 0): loopy adds the credit to a stream it knows; a finished stream
       whose queued DATA now fits is flushed: DATA, END_STREAM trailers (+ RST_STREAM), and only
       now it leaves t.activeStreams *)
    if alive st then
      match find_stream sid (s_active st) with
      | None => (st, [])
      | Some s =>
        let w := window cfg st sid + inc in
        if is_blocked s && (0 <=? w) then
          (with_active st (del_stream sid (s_active st)),
           ev_hdr sid (-1) 0 ++ (if rst_after s then ev_rst sid E_NO else []))
        else (with_win st sid (w - w0 cfg), [])
      end
    else (st, [])
  | OData sid ended => data_op st sid ended
  | OConnErr => (mkst (s_max st) [] (s_handled st) 2 (s_post st) (s_win st), [8; 0; 0; 0])
  | OWinUpd sid => stream_error st sid E_PROTOCOL
  end.

(* driver protocol: nothing is sent once the connection is closed, and at most [budget]
   ops after the server's GOAWAY(PROTOCOL) *)
Definition step (cfg : config) (st : sstate) (o : op) : sstate * list Z :=
  if (s_mode st =? 2) || ((s_mode st =? 1) && (s_post st >=? budget)) then (st, [])
  else
    let st' := if s_mode st =? 1
               then mkst (s_max st) (s_active st) (s_handled st) (s_mode st) (s_post st + 1) (s_win st) else st in
    exec_op cfg st' o.

Definition hdr_obs (st : sstate) : list Z := [lenZ (s_active st); s_handled st; s_max st].

Fixpoint run_ops (cfg : config) (st : sstate) (ops : list op) : list word :=
  match ops with
  | [] => []
  | o :: r => let '(st', ev) := step cfg st o in (hdr_obs st' ++ ev) :: run_ops cfg st' r
  end.

(* ---- decoding of cases ---- *)
Definition field_ok (limit : Z) (f : field) : bool := known_kind (fst f) && (lenZ (snd f) <? 127).
Definition raw_size (fs : list field) : Z := fold_right (fun f a => name_len (fst f) + lenZ (snd f) + 3 + a) 0 fs.
Definition in_sid (sid : Z) : bool := (1 <=? sid) && (sid <? 2147483648).

Definition decode_op (limit : Z) (w : word) : option op :=
  match w with
  | 1 :: sid :: e :: n :: r =>
    if in_sid sid && (0 <=? n) && (n <=? 64) && ((e =? 0) || (e =? 1)) then
      match parse_fields (Z.to_nat n) r with
      | Some fs => if forallb (field_ok limit) fs && (raw_size fs <=? 2 * limit)
                   then Some (OHeaders sid (e =? 1) fs) else None
      | None => None
      end
    else None
  | [2; sid] => if in_sid sid then Some (ORst sid) else None
  | [3; sid] => if in_sid sid then Some (OFinish sid) else None
  | [4; sid; e] => if in_sid sid && ((e =? 0) || (e =? 1)) then Some (OData sid (e =? 1)) else None
  | [5; v] => if (0 <=? v) && (v <=? 8) then Some OConnErr else None
  | [6; sid] => if in_sid sid then Some (OWinUpd sid) else None
  | [9; sid; n] => if in_sid sid && (0 <=? n) && (n <=? 1000) then Some (OWriteFinish sid n) else None
  | [10; sid; inc] => if in_sid sid && (1 <=? inc) && (inc <=? 2147483647) then Some (OWindow sid inc) else None
  | _ => None
  end.
Definition decode_cfg (w : word) : option config :=
  let ok m l t z := (0 <=? m) && (m <=? max_u32) && (128 <=? l) && (l <=? 65536) && ((t =? 0) || (t =? 1)) &&
                    ((z =? 0) || (z =? 1)) in
  match w with
  | [m; l; t] => if ok m l t 0 then Some (mkcfg m l (t =? 1) false) else None
  | [m; l; t; z] => if ok m l t z then Some (mkcfg m l (t =? 1) (z =? 1)) else None
  | _ => None
  end.
Fixpoint decode_ops (limit : Z) (ws : list word) : option (list op) :=
  match ws with
  | [] => Some []
  | w :: r => match decode_op limit w, decode_ops limit r with
              | Some o, Some os => Some (o :: os)
              | _, _ => None
              end
  end.

Definition run (cfg : word) (ops : list word) : option (list word) :=
  match decode_cfg cfg with
  | None => None
  | Some c => match decode_ops (c_limit c) ops with
              | None => None
              | Some os => Some (run_ops c st0 os)
              end
  end.

(* ---- the property as a predicate on any observation list ---- *)
(* what the text of C12 calls an illegal request, evaluated on the fields that were sent *)
Definition count_kind (k : Z) (fs : list field) : Z := lenZ (filter (fun f => fst f =? k) fs).
Definition has_post (fs : list field) : bool :=       (* exactly one :method field, and it is POST *)
  (count_kind K_METHOD fs <=? 1) &&
  existsb (fun f => (fst f =? K_METHOD) && bytes_eqb (snd f) v_POST) fs.
Definition some_ct_valid (fs : list field) : bool := existsb (fun f => (fst f =? K_CT) && ct_valid (snd f)) fs.
Definition all_ct_valid (fs : list field) : bool := forallb (fun f => negb (fst f =? K_CT) || ct_valid (snd f)) fs.
Definition timeouts_ok (fs : list field) : bool :=
  forallb (fun f => negb (fst f =? K_TIMEOUT) || Timeout.wellformed (snd f)) fs.
Definition bins_ok (fs : list field) : bool :=
  forallb (fun f => negb (fst f =? K_BIN) ||
                    match MDWire.decode_bin (snd f) with Some _ => true | None => false end) fs.
Definition legal_id (prev_max sid : Z) : bool := Z.odd sid && (prev_max <? sid).

(* a request that passes every check that precedes the admission check *)
Definition admissible (limit : Z) (fs : list field) : bool :=
  match read_meta limit fs with
  | MFrame l false =>
    let a := collect l in
    (lenZ (md_get K_AUTH (a_md a)) <=? 1) && (lenZ (md_get K_HOST (a_md a)) <=? 1) &&
    negb (a_proto a) && a_grpc a && negb (a_herr a)
  | _ => false
  end.

(* per-op state threaded through an observation list: previous header and whether the
   connection has been seen failing (GOAWAY or close event) *)
Record cstate := mkcs { p_n : Z; p_h : Z; p_max : Z; p_down : bool }.
Definition cs0 := mkcs 0 0 0 false.

Fixpoint has_event (tag : Z) (ev : list Z) (fuel : nat) : bool :=
  match fuel with
  | O => false
  | S f =>
    match ev with
    | t :: a :: b :: c :: r => (t =? tag) || (if t =? 9 then false else has_event tag r f)
    | _ => false
    end
  end.
Definition down_event (ev : list Z) : bool := has_event 7 ev 8 || has_event 8 ev 8 || has_event 66 ev 8.

(* clause ids:
   1 handler invoked only by a HEADERS frame with a legal stream id, at most once per frame
   2 handler => :method POST            3 handler => some valid content-type
   4 handler => every grpc-timeout well-formed   5 handler => at most one :authority and one host
   6 handler => every -bin value decodes         7 active streams <= MaxConcurrentStreams
   8 admissible request with a legal id while the limit is reached => RST_STREAM(REFUSED_STREAM), no handler
     (the limit is reached by the implementation's own count, len(t.activeStreams) of the previous observation)
  10 the same with the streams counted from the history of the connection (the model's
     s_active: streams handed to a handler whose end - END_STREAM trailers or RST_STREAM from
     the server, RST_STREAM from the client - has not been on the wire; a finished stream whose
     response waits for flow-control window counts)
   9 handler => no invalid content-type field at all (literal reading; see C12_mixed_content_type_refuted)
   10-12: see clause_model *)
Definition clause_op (cfg : config) (p : cstate) (w ob : word) : list (Z * Z * bool) * cstate :=
  match ob with
  | n :: h :: m :: ev =>
    let p' := mkcs n h m (p_down p || down_event ev) in
    let invoked := p_h p <? h in
    let c7 := (7, n, n <=? c_maxs cfg) in
    match decode_op (c_limit cfg) w with
    | Some (OHeaders sid ended fs) =>
      ([ (1, sid, (h <=? p_h p + 1) && (p_h p <=? h) && (negb invoked || legal_id (p_max p) sid));
         (2, sid, negb invoked || has_post fs);
         (3, sid, negb invoked || some_ct_valid fs);
         (4, sid, negb invoked || timeouts_ok fs);
         (5, sid, negb invoked || ((count_kind K_AUTH fs <=? 1) && (count_kind K_HOST fs <=? 1)));
         (6, sid, negb invoked || bins_ok fs);
         c7;
         (8, sid, negb (negb (p_down p) && legal_id (p_max p) sid && admissible (c_limit cfg) fs &&
                        (c_maxs cfg <=? p_n p))
                  || (negb invoked && word_eqb ev (ev_rst sid E_REFUSED)));
         (9, sid, negb invoked || all_ct_valid fs) ], p')
    | Some _ => ([ (1, 0, h =? p_h p); c7 ], p')
    | None => ([ (0, 0, false) ], p')
    end
  | _ => ([ (0, 0, false) ], p)
  end.

(* clause 10: the situation (connection alive, legal id, admissible request, limit reached) is
   classified on the model state [st] reached by the op history (and the implementation has not
   been seen going down - GOAWAY, close, panic - before: the driver stops sending then); what
   happened (handler counter, frames) is the observation's *)
(* clauses 11 / 12 ("the server never panics"; the driver reports a panic of the transport as event
   66 of the op during which it happened):
   11 no panic on a DATA frame with END_STREAM for a stream that has finished but is still in
      t.activeStreams and has already been sent END_STREAM (classified on the model state:
      stream states 6-8) - the frame class of the defect repaired by 1b83f43
   12 no panic at all *)
Definition second_end_stream (st : sstate) (o : op) : bool :=
  match o with
  | OData sid true => match find_stream sid (s_active st) with
                      | Some s => is_done s && eof_put s
                      | None => false
                      end
  | _ => false
  end.
Definition clause_model (cfg : config) (st : sstate) (p : cstate) (w ob : word) : list (Z * Z * bool) :=
  match decode_op (c_limit cfg) w, ob with
  | Some o, n :: h :: m :: ev =>
    let seen := has_event 66 ev 8 in
    match o with
    | OHeaders sid ended fs =>
      [ (10, sid, negb (alive st && negb (p_down p) && legal_id (s_max st) sid && admissible (c_limit cfg) fs &&
                        (c_maxs cfg <=? lenZ (s_active st)))
                  || (negb (p_h p <? h) && word_eqb ev (ev_rst sid E_REFUSED))) ]
    | _ => []
    end ++ [ (11, 0, negb (second_end_stream st o && seen)); (12, 0, negb seen) ]
  | _, _ => []
  end.
Definition model_next (cfg : config) (st : sstate) (w : word) : sstate :=
  match decode_op (c_limit cfg) w with Some o => fst (step cfg st o) | None => st end.

Fixpoint clauses_from (cfg : config) (p : cstate) (st : sstate) (ops obs : list word) : list (Z * Z * bool) :=
  match ops, obs with
  | w :: r, ob :: r' =>
    let '(cl, p') := clause_op cfg p w ob in
    cl ++ clause_model cfg st p w ob ++ clauses_from cfg p' (model_next cfg st w) r r'
  | [], [] => []
  | _, _ => [(0, 0, false)]
  end.

Definition clauses (cfg : word) (ops obs : list word) : list (Z * Z * bool) :=
  match decode_cfg cfg with
  | Some c => clauses_from c cs0 st0 ops obs
  | None => [(0, 0, false)]
  end.

(* the literal-reading clause 9 is a registered deviation; everything else must hold *)
Definition holds_b (cfg : word) (ops obs : list word) : bool :=
  forallb (fun c => (fst (fst c) =? 9) || snd c) (clauses cfg ops obs).

Definition check_case (c : case) : verdict :=
  decide (run (c_cfg c) (c_ops c)) (c_obs c) (clauses (c_cfg c) (c_ops c) (c_obs c)).
