(* C56: DNS resolver pacing and target parsing.
   Transcribes internal/resolver/dns/dns_resolver.go: dnsResolver.watcher / ResolveNow /
   Close as a timed machine over virtual time (nanoseconds, Z), parseTarget, formatIP,
   lookupHost's address formatting, and net.SplitHostPort (Go standard library, go1.25).
   internal/backoff Exponential.Backoff is transcribed for Multiplier = 2, Jitter = 0 (the
   driver pins backoff.DefaultExponential to such a config, so that all values are exact
   integers; the general float function and its jitter are property C20).
   netip.ParseAddr is external: its verdict (0 not an IP, 4 IPv4, 6 other) is an input.
   No proofs here. *)
From Coq Require Import List ZArith Bool.
From VLib Require Import Codec Machine.
Import ListNotations.
Open Scope Z_scope.

(* ================= pacing ================= *)

(* scripted outcome of one LookupHost call:
   kind 0 addresses, cc.UpdateState returns nil       1 temporary DNS error
        2 addresses, cc.UpdateState returns an error  3 non-temporary DNS error (suppressed by
                                                        handleDNSError: empty update, success)
   dur  virtual time the lookup takes; n number of addresses *)
Record outcome := mko { o_kind : Z; o_dur : Z; o_n : Z }.

(* MinResolutionInterval, backoff BaseDelay / MaxDelay, ResolvingTimeout, lookup script *)
Record config := mkc { c_min : Z; c_base : Z; c_max : Z; c_rto : Z; c_script : list outcome }.

(* Exponential.Backoff(retries) with Multiplier 2, Jitter 0:
     if retries == 0 { return BaseDelay }
     for backoff < max && retries > 0 { backoff *= 2; retries-- }
     if backoff > max { backoff = max } *)
Fixpoint bo_loop (retries : nat) (b mx : Z) : Z :=
  match retries with
  | O => b
  | S r => if b <? mx then bo_loop r (b * 2) mx else b
  end.
Definition bo (c : config) (retries : Z) : Z :=
  if retries =? 0 then c_base c else
  let b := bo_loop (Z.to_nat retries) (c_base c) (c_max c) in
  if b >? c_max c then c_max c else b.

Inductive phase :=
| Idle                                (* not built yet *)
| Looking (tdone : Z) (o : outcome)   (* d.lookup() in flight; returns at tdone with o *)
| WaitRN (next : Z)                   (* after a success: select { ctx.Done, d.rn } *)
| WaitTimer (t : Z)                   (* select { ctx.Done, TimeAfter(TimeUntil(next)) }: fires at t *)
| Closed.

(* s_rn: the 1-buffered channel d.rn holds a token; s_bidx: backoffIndex; s_n: lookups started *)
Record st := mks { s_now : Z; s_ph : phase; s_rn : bool; s_bidx : Z; s_n : nat }.

Inductive ev := EvLookup (t : Z) | EvUpdate (t n : Z) | EvError (t : Z).

Definition script_at (c : config) (n : nat) : outcome := nth n (c_script c) (mko 0 0 1).

(* the lookup context has timeout ResolvingTimeout: a longer lookup fails at the timeout *)
Definition eff (c : config) (o : outcome) : outcome :=
  if o_dur o >? c_rto c then mko 1 (c_rto c) 0 else o.

Definition is_fail (o : outcome) : bool := (o_kind o =? 1) || (o_kind o =? 2).

Definition result_ev (t : Z) (o : outcome) : ev :=
  if o_kind o =? 1 then EvError t else if o_kind o =? 3 then EvUpdate t 0 else EvUpdate t (o_n o).

(* one transition of the watcher goroutine that is due at or before [target] *)
Definition wstep (c : config) (s : st) (target : Z) : option (st * ev) :=
  match s_ph s with
  | Looking td o =>
    if td <=? target then
      if is_fail o then
        Some (mks (s_now s) (WaitTimer (Z.max (td + bo c (s_bidx s)) td)) (s_rn s) (s_bidx s + 1) (s_n s),
              result_ev td o)
      else if s_rn s then
        Some (mks (s_now s) (WaitTimer (Z.max (td + c_min c) td)) false 1 (s_n s), result_ev td o)
      else
        Some (mks (s_now s) (WaitRN (td + c_min c)) false 1 (s_n s), result_ev td o)
    else None
  | WaitTimer t =>
    if t <=? target then
      let o := eff c (script_at c (s_n s)) in
      Some (mks (s_now s) (Looking (t + o_dur o) o) (s_rn s) (s_bidx s) (S (s_n s)), EvLookup t)
    else None
  | _ => None
  end.

Definition set_now (s : st) (t : Z) : st := mks t (s_ph s) (s_rn s) (s_bidx s) (s_n s).
Definition set_ph (s : st) (p : phase) : st := mks (s_now s) p (s_rn s) (s_bidx s) (s_n s).

(* run the watcher until nothing is due at or before [target]; None = out of fuel *)
Fixpoint advance (c : config) (fuel : nat) (s : st) (target : Z) : option (st * list ev) :=
  match fuel with
  | O => None
  | S f =>
    match wstep c s target with
    | None => Some (set_now s target, [])
    | Some (s', e) =>
      match advance c f s' target with
      | Some (s'', es) => Some (s'', e :: es)
      | None => None
      end
    end
  end.

Definition fuel_of (dt : Z) : nat := 4000.

Inductive top := OBuild | OAdvance (dt : Z) | OResolveNow | OClose.

Definition tstep (c : config) (s : st) (o : top) : option (st * list ev) :=
  match o with
  | OBuild =>
    match s_ph s with
    | Idle => advance c (fuel_of 0) (set_ph s (WaitTimer (s_now s))) (s_now s)
    | _ => Some (s, [])
    end
  | OAdvance dt => advance c (fuel_of dt) s (s_now s + dt)
  | OResolveNow =>
    match s_ph s with
    | WaitRN next => advance c (fuel_of 0) (set_ph s (WaitTimer (Z.max next (s_now s)))) (s_now s)
    | Idle | Closed => Some (s, [])
    | _ => Some (mks (s_now s) (s_ph s) true (s_bidx s) (s_n s), [])
    end
  | OClose =>
    match s_ph s with
    | Idle => Some (s, [])
    | Looking _ _ => Some (set_ph s Closed, [EvError (s_now s)])
    | _ => Some (set_ph s Closed, [])
    end
  end.

Definition st0 : st := mks 0 Idle false 1 0.

(* ================= target parsing ================= *)

Definition ch_colon : Z := 58.
Definition ch_lbr : Z := 91.
Definition ch_rbr : Z := 93.
Definition s_443 : list Z := [52; 52; 51].
Definition s_localhost : list Z := [108; 111; 99; 97; 108; 104; 111; 115; 116].

Fixpoint index_byte (c : Z) (l : list Z) : option nat :=
  match l with
  | [] => None
  | x :: r => if x =? c then Some O else option_map S (index_byte c r)
  end.

Fixpoint last_index_byte (c : Z) (l : list Z) : option nat :=
  match l with
  | [] => None
  | x :: r => match last_index_byte c r with
              | Some i => Some (S i)
              | None => if x =? c then Some O else None
              end
  end.

Definition has_byte (c : Z) (l : list Z) : bool := existsb (Z.eqb c) l.

(* net.SplitHostPort; None = *AddrError *)
Definition split_host_port (hp : list Z) : option (list Z * list Z) :=
  match last_index_byte ch_colon hp with
  | None => None
  | Some i =>
    if match hp with x :: _ => x =? ch_lbr | [] => false end then
      match index_byte ch_rbr hp with
      | None => None
      | Some e =>
        if Nat.eqb (S e) (length hp) then None
        else if Nat.eqb (S e) i then
          if has_byte ch_lbr (skipn 1 hp) then None
          else if has_byte ch_rbr (skipn (S e) hp) then None
          else Some (firstn (e - 1) (skipn 1 hp), skipn (S i) hp)
        else None
      end
    else
      if has_byte ch_colon (firstn i hp) then None
      else if has_byte ch_lbr hp then None
      else if has_byte ch_rbr hp then None
      else Some (firstn i hp, skipn (S i) hp)
  end.

Inductive perr := EMissing | EColon | EOther.

(* parseTarget(target, defaultPort); ipk = verdict of netip.ParseAddr *)
Definition parse_target (ipk : list Z -> Z) (target dflt : list Z) : perr + (list Z * list Z) :=
  match target with
  | [] => inl EMissing
  | _ =>
    if negb (ipk target =? 0) then inr (target, dflt) else
    match split_host_port target with
    | Some (h, p) =>
      match p with
      | [] => inl EColon
      | _ => inr (match h with [] => s_localhost | _ => h end, p)
      end
    | None =>
      match split_host_port (target ++ ch_colon :: dflt) with
      | Some (h, p) => inr (h, p)
      | None => inl EOther
      end
    end
  end.

(* formatIP given the ParseAddr verdict k of addr *)
Definition format_ip (k : Z) (addr : list Z) : option (list Z) :=
  if k =? 4 then Some addr else if k =? 6 then Some (ch_lbr :: addr ++ [ch_rbr]) else None.

(* the address a resolver emits for IP [addr] (verdict k) and [port] *)
Definition emit_addr (k : Z) (addr port : list Z) : option (list Z) :=
  match format_ip k addr with Some s => Some (s ++ ch_colon :: port) | None => None end.

Fixpoint list_eqb (a b : list Z) : bool :=
  match a, b with
  | [], [] => true
  | x :: a', y :: b' => (x =? y) && list_eqb a' b'
  | _, _ => false
  end.

(* ParseAddr verdicts supplied with a parse op: kt for the target, k1 for the host of
   SplitHostPort(target), k2 for the host of SplitHostPort(target + ":443") *)
Definition ipk_table (target : list Z) (kt k1 k2 : Z) (s : list Z) : Z :=
  if list_eqb s target then kt else
  match split_host_port target with
  | Some (h, _) => if list_eqb s h then k1 else 0
  | None =>
    match split_host_port (target ++ ch_colon :: s_443) with
    | Some (h, _) => if list_eqb s h then k2 else 0
    | None => 0
    end
  end.

(* ================= case encoding =================
   cfg = [min; base; max; rto; nscript; kind_1; dur_1; n_1; ...]
   op  = [0] Build   [1; dt] time passes   [2] ResolveNow   [3] Close
         [5; kt; k1; k2; len; target...]   parseTarget(target, "443"), then Build for IP literals
         [6; k; plen; port...; alen; addr...]  lookupHost formatting of one A/AAAA record
   obs (ops 0-3) = [now; k_1; t_1; n_1; ...]  events during the op: 1 LookupHost called at t,
         2 cc.UpdateState at t with n addresses, 3 cc.ReportError at t
   obs (op 5) = [err; hlen; host...; plen; port...; emitted; alen; addr...]
         err 0 ok, 1 ErrMissingAddr, 2 ErrEndsWithColon, 3 other
   obs (op 6) = [ok; alen; addr...] *)
Fixpoint decode_script (n : nat) (l : list Z) : option (list outcome) :=
  match n, l with
  | O, [] => Some []
  | S n', k :: d :: m :: r =>
    match decode_script n' r with Some os => Some (mko k d m :: os) | None => None end
  | _, _ => None
  end.

Definition decode_cfg (cfg : word) : option config :=
  match cfg with
  | mn :: base :: mx :: rto :: ns :: r =>
    if ns <? 0 then None else
    match decode_script (Z.to_nat ns) r with
    | Some sc => Some (mkc mn base mx rto sc)
    | None => None
    end
  | _ => None
  end.

Definition encode_ev (e : ev) : list Z :=
  match e with
  | EvLookup t => [1; t; 0]
  | EvUpdate t n => [2; t; n]
  | EvError t => [3; t; 0]
  end.

Fixpoint decode_evs (l : list Z) : option (list ev) :=
  match l with
  | [] => Some []
  | k :: t :: n :: r =>
    match decode_evs r with
    | None => None
    | Some es =>
      if k =? 1 then Some (EvLookup t :: es)
      else if k =? 2 then Some (EvUpdate t n :: es)
      else if k =? 3 then Some (EvError t :: es)
      else None
    end
  | _ => None
  end.

Definition top_of (op : word) : option top :=
  match op with
  | [0] => Some OBuild
  | [1; dt] => if dt <? 0 then None else Some (OAdvance dt)
  | [2] => Some OResolveNow
  | [3] => Some OClose
  | _ => None
  end.

Definition perr_code (e : perr) : Z := match e with EMissing => 1 | EColon => 2 | EOther => 3 end.

Definition parse_obs (kt k1 k2 : Z) (target : list Z) : word :=
  let ipk := ipk_table target kt k1 k2 in
  match parse_target ipk target s_443 with
  | inl e => perr_code e :: put_bytes [] ++ put_bytes [] ++ 0 :: put_bytes []
  | inr (h, p) =>
    0 :: put_bytes h ++ put_bytes p ++
    match emit_addr (ipk h) h p with
    | Some a => 1 :: put_bytes a
    | None => 0 :: put_bytes []
    end
  end.

Definition format_obs (k : Z) (port addr : list Z) : word :=
  match emit_addr k addr port with
  | Some a => 1 :: put_bytes a
  | None => 0 :: put_bytes []
  end.

Definition run_op (c : config) (s : st) (op : word) : option (st * word) :=
  match op with
  | 5 :: kt :: k1 :: k2 :: r =>
    match get_bytes r with
    | Some (target, []) => Some (s, parse_obs kt k1 k2 target)
    | _ => None
    end
  | 6 :: k :: r =>
    match get_bytes r with
    | Some (port, r') =>
      match get_bytes r' with
      | Some (addr, []) => Some (s, format_obs k port addr)
      | _ => None
      end
    | None => None
    end
  | _ =>
    match top_of op with
    | None => None
    | Some o =>
      match tstep c s o with
      | Some (s', es) => Some (s', s_now s' :: flat_map encode_ev es)
      | None => None
      end
    end
  end.

Fixpoint run_ops (c : config) (s : st) (ops : list word) : option (list word) :=
  match ops with
  | [] => Some []
  | op :: r =>
    match run_op c s op with
    | Some (s', o) => match run_ops c s' r with Some os => Some (o :: os) | None => None end
    | None => None
    end
  end.

Definition run (cfg : word) (ops : list word) : option (list word) :=
  match decode_cfg cfg with Some c => run_ops c st0 ops | None => None end.

(* ================= the property on observations =================
   A monitor replays the timeline (ops and observed events) and checks every LookupHost call.
   m_last  0 no result yet, 1 last result was a success, 2 a failure;  m_tres its time
   m_k     consecutive failures so far
   m_lic   after a success: 0 no re-resolution request yet, 1 a request arrived at/after the
           start of the lookup that succeeded, 2 only a request that had arrived before that
           lookup even started (still buffered in d.rn)
   m_pend  a request is waiting for the next success: 2 arrived during the lookup in flight,
           1 arrived earlier
   m_cur   scripted kind of the lookup in flight (to know whether UpdateState returns an error) *)
Record mon := mkm { m_last : Z; m_tres : Z; m_k : Z; m_lic : Z; m_pend : Z;
                    m_looking : bool; m_closed : bool; m_built : bool; m_n : nat; m_cur : Z }.

Definition mon0 : mon := mkm 0 0 0 0 0 false false false O 0.

Definition mon_resolve_now (m : mon) : mon :=
  if m_closed m || negb (m_built m) then m
  else if m_looking m then
    mkm (m_last m) (m_tres m) (m_k m) (m_lic m) 2 true (m_closed m) (m_built m) (m_n m) (m_cur m)
  else if (m_last m =? 1) && (m_lic m =? 0) then
    mkm (m_last m) (m_tres m) (m_k m) 1 (m_pend m) false (m_closed m) (m_built m) (m_n m) (m_cur m)
  else
    mkm (m_last m) (m_tres m) (m_k m) (m_lic m) (if m_pend m =? 0 then 1 else m_pend m) false
        (m_closed m) (m_built m) (m_n m) (m_cur m).

(* clause 1: after a success, no lookup before tres + MinResolutionInterval
   clause 2: after a success, no lookup without a re-resolution request
   clause 6: ... and that request was not one that arrived before the successful lookup started
   clause 3: after the k-th consecutive failure the next lookup is at tres + Backoff(k)
   clause 4: no lookup after Close *)
Definition mon_ev (c : config) (m : mon) (e : ev) : mon * list (Z * Z * bool) :=
  match e with
  | EvLookup t =>
    (mkm (m_last m) (m_tres m) (m_k m) 0 (m_pend m) true (m_closed m) (m_built m) (S (m_n m))
         (o_kind (script_at c (m_n m))),
     (4, t, negb (m_closed m)) ::
     (if m_last m =? 1 then
        [(1, t, m_tres m + c_min c <=? t); (2, t, negb (m_lic m =? 0)); (6, t, negb (m_lic m =? 2))]
      else if m_last m =? 2 then [(3, t, t =? m_tres m + bo c (m_k m))]
      else []))
  | EvUpdate t _ | EvError t =>
    if m_closed m then (m, []) else
    let fail := match e with EvError _ => true | _ => m_cur m =? 2 end in
    if fail then
      (mkm 2 t (m_k m + 1) 0 (m_pend m) false false (m_built m) (m_n m) (m_cur m), [])
    else
      (mkm 1 t 0 (if m_pend m =? 0 then 0 else if m_pend m =? 2 then 1 else 2) 0 false false
           (m_built m) (m_n m) (m_cur m), [])
  end.

Fixpoint mon_evs (c : config) (m : mon) (es : list ev) : mon * list (Z * Z * bool) :=
  match es with
  | [] => (m, [])
  | e :: r => let '(m1, c1) := mon_ev c m e in
              let '(m2, c2) := mon_evs c m1 r in (m2, c1 ++ c2)
  end.

Definition mon_top (m : mon) (o : top) : mon :=
  match o with
  | OBuild => if m_built m || m_closed m then m else
      mkm (m_last m) (m_tres m) (m_k m) (m_lic m) (m_pend m) (m_looking m) false true (m_n m) (m_cur m)
  | OAdvance _ => m
  | OResolveNow => mon_resolve_now m
  | OClose => if m_built m then
      mkm (m_last m) (m_tres m) (m_k m) (m_lic m) (m_pend m) (m_looking m) true true (m_n m) (m_cur m)
      else m
  end.

Definition starts_with_colon_end (l : list Z) : bool :=
  match rev l with x :: _ => x =? ch_colon | [] => false end.

(* clause 8: parse op: a target ending in ':' that is not an IP literal is rejected, an IP
             literal (kt <> 0) is accepted with the default port, whatever is accepted has a
             non-empty port, and an emitted address is host:port with IPv6 bracketed
   clause 9: lookupHost emits ip:port for IPv4, [ip]:port for IPv6, nothing for a non-IP *)
Definition parse_clause (kt k1 k2 : Z) (target : list Z) (obs : word) : bool :=
  match obs with
  | err :: r =>
    match get_bytes r with
    | Some (h, r1) =>
      match get_bytes r1 with
      | Some (p, emitted :: r2) =>
        match get_bytes r2 with
        | Some (a, []) =>
          (if starts_with_colon_end target && (kt =? 0) then negb (err =? 0) else true) &&
          (if negb (kt =? 0) && negb (list_eqb target [])
           then (err =? 0) && list_eqb h target && list_eqb p s_443 else true) &&
          (if list_eqb target [] then err =? 1 else true) &&
          (if err =? 0 then negb (list_eqb p []) else true) &&
          (if emitted =? 1 then
             (err =? 0) &&
             (list_eqb a (h ++ ch_colon :: p) && negb (has_byte ch_colon h)
              || list_eqb a (ch_lbr :: h ++ ch_rbr :: ch_colon :: p) && has_byte ch_colon h)
           else true)
        | _ => false
        end
      | _ => false
      end
    | None => false
    end
  | [] => false
  end.

Definition format_clause (k : Z) (port addr : list Z) (obs : word) : bool :=
  match obs with
  | ok :: r =>
    match get_bytes r with
    | Some (a, []) =>
      if k =? 4 then (ok =? 1) && list_eqb a (addr ++ ch_colon :: port)
      else if k =? 6 then (ok =? 1) && list_eqb a (ch_lbr :: addr ++ ch_rbr :: ch_colon :: port)
      else ok =? 0
    | _ => false
    end
  | [] => false
  end.

Definition clause_op (c : config) (m : mon) (op obs : word) : mon * list (Z * Z * bool) :=
  match op with
  | 5 :: kt :: k1 :: k2 :: r =>
    match get_bytes r with
    | Some (target, []) => (m, [(8, 0, parse_clause kt k1 k2 target obs)])
    | _ => (m, [(0, 0, false)])
    end
  | 6 :: k :: r =>
    match get_bytes r with
    | Some (port, r') =>
      match get_bytes r' with
      | Some (addr, []) => (m, [(9, 0, format_clause k port addr obs)])
      | _ => (m, [(0, 0, false)])
      end
    | None => (m, [(0, 0, false)])
    end
  | _ =>
    match top_of op, obs with
    | Some o, _ :: evw =>
      match decode_evs evw with
      | Some es => mon_evs c (mon_top m o) es
      | None => (m, [(0, 0, false)])
      end
    | _, _ => (m, [(0, 0, false)])
    end
  end.

Fixpoint clauses_ops (c : config) (m : mon) (ops obs : list word) : list (Z * Z * bool) :=
  match ops, obs with
  | op :: r, o :: r' => let '(m', cl) := clause_op c m op o in cl ++ clauses_ops c m' r r'
  | [], [] => []
  | _, _ => [(0, 0, false)]
  end.

(* clause 6 (a known finding) is reported only when every other clause of the case holds,
   so that it cannot mask another failure in the same case *)
Definition reorder (l : list (Z * Z * bool)) : list (Z * Z * bool) :=
  filter (fun c => negb (fst (fst c) =? 6)) l ++ filter (fun c => fst (fst c) =? 6) l.

Definition clauses (cfg : word) (ops obs : list word) : list (Z * Z * bool) :=
  match decode_cfg cfg with
  | Some c => reorder (clauses_ops c mon0 ops obs)
  | None => [(0, 0, false)]
  end.

Definition holds_b (cfg : word) (ops obs : list word) : bool :=
  forallb (fun c => snd c) (clauses cfg ops obs).

(* everything but clause 6 (the stale-request sentence, refuted) *)
Definition core_ok (cl : Z * Z * bool) : bool := snd cl || (fst (fst cl) =? 6).
Definition holds_core (cfg : word) (ops obs : list word) : bool :=
  forallb core_ok (clauses cfg ops obs).

Definition check_case (c : case) : verdict :=
  decide (run (c_cfg c) (c_ops c)) (c_obs c) (clauses (c_cfg c) (c_ops c) (c_obs c)).
