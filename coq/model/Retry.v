(* C18: retries are bounded, policy-driven and replay the exact request.
   Transcribes stream.go: csAttempt.shouldRetry as a decision function of the facts it
   reads, clientStream.bufferForRetryLocked / commitAttemptLocked, and the retry loop
   (withRetry / retryLocked / replayBufferLocked) for one RPC whose application sends all
   its messages, half-closes and then receives until an error.

   Timing abstraction: which application call notices the failure of an attempt depends on
   scheduling, but for this application pattern and server scripts that read at least one
   message before acting, the facts shouldRetry reads are the same whenever it runs, unless
   the replay buffer overflows after the first message (excluded by [rpc_wf]: the only
   overflow considered is the first message).  Back-off durations and the throttle bucket
   are C19; here throttling is an input bit of the decision function and is off in the runs.
   No proofs in this file. *)
From Coq Require Import List ZArith Bool.
From VLib Require Import Codec.
Import ListNotations.
Open Scope Z_scope.

(* ---------- shouldRetry ---------- *)
(* pushback: 0 no grpc-retry-pushback-ms trailer, 1 one value that parses to n >= 0,
   2 one value that is negative or not a number, 3 more than one value *)
Record facts := mkfacts {
  f_finished : bool; f_committed : bool; f_drop : bool;        (* cs.finished, cs.committed, a.drop *)
  f_has_stream : bool; f_allow_transparent : bool;              (* a.transportStream != nil, a.allowTransparentRetry *)
  f_first_attempt : bool; f_unprocessed : bool;                 (* cs.firstAttempt, transportStream.Unprocessed() *)
  f_disable_retry : bool;                                       (* cc.dopts.disableRetry *)
  f_trailers_only : bool; f_pushback : Z;
  f_has_policy : bool; f_code_in_policy : bool;                 (* rp != nil, rp.RetryableStatusCodes[code] *)
  f_throttled : bool;                                           (* retryThrottler.throttle() *)
  f_num_retries : Z; f_max_attempts : Z }.

Inductive decision := NoRetry | Transparent | Retry.

Definition should_retry (f : facts) : decision :=
  if f_finished f || f_committed f || f_drop f then NoRetry else
  if negb (f_has_stream f) && f_allow_transparent f then Transparent else
  if f_first_attempt f && (f_has_stream f && f_unprocessed f) then Transparent else
  if f_disable_retry f then NoRetry else
  if f_has_stream f && negb (f_trailers_only f) then NoRetry else
  if f_has_stream f && ((f_pushback f =? 2) || (f_pushback f =? 3)) then NoRetry else
  if negb (f_has_policy f) || negb (f_code_in_policy f) then NoRetry else
  if f_throttled f then NoRetry else
  if f_num_retries f + 1 >=? f_max_attempts f then NoRetry else Retry.

(* ---------- one RPC ---------- *)
(* policy: effective MaxAttempts = min(policy value, channel limit); retryable codes.
   (WithMaxCallAttempts(n) with n < 2 means the default 5; the service config parser rejects
   maxAttempts < 2: both values are >= 2 here.) *)
Record policy := mkpol { p_max : Z; p_chan_max : Z; p_codes : list Z; p_buf_limit : Z }.
Definition eff_max (p : policy) : Z := Z.min (p_max p) (p_chan_max p).
Definition in_codes (p : policy) (c : Z) : bool := existsb (Z.eqb c) (p_codes p).

(* server script of one attempt: read r messages (or until half-close), then
   act 0: fail with code c before sending headers (trailers-only), pushback kind pb
   act 1: send headers, then fail with code c
   act 2: send headers and one reply, then status OK *)
Record script := mksc { s_r : Z; s_act : Z; s_code : Z; s_pb : Z }.
Definition default_script : script := mksc 1 2 0 0.

(* what an attempt's handler receives: the first min(r, m) messages in order, and the
   half-close iff it asked for more than m *)
Record attempt := mkatt { a_prev : Z; a_recv : Z; a_eof : bool; a_sc : script }.

Definition first_overflows (p : policy) (sizes : list Z) : bool :=
  match sizes with
  | s :: _ => p_buf_limit p <? 5 + s
  | [] => false
  end.

Definition attempt_facts (p : policy) (committed : bool) (k : Z) (sc : script) : facts :=
  mkfacts false committed false true false (k =? 0) false false
          (s_act sc =? 0) (s_pb sc) true (in_codes p (s_code sc)) false k (eff_max p).

(* attempts made for the RPC: the list of scripts is consumed one per attempt; when it
   runs out the server succeeds *)
Fixpoint attempts (fuel : nat) (p : policy) (m : Z) (committed : bool) (k : Z) (scs : list script)
  : list attempt :=
  match fuel with
  | O => []
  | S f =>
    let sc := match scs with s :: _ => s | [] => default_script end in
    let a := mkatt k (Z.min (s_r sc) m) (m <? s_r sc) sc in
    (* a response header or message commits the attempt *)
    if s_act sc =? 2 then [a] else
    match should_retry (attempt_facts p committed k sc) with
    | Retry => a :: attempts f p m committed (k + 1) (tl scs)
    | _ => [a]
    end
  end.

Definition final_code (l : list attempt) : Z :=
  match rev l with
  | a :: _ => if s_act (a_sc a) =? 2 then 0 else s_code (a_sc a)
  | [] => 0
  end.

(* ---------- wire format ----------
   cfg [maxAttempts; channelMax; bufLimit; n; code_1..code_n]
   op  [m; size_1..size_m; k; (r; act; code; pb) x k]      one RPC (m >= 1)
   op  [0; j; m; size_1..size_m; k; scripts]               the same RPC with the SendMsg of message j held (see below)
   obs [nattempts; (previous-attempts header; messages received; in order; half-close seen) x nattempts;
        final status code; replies received] *)
Definition dec_cfg (cfg : word) : option policy :=
  match cfg with
  | mx :: cm :: bl :: r =>
    match get_bytes r with
    | Some (cs, []) => if (2 <=? mx) && (mx <=? 10) && (2 <=? cm) && (cm <=? 10) && (0 <=? bl)
                       then Some (mkpol mx cm cs bl) else None
    | _ => None
    end
  | _ => None
  end.

Fixpoint dec_scripts (fuel : nat) (w : word) : option (list script) :=
  match w with
  | [] => Some []
  | r :: a :: c :: pb :: rest =>
    match fuel with
    | O => None
    | S f => match dec_scripts f rest with Some l => Some (mksc r a c pb :: l) | None => None end
    end
  | _ => None
  end.

Definition script_ok (s : script) : bool :=
  (1 <=? s_r s) && (0 <=? s_act s) && (s_act s <=? 2) && (1 <=? s_code s) && (s_code s <=? 16) &&
  (0 <=? s_pb s) && (s_pb s <=? 3).

Definition dec_plain (op : word) : option (list Z * list script) :=
  match get_bytes op with
  | Some (sizes, k :: rest) =>
    match dec_scripts (length rest) rest with
    | Some scs => if Z.eqb (Z.of_nat (length scs)) k && forallb script_ok scs &&
                     forallb (fun s => 0 <=? s) sizes && negb (Nat.eqb (length sizes) 0)
                  then Some (sizes, scs) else None
    | None => None
    end
  | _ => None
  end.

(* A second op form [0; j; <plain op>] runs the same RPC with two application goroutines:
   the SendMsg of message j (2 <= j <= m) is held right after its transport write on the first
   attempt succeeded (before withRetry re-takes cs.mu) while a concurrent RecvMsg observes the
   retryable failure of that attempt and creates and replays the next one; then SendMsg
   continues.  withRetry must notice that the attempt was replaced and re-issue the message,
   so the attempts receive exactly what they receive in the sequential run. *)
Definition strip (op : word) : word := match op with 0 :: _ :: rest => rest | _ => op end.
Definition stall_of (op : word) : Z := match op with 0 :: j :: _ => j | _ => 0 end.
Definition dec_op (op : word) : option (list Z * list script) := dec_plain (strip op).

(* the modelled situation: the buffer limit is exceeded by the first message or never *)
Definition rpc_wf (p : policy) (sizes : list Z) : bool :=
  first_overflows p sizes || (fold_right (fun s acc => 5 + s + acc) 0 sizes <=? p_buf_limit p).

(* the held-send scenario needs: first attempt reads exactly j messages and then fails in a
   retryable way; the second attempt reads at least j messages; no buffer overflow *)
Definition stall_wf (p : policy) (op : word) (sizes : list Z) (scs : list script) : bool :=
  match op with
  | 0 :: j :: _ =>
    match scs with
    | s0 :: s1 :: _ =>
      (2 <=? j) && (j <=? Z.of_nat (length sizes)) && negb (first_overflows p sizes) &&
      (s_r s0 =? j) && (s_act s0 =? 0) && in_codes p (s_code s0) && ((s_pb s0 =? 0) || (s_pb s0 =? 1)) &&
      (j <=? s_r s1)
    | _ => false
    end
  | _ => true
  end.

Definition rpc_attempts (p : policy) (sizes : list Z) (scs : list script) : list attempt :=
  attempts (Z.to_nat (eff_max p) + 1) p (Z.of_nat (length sizes)) (first_overflows p sizes) 0 scs.

Definition enc_attempt (a : attempt) : word := [a_prev a; a_recv a; 1; b2z (a_eof a)].
Definition run_op (p : policy) (op : word) : option word :=
  match dec_op op with
  | Some (sizes, scs) =>
    if rpc_wf p sizes && stall_wf p op sizes scs then
      let l := rpc_attempts p sizes scs in
      let fc := final_code l in
      Some (Z.of_nat (length l) :: concat (map enc_attempt l) ++ [fc; if fc =? 0 then 1 else 0])
    else None
  | None => None
  end.

Fixpoint run_ops (p : policy) (ops : list word) : option (list word) :=
  match ops with
  | [] => Some []
  | op :: r => match run_op p op, run_ops p r with
               | Some o, Some os => Some (o :: os)
               | _, _ => None
               end
  end.
Definition run (cfg : word) (ops : list word) : option (list word) :=
  match dec_cfg cfg with Some p => run_ops p ops | None => None end.

(* ---------- the property on an observed RPC ---------- *)
Fixpoint chunk4 (fuel : nat) (w : word) : option (list word * word) :=
  match fuel with
  | O => Some ([], w)
  | S f => match w with
           | a :: b :: c :: d :: r =>
             match chunk4 f r with Some (l, rest) => Some ([a; b; c; d] :: l, rest) | None => None end
           | _ => None
           end
  end.

Definition hd_script (scs : list script) : script := match scs with s :: _ => s | [] => default_script end.

Definition retryable (p : policy) (ovf : bool) (k : Z) (sc : script) : bool :=
  negb ovf && (s_act sc =? 0) && in_codes p (s_code sc) && ((s_pb sc =? 0) || (s_pb sc =? 1)) &&
  (k + 1 <? eff_max p).

(* clause ids
   1 the number of attempts never exceeds min(policy maxAttempts, channel limit)
   2 attempt k carries grpc-previous-rpc-attempts = k and receives exactly the application's
     messages so far, in order: the first min(r_k, m), and the half-close iff r_k > m
   3 an attempt is retried only if it was uncommitted (no first-message overflow), ended
     trailers-only with a code of the policy, without an aborting pushback, below the attempt
     limit; and the last attempt is one that must not be retried
   4 the client reports the status of the last attempt; a reply is delivered iff it is OK *)
Fixpoint att_clauses (p : policy) (m : Z) (ovf : bool) (scs : list script) (k : Z) (l : list word)
  (fc nrep : Z) : list (Z * Z * bool) :=
  match l with
  | [] => []
  | w :: r =>
    let sc := hd_script scs in
    (2, k, word_eqb w [k; Z.min (s_r sc) m; 1; b2z (m <? s_r sc)]) ::
    match r with
    | [] => [(3, k, negb (retryable p ovf k sc));
             (4, fc, (fc =? (if s_act sc =? 2 then 0 else s_code sc)) &&
                     (nrep =? (if s_act sc =? 2 then 1 else 0)))]
    | _ => (3, k, retryable p ovf k sc) :: att_clauses p m ovf (tl scs) (k + 1) r fc nrep
    end
  end.

Definition clause_op (p : policy) (op obs : word) : list (Z * Z * bool) :=
  match dec_op op, obs with
  | Some (sizes, scs), n :: rest =>
    if n <? 1 then [(0, 0, false)] else
    match chunk4 (Z.to_nat n) rest with
    | Some (l, [fc; nrep]) =>
      (1, n, n <=? eff_max p) ::
      att_clauses p (Z.of_nat (length sizes)) (first_overflows p sizes) scs 0 l fc nrep
    | _ => [(0, 0, false)]
    end
  | _, _ => [(0, 0, false)]
  end.

Fixpoint clauses_ops (p : policy) (ops obs : list word) : list (Z * Z * bool) :=
  match ops, obs with
  | op :: r, o :: r' => clause_op p op o ++ clauses_ops p r r'
  | [], [] => []
  | _, _ => [(0, 0, false)]
  end.
Definition clauses (cfg : word) (ops obs : list word) : list (Z * Z * bool) :=
  match dec_cfg cfg with Some p => clauses_ops p ops obs | None => [(0, 0, false)] end.
Definition holds_b (cfg : word) (ops obs : list word) : bool :=
  forallb (fun c => snd c) (clauses cfg ops obs).

Definition check_case (c : case) : verdict :=
  decide (run (c_cfg c) (c_ops c)) (c_obs c) (clauses (c_cfg c) (c_ops c) (c_obs c)).
