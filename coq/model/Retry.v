(* C18: retries are bounded, policy-driven and replay the exact request.
   Transcribes stream.go: csAttempt.shouldRetry as a decision function of the facts it
   reads, clientStream.bufferForRetryLocked / commitAttemptLocked, and the retry loop
   (withRetry / retryLocked / replayBufferLocked) for one RPC whose application sends all
   its messages, half-closes and then receives until an error.

   Schedule: the application sends message after message and every transport write (the
   HEADERS of an attempt, every original or replayed message, the half-close) is followed by
   quiescence (the driver forces it from a client stats.Handler), so an attempt's failure is
   registered by the client before the next write.  Hence the failure of an attempt whose
   server reads r messages is noticed when the application has produced
   max(sent so far, min(r, m)) messages, and cs.committed at that moment is "the replay buffer
   limit was exceeded by one of these messages" - at any message, not only the first.
   Server behaviours per attempt include the two kinds of unprocessed stream: RST_STREAM with
   REFUSED_STREAM in answer to HEADERS, and a GOAWAY whose last-stream-id is below the stream.
   Back-off durations and the throttle bucket are C19; here throttling is an input bit of the
   decision function and is off in the runs.  No proofs in this file. *)
From Coq Require Import List ZArith Bool.
From VLib Require Import Codec.
Import ListNotations.
Open Scope Z_scope.

(* ---------- shouldRetry ---------- *)
(* pushback: 0 no grpc-retry-pushback-ms trailer, 1 one value that parses to n >= 0,
   2 one value that is negative or not a number, 3 more than one value *)
Record facts := mkfacts {
  f_finished : bool; f_committed : bool; f_drop : bool;        (* cs.finished, cs.committed, a.drop *)
  f_has_stream : bool; f_allow_transparent : bool;              (* a.transportStream != nil, a.allowTransparentRetry *)
  f_first_attempt : bool; f_unprocessed : bool;                 (* cs.firstAttempt, transportStream.Unprocessed() *)
  f_disable_retry : bool;                                       (* cc.dopts.disableRetry *)
  f_trailers_only : bool; f_pushback : Z;
  f_has_policy : bool; f_code_in_policy : bool;                 (* rp != nil, rp.RetryableStatusCodes[code] *)
  f_throttled : bool;                                           (* retryThrottler.throttle() *)
  f_num_retries : Z; f_max_attempts : Z }.

Inductive decision := NoRetry | Transparent | Retry.

Definition should_retry (f : facts) : decision :=
  if f_finished f || f_committed f || f_drop f then NoRetry else
  if negb (f_has_stream f) && f_allow_transparent f then Transparent else
  if f_first_attempt f && (f_has_stream f && f_unprocessed f) then Transparent else
  if f_disable_retry f then NoRetry else
  if f_has_stream f && negb (f_trailers_only f) then NoRetry else
  if f_has_stream f && ((f_pushback f =? 2) || (f_pushback f =? 3)) then NoRetry else
  if negb (f_has_policy f) || negb (f_code_in_policy f) then NoRetry else
  if f_throttled f then NoRetry else
  if f_num_retries f + 1 >=? f_max_attempts f then NoRetry else Retry.

(* ---------- one RPC ---------- *)
(* policy: effective MaxAttempts = min(policy value, channel limit); retryable codes.
   (WithMaxCallAttempts(n) with n < 2 means the default 5; the service config parser rejects
   maxAttempts < 2: both values are >= 2 here.) *)
Record policy := mkpol { p_max : Z; p_chan_max : Z; p_codes : list Z; p_buf_limit : Z }.
Definition eff_max (p : policy) : Z := Z.min (p_max p) (p_chan_max p).
Definition in_codes (p : policy) (c : Z) : bool := existsb (Z.eqb c) (p_codes p).

(* server script of one attempt: read r messages (or until half-close), then
   act 0: fail with code c before sending headers (trailers-only), pushback kind pb
   act 1: send headers, then fail with code c
   act 2: send headers and one reply, then status OK
   the server never processes the stream (r, c, pb unused):
   act 3: answer the HEADERS with RST_STREAM(REFUSED_STREAM)
   act 4: answer the HEADERS with GOAWAY, last-stream-id below this stream *)
Record script := mksc { s_r : Z; s_act : Z; s_code : Z; s_pb : Z }.
Definition default_script : script := mksc 1 2 0 0.
Definition hd_script (scs : list script) : script := match scs with s :: _ => s | [] => default_script end.
Definition unproc (sc : script) : bool := (s_act sc =? 3) || (s_act sc =? 4).

(* what an attempt's handler receives: the first min(r, m) messages in order, and the
   half-close iff it asked for more than m; nothing when the stream is unprocessed *)
Record attempt := mkatt { a_prev : Z; a_recv : Z; a_eof : bool; a_sc : script;
                          a_sent : Z;       (* messages already produced (replayed) when it starts *)
                          a_first : bool }. (* cs.firstAttempt *)
Definition recv_of (m : Z) (sc : script) : Z := if unproc sc then 0 else Z.min (s_r sc) m.
Definition eof_of (m : Z) (sc : script) : bool := if unproc sc then false else m <? s_r sc.

(* replay buffer: message of size s costs 5 + s (bufferForRetryLocked(len(hdr)+payloadLen));
   [over p sizes n]: the limit is exceeded once the application has produced n messages
   (commitAttemptLocked by bufferForRetryLocked; sizes are >= 0 so the sum is monotone) *)
Definition cum (sizes : list Z) (n : Z) : Z :=
  fold_right (fun s acc => 5 + s + acc) 0 (firstn (Z.to_nat n) sizes).
Definition over (p : policy) (sizes : list Z) (n : Z) : bool := p_buf_limit p <? cum sizes n.

(* number of messages the application has produced when the failure of an attempt that
   started after [sent] messages is noticed *)
Definition sent_after (m sent : Z) (sc : script) : Z :=
  if unproc sc then sent else Z.max sent (Z.min (s_r sc) m).

(* the facts shouldRetry reads for this attempt: a transport stream exists; an unprocessed
   stream ends without headers (TrailersOnly() = noHeaders) with status Unavailable
   (http2ErrConvTab[REFUSED_STREAM], statusGoAway) and no trailer metadata *)
Definition attempt_facts (p : policy) (committed first : bool) (k : Z) (sc : script) : facts :=
  mkfacts false committed false true false first (unproc sc) false
          ((s_act sc =? 0) || unproc sc) (if unproc sc then 0 else s_pb sc) true
          (in_codes p (if unproc sc then 14 else s_code sc)) false k (eff_max p).

(* attempts made for the RPC: the list of scripts is consumed one per attempt; when it
   runs out the server succeeds.  first = cs.firstAttempt, k = cs.numRetries, sent = number
   of messages produced (and buffered) when the attempt starts *)
Fixpoint attempts (fuel : nat) (p : policy) (sizes : list Z) (first : bool) (k sent : Z) (scs : list script)
  : list attempt :=
  match fuel with
  | O => []
  | S f =>
    let sc := hd_script scs in
    let m := Z.of_nat (length sizes) in
    let a := mkatt k (recv_of m sc) (eof_of m sc) sc sent first in
    (* a response header or message commits the attempt *)
    if s_act sc =? 2 then [a] else
    let sent' := sent_after m sent sc in
    match should_retry (attempt_facts p (over p sizes sent') first k sc) with
    | Retry => a :: attempts f p sizes false (k + 1) sent' (tl scs)
    | Transparent => a :: attempts f p sizes false k sent' (tl scs)
    | NoRetry => [a]
    end
  end.

(* What the application sees at the end.  Normally: the status of the last attempt, and the
   reply iff it is OK.  One schedule-dependent exception of the real code is modelled as it
   is (it is outside the text of C18, see the note in props/C18.v): when the last attempt is a
   retry started by RecvMsg (all m messages were already produced) and its failure or early
   completion is registered while its replay is still writing (stream unprocessed, or the
   server stops reading before message [sent]), the replayed SendMsg fails with io.EOF,
   retryLocked passes that io.EOF to shouldRetry as the error to report and RecvMsg returns it:
   the application sees a clean end of stream (code 0, no reply) - or codes.Unknown when
   shouldRetry wraps it in "max retries exhausted" - instead of the attempt's status. *)
Definition exhausted (p : policy) (k : Z) (sc : script) : bool :=
  (if unproc sc then in_codes p 14
   else (s_act sc =? 0) && in_codes p (s_code sc) && ((s_pb sc =? 0) || (s_pb sc =? 1))) &&
  (k + 1 >=? eff_max p).
Definition masked (m : Z) (first : bool) (sent : Z) (sc : script) : bool :=
  negb first && (sent =? m) && (unproc sc || (s_r sc <? sent)).
Definition std_code (sc : script) : Z :=
  if s_act sc =? 2 then 0 else if unproc sc then 14 else s_code sc.
(* q: every write is followed by quiescence (false in the held-send schedule, where replays
   are not slowed down and complete before the server reacts) *)
Definition final_of (p : policy) (q : bool) (m : Z) (first : bool) (k sent : Z) (sc : script) : Z * Z :=
  if q && masked m first sent sc then (if exhausted p k sc then 2 else 0, 0)
  else (std_code sc, if s_act sc =? 2 then 1 else 0).
Definition final_res (p : policy) (q : bool) (m : Z) (l : list attempt) : Z * Z :=
  match rev l with
  | a :: _ => final_of p q m (a_first a) (a_prev a) (a_sent a) (a_sc a)
  | [] => (0, 0)
  end.

(* messages produced when the failure of attempt number n-1 (0-based) is noticed *)
Fixpoint sent_upto (m : Z) (scs : list script) (n : nat) (sent : Z) : Z :=
  match n with
  | O => sent
  | S n' => sent_upto m (tl scs) n' (sent_after m sent (hd_script scs))
  end.

(* ---------- wire format ----------
   cfg [maxAttempts; channelMax; bufLimit; n; code_1..code_n]
   op  [m; size_1..size_m; k; (r; act; code; pb) x k]      one RPC (m >= 1)
   op  [0; j; m; size_1..size_m; k; scripts]               the same RPC with the SendMsg of message j held (see below)
   op  [-1; m; size_1..size_m; k; scripts]                 the same RPC committed by the application before sending (see below)
   obs [nattempts; (previous-attempts header; messages received; in order; half-close seen) x nattempts;
        final status code; replies received] *)
Definition dec_cfg (cfg : word) : option policy :=
  match cfg with
  | mx :: cm :: bl :: r =>
    match get_bytes r with
    | Some (cs, []) => if (2 <=? mx) && (mx <=? 10) && (2 <=? cm) && (cm <=? 10) && (0 <=? bl)
                       then Some (mkpol mx cm cs bl) else None
    | _ => None
    end
  | _ => None
  end.

Fixpoint dec_scripts (fuel : nat) (w : word) : option (list script) :=
  match w with
  | [] => Some []
  | r :: a :: c :: pb :: rest =>
    match fuel with
    | O => None
    | S f => match dec_scripts f rest with Some l => Some (mksc r a c pb :: l) | None => None end
    end
  | _ => None
  end.

Definition script_ok (s : script) : bool :=
  (1 <=? s_r s) && (0 <=? s_act s) && (s_act s <=? 4) && (1 <=? s_code s) && (s_code s <=? 16) &&
  (0 <=? s_pb s) && (s_pb s <=? 3).

Definition dec_plain (op : word) : option (list Z * list script) :=
  match get_bytes op with
  | Some (sizes, k :: rest) =>
    match dec_scripts (length rest) rest with
    | Some scs => if Z.eqb (Z.of_nat (length scs)) k && forallb script_ok scs &&
                     forallb (fun s => 0 <=? s) sizes && negb (Nat.eqb (length sizes) 0)
                  then Some (sizes, scs) else None
    | None => None
    end
  | _ => None
  end.

(* A second op form [0; j; <plain op>] runs the same RPC with two application goroutines:
   the SendMsg of message j (2 <= j <= m) is held right after its transport write on the first
   attempt succeeded (before withRetry re-takes cs.mu) while a concurrent RecvMsg observes the
   retryable failure of that attempt and creates and replays the next one; then SendMsg
   continues.  withRetry must notice that the attempt was replaced and re-issue the message,
   so the attempts receive exactly what they receive in the sequential run. *)
(* A third op form [-1; <plain op>]: the application calls ClientStream.Context() right after
   NewStream, which commits the attempt (cs.commitAttempt) before anything is sent: nothing
   may be retried, not even transparently.  Modelled as a replay buffer limit of -1 (exceeded
   from the start: cs.committed is true whenever shouldRetry runs). *)
Definition strip (op : word) : word :=
  match op with 0 :: _ :: rest => rest | -1 :: rest => rest | _ => op end.
Definition precommitted (op : word) : bool := match op with -1 :: _ => true | _ => false end.
Definition pol_of (p : policy) (op : word) : policy :=
  if precommitted op then mkpol (p_max p) (p_chan_max p) (p_codes p) (-1) else p.
Definition stall_of (op : word) : Z := match op with 0 :: j :: _ => j | _ => 0 end.
Definition quiesced (op : word) : bool := match op with 0 :: _ :: _ => false | _ => true end.
Definition dec_op (op : word) : option (list Z * list script) := dec_plain (strip op).

(* the held-send scenario (not quiesced after every write: two application goroutines) needs:
   the replay buffer limit is never exceeded, every stream is processed, the first attempt
   reads exactly j messages and then fails in a retryable way, the second attempt reads at
   least j messages *)
Definition stall_wf (p : policy) (op : word) (sizes : list Z) (scs : list script) : bool :=
  match op with
  | 0 :: j :: _ =>
    match scs with
    | s0 :: s1 :: _ =>
      (2 <=? j) && (j <=? Z.of_nat (length sizes)) &&
      negb (over p sizes (Z.of_nat (length sizes))) && forallb (fun s => negb (unproc s)) scs &&
      (s_r s0 =? j) && (s_act s0 =? 0) && in_codes p (s_code s0) && ((s_pb s0 =? 0) || (s_pb s0 =? 1)) &&
      (j <=? s_r s1)
    | _ => false
    end
  | _ => true
  end.

(* at most eff_max counted attempts plus one transparent retry *)
Definition rpc_attempts (p : policy) (sizes : list Z) (scs : list script) : list attempt :=
  attempts (Z.to_nat (eff_max p) + 2) p sizes true 0 0 scs.

Definition enc_attempt (a : attempt) : word := [a_prev a; a_recv a; 1; b2z (a_eof a)].
Definition run_op (p0 : policy) (op : word) : option word :=
  let p := pol_of p0 op in
  match dec_op op with
  | Some (sizes, scs) =>
    if stall_wf p op sizes scs then
      let l := rpc_attempts p sizes scs in
      let fr := final_res p (quiesced op) (Z.of_nat (length sizes)) l in
      Some (Z.of_nat (length l) :: concat (map enc_attempt l) ++ [fst fr; snd fr])
    else None
  | None => None
  end.

Fixpoint run_ops (p : policy) (ops : list word) : option (list word) :=
  match ops with
  | [] => Some []
  | op :: r => match run_op p op, run_ops p r with
               | Some o, Some os => Some (o :: os)
               | _, _ => None
               end
  end.
Definition run (cfg : word) (ops : list word) : option (list word) :=
  match dec_cfg cfg with Some p => run_ops p ops | None => None end.

(* ---------- the property on an observed RPC ---------- *)
Fixpoint chunk4 (fuel : nat) (w : word) : option (list word * word) :=
  match fuel with
  | O => Some ([], w)
  | S f => match w with
           | a :: b :: c :: d :: r =>
             match chunk4 f r with Some (l, rest) => Some ([a; b; c; d] :: l, rest) | None => None end
           | _ => None
           end
  end.

(* a transparent retry is due: nothing committed, first attempt, stream unprocessed *)
Definition transp (ovf first : bool) (sc : script) : bool := negb ovf && first && unproc sc.

(* a counted (policy) retry is due; an unprocessed stream that is not the first attempt's
   counts as a trailers-only UNAVAILABLE *)
Definition retryable (p : policy) (ovf first : bool) (k : Z) (sc : script) : bool :=
  negb ovf && negb (first && unproc sc) &&
  (if unproc sc then in_codes p 14
   else (s_act sc =? 0) && in_codes p (s_code sc) && ((s_pb sc =? 0) || (s_pb sc =? 1))) &&
  (k + 1 <? eff_max p).

Definition prev_of (w : word) : Z := match w with x :: _ => x | [] => -1 end.

(* clause ids
   1 the number of attempts never exceeds min(policy maxAttempts, channel limit), plus one
     when the first attempt's stream was unprocessed (its transparent retry is not counted)
   2 attempt number i carries grpc-previous-rpc-attempts = number of counted retries so far and
     receives exactly the application's messages so far, in order: the first min(r_i, m), and
     the half-close iff r_i > m; nothing if the server did not process the stream
   3 an attempt is followed by another one iff a retry was due: uncommitted (replay buffer
     limit not exceeded by any message produced so far) and either trailers-only with a code of
     the policy, without an aborting pushback, below the attempt limit, or a first attempt
     whose stream was unprocessed; and the last attempt is one that must not be retried
   4 the client reports the status of the last attempt; a reply is delivered iff it is OK
     (except the masked case described at [final_of])
   5 a retry that is not counted (same previous-attempts value as its predecessor) happens only
     after a first attempt whose stream was unprocessed, with nothing committed
   6 the retry of an unprocessed first attempt is not counted *)
Fixpoint att_clauses (p : policy) (q : bool) (sizes : list Z) (scs : list script) (first : bool) (k sent : Z)
  (l : list word) (fc nrep : Z) : list (Z * Z * bool) :=
  match l with
  | [] => []
  | w :: r =>
    let sc := hd_script scs in
    let m := Z.of_nat (length sizes) in
    let sent' := sent_after m sent sc in
    let ovf := over p sizes sent' in
    (2, k, word_eqb w [k; recv_of m sc; 1; b2z (eof_of m sc)]) ::
    match r with
    | [] => [(3, k, negb (retryable p ovf first k sc) && negb (transp ovf first sc));
             (4, fc, (fc =? fst (final_of p q m first k sent sc)) && (nrep =? snd (final_of p q m first k sent sc)))]
    | w2 :: _ =>
      (3, k, retryable p ovf first k sc || transp ovf first sc) ::
      (5, k, implb (prev_of w2 =? prev_of w) (transp ovf first sc)) ::
      (6, k, implb (transp ovf first sc) (prev_of w2 =? prev_of w)) ::
      att_clauses p q sizes (tl scs) false (if transp ovf first sc then k else k + 1) sent' r fc nrep
    end
  end.

Definition clause_op (p0 : policy) (op obs : word) : list (Z * Z * bool) :=
  let p := pol_of p0 op in
  match dec_op op, obs with
  | Some (sizes, scs), n :: rest =>
    if n <? 1 then [(0, 0, false)] else
    match chunk4 (Z.to_nat n) rest with
    | Some (l, [fc; nrep]) =>
      (1, n, n <=? eff_max p + (if unproc (hd_script scs) then 1 else 0)) ::
      att_clauses p (quiesced op) sizes scs true 0 0 l fc nrep
    | _ => [(0, 0, false)]
    end
  | _, _ => [(0, 0, false)]
  end.

Fixpoint clauses_ops (p : policy) (ops obs : list word) : list (Z * Z * bool) :=
  match ops, obs with
  | op :: r, o :: r' => clause_op p op o ++ clauses_ops p r r'
  | [], [] => []
  | _, _ => [(0, 0, false)]
  end.
Definition clauses (cfg : word) (ops obs : list word) : list (Z * Z * bool) :=
  match dec_cfg cfg with Some p => clauses_ops p ops obs | None => [(0, 0, false)] end.
Definition holds_b (cfg : word) (ops obs : list word) : bool :=
  forallb (fun c => snd c) (clauses cfg ops obs).

Definition check_case (c : case) : verdict :=
  decide (run (c_cfg c) (c_ops c)) (c_obs c) (clauses (c_cfg c) (c_ops c) (c_obs c)).
