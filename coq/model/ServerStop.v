(* C25 (handler-limit sentence only): server.go atomicSemaphore, the per-connection quota of
   concurrently running handlers (newHandlerQuota(maxConcurrentStreams) in serveStreams).
   Part A: instruction-level interleaving model.  acquire = n.Add(-1), then (if negative) a
   receive on the 1-slot channel; release = n.Add(1), then (if <= 0) a send on it.  One
   acquirer (HandleStreams calls the stream callback synchronously) and any number of handler
   goroutines, each started after acquire returned and calling release when it ends.
   Part B: sequential scripts for the correspondence with the real semaphore under synctest.
   Server.Stop / GracefulStop ordering (the first two sentences of C25) is NOT modelled.
   No proofs in this file. *)
From Coq Require Import List ZArith Bool.
From VLib Require Import Codec Machine.
Import ListNotations.
Open Scope Z_scope.

Inductive apc := AIdle | AWait | AGot.     (* the acquirer: not in acquire / blocked on <-wait / acquire returned *)
Inductive hpc := HFree | HRun | HSend.     (* a handler slot: no handler / running (holds quota) / release: about to send *)

Record st := mk { cap : Z; cnt : Z; tok : bool; ap : apc }.

Definition init_st (c : Z) : st := mk c c false AIdle.

Inductive step : st * list hpc -> st * list hpc -> Prop :=
| s_acq : forall s hs, ap s = AIdle ->                      (* q.n.Add(-1) < 0 ? *)
    step (s, hs) (mk (cap s) (cnt s - 1) (tok s) (if cnt s - 1 <? 0 then AWait else AGot), hs)
| s_wait : forall s hs, ap s = AWait -> tok s = true ->      (* <-q.wait *)
    step (s, hs) (mk (cap s) (cnt s) false AGot, hs)
| s_spawn : forall s l1 l2, ap s = AGot ->                   (* go f() / hand f to a worker *)
    step (s, l1 ++ HFree :: l2) (mk (cap s) (cnt s) (tok s) AIdle, l1 ++ HRun :: l2)
| s_rel : forall s l1 l2,                                    (* handler returned: q.n.Add(1) <= 0 ? *)
    step (s, l1 ++ HRun :: l2)
         (mk (cap s) (cnt s + 1) (tok s) (ap s), l1 ++ (if cnt s + 1 <=? 0 then HSend else HFree) :: l2)
| s_send : forall s l1 l2, tok s = false ->                  (* q.wait <- struct{}{} (capacity 1) *)
    step (s, l1 ++ HSend :: l2) (mk (cap s) (cnt s) true (ap s), l1 ++ HFree :: l2).

Inductive reachable : st * list hpc -> Prop :=
| reach_init : forall c k, 0 <= c -> reachable (init_st c, repeat HFree k)
| reach_step : forall x y, reachable x -> step x y -> reachable y.

Fixpoint count (p : hpc -> bool) (l : list hpc) : Z :=
  match l with [] => 0 | h :: r => b2z (p h) + count p r end.
Definition is_run (h : hpc) : bool := match h with HRun => true | _ => false end.
Definition is_send (h : hpc) : bool := match h with HSend => true | _ => false end.

(* handlers that hold a unit of quota: running handlers, plus the stream whose acquire has
   returned and whose handler is about to be started *)
Definition holders (s : st) (hs : list hpc) : Z :=
  count is_run hs + (match ap s with AGot => 1 | _ => 0 end).

(* ---- sequential scripts ---- *)
Record sq := mksq { q_cap : Z; q_n : Z; q_wait : bool; q_hold : Z }.

(* [1] the acquirer goroutine calls acquire (ignored while it is blocked in one)
       obs [1; r]  r = 1 returned, 0 blocked, 2 ignored
   [2] release (ignored when nothing is held)
       obs [2; r]  r = 1 the blocked acquire returned, 0 otherwise, 2 ignored *)
Definition seq_op (s : sq) (op : word) : sq * word :=
  match op with
  | [c] =>
    if c =? 1 then
      if q_wait s then (s, [1; 2])
      else if q_n s - 1 <? 0 then (mksq (q_cap s) (q_n s - 1) true (q_hold s), [1; 0])
      else (mksq (q_cap s) (q_n s - 1) false (q_hold s + 1), [1; 1])
    else if c =? 2 then
      if q_hold s <=? 0 then (s, [2; 2])
      else if q_n s + 1 <=? 0 then
        (* the token is sent; the blocked acquirer (if any) receives it *)
        if q_wait s then (mksq (q_cap s) (q_n s + 1) false (q_hold s), [2; 1])
        else (mksq (q_cap s) (q_n s + 1) false (q_hold s - 1), [2; 0])
      else (mksq (q_cap s) (q_n s + 1) (q_wait s) (q_hold s - 1), [2; 0])
    else (s, [0])
  | _ => (s, [0])
  end.

Fixpoint seq_run (s : sq) (ops : list word) : list word :=
  match ops with
  | [] => []
  | op :: r => let (s', o) := seq_op s op in o :: seq_run s' r
  end.

(* cfg [0; N] sequential script;  cfg [1; N; streams] goroutine stress, obs [[N; max; streams completed]] *)
Definition run (cfg : word) (ops : list word) : option (list word) :=
  match cfg with
  | [0; c] => if (0 <=? c) && (c <=? 4294967295) then Some (seq_run (mksq c c false 0) ops) else None
  | _ => None
  end.

(* the property on an observation list: the number of handlers holding quota (acquires that
   returned minus releases performed) never exceeds N *)
Fixpoint held_clauses (c h : Z) (i : Z) (obs : list word) : list (Z * Z * bool) :=
  match obs with
  | [] => []
  | [1; 1] :: r => (1, i, h + 1 <=? c) :: held_clauses c (h + 1) (i + 1) r
  | [2; 1] :: r => (1, i, h <=? c) :: held_clauses c h (i + 1) r      (* one out, the waiter in *)
  | [2; 0] :: r => (1, i, true) :: held_clauses c (h - 1) (i + 1) r
  | _ :: r => (0, i, true) :: held_clauses c h (i + 1) r
  end.

Definition clauses (cfg : word) (ops obs : list word) : list (Z * Z * bool) :=
  match cfg with
  | [0; c] => held_clauses c 0 0 obs
  | 1 :: c :: n :: _ => match obs with
                   | [[c'; mx; dn]] => [(2, 0, (c' =? c) && (mx <=? c)); (3, 0, dn =? n)]
                   | _ => [(0, 0, false)]
                   end
  | _ => [(0, 0, false)]
  end.

Definition holds_b (cfg : word) (ops obs : list word) : bool :=
  forallb (fun c => snd c) (clauses cfg ops obs).

Definition check_case (c : case) : verdict :=
  match c_cfg c with
  | 1 :: _ => decide (Some (c_obs c)) (c_obs c) (clauses (c_cfg c) (c_ops c) (c_obs c))
  | _ => decide (run (c_cfg c) (c_ops c)) (c_obs c) (clauses (c_cfg c) (c_ops c) (c_obs c))
  end.
