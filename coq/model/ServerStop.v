(* C25 (handler-limit sentence only): server.go atomicSemaphore, the per-connection quota of
   concurrently running handlers (newHandlerQuota(maxConcurrentStreams) in serveStreams).
   Part A: instruction-level interleaving model.  acquire = n.Add(-1), then (if negative) a
   receive on the 1-slot channel; release = n.Add(1), then (if <= 0) a send on it.  One
   acquirer (HandleStreams calls the stream callback synchronously) and any number of handler
   goroutines, each started after acquire returned and calling release when it ends.
   Part B: sequential scripts for the correspondence with the real semaphore under synctest.
   Server.Stop / GracefulStop ordering (the first two sentences of C25) is NOT modelled.
   No proofs in this file. *)
From Coq Require Import List ZArith Bool Permutation.
From VLib Require Import Codec Machine.
Import ListNotations.
Open Scope Z_scope.

Inductive apc := AIdle | AWait | AGot.     (* the acquirer: not in acquire / blocked on <-wait / acquire returned *)
Inductive hpc := HFree | HRun | HSend.     (* a handler slot: no handler / running (holds quota) / release: about to send *)

Record st := mk { cap : Z; cnt : Z; tok : bool; ap : apc }.

Definition init_st (c : Z) : st := mk c c false AIdle.

Inductive step : st * list hpc -> st * list hpc -> Prop :=
| s_acq : forall s hs, ap s = AIdle ->                      (* q.n.Add(-1) < 0 ? *)
    step (s, hs) (mk (cap s) (cnt s - 1) (tok s) (if cnt s - 1 <? 0 then AWait else AGot), hs)
| s_wait : forall s hs, ap s = AWait -> tok s = true ->      (* <-q.wait *)
    step (s, hs) (mk (cap s) (cnt s) false AGot, hs)
| s_spawn : forall s l1 l2, ap s = AGot ->                   (* go f() / hand f to a worker *)
    step (s, l1 ++ HFree :: l2) (mk (cap s) (cnt s) (tok s) AIdle, l1 ++ HRun :: l2)
| s_rel : forall s l1 l2,                                    (* handler returned: q.n.Add(1) <= 0 ? *)
    step (s, l1 ++ HRun :: l2)
         (mk (cap s) (cnt s + 1) (tok s) (ap s), l1 ++ (if cnt s + 1 <=? 0 then HSend else HFree) :: l2)
| s_send : forall s l1 l2, tok s = false ->                  (* q.wait <- struct{}{} (capacity 1) *)
    step (s, l1 ++ HSend :: l2) (mk (cap s) (cnt s) true (ap s), l1 ++ HFree :: l2).

Inductive reachable : st * list hpc -> Prop :=
| reach_init : forall c k, 0 <= c -> reachable (init_st c, repeat HFree k)
| reach_step : forall x y, reachable x -> step x y -> reachable y.

Fixpoint count (p : hpc -> bool) (l : list hpc) : Z :=
  match l with [] => 0 | h :: r => b2z (p h) + count p r end.
Definition is_run (h : hpc) : bool := match h with HRun => true | _ => false end.
Definition is_send (h : hpc) : bool := match h with HSend => true | _ => false end.

(* handlers that hold a unit of quota: running handlers, plus the stream whose acquire has
   returned and whose handler is about to be started *)
Definition holders (s : st) (hs : list hpc) : Z :=
  count is_run hs + (match ap s with AGot => 1 | _ => 0 end).

(* ---- sequential scripts ---- *)
Record sq := mksq { q_cap : Z; q_n : Z; q_wait : bool; q_hold : Z }.

(* [1] the acquirer goroutine calls acquire (ignored while it is blocked in one)
       obs [1; r]  r = 1 returned, 0 blocked, 2 ignored
   [2] release (ignored when nothing is held)
       obs [2; r]  r = 1 the blocked acquire returned, 0 otherwise, 2 ignored *)
Definition seq_op (s : sq) (op : word) : sq * word :=
  match op with
  | [c] =>
    if c =? 1 then
      if q_wait s then (s, [1; 2])
      else if q_n s - 1 <? 0 then (mksq (q_cap s) (q_n s - 1) true (q_hold s), [1; 0])
      else (mksq (q_cap s) (q_n s - 1) false (q_hold s + 1), [1; 1])
    else if c =? 2 then
      if q_hold s <=? 0 then (s, [2; 2])
      else if q_n s + 1 <=? 0 then
        (* the token is sent; the blocked acquirer (if any) receives it *)
        if q_wait s then (mksq (q_cap s) (q_n s + 1) false (q_hold s), [2; 1])
        else (mksq (q_cap s) (q_n s + 1) false (q_hold s - 1), [2; 0])
      else (mksq (q_cap s) (q_n s + 1) (q_wait s) (q_hold s - 1), [2; 0])
    else (s, [0])
  | _ => (s, [0])
  end.

Fixpoint seq_run (s : sq) (ops : list word) : list word :=
  match ops with
  | [] => []
  | op :: r => let (s', o) := seq_op s op in o :: seq_run s' r
  end.

(* ================= Part C: Server.Stop / GracefulStop at quiescent points ================= *)
(* Sequential model of what a real Server (one connection, handlers blocked on a gate) has
   done once everything has settled after each operation of the driver (cfg [2; workers; wfh]).
   RPC kinds: 0 plain, 1 the response is blocked by flow control until the client reads,
   2 the handler ignores the cancellation of its context. *)
Record rp := mkrp {
  r_k : Z;
  r_h : Z;            (* 0 never started (refused), 1 handler running, 2 handler returned *)
  r_code : Z;         (* status the handler returned *)
  r_rel : bool;       (* a release was sent to the gate *)
  r_read : bool;      (* the client is reading *)
  r_cdone : bool;     (* the client has its final status *)
  r_ccode : Z;        (* that status *)
  r_dead : bool;      (* the stream was killed (Stop, or cancelled by the client) before delivery *)
  r_dcode : Z;        (* what the client will then see *)
  r_canc : bool;      (* the handler's context was seen cancelled *)
  r_ccan : bool;      (* the client cancelled *)
  n10 : bool; n11 : bool; n12 : bool; n13 : bool   (* events of the current operation *)
}.
Record sv := mksv {
  rpcs : list rp; gcalled : bool; closed : bool; hard : bool; gpend : Z; spend : Z; wfh : bool;
  gret : Z; sret : Z
}.

Definition clr (r : rp) : rp :=
  mkrp (r_k r) (r_h r) (r_code r) (r_rel r) (r_read r) (r_cdone r) (r_ccode r) (r_dead r) (r_dcode r)
       (r_canc r) (r_ccan r) false false false false.

Fixpoint upd_nth (n : nat) (f : rp -> rp) (l : list rp) : list rp :=
  match l, n with
  | [], _ => []
  | x :: t, O => f x :: t
  | x :: t, S m => x :: upd_nth m f t
  end.

Definition accepted (r : rp) : bool := 1 <=? r_h r.
Definition returned (r : rp) : bool := r_h r =? 2.

(* the handler sees its context cancelled: plain handlers return Canceled, kind 2 keeps running *)
Definition cancel_handler (r : rp) : rp :=
  if r_h r =? 1 then
    if r_k r =? 2 then
      mkrp (r_k r) 1 (r_code r) (r_rel r) (r_read r) (r_cdone r) (r_ccode r) (r_dead r) (r_dcode r)
           true (r_ccan r) (n10 r) (n11 r) (negb (r_canc r) || n12 r) (n13 r)
    else
      mkrp (r_k r) 2 1 (r_rel r) (r_read r) (r_cdone r) (r_ccode r) (r_dead r) (r_dcode r)
           true (r_ccan r) (n10 r) true true (n13 r)
  else r.
(* the stream is torn down before the client has its status *)
Definition kill_stream (code : Z) (r : rp) : rp :=
  if accepted r && negb (r_cdone r) && negb (r_dead r) then
    mkrp (r_k r) (r_h r) (r_code r) (r_rel r) (r_read r) (r_cdone r) (r_ccode r) true code
         (r_canc r) (r_ccan r) (n10 r) (n11 r) (n12 r) (n13 r)
  else r.
Definition deliver (r : rp) : rp :=
  if accepted r && negb (r_cdone r) && r_read r then
    if r_dead r then
      mkrp (r_k r) (r_h r) (r_code r) (r_rel r) (r_read r) true (r_dcode r) (r_dead r) (r_dcode r)
           (r_canc r) (r_ccan r) (n10 r) (n11 r) (n12 r) true
    else if returned r then
      mkrp (r_k r) (r_h r) (r_code r) (r_rel r) (r_read r) true (r_code r) (r_dead r) (r_dcode r)
           (r_canc r) (r_ccan r) (n10 r) (n11 r) (n12 r) true
    else r
  else r.

Definition settle (s : sv) : sv :=
  let rs := map deliver (rpcs s) in
  let idle := forallb (fun r => negb (accepted r) || r_cdone r || r_dead r) rs in
  let cl := closed s || (gcalled s && idle) in
  let allret := forallb (fun r => negb (accepted r) || returned r) rs in
  let gr := if cl && allret then gpend s else 0 in
  let sr := if cl && hard s && (negb (wfh s) || allret) then spend s else 0 in
  mksv rs (gcalled s) cl (hard s) (gpend s - gr) (spend s - sr) (wfh s) gr sr.

Definition new_rpc (k : Z) (refused : bool) : rp :=
  if refused then mkrp k 0 0 false (negb (k =? 1)) true 14 false 0 false false false false false true
  else mkrp k 1 0 false (negb (k =? 1)) false 0 false 0 false false true false false false.

Definition nth_rp (s : sv) (id : Z) : option rp := nth_error (rpcs s) (Z.to_nat id).
Definition valid_id (s : sv) (id : Z) : bool := (0 <=? id) && (id <? Z.of_nat (length (rpcs s))).
Definition stubborn (s : sv) : bool := existsb (fun r => (r_k r =? 2) && (r_h r =? 1) && negb (r_rel r)) (rpcs s).
Definition with_rpcs (s : sv) (rs : list rp) : sv :=
  mksv rs (gcalled s) (closed s) (hard s) (gpend s) (spend s) (wfh s) 0 0.

(* None = the driver ignores the operation *)
Definition srv_prim (s : sv) (op : word) : option sv :=
  match op with
  | [c] =>
    if ((c =? 3) || (c =? 4)) && (0 <? gpend s + spend s) && stubborn s then None
    else if c =? 3 then Some (mksv (rpcs s) true (closed s) (hard s) (gpend s + 1) (spend s) (wfh s) 0 0)
    else if c =? 4 then
      Some (mksv (if closed s then rpcs s else map (fun r => kill_stream 14 (cancel_handler r)) (rpcs s))
                 (gcalled s) true true (gpend s) (spend s + 1) (wfh s) 0 0)
    else None
  | [c; a] =>
    if (c =? 1) && (0 <=? a) && (a <=? 2) && (Z.of_nat (length (rpcs s)) <? 64) then
      Some (with_rpcs s (rpcs s ++ [new_rpc a (closed s || gcalled s)]))
    else if (c =? 6) && valid_id s a then
      match nth_rp s a with
      | Some r => if r_read r then None else
          Some (with_rpcs s (upd_nth (Z.to_nat a) (fun r =>
            mkrp (r_k r) (r_h r) (r_code r) (r_rel r) true (r_cdone r) (r_ccode r) (r_dead r) (r_dcode r)
                 (r_canc r) (r_ccan r) (n10 r) (n11 r) (n12 r) (n13 r)) (rpcs s)))
      | None => None
      end
    else if (c =? 5) && valid_id s a then
      match nth_rp s a with
      | Some r => if r_ccan r then None else
          Some (with_rpcs s (upd_nth (Z.to_nat a) (fun r =>
            let r1 := if accepted r && negb (r_cdone r) && negb (r_dead r)
                      then kill_stream 1 (cancel_handler r) else r in
            mkrp (r_k r1) (r_h r1) (r_code r1) (r_rel r1) (r_read r1) (r_cdone r1) (r_ccode r1) (r_dead r1)
                 (r_dcode r1) (r_canc r1) true (n10 r1) (n11 r1) (n12 r1) (n13 r1)) (rpcs s)))
      | None => None
      end
    else None
  | [c; a; code] =>
    if (c =? 2) && valid_id s a && (0 <=? code) && (code <=? 16) then
      match nth_rp s a with
      | Some r => if r_rel r then None else
          Some (with_rpcs s (upd_nth (Z.to_nat a) (fun r =>
            if r_h r =? 1 then
              mkrp (r_k r) 2 code true (r_read r) (r_cdone r) (r_ccode r) (r_dead r) (r_dcode r)
                   (r_canc r) (r_ccan r) (n10 r) true (n12 r) (n13 r)
            else
              mkrp (r_k r) (r_h r) (r_code r) true (r_read r) (r_cdone r) (r_ccode r) (r_dead r) (r_dcode r)
                   (r_canc r) (r_ccan r) (n10 r) (n11 r) (n12 r) (n13 r)) (rpcs s)))
      | None => None
      end
    else None
  | _ => None
  end.

(* events of one operation, sorted by (type, id) *)
Fixpoint evs_of (t : Z) (flag : rp -> bool) (code : rp -> Z) (i : Z) (l : list rp) : list Z :=
  match l with
  | [] => []
  | r :: rest => (if flag r then [t; i; code r] else []) ++ evs_of t flag code (i + 1) rest
  end.
Fixpoint rep_ev (n : nat) (t : Z) : list Z :=
  match n with O => [] | S m => [t; 0; 0] ++ rep_ev m t end.
Definition srv_events (s : sv) : list Z :=
  evs_of 10 n10 (fun _ => 0) 0 (rpcs s) ++ evs_of 11 n11 r_code 0 (rpcs s) ++
  evs_of 12 n12 (fun _ => 0) 0 (rpcs s) ++ evs_of 13 n13 r_ccode 0 (rpcs s) ++
  rep_ev (Z.to_nat (gret s)) 14 ++ rep_ev (Z.to_nat (sret s)) 15.

Definition srv_op (s : sv) (op : word) : sv * word :=
  match srv_prim (with_rpcs s (map clr (rpcs s))) op with
  | None => (with_rpcs s (map clr (rpcs s)), [0])
  | Some s1 => let s2 := settle s1 in (s2, op ++ srv_events s2)
  end.

Fixpoint srv_run (s : sv) (ops : list word) : list word :=
  match ops with
  | [] => []
  | op :: r => let (s', o) := srv_op s op in o :: srv_run s' r
  end.

(* ================= Part D: Stop / GracefulStop ordering, all interleavings ================= *)
(* server.go stop(graceful) as atomic steps of a thread per call: quit.Fire + close listeners;
   drainAllServerTransportsLocked (first GOAWAY) or closeServerTransportsLocked; wait until
   conns is empty; handlersWG.Wait (graceful or WaitForHandlers).  One connection whose
   transport goes serving -> first GOAWAY sent (still accepting) -> second GOAWAY (refusing
   new streams) -> closed (no active stream left while draining, or closed by Stop).
   RPCs: arrival (accepted: handlersWG.Add, handler started / refused), handler return with a
   status, delivery of that status to the client (the stream stays active until then),
   cancellation by the client. *)
Inductive conn := CServing | CGoAway1 | CDraining | CClosed.
Inductive hst := HNone | HRunning | HRet (st : Z).
Inductive cli := CNone | CHandler (st : Z) | CErr | CCancelled.   (* CErr: refused / connection error *)
Record srpc := mkr { hs : hst; cxl : bool; clst : cli; act : bool; late : bool }.
Inductive spc := P0 (g : bool) | P1 (g : bool) | P2 (g : bool) | P3 (g : bool) | P4 (g : bool).
Record gst := mkg { cn : conn; hardc : bool; wfhd : bool; rs : list srpc; stops : list spc }.

Definition arrive (c : conn) : srpc :=
  match c with
  | CServing | CGoAway1 => mkr HRunning false CNone true false
  | CDraining | CClosed => mkr HNone false CErr false true
  end.
(* Stop closes the transport: contexts cancelled, clients of unfinished streams get an error *)
Definition kill (r : srpc) : srpc :=
  if act r then mkr (hs r) true (match clst r with CNone => CErr | c => c end) false (late r) else r.
Definition no_running (l : list srpc) : Prop := Forall (fun r => hs r <> HRunning) l.
Definition all_inactive (l : list srpc) : Prop := Forall (fun r => act r = false) l.

Inductive gstep : gst -> gst -> Prop :=
| d_arrive : forall s, gstep s (mkg (cn s) (hardc s) (wfhd s) (rs s ++ [arrive (cn s)]) (stops s))
| d_return : forall s l1 r l2 st, rs s = l1 ++ r :: l2 -> hs r = HRunning ->
    gstep s (mkg (cn s) (hardc s) (wfhd s) (l1 ++ mkr (HRet st) (cxl r) (clst r) (act r) (late r) :: l2) (stops s))
| d_deliver : forall s l1 r l2 st, rs s = l1 ++ r :: l2 -> hs r = HRet st -> act r = true -> cn s <> CClosed ->
    gstep s (mkg (cn s) (hardc s) (wfhd s) (l1 ++ mkr (hs r) (cxl r) (CHandler st) false (late r) :: l2) (stops s))
| d_call : forall s g, gstep s (mkg (cn s) (hardc s) (wfhd s) (rs s) (stops s ++ [P0 g]))
| d_quit : forall s p1 g p2, stops s = p1 ++ P0 g :: p2 ->
    gstep s (mkg (cn s) (hardc s) (wfhd s) (rs s) (p1 ++ P1 g :: p2))
| d_drain : forall s p1 p2, stops s = p1 ++ P1 true :: p2 ->
    gstep s (mkg (match cn s with CServing => CGoAway1 | c => c end) (hardc s) (wfhd s) (rs s) (p1 ++ P2 true :: p2))
| d_close : forall s p1 p2, stops s = p1 ++ P1 false :: p2 ->
    gstep s (mkg CClosed true (wfhd s) (map kill (rs s)) (p1 ++ P2 false :: p2))
(* the client cancels an RPC whose stream is still active: RST_STREAM, the handler's context
   is cancelled, the stream leaves activeStreams *)
| d_ccancel : forall s l1 r l2, rs s = l1 ++ r :: l2 -> act r = true ->
    gstep s (mkg (cn s) (hardc s) (wfhd s) (l1 ++ mkr (hs r) true CCancelled false (late r) :: l2) (stops s))
(* the pool of stop() calls is unordered *)
| d_perm : forall s ps, Permutation (stops s) ps -> gstep s (mkg (cn s) (hardc s) (wfhd s) (rs s) ps)
| d_goaway2 : forall s, cn s = CGoAway1 -> gstep s (mkg CDraining (hardc s) (wfhd s) (rs s) (stops s))
| d_drainclose : forall s, cn s = CDraining -> all_inactive (rs s) ->
    gstep s (mkg CClosed (hardc s) (wfhd s) (rs s) (stops s))
| d_waitconns : forall s p1 g p2, stops s = p1 ++ P2 g :: p2 -> cn s = CClosed ->
    gstep s (mkg (cn s) (hardc s) (wfhd s) (rs s) (p1 ++ P3 g :: p2))
| d_waitwg : forall s p1 g p2, stops s = p1 ++ P3 g :: p2 -> (g || wfhd s = true -> no_running (rs s)) ->
    gstep s (mkg (cn s) (hardc s) (wfhd s) (rs s) (p1 ++ P4 g :: p2)).

Inductive greach : gst -> Prop :=
| gr_init : forall w, greach (mkg CServing false w [] [])
| gr_step : forall s s', greach s -> gstep s s' -> greach s'.

(* ================= Part E: from the sequential model (C) to the interleaving model (D) ====== *)
(* the state of the sequential model after a script, and its image in the interleaving model:
   [dn] = the stop() calls that have returned *)
Fixpoint srv_state (s : sv) (ops : list word) : sv :=
  match ops with [] => s | op :: r => srv_state (fst (srv_op s op)) r end.
Definition srv_init (w : bool) : sv := mksv [] false false false 0 0 w 0 0.

Definition hs_of (r : rp) : hst :=
  if r_h r =? 0 then HNone else if r_h r =? 1 then HRunning else HRet (r_code r).
Definition act_of (r : rp) : bool := accepted r && negb (r_cdone r) && negb (r_dead r).
Definition clst_of (r : rp) : cli :=
  if negb (accepted r) then CErr
  else if r_dead r then (if r_dcode r =? 1 then CCancelled else CErr)
  else if r_cdone r then CHandler (r_code r) else CNone.
Definition abs_r (r : rp) : srpc := mkr (hs_of r) (r_dead r) (clst_of r) (act_of r) (negb (accepted r)).
Definition abs_cn (s : sv) : conn := if closed s then CClosed else if gcalled s then CDraining else CServing.
Definition pG (s : sv) : spc := if closed s then P3 true else P2 true.
Definition abs_stops (s : sv) (dn : list spc) : list spc :=
  repeat (pG s) (Z.to_nat (gpend s)) ++ repeat (P3 false) (Z.to_nat (spend s)) ++ dn.
Definition abs (s : sv) (dn : list spc) : gst :=
  mkg (abs_cn s) (hard s) (wfh s) (map abs_r (rpcs s)) (abs_stops s dn).


(* cfg [0; N] sequential script;  cfg [1; N; streams] goroutine stress, obs [[N; max; streams completed]] *)
Definition run (cfg : word) (ops : list word) : option (list word) :=
  match cfg with
  | [0; c] => if (0 <=? c) && (c <=? 4294967295) then Some (seq_run (mksq c c false 0) ops) else None
  | [2; _; w] => Some (srv_run (mksv [] false false false 0 0 (w =? 1) 0 0) ops)
  | _ => None
  end.

(* the property on an observation list: the number of handlers holding quota (acquires that
   returned minus releases performed) never exceeds N *)
Fixpoint held_clauses (c h : Z) (i : Z) (obs : list word) : list (Z * Z * bool) :=
  match obs with
  | [] => []
  | [1; 1] :: r => (1, i, h + 1 <=? c) :: held_clauses c (h + 1) (i + 1) r
  | [2; 1] :: r => (1, i, h <=? c) :: held_clauses c h (i + 1) r      (* one out, the waiter in *)
  | [2; 0] :: r => (1, i, true) :: held_clauses c (h - 1) (i + 1) r
  | _ :: r => (0, i, true) :: held_clauses c h (i + 1) r
  end.

(* ---- the property evaluated on a server trace (cfg [2; workers; wfh]) ---- *)
Record evs := mkevs {
  e_n : Z;                    (* RPCs started by the driver so far *)
  e_started : list Z;         (* handlers started *)
  e_ret : list (Z * Z);       (* handlers returned, with their status *)
  e_canc : list Z;            (* handlers whose context was cancelled *)
  e_cst : list Z;             (* clients that have their final status *)
  e_ccan : list Z;            (* RPCs cancelled by their client *)
  e_stopc : bool;             (* GracefulStop or Stop has been called *)
  e_hard : bool               (* Stop has been called *)
}.
Definition evs0 : evs := mkevs 0 [] [] [] [] [] false false.
Definition memz (x : Z) (l : list Z) : bool := existsb (Z.eqb x) l.
Definition has_ret (x : Z) (l : list (Z * Z)) : bool := existsb (fun p => fst p =? x) l.
Definition mem_ret (x c : Z) (l : list (Z * Z)) : bool := existsb (fun p => (fst p =? x) && (snd p =? c)) l.

(* clause ids: 4 GracefulStop returned while a started handler had not returned;
   5 a client of an accepted RPC got a status that is not its handler's (no Stop, no client
     cancellation), or a handler's context was cancelled without Stop / client cancellation;
   6 a handler started for an RPC begun after GracefulStop/Stop was called (or a refused RPC got OK);
   7 Stop: a client got OK for an RPC unfinished at Stop, or Stop returned while a started
     handler had neither returned nor seen its context cancelled;
   8 GracefulStop returned before every accepted RPC's status had reached its client;
   9 WaitForHandlers: Stop returned while a handler was still running *)
Definition ev_event (w : bool) (start_ok : bool) (newid : Z) (e : evs) (t id c : Z) : evs * list (Z * bool) :=
  if t =? 10 then
    (mkevs (e_n e) (id :: e_started e) (e_ret e) (e_canc e) (e_cst e) (e_ccan e) (e_stopc e) (e_hard e),
     [(6, start_ok && (id =? newid))])
  else if t =? 11 then
    (mkevs (e_n e) (e_started e) ((id, c) :: e_ret e) (e_canc e) (e_cst e) (e_ccan e) (e_stopc e) (e_hard e),
     [(0, memz id (e_started e))])
  else if t =? 12 then
    (mkevs (e_n e) (e_started e) (e_ret e) (id :: e_canc e) (e_cst e) (e_ccan e) (e_stopc e) (e_hard e),
     [(5, e_hard e || memz id (e_ccan e))])
  else if t =? 13 then
    (mkevs (e_n e) (e_started e) (e_ret e) (e_canc e) (id :: e_cst e) (e_ccan e) (e_stopc e) (e_hard e),
     [if memz id (e_ccan e) then (0, true)
      else if negb (memz id (e_started e)) then (6, negb (c =? 0))
      else if e_hard e then (7, negb (c =? 0))
      else (5, mem_ret id c (e_ret e))])
  else if t =? 14 then
    (e, [(4, forallb (fun x => has_ret x (e_ret e)) (e_started e));
         (8, e_hard e || forallb (fun x => memz x (e_cst e) || memz x (e_ccan e)) (e_started e))])
  else if t =? 15 then
    (e, [(7, forallb (fun x => has_ret x (e_ret e) || memz x (e_canc e)) (e_started e));
         (9, negb w || forallb (fun x => has_ret x (e_ret e)) (e_started e))])
  else (e, [(0, false)]).

Fixpoint ev_events (w start_ok : bool) (newid : Z) (e : evs) (l : list Z) (fuel : nat) : evs * list (Z * bool) :=
  match fuel, l with
  | S f, t :: id :: c :: rest =>
    let (e1, r1) := ev_event w start_ok newid e t id c in
    let (e2, r2) := ev_events w start_ok newid e1 rest f in (e2, r1 ++ r2)
  | _, [] => (e, [])
  | _, _ => (e, [(0, false)])
  end.

Definition ev_word (w : bool) (e : evs) (wd : word) : evs * list (Z * bool) :=
  match wd with
  | c :: rest =>
    if c =? 1 then
      let e1 := mkevs (e_n e + 1) (e_started e) (e_ret e) (e_canc e) (e_cst e) (e_ccan e) (e_stopc e) (e_hard e) in
      ev_events w (negb (e_stopc e)) (e_n e) e1 (tl rest) (length rest)
    else if c =? 2 then ev_events w false 0 e (tl (tl rest)) (length rest)
    else if c =? 3 then
      ev_events w false 0 (mkevs (e_n e) (e_started e) (e_ret e) (e_canc e) (e_cst e) (e_ccan e) true (e_hard e))
                rest (length rest)
    else if c =? 4 then
      ev_events w false 0 (mkevs (e_n e) (e_started e) (e_ret e) (e_canc e) (e_cst e) (e_ccan e) true true)
                rest (length rest)
    else if c =? 5 then
      ev_events w false 0 (mkevs (e_n e) (e_started e) (e_ret e) (e_canc e) (e_cst e) (hd 0 rest :: e_ccan e)
                                 (e_stopc e) (e_hard e)) (tl rest) (length rest)
    else if c =? 6 then ev_events w false 0 e (tl rest) (length rest)
    else ev_events w false 0 e rest (length rest)
  | [] => (e, [(0, false)])
  end.

Fixpoint srv_clauses (w : bool) (e : evs) (i : Z) (obs : list word) : list (Z * Z * bool) :=
  match obs with
  | [] => []
  | wd :: r => let (e1, rs) := ev_word w e wd in
               map (fun x => (fst x, i, snd x)) rs ++ srv_clauses w e1 (i + 1) r
  end.

Definition clauses (cfg : word) (ops obs : list word) : list (Z * Z * bool) :=
  match cfg with
  | [0; c] => held_clauses c 0 0 obs
  | [2; _; w] => srv_clauses (w =? 1) evs0 0 obs
  | 5 :: _ => srv_clauses false evs0 0 obs    (* raw HTTP/2 client scenario: acceptor only *)
  | 1 :: c :: n :: _ => match obs with
                   | [[c'; mx; dn]] => [(2, 0, (c' =? c) && (mx <=? c)); (3, 0, dn =? n)]
                   | _ => [(0, 0, false)]
                   end
  | _ => [(0, 0, false)]
  end.

Definition holds_b (cfg : word) (ops obs : list word) : bool :=
  forallb (fun c => snd c) (clauses cfg ops obs).

Definition check_case (c : case) : verdict :=
  match c_cfg c with
  | 1 :: _ | 5 :: _ => decide (Some (c_obs c)) (c_obs c) (clauses (c_cfg c) (c_ops c) (c_obs c))
  | _ => decide (run (c_cfg c) (c_ops c)) (c_obs c) (clauses (c_cfg c) (c_ops c) (c_obs c))
  end.
