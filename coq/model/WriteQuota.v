(* C17 part (a): writeQuota.get / realReplenish (internal/transport/flowcontrol.go) as
   per-instruction programs over shared state {quota (atomic int32), ch (1-slot channel),
   done}:

     get(sz):        L1: if atomic.Load(&quota) > 0 goto L2 else goto L3
                     L2: atomic.Add(&quota, -sz); return nil
                     L3: select { <-ch: goto L1 ; <-done: return errStreamDone }
     replenish(n):   R1: new := atomic.Add(&quota, n); pend := (new-n <= 0 && new > 0)
                     R2: if pend { select { ch <- struct{}{}: ; default: } }

   Every instruction is one atomic step; any number of replenisher threads interleave
   with the sender.  gRPC's contract is one sending goroutine per stream (SendMsg is not
   concurrency-safe), i.e. at most one thread inside get: [multi = false] enforces it
   (a second GStart is ignored); [multi = true] lifts it and is used only to exhibit what
   goes wrong without the contract.  int32 wrap is not modelled (quota stays within
   (-2^31, init] when replenished <= taken and sz < 2^31).  No proofs here. *)
From Coq Require Import List ZArith Bool.
From VLib Require Import Codec Machine.
Import ListNotations.
Open Scope Z_scope.

Inductive gpc := L1 (sz : Z) | L2 (sz : Z) | L3 (sz : Z).

Record st := mk {
  multi : bool;
  init0 : Z;              (* the size given to init *)
  quota : Z;
  token : bool;           (* len(ch) = 1 *)
  done : bool;
  gs : list (Z * gpc);    (* threads inside get *)
  rs : list (Z * bool);   (* threads inside replenish after the Add: (tid, pend) *)
  got : Z;                (* ghost: sum of sz subtracted *)
  repl : Z                (* ghost: sum of n added *)
}.

Definition init (mu : bool) (sz : Z) : st := mk mu sz sz false false [] [] 0 0.

Inductive act :=
| GStart (t sz : Z) | GLoad (t : Z) | GAdd (t : Z) | GRecvTok (t : Z) | GRecvDone (t : Z)
| RStart (t n : Z) | RSend (t : Z) | ADone.

Fixpoint lookup {A} (t : Z) (l : list (Z * A)) : option A :=
  match l with
  | [] => None
  | (t', p) :: l' => if t =? t' then Some p else lookup t l'
  end.
Fixpoint remove_t {A} (t : Z) (l : list (Z * A)) : list (Z * A) :=
  match l with
  | [] => []
  | (t', p) :: l' => if t =? t' then l' else (t', p) :: remove_t t l'
  end.
Fixpoint set_t {A} (t : Z) (p : A) (l : list (Z * A)) : list (Z * A) :=
  match l with
  | [] => []
  | (t', p') :: l' => if t =? t' then (t', p) :: l' else (t', p') :: set_t t p l'
  end.

Definition set_gs (s : st) (l : list (Z * gpc)) : st :=
  mk (multi s) (init0 s) (quota s) (token s) (done s) l (rs s) (got s) (repl s).

(* outputs: [1] get returned nil, [2] get returned errStreamDone, otherwise [] *)
Definition astep (s : st) (a : act) : st * word :=
  match a with
  | GStart t sz =>
    match lookup t (gs s) with
    | Some _ => (s, [])
    | None =>
      if negb (multi s) && negb (match gs s with [] => true | _ => false end) then (s, [])
      else (set_gs s (gs s ++ [(t, L1 sz)]), [])
    end
  | GLoad t =>
    match lookup t (gs s) with
    | Some (L1 sz) => (set_gs s (set_t t (if quota s >? 0 then L2 sz else L3 sz) (gs s)), [])
    | _ => (s, [])
    end
  | GAdd t =>
    match lookup t (gs s) with
    | Some (L2 sz) =>
      (mk (multi s) (init0 s) (quota s - sz) (token s) (done s) (remove_t t (gs s)) (rs s)
          (got s + sz) (repl s), [1])
    | _ => (s, [])
    end
  | GRecvTok t =>
    match lookup t (gs s) with
    | Some (L3 sz) =>
      if token s then
        (mk (multi s) (init0 s) (quota s) false (done s) (set_t t (L1 sz) (gs s)) (rs s)
            (got s) (repl s), [])
      else (s, [])
    | _ => (s, [])
    end
  | GRecvDone t =>
    match lookup t (gs s) with
    | Some (L3 _) => if done s then (set_gs s (remove_t t (gs s)), [2]) else (s, [])
    | _ => (s, [])
    end
  | RStart t n =>
    match lookup t (rs s) with
    | Some _ => (s, [])
    | None =>
      let q' := quota s + n in
      (mk (multi s) (init0 s) q' (token s) (done s) (gs s)
          (rs s ++ [(t, (quota s <=? 0) && (q' >? 0))]) (got s) (repl s + n), [])
    end
  | RSend t =>
    match lookup t (rs s) with
    | Some pend =>
      (mk (multi s) (init0 s) (quota s) (if pend then true else token s) (done s) (gs s)
          (remove_t t (rs s)) (got s) (repl s), [])
    | None => (s, [])
    end
  | ADone => (mk (multi s) (init0 s) (quota s) (token s) true (gs s) (rs s) (got s) (repl s), [])
  end.

Definition exec (s : st) (l : list act) : st := fold_left (fun s a => fst (astep s a)) l s.

(* ---- running the sender threads to quiescence (synctest.Wait) ---- *)
Definition next_act (s : st) (e : Z * gpc) : option act :=
  match snd e with
  | L1 _ => Some (GLoad (fst e))
  | L2 _ => Some (GAdd (fst e))
  | L3 _ => if token s then Some (GRecvTok (fst e))
            else if done s then Some (GRecvDone (fst e)) else None
  end.

Fixpoint first_act (s : st) (l : list (Z * gpc)) : option act :=
  match l with
  | [] => None
  | e :: r => match next_act s e with Some a => Some a | None => first_act s r end
  end.

Fixpoint settle (fuel : nat) (s : st) : st :=
  match fuel with
  | O => s
  | S f => match first_act s (gs s) with
           | None => s
           | Some a => settle f (fst (astep s a))
           end
  end.

Definition fuel_of (s : st) : nat := 3 * length (gs s) + 3.

(* cfg [init; multi]
   [1; sz] go w.get(sz)    [2; n] w.replenish(n)    [3] close(done) (terminal)
   obs [quota; len(ch); #blocked get calls; #get calls that returned nil in this step;
        #get calls that returned errStreamDone in this step; sum of the sizes of the calls
        that returned nil in this step] *)
Definition op_acts (tid : Z) (op : word) : option (list act) :=
  match op with
  | [1; sz] => Some [GStart tid sz]
  | [2; n] => Some [RStart tid n; RSend tid]
  | [3] => Some [ADone]
  | _ => None
  end.

Definition op_step (s : st) (tid : Z) (op : word) : option (st * word) :=
  match op_acts tid op with
  | None => None
  | Some acts =>
    let s1 := exec s acts in
    let s2 := settle (fuel_of s1) s1 in
    let gone := Z.of_nat (length (gs s1)) - Z.of_nat (length (gs s2)) in
    let nerr := if done s2 then gone else 0 in
    Some (s2, [quota s2; b2z (token s2); Z.of_nat (length (gs s2)); gone - nerr; nerr; got s2 - got s])
  end.

Fixpoint go (s : st) (tid : Z) (ops : list word) : option (list word) :=
  match ops with
  | [] => Some []
  | op :: r =>
    if done s then Some [] else
    match op_step s tid op with
    | Some (s', o) => match go s' (tid + 1) r with Some os => Some (o :: os) | None => None end
    | None => None
    end
  end.

(* Stress mode, cfg [init; 2]: op [4; gets (thousands); sz] runs a real sender goroutine
   (back-to-back get(sz)) against a real replenisher goroutine that gives back exactly what
   was taken, on the real clock, and counts
   [senders found parked with everything replenished, quota > 0 and an empty channel;
    pairs that made no progress within the deadline for any other reason].
   By C17_no_lost_wakeup (all instruction interleavings) both are 0. *)
Definition stress_obs (op : word) : option word :=
  match op with [4; _; _] => Some [0; 0] | _ => None end.

Fixpoint stress_go (ops : list word) : option (list word) :=
  match ops with
  | [] => Some []
  | op :: r => match stress_obs op, stress_go r with
               | Some o, Some os => Some (o :: os)
               | _, _ => None
               end
  end.

Definition run (cfg : word) (ops : list word) : option (list word) :=
  match cfg with
  | [_; 2] => stress_go ops
  | [i; m] => go (init (z2b m) i) 0 ops
  | _ => None
  end.

(* ---- the property on an observed trace ----
   tracker: sum taken by successful get calls, sum replenished, done
   clause 1: (one sender) quota = init - taken + replenished (so back to init when all
             taken data has been written)
   clause 2: (one sender) a get call is blocked at a quiescent point only while quota <= 0
   clause 3: after close(done) no get call stays blocked
   clause 9: retired (always true): concurrent senders on one stream are outside gRPC's
             one-sender contract and outside the property; such cases are compared by
             correspondence only *)
Record trk := mkt { t_got : Z; t_repl : Z; t_done : bool }.

Definition cl_op (i : Z) (mu : bool) (t : trk) (op obs : word) : trk * list (Z * Z * bool) :=
  match obs with
  | [q; tok; nb; nok; nerr; taken] =>
    let repl' := match op with [2; n] => t_repl t + n | _ => t_repl t end in
    let dd := match op with [3] => true | _ => false end in
    let got' := t_got t + taken in
    (mkt got' repl' dd,
     [(1, q, mu || (q =? i - got' + repl'));
      (2, nb, mu || dd || (nb <=? 0) || (q <=? 0));
      (3, nb, negb dd || (nb =? 0));
      (9, nb, true)])
  | _ => (t, [(0, 0, false)])
  end.

Fixpoint cl_go (i : Z) (mu : bool) (t : trk) (ops obs : list word) : list (Z * Z * bool) :=
  match ops with
  | [] => match obs with [] => [] | _ => [(0, 1, false)] end
  | op :: r =>
    if t_done t then match obs with [] => [] | _ => [(0, 2, false)] end else
    match obs with
    | o :: r' => let '(t', cs) := cl_op i mu t op o in cs ++ cl_go i mu t' r r'
    | [] => [(0, 3, false)]
    end
  end.

(* clause 11: stress mode: no sender parked with quota > 0, empty channel, nothing in flight
   clause 12: stress mode: every sender/replenisher pair finished within the deadline *)
Definition stress_cl (op obs : word) : list (Z * Z * bool) :=
  match op, obs with
  | [4; _; _], [a; b] => [(11, a, a =? 0); (12, b, b =? 0)]
  | _, _ => [(0, 0, false)]
  end.

Fixpoint stress_cl_go (ops obs : list word) : list (Z * Z * bool) :=
  match ops, obs with
  | op :: r, o :: r' => stress_cl op o ++ stress_cl_go r r'
  | [], [] => []
  | _, _ => [(0, 0, false)]
  end.

Definition clauses (cfg : word) (ops obs : list word) : list (Z * Z * bool) :=
  match cfg with
  | [_; 2] => stress_cl_go ops obs
  | [i; m] => cl_go i (z2b m) (mkt 0 0 false) ops obs
  | _ => [(0, 0, false)]
  end.

Definition holds_b (cfg : word) (ops obs : list word) : bool :=
  forallb (fun c => snd c) (clauses cfg ops obs).

Definition check_case (c : case) : verdict :=
  decide (run (c_cfg c) (c_ops c)) (c_obs c) (clauses (c_cfg c) (c_ops c) (c_obs c)).
