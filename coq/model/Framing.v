(* C06: gRPC message framing on the receive side.
   Transcribes rpc_util.go: parser.recvMsg, checkRecvPayload, recvAndDecompress,
   decompress (legacy Decompressor path incl. gzipDecompressor.doWithMaxSize, and the
   encoding.Compressor path), over byte lists; and the read loops of
   internal/transport/transport.go (Stream.ReadMessageHeader / Stream.read over
   transportReader / recvBufferReader) over a list of received chunks (DATA frames).
   External decompressors are a function [dec : kind -> payload -> dres] (a Section
   variable in the proofs; here an explicit argument).  No proofs in this file. *)
From Coq Require Import List ZArith Bool.
From VLib Require Import Codec Machine.
Import ListNotations.
Open Scope Z_scope.

Definition bytes := list Z.
Definition blen (b : bytes) : Z := Z.of_nat (length b).

(* codes.Code *)
Definition cResourceExhausted : Z := 8.
Definition cUnimplemented : Z := 12.
Definition cInternal : Z := 13.

(* What an external decompressor does with a payload: it either refuses the payload
   when the reader is created (gzip.NewReader / Compressor.Decompress error) or yields
   [content] and then ends with io.EOF (ok = true) or with an error (ok = false). *)
Inductive dres := DHdrErr | DStream (content : bytes) (ok : bool).

(* result of one recvAndDecompress.  [why] only classifies status errors for the
   clause ids (2 size limit, 4 flag/encoding check, 6 decompressor failure); it is
   not observable. *)
Inductive res := RMsg (out : bytes) | REOF | RUnexp | RStatus (code why : Z).

(* ---------------- the stream reader (transport.Stream over received chunks) ------- *)

(* r_er = transportReader.er (only io.EOF can be stored here: the chunk source ends with
   recvMsg{err: io.EOF}); r_pos = number of bytes taken from the chunks so far *)
Record reader := mkR { r_chunks : list bytes; r_er : bool; r_pos : Z }.

(* the loop `for n != 0 { buf := trReader.Read(n); n -= len(buf) ... }`: each call returns
   the rest of the current chunk, split at n (recvBufferReader.Read / ReadMessageHeader);
   the end of the chunk list is io.EOF.  Result: bytes obtained, remaining chunks,
   completed? *)
Fixpoint take_chunks (n : Z) (cs : list bytes) : bytes * list bytes * bool :=
  match cs with
  | [] => ([], [], n =? 0)
  | c :: r =>
    if n =? 0 then ([], cs, true)
    else if n <=? blen c then (firstn (Z.to_nat n) c, skipn (Z.to_nat n) c :: r, true)
    else let '(b, r', ok) := take_chunks (n - blen c) r in (c ++ b, r', ok)
  end.

(* Stream.ReadMessageHeader(5 bytes) and Stream.read(n).  On io.EOF the error returned is
   io.EOF in both (the failing call itself returns no bytes, so the conversion to
   io.ErrUnexpectedEOF inside these loops never fires) and it is remembered in er. *)
Definition rd_read (n : Z) (r : reader) : option bytes * reader :=
  if r_er r then (None, r) else
  let '(b, cs', ok) := take_chunks n (r_chunks r) in
  if ok then (Some b, mkR cs' false (r_pos r + blen b))
  else (None, mkR cs' true (r_pos r + blen b)).

(* ---------------- parser.recvMsg ---------------- *)

Definition be32 (h : bytes) : Z :=
  match h with
  | [a; b; c; d] => ((a mod 256 * 256 + b mod 256) * 256 + c mod 256) * 256 + d mod 256
  | _ => 0
  end.

Inductive pres := PMsg (pf : Z) (data : bytes) | PErr (e : res).

(* int64(length) > int64(maxInt) cannot hold on a 64-bit machine (length < 2^32) *)
Definition parse_header (limit : Z) (h : bytes) : option (Z * Z) + res :=
  match h with
  | pf :: lenb =>
    let length := be32 lenb in
    if length >? limit then inr (RStatus cResourceExhausted 2) else inl (Some (pf, length))
  | [] => inl None
  end.

Definition recvMsg (limit : Z) (r : reader) : pres * reader :=
  match rd_read 5 r with
  | (None, r') => (PErr REOF, r')
  | (Some h, r') =>
    match parse_header limit h with
    | inr e => (PErr e, r')
    | inl None => (PErr REOF, r')
    | inl (Some (pf, length)) =>
      match rd_read length r' with
      | (None, r'') => (PErr RUnexp, r'')          (* io.EOF -> io.ErrUnexpectedEOF *)
      | (Some d, r'') => (PMsg pf d, r'')
      end
    end
  end.

(* ---------------- checkRecvPayload / decompress ---------------- *)

(* limit = maxReceiveMessageSize; dcKind: legacy Decompressor (0 nil, 1 the built-in
   *gzipDecompressor, >= 2 a third-party Decompressor of codec kind dcKind);
   compKind: encoding.Compressor (0 nil, k > 0 codec kind k);
   enc: the stream's grpc-encoding (0 "", 1 "identity", >= 2 another name) *)
Record config := mkCfg { limit : Z; isServer : bool; dcKind : Z; compKind : Z; enc : Z }.

Definition checkRecvPayload (pf enc : Z) (have isServer : bool) : option Z :=
  if pf =? 0 then None
  else if pf =? 1 then
    if (enc =? 0) || (enc =? 1) then Some cInternal
    else if negb have then Some (if isServer then cUnimplemented else cInternal)
    else None
  else Some cInternal.

(* io.LimitReader(src, limit+1) followed by ReadAll *)
Definition lim_take (lim : Z) (content : bytes) : bytes :=
  if blen content <=? lim + 1 then content else firstn (Z.to_nat (lim + 1)) content.

(* Reading the decompressor's output, through a LimitReader when [bounded].  Returns the
   result and the number of bytes obtained from the decompressor (materialised).
   The terminating error of a stream is met only if the reader gets to its end, i.e.
   when fewer than limit+1 bytes precede it. *)
Definition dec_run (bounded : bool) (lim : Z) (d : dres) : res * Z :=
  match d with
  | DHdrErr => (RStatus cInternal 6, 0)
  | DStream content ok =>
    let got := if bounded then lim_take lim content else content in
    let errseen := negb ok && (negb bounded || (blen content <=? lim)) in
    if errseen then (RStatus cInternal 6, blen got)
    else if blen got >? lim then (RStatus cResourceExhausted 2, blen got)
    else (RMsg got, blen got)
  end.

Definition decompress (dec : Z -> bytes -> dres) (c : config) (p : bytes) : res * Z :=
  if negb (dcKind c =? 0) then
    (* only the built-in gzip decompressor is size-aware (doWithMaxSize) *)
    dec_run ((dcKind c =? 1) && (limit c <? max_i64)) (limit c) (dec (dcKind c) p)
  else if negb (compKind c =? 0) then
    dec_run (limit c <? max_i64) (limit c) (dec (compKind c) p)
  else (RStatus cInternal 6, 0).

Definition have_dec (c : config) : bool := negb (compKind c =? 0) || negb (dcKind c =? 0).

(* everything recvAndDecompress does after parser.recvMsg returned *)
Definition after_parse (dec : Z -> bytes -> dres) (c : config) (p : pres) : res * Z :=
  match p with
  | PErr e => (e, 0)
  | PMsg pf d =>
    match checkRecvPayload pf (enc c) (have_dec c) (isServer c) with
    | Some code => (RStatus code 4, 0)
    | None => if pf =? 1 then decompress dec c d else (RMsg d, 0)
    end
  end.

Definition recvAndDecompress (dec : Z -> bytes -> dres) (c : config) (r : reader)
  : res * Z * reader :=
  let '(p, r') := recvMsg (limit c) r in (after_parse dec c p, r').

(* a receiver calls until the first non-message result (fuel = max number of calls) *)
Fixpoint recv_all (dec : Z -> bytes -> dres) (c : config) (fuel : nat) (r : reader) : list res :=
  match fuel with
  | O => []
  | S f =>
    match recvAndDecompress dec c r with
    | (RMsg m, _, r') => RMsg m :: recv_all dec c f r'
    | (e, _, _) => [e]
    end
  end.

(* ---------------- the specification on the unsegmented byte stream --------------- *)

Record fstate := mkF { f_buf : bytes; f_er : bool; f_pos : Z }.

Definition spec_parse (lim : Z) (s : fstate) : pres * fstate :=
  if f_er s then (PErr REOF, s) else
  let b := f_buf s in
  if blen b <? 5 then (PErr REOF, mkF [] true (f_pos s + blen b)) else
  let pf := nth 0 b 0 in
  let length := be32 (firstn 4 (skipn 1 b)) in
  let rest := skipn 5 b in
  if length >? lim then (PErr (RStatus cResourceExhausted 2), mkF rest false (f_pos s + 5)) else
  if blen rest <? length then (PErr RUnexp, mkF [] true (f_pos s + 5 + blen rest)) else
  (PMsg pf (firstn (Z.to_nat length) rest),
   mkF (skipn (Z.to_nat length) rest) false (f_pos s + 5 + length)).

Definition spec_recv (dec : Z -> bytes -> dres) (c : config) (s : fstate) : res * Z * fstate :=
  let '(p, s') := spec_parse (limit c) s in (after_parse dec c p, s').

Fixpoint spec_all (dec : Z -> bytes -> dres) (c : config) (fuel : nat) (s : fstate) : list res :=
  match fuel with
  | O => []
  | S f =>
    match spec_recv dec c s with
    | (RMsg m, _, s') => RMsg m :: spec_all dec c f s'
    | (e, _, _) => [e]
    end
  end.

(* the sender's frame (msgHeader): flag, big-endian length, payload *)
Definition be32_enc (n : Z) : bytes :=
  [(n / 16777216) mod 256; (n / 65536) mod 256; (n / 256) mod 256; n mod 256].
Definition frame (pf : Z) (payload : bytes) : bytes := pf :: be32_enc (blen payload) ++ payload.

(* ---------------- concrete codecs for the correspondence run --------------------- *)

(* toy run-length codec (kind 2; the driver's counting compressor): payload = pairs
   (count, byte); a first byte 255 is refused when the reader is created; a dangling
   count is an error after the content *)
Fixpoint rle_content (p : bytes) : bytes * bool :=
  match p with
  | [] => ([], true)
  | [_] => ([], false)
  | n :: b :: r' => let '(c, ok) := rle_content r' in (repeat b (Z.to_nat n) ++ c, ok)
  end.
Definition toy_dec (p : bytes) : dres :=
  match p with
  | 255 :: _ => DHdrErr
  | _ => let '(c, ok) := rle_content p in DStream c ok
  end.
Definition toy_comp (x : bytes) : bytes := flat_map (fun b => [1; b]) x.

(* gzip (kind 1) is not modelled: what compress/gzip does with each payload of the case
   is supplied by the driver as oracle entries (payload, result) *)
Fixpoint lookup (p : bytes) (t : list (bytes * dres)) : option dres :=
  match t with
  | [] => None
  | (k, v) :: r => if word_eqb k p then Some v else lookup p r
  end.
Definition dec_of (t : list (bytes * dres)) (missing : dres) (kind : Z) (p : bytes) : dres :=
  if kind =? 2 then toy_dec p
  else match lookup p t with Some d => d | None => missing end.

(* ---------------- cases ----------------
   cfg [limit; isServer; dcKind; compKind; enc] or [...; path] (path 1 = end to end, see parse_path)
   op [1; len; bytes...]   a chunk (DATA frame) is appended to the stream     obs []
   op [2]                  recvAndDecompress       obs [kind; code; len; cksum; pulled; pos]
      kind 0 message, 1 io.EOF, 2 io.ErrUnexpectedEOF (code = toRPCErr's 13), 3 status
   op [3; plen; payload...; hdrok; ok; dlen; content...]   gzip oracle entry  obs []   *)

Definition cksum (b : bytes) : Z := fold_left (fun h x => (h * 31 + x + 1) mod 1000003) b 0.

Definition res_obs (r : res) : word :=
  match r with
  | RMsg out => [0; 0; blen out; cksum out]
  | REOF => [1; 0; 0; 0]
  | RUnexp => [2; cInternal; 0; 0]
  | RStatus code _ => [3; code; 0; 0]
  end.

(* the legacy gzip decompressor returns a plain []byte inside decompress; its length is
   visible only in a delivered message or in the text of the RESOURCE_EXHAUSTED error *)
Definition pulled_obs (c : config) (r : res) (pulled : Z) : Z :=
  match r with
  | RStatus code _ => if (dcKind c =? 1) && (code =? cInternal) then 0 else pulled
  | _ => pulled
  end.

Definition parse_cfg (w : word) : option config :=
  match w with
  | [l; s; d; k; e] =>
    if (0 <=? l) && (l <=? max_i64) && (0 <=? d) && (0 <=? k) && (0 <=? e)
    then Some (mkCfg l (z2b s) d k e) else None
  | [l; s; d; k; e; p] =>
    (* p = 1: end-to-end path (real client transport): client side; d <> 0 there means that
       the channel carries a legacy WithDecompressor whose Type() differs from every response
       encoding: csAttempt.recvMsg must drop it (decompressorV0 = nil) and decode with the
       compressor registered under the response's grpc-encoding, i.e. behave as with d = 0 *)
    if (0 <=? l) && (l <=? max_i64) && (0 <=? d) && (0 <=? k) && (0 <=? e) &&
       ((p =? 0) || ((p =? 1) && (s =? 0)))
    then Some (mkCfg l (z2b s) (if p =? 1 then 0 else d) k e) else None
  | _ => None
  end.

(* cfg[5] = 1: the chunks are DATA frames sent by a raw HTTP/2 peer to a real ClientConn
   and [2] is ClientStream.RecvMsg.  All chunks of the case are on the wire before the
   trailers (they count as already received, wherever their ops stand); the client stops at
   its first non-message result; io.ErrUnexpectedEOF reaches the application as INTERNAL;
   bytes pulled / stream position are not observable (reported as 0). *)
Definition parse_path (w : word) : bool :=
  match w with
  | [_; _; _; _; _; p] => p =? 1
  | _ => false
  end.

Inductive fop := OChunk (b : bytes) | ORecv | OOracle (p : bytes) (d : dres).

Definition parse_op (w : word) : option fop :=
  match w with
  | [2] => Some ORecv
  | 1 :: r => match get_bytes r with Some (b, []) => Some (OChunk b) | _ => None end
  | 3 :: r =>
    match get_bytes r with
    | Some (p, hdrok :: ok :: r') =>
      match get_bytes r' with
      | Some (content, []) => Some (OOracle p (if z2b hdrok then DStream content (z2b ok) else DHdrErr))
      | _ => None
      end
    | _ => None
    end
  | _ => None
  end.

Fixpoint parse_ops (ws : list word) : option (list fop) :=
  match ws with
  | [] => Some []
  | w :: r => match parse_op w, parse_ops r with
              | Some o, Some os => Some (o :: os)
              | _, _ => None
              end
  end.

Fixpoint table_of (ops : list fop) : list (bytes * dres) :=
  match ops with
  | [] => []
  | OOracle p d :: r => (p, d) :: table_of r
  | _ :: r => table_of r
  end.

Definition recv_obs (c : config) (x : res * Z) (pos : Z) : word :=
  res_obs (fst x) ++ [pulled_obs c (fst x) (snd x); pos].

Definition is_msg (r : res) : bool := match r with RMsg _ => true | _ => false end.

Definition res_obs_e (e2e : bool) (r : res) : word :=
  match r with
  | RUnexp => if e2e then [3; cInternal; 0; 0] else res_obs r
  | _ => res_obs r
  end.

Definition recv_obs_e (e2e : bool) (c : config) (x : res * Z) (pos : Z) : word :=
  if e2e then res_obs_e true (fst x) ++ [0; 0] else recv_obs c x pos.

(* the model: chunks are appended to the reader's queue (in-memory path) or are all there
   from the start (end-to-end path, where the receiver also stops at its first error) *)
Fixpoint run_ops (e2e stopped : bool) (dec : Z -> bytes -> dres) (c : config) (r : reader)
         (ops : list fop) : list word :=
  match ops with
  | [] => []
  | OChunk b :: k =>
    [] :: run_ops e2e stopped dec c
            (if e2e then r else mkR (r_chunks r ++ [b]) (r_er r) (r_pos r)) k
  | OOracle _ _ :: k => [] :: run_ops e2e stopped dec c r k
  | ORecv :: k =>
    if e2e && stopped then [] :: run_ops e2e stopped dec c r k
    else
      let '(x, r') := recvAndDecompress dec c r in
      recv_obs_e e2e c x (r_pos r') :: run_ops e2e (negb (is_msg (fst x))) dec c r' k
  end.

(* the specification: the same over the flat byte stream *)
Fixpoint spec_ops (e2e stopped : bool) (dec : Z -> bytes -> dres) (c : config) (s : fstate)
         (ops : list fop) : list (option (res * Z * Z)) :=
  match ops with
  | [] => []
  | OChunk b :: k =>
    None :: spec_ops e2e stopped dec c
              (if e2e then s else mkF (f_buf s ++ b) (f_er s) (f_pos s)) k
  | OOracle _ _ :: k => None :: spec_ops e2e stopped dec c s k
  | ORecv :: k =>
    if e2e && stopped then None :: spec_ops e2e stopped dec c s k
    else
      let '(x, s') := spec_recv dec c s in
      Some (x, f_pos s') :: spec_ops e2e (negb (is_msg (fst x))) dec c s' k
  end.

Fixpoint chunks_of (ops : list fop) : list bytes :=
  match ops with
  | [] => []
  | OChunk b :: k => b :: chunks_of k
  | _ :: k => chunks_of k
  end.

Definition r0 : reader := mkR [] false 0.
Definition s0 : fstate := mkF [] false 0.
Definition r_init (e2e : bool) (os : list fop) : reader :=
  if e2e then mkR (chunks_of os) false 0 else r0.
Definition s_init (e2e : bool) (os : list fop) : fstate :=
  if e2e then mkF (concat (chunks_of os)) false 0 else s0.

(* an oracle entry that is needed but absent (a shrunk op list) makes the two default
   answers differ: such a case is not evaluated (BadCase) *)
Definition run (cfg : word) (ops : list word) : option (list word) :=
  match parse_cfg cfg, parse_ops ops with
  | Some c, Some os =>
    let t := table_of os in
    let e := parse_path cfg in
    let o1 := run_ops e false (dec_of t DHdrErr) c (r_init e os) os in
    let o2 := run_ops e false (dec_of t (DStream [] true)) c (r_init e os) os in
    if words_eqb o1 o2 then Some o1 else None
  | _, _ => None
  end.

(* ---------------- the property on observations ----------------
   clause 1  a message is delivered exactly when the stream holds a complete, acceptable
             frame at the read position, and it is the sent (decompressed) message
   clause 2  declared or decompressed size above the limit: RESOURCE_EXHAUSTED
   clause 3  bytes obtained from a size-aware decompressor <= limit+1
   clause 4  compressed flag with empty/identity encoding or without a decompressor, or an
             unknown flag value: INTERNAL / UNIMPLEMENTED (server), no message
   clause 5  (refuted, known-finding class) bytes obtained from a third-party legacy
             Decompressor <= limit+1
   clause 6  truncated stream / end of stream / decompressor failure: error, no message *)
Definition clause_id (r : res) : Z :=
  match r with
  | RMsg _ => 1
  | RStatus _ why => why
  | _ => 6
  end.

Definition bounded_path (c : config) : bool :=
  (dcKind c =? 1) || ((dcKind c =? 0) && negb (compKind c =? 0)).

Definition mat_clause (c : config) (i pulled : Z) : list (Z * Z * bool) :=
  if limit c <? max_i64 then
    if bounded_path c then [(3, i, pulled <=? limit c + 1)]
    else if 2 <=? dcKind c then [(5, i, pulled <=? limit c + 1)] else []
  else [].

Fixpoint clauses_from (e2e : bool) (c : config) (i : Z) (sp : list (option (res * Z * Z)))
         (obs : list word) : list (Z * Z * bool) :=
  match sp, obs with
  | [], [] => []
  | None :: sp', o :: obs' =>
    (* nothing is observed at a chunk/oracle op; on the end-to-end path also at a RecvMsg
       after the first non-message result (a result there would be a delivery after an error) *)
    ((if e2e then 6 else 0), i, word_eqb o []) :: clauses_from e2e c (i + 1) sp' obs'
  | Some (r, _, _) :: sp', o :: obs' =>
    match o with
    | [k; code; len; ck; pulled; pos] =>
      (clause_id r, i, word_eqb [k; code; len; ck] (res_obs_e e2e r)) :: mat_clause c i pulled
    | _ => [(0, i, false)]
    end ++ clauses_from e2e c (i + 1) sp' obs'
  | _, _ => [(0, i, false)]
  end.

Definition oracle_ok (e : bool) (c : config) (os : list fop) : bool :=
  let t := table_of os in
  words_eqb (run_ops e false (dec_of t DHdrErr) c (r_init e os) os)
            (run_ops e false (dec_of t (DStream [] true)) c (r_init e os) os).

Definition clauses (cfg : word) (ops obs : list word) : list (Z * Z * bool) :=
  match parse_cfg cfg, parse_ops ops with
  | Some c, Some os =>
    let e := parse_path cfg in
    if oracle_ok e c os
    then clauses_from e c 0 (spec_ops e false (dec_of (table_of os) DHdrErr) c (s_init e os) os) obs
    else []
  | _, _ => []
  end.

(* well-formed case: decodes, and every gzip payload that is decompressed has its oracle *)
Definition wf (cfg : word) (ops : list word) : bool :=
  match parse_cfg cfg, parse_ops ops with
  | Some c, Some os => oracle_ok (parse_path cfg) c os
  | _, _ => false
  end.

Definition is_finding_clause (c : Z * Z * bool) : bool := fst (fst c) =? 5.
Definition holds_b (cfg : word) (ops obs : list word) : bool :=
  forallb (fun c => is_finding_clause c || snd c) (clauses cfg ops obs).

(* the refuted clause is evaluated last and only when everything else is in order *)
Definition check_case (c : case) : verdict :=
  let cl := clauses (c_cfg c) (c_ops c) (c_obs c) in
  let m := run (c_cfg c) (c_ops c) in
  match decide m (c_obs c) (filter (fun x => negb (is_finding_clause x)) cl) with
  | Agree => decide m (c_obs c) (filter is_finding_clause cl)
  | v => v
  end.
