(* C33: graceful switch of LB policies.
   Transcribes internal/balancer/gracefulswitch/gracefulswitch.go:
   Balancer.{swap, switchTo, latestBalancer, UpdateClientConnState, ResolverError,
   ExitIdle, updateSubConnState, Close} and balancerWrapper.{Close, UpdateState,
   NewSubConn, ResolveNow, RemoveSubConn, UpdateAddresses}, together with the
   driver's environment (stub child policies, recording ClientConn).
   Child policies and sub-channels are numbered in creation order.
   The goroutine started by swap() (cur.Close()) is run at the end of the
   operation that swapped (the driver waits for it with synctest.Wait()), or, for
   operation 12, inside the channel's NewSubConn (newsc_during).
   No proofs here. *)
From Coq Require Import List ZArith Bool Arith.
From VLib Require Import Codec.
Import ListNotations.
Open Scope Z_scope.

Definition IDLE : Z := 0.
Definition CONNECTING : Z := 1.
Definition READY : Z := 2.
Definition TF : Z := 3.
Definition SHUTDOWN : Z := 4.

(* one balancerWrapper + the stub policy behind it *)
Record kid := mkkid {
  k_last : Z;            (* bw.lastState.ConnectivityState *)
  k_rep : bool;          (* bw.lastState.Picker is the policy's own (it has reported); otherwise
                            it is the initial ErrPicker(ErrNoSubConnAvailable) *)
  k_subs : list nat;     (* bw.subconns, increasing *)
  k_b : Z;               (* builder *)
  k_noisy : bool;        (* stub: talks while being closed *)
  k_closed : bool        (* stub: Balancer.Close() was called *)
}.

Record st := mkst {
  kids : nat -> kid;           (* policy number -> wrapper (total map; only numbers < nk are meaningful) *)
  nk : nat;                    (* number of policies built so far *)
  cur : option nat;            (* gsb.balancerCurrent *)
  pend : option nat;           (* gsb.balancerPending *)
  closed : bool;               (* gsb.closed *)
  scs : nat -> nat * bool;     (* recording channel: per sub-channel (creating policy, Shutdown called) *)
  nsc : nat;                   (* number of sub-channels created so far *)
  chan : option (Z * Z);       (* ghost: last state the channel received: (state, picker's policy) *)
  toclose : option nat         (* wrapper handed to the goroutine of swap() *)
}.

Definition dummy_kid : kid := mkkid CONNECTING false [] 0 false false.
Definition init : st := mkst (fun _ => dummy_kid) O None None false (fun _ => (O, false)) O None None.
Definition getkid (s : st) (id : nat) : kid := kids s id.

Definition fupd {A} (f : nat -> A) (n : nat) (g : A -> A) : nat -> A :=
  fun x => if Nat.eqb x n then g (f x) else f x.

Definition set_kids (s : st) (k : nat -> kid) (n : nat) : st :=
  mkst k n (cur s) (pend s) (closed s) (scs s) (nsc s) (chan s) (toclose s).
Definition set_scs (s : st) (l : nat -> nat * bool) (n : nat) : st :=
  mkst (kids s) (nk s) (cur s) (pend s) (closed s) l n (chan s) (toclose s).
Definition set_chan (s : st) (c : option (Z * Z)) : st :=
  mkst (kids s) (nk s) (cur s) (pend s) (closed s) (scs s) (nsc s) c (toclose s).
Definition set_toclose (s : st) (c : option nat) : st :=
  mkst (kids s) (nk s) (cur s) (pend s) (closed s) (scs s) (nsc s) (chan s) c.
Definition set_cp (s : st) (c p : option nat) : st :=
  mkst (kids s) (nk s) c p (closed s) (scs s) (nsc s) (chan s) (toclose s).
Definition set_closed (s : st) : st :=
  mkst (kids s) (nk s) (cur s) (pend s) true (scs s) (nsc s) (chan s) (toclose s).

Definition upd_kid (s : st) (id : nat) (f : kid -> kid) : st := set_kids s (fupd (kids s) id f) (nk s).
Definition k_set_last (v : Z) (k : kid) := mkkid v true (k_subs k) (k_b k) (k_noisy k) (k_closed k).
Definition k_set_subs (l : list nat) (k : kid) := mkkid (k_last k) (k_rep k) l (k_b k) (k_noisy k) (k_closed k).
Definition k_set_closed (k : kid) := mkkid (k_last k) (k_rep k) (k_subs k) (k_b k) (k_noisy k) true.
(* which policy's picker bw.lastState carries; -1 = the wrapper's initial error picker *)
Definition pick_of (id : nat) (k : kid) : Z := if k_rep k then Z.of_nat id else -1.
Definition mem (x : nat) (l : list nat) : bool := existsb (Nat.eqb x) l.

Definition oeq (o : option nat) (id : nat) : bool :=
  match o with Some c => Nat.eqb c id | None => false end.
(* balancerCurrentOrPending *)
Definition live (s : st) (id : nat) : bool := oeq (cur s) id || oeq (pend s) id.
Definition last_of (s : st) (o : option nat) : Z :=
  match o with Some c => k_last (getkid s c) | None => CONNECTING end.
(* latestBalancer *)
Definition latest (s : st) : option nat :=
  match pend s with Some p => Some p | None => cur s end.

(* ---- events *)
Definition zn (n : nat) : Z := Z.of_nat n.
Definition evU (s id : Z) : word := [1; s; id].
Definition evN (sc : nat) : word := [2; zn sc].
Definition evC (id : nat) : word := [3; zn id].
Definition evB (id : nat) (b : Z) : word := [4; zn id; b].
Definition evD (id sc : nat) (s : Z) : word := [5; zn id; zn sc; s].
Definition evS (sc : nat) : word := [14; zn sc].

(* gsb.swap(): forward the pending policy's cached state, promote it, close the
   old current one asynchronously *)
Definition swap (s : st) : st * list word :=
  match pend s with
  | Some p =>
    let v := k_last (getkid s p) in
    let pk := pick_of p (getkid s p) in
    (set_toclose (set_chan (set_cp s (Some p) None) (Some (v, pk))) (cur s), [evU v pk])
  | None => (s, [])
  end.

(* balancerWrapper.UpdateState called by policy id *)
Definition child_update (s : st) (id : nat) (v : Z) : st * list word :=
  let s1 := upd_kid s id (k_set_last v) in
  if negb (live s1 id) then (s1, [])
  else if oeq (cur s1) id then
    match pend s1 with
    | Some _ => if negb (v =? READY) then swap s1 else (set_chan s1 (Some (v, zn id)), [evU v (zn id)])
    | None => (set_chan s1 (Some (v, zn id)), [evU v (zn id)])
    end
  else if negb (v =? CONNECTING) || negb (last_of s1 (cur s1) =? READY) then swap s1
  else (s1, []).

(* balancerWrapper.NewSubConn called by policy id; the created sub-channel or None *)
Definition child_newsc (s : st) (id : nat) : st * list word * option nat :=
  if negb (live s id) then (s, [], None)
  else
    let sc := nsc s in
    let s1 := set_scs s (fupd (scs s) sc (fun _ => (id, false))) (S sc) in
    (upd_kid s1 id (fun k => k_set_subs (k_subs k ++ [sc]) k), [evN sc], Some sc).

Definition mark_shut (l : list nat) (s : st) : st :=
  set_scs s (fun x => if mem x l then (fst (scs s x), true) else scs s x) (nsc s).

(* balancerWrapper.Close: the stub's Close (a noisy stub first calls NewSubConn
   and UpdateState(READY)), then Shutdown of every sub-channel in bw.subconns *)
Definition close_child (s : st) (id : nat) : st * list word :=
  let '(s1, e1) :=
    if k_noisy (getkid s id) then
      let '(sa, ea, _) := child_newsc s id in
      let '(sb, eb) := child_update sa id READY in (sb, ea ++ eb)
    else (s, []) in
  let s2 := upd_kid s1 id k_set_closed in
  let subs := k_subs (getkid s2 id) in
  (mark_shut subs s2, e1 ++ [evC id] ++ map evS subs).

Definition close_opt (s : st) (o : option nat) : st * list word :=
  match o with Some id => close_child s id | None => (s, []) end.

(* stub builder behaviour from cfg *)
Definition cfg_inl (cfg : word) (b : Z) : Z := nth (Z.to_nat (2 * b)) cfg (-1).
Definition cfg_noisy (cfg : word) (b : Z) : bool := nth (Z.to_nat (2 * b + 1)) cfg 0 =? 1.
Definition inl_newsc (i : Z) : bool := (4 <=? i) && (i <=? 8).
Definition inl_state (i : Z) : option Z :=
  if (0 <=? i) && (i <=? 3) then Some i
  else if (4 <=? i) && (i <=? 7) then Some (i - 4) else None.

(* gsb.switchTo (builder b in 0..2); None = errBalancerClosed *)
Definition switch_to (cfg : word) (s : st) (b : Z) : st * list word * option nat :=
  if closed s then (s, [], None)
  else
    let id := nk s in
    let s1 := set_kids s (fupd (kids s) id (fun _ => mkkid CONNECTING false [] b (cfg_noisy cfg b) false)) (S id) in
    let bal_to_close := pend s1 in
    let s2 := match cur s1 with
              | None => set_cp s1 (Some id) (pend s1)
              | Some _ => set_cp s1 (cur s1) (Some id)
              end in
    let '(s3, e1) := close_opt s2 bal_to_close in
    (* builder.Build *)
    let i := cfg_inl cfg b in
    let '(s4, e2) := if inl_newsc i then let '(sa, ea, _) := child_newsc s3 id in (sa, ea) else (s3, []) in
    let '(s5, e3) := match inl_state i with
                     | Some v => child_update s4 id v
                     | None => (s4, [])
                     end in
    (s5, e1 ++ [evB id b] ++ e2 ++ e3, Some id).

Definition arg (op : word) (i : nat) : Z := nth i op (-1).
Definition valid_b (b : Z) : bool := (0 <=? b) && (b <? 3).
(* an existing policy / sub-channel number *)
Definition kid_of (s : st) (z : Z) : option nat :=
  if (0 <=? z) && (z <? zn (nk s)) then Some (Z.to_nat z) else None.
Definition sc_of (s : st) (z : Z) : option nat :=
  if (0 <=? z) && (z <? zn (nsc s)) then Some (Z.to_nat z) else None.
Definition sc_owner (s : st) (sc : nat) : nat := fst (scs s sc).
Definition sc_shut (s : st) (sc : nat) : bool := snd (scs s sc).
Definition remove_nat (x : nat) (l : list nat) : list nat := filter (fun y => negb (Nat.eqb x y)) l.

(* gsb.updateSubConnState: which wrapper owns sc *)
Definition bal_to_update (s : st) (sc : nat) : option nat :=
  match cur s with
  | Some c => if mem sc (k_subs (getkid s c)) then Some c else
              match pend s with
              | Some p => if mem sc (k_subs (getkid s p)) then Some p else None
              | None => None
              end
  | None => match pend s with
            | Some p => if mem sc (k_subs (getkid s p)) then Some p else None
            | None => None
            end
  end.

(* the goroutine of swap(): cur.Close() *)
Definition finish (s : st) : st * list word :=
  close_opt (set_toclose s None) (toclose s).

(* balancerWrapper.NewSubConn called by policy id while, inside the channel's NewSubConn
   (gsb.mu is not held there), policy j reports state v and the resulting swap - including
   the asynchronous Close of the old wrapper - completes before the channel returns.
   Afterwards NewSubConn re-checks balancerCurrentOrPending: a wrapper that was closed
   during the call shuts the new sub-channel down and returns an error.
   (The sub-channel exists in the channel while j reports; nothing j's report can do
   touches it, so the model creates it after the report; its number is the same.) *)
Definition newsc_during (s : st) (id j : nat) (v : Z) : st * list word :=
  if negb (live s id) then (s, [[11; 0; -1]])
  else
    let '(s1, e1) := child_update s j v in
    let '(s2, e2) := finish s1 in
    let sc := nsc s2 in
    if live s2 id then
      let '(s3, e3, _) := child_newsc s2 id in
      (s3, e3 ++ e1 ++ e2 ++ [[11; 1; zn sc]])
    else
      (set_scs s2 (fupd (scs s2) sc (fun _ => (id, true))) (S sc),
       [evN sc] ++ e1 ++ e2 ++ [evS sc; [11; 0; -1]]).

(* synchronous part of one operation *)
Definition step_main (cfg : word) (s : st) (op : word) : st * list word :=
  let a1 := arg op 1 in let a2 := arg op 2 in
  match arg op 0 with
  | 1 => if valid_b a1 then
           let '(s1, e, r) := switch_to cfg s a1 in
           (s1, e ++ [[12; match r with Some _ => 0 | None => 1 end]])
         else (s, [])
  | 2 => match kid_of s a1 with
         | Some id => if (0 <=? a2) && (a2 <=? 3) then child_update s id a2 else (s, [])
         | None => (s, [])
         end
  | 3 => match kid_of s a1 with
         | Some id => let '(s1, e, r) := child_newsc s id in
                      (s1, e ++ [match r with Some sc => [11; 1; zn sc] | None => [11; 0; -1] end])
         | None => (s, [])
         end
  | 4 => match sc_of s a1 with
         | Some sc =>
           if (0 <=? a2) && (a2 <=? 4) && (negb (a2 =? SHUTDOWN) || sc_shut s sc) then
             match bal_to_update s sc with
             | Some id =>
               let s1 := if a2 =? SHUTDOWN
                         then upd_kid s id (fun k => k_set_subs (remove_nat sc (k_subs k)) k) else s in
               (s1, [evD (sc_owner s sc) sc a2])
             | None => (s, [])
             end
           else (s, [])
         | None => (s, [])
         end
  | 5 => let s1 := set_cp (set_closed s) None None in
         let '(s2, e1) := close_opt s1 (cur s) in
         let '(s3, e2) := close_opt s2 (pend s) in
         (s3, e1 ++ e2)
  | 6 => if valid_b a1 then
           let keep := match latest s with
                       | Some l => k_b (getkid s l) =? a1
                       | None => false
                       end in
           if keep then (s, [[6; zn (match latest s with Some l => l | None => O end)]; [13; 0]])
           else
             let '(s1, e, r) := switch_to cfg s a1 in
             match r with
             | Some id => (s1, e ++ [[6; zn id]; [13; 0]])
             | None => (s1, e ++ [[13; 1]])
             end
         else (s, [])
  | 7 => match kid_of s a1, sc_of s a2 with
         | Some _, Some sc => (mark_shut [sc] s, [evS sc])
         | _, _ => (s, [])
         end
  | 8 => match latest s with
         | Some l => (s, [[7; zn l]])
         | None => (set_chan s (Some (TF, -1)), [evU TF (-1)])
         end
  | 9 => match latest s with
         | Some l => (s, [[8; zn l]])
         | None => (s, [])
         end
  | 10 => match kid_of s a1 with
          | Some id => if oeq (latest s) id then (s, [[9]]) else (s, [])
          | None => (s, [])
          end
  | 11 => match kid_of s a1, sc_of s a2 with
          | Some id, Some sc => if live s id then (s, [[10; zn sc]]) else (s, [])
          | _, _ => (s, [])
          end
  | 12 => match kid_of s a1, kid_of s a2 with
          | Some id, Some j => if (0 <=? arg op 3) && (arg op 3 <=? 3) then newsc_during s id j (arg op 3) else (s, [])
          | _, _ => (s, [])
          end
  | _ => (s, [])
  end.

Definition step (cfg : word) (s : st) (op : word) : st * list word :=
  let '(s1, e1) := step_main cfg s op in
  let '(s2, e2) := finish s1 in
  (s2, e1 ++ e2 ++ [[0]]).

Fixpoint run_from (cfg : word) (s : st) (ops : list word) : st * list word :=
  match ops with
  | [] => (s, [])
  | op :: r => let '(s1, e) := step cfg s op in
               let '(s2, e') := run_from cfg s1 r in (s2, e ++ e')
  end.

(* op [13; id; j; v]: policy id reports READY and, while the channel is still inside the
   UpdateState call that forwards it, policy j (another one) reports v from a second goroutine.
   gsb.mu is held across the forward, so the second report waits for it: the operation is the
   sequence of the two reports, and the driver records it as two chunks. *)
Definition expand_op (op : word) : list word :=
  match op with
  | [13; id; j; v] =>
    if negb (id =? j) && (0 <=? v) && (v <=? 3) then [[2; id; 2]; [2; j; v]] else [op]
  | _ => [op]
  end.
Definition expand (ops : list word) : list word := flat_map expand_op ops.

Definition run (cfg : word) (ops : list word) : option (list word) :=
  Some (snd (run_from cfg init (expand ops))).

(* ================= the property as a predicate on observations ================= *)

(* "the old policy is READY and the new one is CONNECTING" *)
Definition hold (lc lp : Z) : bool := (lc =? READY) && (lp =? CONNECTING).

(* what a report v of policy id must make the channel see, and which policy must
   be closed, according to the property *)
Definition spec_report (s : st) (id : nat) (v : Z) : list (Z * Z) * list nat :=
  let lastv (x : nat) := if Nat.eqb x id then v else k_last (getkid s x) in
  let pickv (x : nat) := if Nat.eqb x id then zn x else pick_of x (getkid s x) in
  if negb (live s id) then ([], [])
  else match cur s, pend s with
       | Some c, Some p =>
         if hold (lastv c) (lastv p) then ((if Nat.eqb c id then [(v, zn id)] else []), [])
         else ([(lastv p, pickv p)], [c])
       | _, _ => ([(v, zn id)], [])
       end.

Definition olist (o : option nat) : list nat := match o with Some x => [x] | None => [] end.

(* switching to builder b *)
Definition spec_switch (cfg : word) (s : st) (b : Z) : list (Z * Z) * list nat :=
  if closed s then ([], [])
  else
    let id := nk s in
    match cur s with
    | None => (match inl_state (cfg_inl cfg b) with Some v => [(v, zn id)] | None => [] end, [])
    | Some c =>
      match inl_state (cfg_inl cfg b) with
      | Some v => if hold (k_last (getkid s c)) v then ([], olist (pend s))
                  else ([(v, zn id)], olist (pend s) ++ [c])
      | None => ([], olist (pend s))
      end
    end.

(* expected (UpdateState events, closed policies) of an operation *)
Definition expected (cfg : word) (s : st) (op : word) : list (Z * Z) * list nat :=
  let a1 := arg op 1 in let a2 := arg op 2 in
  match arg op 0 with
  | 1 => if valid_b a1 then spec_switch cfg s a1 else ([], [])
  | 2 => match kid_of s a1 with
         | Some id => if (0 <=? a2) && (a2 <=? 3) then spec_report s id a2 else ([], [])
         | None => ([], [])
         end
  | 5 => ([], olist (cur s) ++ olist (pend s))
  | 6 => if valid_b a1 then
           match latest s with
           | Some l => if k_b (getkid s l) =? a1 then ([], []) else spec_switch cfg s a1
           | None => spec_switch cfg s a1
           end
         else ([], [])
  | 8 => match latest s with Some _ => ([], []) | None => ([(TF, -1)], []) end
  | 12 => match kid_of s a1, kid_of s a2 with
          | Some id, Some j =>
            if (0 <=? arg op 3) && (arg op 3 <=? 3) && live s id then spec_report s j (arg op 3) else ([], [])
          | _, _ => ([], [])
          end
  | _ => ([], [])
  end.

(* the acting policy of an operation issued by a child policy *)
Definition actor (s : st) (op : word) : option nat :=
  match arg op 0 with
  | 2 | 3 | 10 | 11 | 12 => kid_of s (arg op 1)
  | _ => None
  end.

Fixpoint u_events (l : list word) : list (Z * Z) :=
  match l with
  | [] => []
  | [1; v; id] :: r => (v, id) :: u_events r
  | _ :: r => u_events r
  end.
Fixpoint c_events (l : list word) : list Z :=
  match l with
  | [] => []
  | [3; id] :: r => id :: c_events r
  | _ :: r => c_events r
  end.
(* anything that reached the channel: UpdateState, NewSubConn, ResolveNow, UpdateAddresses *)
Definition chan_event (w : word) : bool :=
  match w with
  | 1 :: _ | 2 :: _ | 9 :: _ | 10 :: _ => true
  | _ => false
  end.
Definition has_shutdown (l : list word) (sc : nat) : bool := existsb (word_eqb (evS sc)) l.
(* sub-channels the channel created in this chunk *)
Definition n_events (l : list word) : list Z :=
  flat_map (fun w => match w with [2; sc] => [sc] | _ => [] end) l.
Definition has_shutdown_z (l : list word) (sc : Z) : bool := existsb (word_eqb [14; sc]) l.
(* a policy closed during its own operation: the sub-channels created for it in this very
   operation (NewSubConn in flight while it was swapped out) have been shut down too *)
Definition inflight_ok (s : st) (op : word) (chunk : list word) : bool :=
  match actor s op with
  | Some id => negb (existsb (Z.eqb (zn id)) (c_events chunk)) ||
               forallb (has_shutdown_z chunk) (n_events chunk)
  | None => true
  end.

Fixpoint pairs_eqb (a b : list (Z * Z)) : bool :=
  match a, b with
  | [], [] => true
  | (x, y) :: a', (x', y') :: b' => (x =? x') && (y =? y') && pairs_eqb a' b'
  | _, _ => false
  end.

(* every sub-channel created by policy id has received Shutdown (before, or in this chunk) *)
Definition shut_ok (s : st) (chunk : list word) (id : Z) : bool :=
  forallb (fun sc => negb (Nat.eqb (sc_owner s sc) (Z.to_nat id)) || sc_shut s sc || has_shutdown chunk sc)
          (seq O (nsc s)).

(* clause 3: nothing from a closed/superseded policy reaches the channel
   clause 1: the states reaching the channel are exactly those the property prescribes
             (old picker kept during the graceful period, pending's state at the swap)
   clause 2: policies are closed exactly when prescribed (swap, superseded pending, Close)
   clause 4: a closed policy's sub-channels have all been shut down *)
Definition clause_op (cfg : word) (s : st) (op : word) (chunk : list word) (i : Z) : list (Z * Z * bool) :=
  let ex := expected cfg s op in
  [ (3, i, match actor s op with
           | Some id => live s id || negb (existsb chan_event chunk)
           | None => true
           end);
    (1, i, pairs_eqb (u_events chunk) (fst ex));
    (2, i, word_eqb (c_events chunk) (map zn (snd ex)));
    (4, i, forallb (shut_ok s chunk) (c_events chunk) && inflight_ok s op chunk) ].

(* events of one operation: up to and including the [0] marker *)
Fixpoint split_chunk (obs : list word) : option (list word * list word) :=
  match obs with
  | [] => None
  | [0] :: r => Some ([], r)
  | w :: r => match split_chunk r with
              | Some (a, b) => Some (w :: a, b)
              | None => None
              end
  end.

Fixpoint clauses_from (cfg : word) (s : st) (ops obs : list word) (i : Z) : list (Z * Z * bool) :=
  match ops with
  | [] => match obs with [] => [] | _ => [(0, i, false)] end
  | op :: r =>
    match split_chunk obs with
    | None => [(0, i, false)]
    | Some (chunk, rest) =>
      clause_op cfg s op chunk i ++ clauses_from cfg (fst (step cfg s op)) r rest (i + 1)
    end
  end.

Definition clauses (cfg : word) (ops obs : list word) : list (Z * Z * bool) :=
  clauses_from cfg init (expand ops) obs 0.

Definition holds_b (cfg : word) (ops obs : list word) : bool :=
  forallb (fun c => snd c) (clauses cfg ops obs).

Definition check_case (c : case) : verdict :=
  decide (run (c_cfg c) (c_ops c)) (c_obs c) (clauses (c_cfg c) (c_ops c) (c_obs c)).
