(* C20: connection backoff (engine Backoff).
   Transcribes internal/backoff/backoff.go Exponential.Backoff (as of the fix: commit
   b524c04, i.e. with the saturating float64 -> int64 conversion) in Coq primitive
   floats (binary64, bit-exact with Go float64 on amd64 under vm_compute), and the
   backoff index pacing of clientconn.go addrConn.resetTransportAndUnlock /
   resetConnectBackoff as a small timed state machine.  No proofs here.

   Floats travel inside words as their 64 IEEE-754 bits (Go: int64(math.Float64bits(f))). *)
From Coq Require Import List ZArith Bool Floats Uint63.
From VLib Require Import Codec Machine.
Import ListNotations.
Open Scope Z_scope.

(* ---------- float <-> word conversions ---------- *)

(* math.Float64frombits(uint64(z)) *)
Definition sf_of_bits (z : Z) : spec_float :=
  let u := z mod 2^64 in
  let s := 2^63 <=? u in
  let e := (u / 2^52) mod 2048 in
  let m := u mod 2^52 in
  if e =? 0 then
    match m with Zpos p => S754_finite s p (-1074) | _ => S754_zero s end
  else if e =? 2047 then
    (if m =? 0 then S754_infinity s else S754_nan)
  else
    match m + 2^52 with Zpos p => S754_finite s p (e - 1075) | _ => S754_nan end.
Definition of_bits (z : Z) : float := SF2Prim (sf_of_bits z).

Definition two63 : float := 0x1p63%float.

(* float64(int64 z): nearest-even rounding of the integer *)
Definition of_i64 (z : Z) : float :=
  if z <? 0 then
    (if z <=? min_i64 then PrimFloat.opp two63
     else PrimFloat.opp (of_uint63 (Uint63.of_Z (- z))))
  else of_uint63 (Uint63.of_Z z).

(* integer part of a finite float, as Z (truncation toward zero) *)
Definition sf_trunc (x : spec_float) : option Z :=
  match x with
  | S754_zero _ => Some 0
  | S754_finite s m e =>
    let v := if 0 <=? e then Zpos m * 2^e else Zpos m / 2^(- e) in
    Some (if s then - v else v)
  | _ => None
  end.

(* int64(f) as compiled for amd64 (CVTTSD2SQ): NaN and out-of-range values give the
   "integer indefinite" value -2^63.  Go leaves these cases implementation-defined. *)
Definition to_i64 (f : float) : Z :=
  match sf_trunc (Prim2SF f) with
  | Some v => if in_i64 v then v else min_i64
  | None => min_i64
  end.

(* ---------- Exponential.Backoff ---------- *)

Record config := mkcfg { base : Z; mult : float; jit : float; maxd : Z }.

(* for backoff < max && retries > 0 { backoff *= Multiplier; retries-- } *)
Fixpoint loop (n : nat) (b mx m : float) : float :=
  match n with
  | O => b
  | S n' => if PrimFloat.ltb b mx then loop n' (b * m)%float mx m else b
  end.

(* the value after the loop and after [if backoff > max { backoff = max }] *)
Definition capped (c : config) (n : nat) : float :=
  let mx := of_i64 (maxd c) in
  let b := loop n (of_i64 (base c)) mx (mult c) in
  if PrimFloat.ltb mx b then mx else b.

(* 1 + Jitter*(r*2-1), r the value of rand.Float64() *)
Definition factor (j r : float) : float := (1 + j * (r * 2 - 1))%float.

(* the tail of Backoff: clamp below at 0, saturate at MaxInt64, convert *)
Definition conv (b : float) : Z :=
  if PrimFloat.ltb b 0%float then 0
  else if PrimFloat.leb two63 b then max_i64
  else to_i64 b.

Definition backoff (c : config) (retries : Z) (r : float) : Z :=
  if retries =? 0 then base c
  else conv (capped c (Z.to_nat retries) * factor (jit c) r)%float.

(* rand.Float64() returns k / 2^53 for 0 <= k < 2^53 *)
Definition rmax : float := 0x1.fffffffffffffp-1%float.
Definition r_of_k (k : Z) : float := Z.ldexp (of_uint63 (Uint63.of_Z k)) (-53).

(* the envelope of the results over all draws: the result is monotone in r, so it lies
   between the results for r = 0 and r = 1 - 2^-53 (Backoff_proofs: envelope_complete) *)
Definition env_lo (c : config) (n : Z) : Z := Z.min (backoff c n 0%float) (backoff c n rmax).
Definition env_hi (c : config) (n : Z) : Z := Z.max (backoff c n 0%float) (backoff c n rmax).

(* documented interval for n >= 1, Multiplier >= 1, 0 <= Jitter <= 1:
   [(1-j) , (1+j)] x min(base x mult^n, max), every operation in float64 *)
Definition int_lo (c : config) (n : Z) : Z :=
  conv (capped c (Z.to_nat n) * (1 - jit c))%float.
Definition int_hi (c : config) (n : Z) : Z :=
  conv (capped c (Z.to_nat n) * (1 + jit c))%float.
Definition interval_dom (c : config) (n : Z) : bool :=
  (1 <=? n) && PrimFloat.leb 1%float (mult c) && PrimFloat.leb 0%float (jit c) &&
  PrimFloat.leb (jit c) 1%float && (0 <=? base c) && (0 <=? maxd c).

Definition is_nan_b (f : float) : bool := negb (PrimFloat.eqb f f).
Definition finite_b (f : float) : bool :=
  PrimFloat.ltb neg_infinity f && PrimFloat.ltb f infinity.

(* ---------- addrConn backoff pacing ----------
   One subchannel (pick_first, one address).  Virtual time in ns.
   PIdle            : no transport, nothing scheduled (IDLE; waits for Connect)
   PConnecting T B  : a connection attempt is in flight and will fail at T (a slowly
                      failing dial); B = backoffFor computed when the attempt started
   PBackoff T       : the last attempt failed; TRANSIENT_FAILURE, backoff timer fires at T
   PReady           : connected
   fdelay : how long a failing dial takes (0 = fails at once); sticky : the channel has
   reported TRANSIENT_FAILURE since it was last READY (pick_first keeps reporting it while
   the sub-channel reconnects)                                                          *)
Inductive phase := PIdle | PConnecting (t b : Z) | PBackoff (t : Z) | PReady.
Record pstate := mkp { now : Z; okmode : bool; idx : Z; ph : phase; fdelay : Z; sticky : bool }.

Definition pinit : pstate := mkp 0 false 0 PIdle 0 false.

(* the deterministic strategy used for pacing (Jitter = 0: the factor is exactly 1) *)
Definition bo (c : config) (i : Z) : Z := backoff c i 0%float.

(* MinConnectTimeout of the driver's ClientConn; the dial context expires after
   max(MinConnectTimeout, backoffFor) *)
Definition mct : Z := 1000000000.
Definition fail_after (c : config) (i h : Z) : Z := Z.min h (Z.max mct (bo c i)).

(* resetTransportAndUnlock at time [now s]: backoffFor := Backoff(backoffIdx); the dial
   either succeeds (backoffIdx = 0, READY), fails at once (TRANSIENT_FAILURE, timer
   backoffFor), or fails after fail_after (then TRANSIENT_FAILURE, timer backoffFor) *)
Definition dial (c : config) (s : pstate) : pstate :=
  if okmode s then mkp (now s) (okmode s) 0 PReady (fdelay s) false
  else if fdelay s <=? 0 then
    mkp (now s) (okmode s) (idx s) (PBackoff (now s + bo c (idx s))) (fdelay s) true
  else
    mkp (now s) (okmode s) (idx s)
        (PConnecting (now s + fail_after c (idx s) (fdelay s)) (bo c (idx s))) (fdelay s) (sticky s).

(* time passes until [target]; a slow dial fails (timer armed from the moment of the
   failure); each expiring timer does backoffIdx++, IDLE, and pick_first immediately
   reconnects.  Returns the dial times. *)
Fixpoint advance (fuel : nat) (c : config) (target : Z) (s : pstate) : option (pstate * list Z) :=
  match ph s with
  | PBackoff t =>
    if t <=? target then
      match fuel with
      | O => None
      | S f =>
        let s1 := dial c (mkp t (okmode s) (idx s + 1) PIdle (fdelay s) (sticky s)) in
        match advance f c target s1 with
        | Some (s2, ds) => Some (s2, t :: ds)
        | None => None
        end
      end
    else Some (mkp target (okmode s) (idx s) (ph s) (fdelay s) (sticky s), [])
  | PConnecting t b =>
    if t <=? target then
      match fuel with
      | O => None
      | S f => advance f c target (mkp t (okmode s) (idx s) (PBackoff (t + b)) (fdelay s) true)
      end
    else Some (mkp target (okmode s) (idx s) (ph s) (fdelay s) (sticky s), [])
  | _ => Some (mkp target (okmode s) (idx s) (ph s) (fdelay s) (sticky s), [])
  end.

Definition state_code (s : pstate) : Z :=
  match ph s with
  | PIdle => 0
  | PConnecting _ _ => if sticky s then 3 else 1
  | PBackoff _ => 3
  | PReady => 2
  end.

Definition adv_fuel : nat := 200.

(* configurations for which the pacing ops are executed (driver and model agree):
   Jitter = +0, Multiplier >= 1 finite, 1ms <= base, base <= max, both below 2^53 *)
Definition pacing_ok (c : config) : bool :=
  (1000000 <=? base c) && (base c <=? maxd c) && (maxd c <? 2^53) &&
  PrimFloat.leb 1%float (mult c) && PrimFloat.ltb (mult c) infinity &&
  match Prim2SF (jit c) with S754_zero false => true | _ => false end.

(* pacing ops:  [2; m] dial outcome mode   [3; dt] let dt ns pass   [4] ResetConnectBackoff
                [5] drop the connection    [6] cc.Connect()
                [7; h] from now on a failing dial takes h ns to fail (TCP accepted, no
                       server preface; bounded by the connect deadline)
   observation of each: [ndials; t1..tn; connectivity state]
   ResetConnectBackoff while a dial is in flight only zeroes the index (see pstep).    *)
Definition pobs (ds : list Z) (s : pstate) : word := Z.of_nat (length ds) :: ds ++ [state_code s].

Inductive pop := Pmode (m : Z) | Padv (dt : Z) | Preset | Pdrop | Pconnect | Pdelay (h : Z).
Definition pop_of (op : word) : option pop :=
  match op with
  | [2; m] => Some (Pmode m)
  | [3; dt] => Some (Padv dt)
  | [4] => Some Preset
  | [5] => Some Pdrop
  | [6] => Some Pconnect
  | [7; h] => Some (Pdelay h)
  | _ => None
  end.

Definition pstep (c : config) (s : pstate) (op : word) : option (pstate * word) :=
  match pop_of op with
  | Some (Pmode m) =>
    let s' := mkp (now s) (negb (m =? 0)) (idx s) (ph s) (fdelay s) (sticky s) in Some (s', pobs [] s')
  | Some (Padv dt) =>
    if (dt <? 0) || (60 * base c <? dt) then None else
    match advance adv_fuel c (now s + dt) s with
    | Some (s', ds) => Some (s', pobs ds s')
    | None => None
    end
  | Some Preset =>
    match ph s with
    | PBackoff _ =>
      let s' := dial c (mkp (now s) (okmode s) 0 PIdle (fdelay s) (sticky s)) in Some (s', pobs [now s] s')
    | _ =>
      (* also while an attempt is in flight: backoffIdx = 0, but the attempt keeps the
         backoffFor computed at its start and, once it has failed, waits on the NEW
         resetBackoff channel (read after the failure): the reset does not cancel that wait *)
      let s' := mkp (now s) (okmode s) 0 (ph s) (fdelay s) (sticky s) in Some (s', pobs [] s')
    end
  | Some Pdrop =>
    match ph s with
    | PReady => let s' := mkp (now s) (okmode s) (idx s) PIdle (fdelay s) (sticky s) in Some (s', pobs [] s')
    | _ => Some (s, pobs [] s)
    end
  | Some Pconnect =>
    match ph s with
    | PIdle => let s' := dial c s in Some (s', pobs [now s] s')
    | _ => Some (s, pobs [] s)
    end
  | Some (Pdelay h) =>
    if h <? 0 then None else
    let s' := mkp (now s) (okmode s) (idx s) (ph s) h (sticky s) in Some (s', pobs [] s')
  | None => None
  end.

(* ---------- cases ---------- *)

Definition decode_cfg (w : word) : option config :=
  match w with
  | [b; m; j; x] => if in_i64 b && in_i64 x then Some (mkcfg b (of_bits m) (of_bits j) x) else None
  | _ => None
  end.

(* op [1; retries; rbits]: Backoff(retries).  rbits (the IEEE bits of a draw r in [0,1)) is
   used by the model only - the implementation draws from math/rand/v2, which cannot be
   seeded.  obs [d]. *)
Definition pure_op (op : word) : option (Z * Z) :=
  match op with [1; n; rb] => Some (n, rb) | _ => None end.

Fixpoint run_from (c : config) (s : pstate) (ops : list word) : option (list word) :=
  match ops with
  | [] => Some []
  | op :: rest =>
    match pure_op op with
    | Some (n, rb) =>
      match run_from c s rest with
      | Some os => Some ([backoff c n (of_bits rb)] :: os)
      | None => None
      end
    | None =>
      if pacing_ok c then
        match pstep c s op with
        | Some (s', o) =>
          match run_from c s' rest with Some os => Some (o :: os) | None => None end
        | None => None
        end
      else
        match run_from c s rest with Some os => Some ([] :: os) | None => None end
    end
  end.

Definition run (cfg : word) (ops : list word) : option (list word) :=
  match decode_cfg cfg with
  | Some c => run_from c pinit ops
  | None => None
  end.

(* The implementation's draw is not observable.  [resolve] settles the model's
   nondeterministic choice in favour of the implementation's observation whenever that
   observation is inside the model's envelope (otherwise the model's own value stays and
   the comparison reports the disagreement). *)
Fixpoint resolve (c : config) (ops model impl : list word) : list word :=
  match ops, model, impl with
  | op :: ops', m :: model', i :: impl' =>
    (match pure_op op, i with
     | Some (n, _), [d] =>
       if (n =? 0) then m else if (env_lo c n <=? d) && (d <=? env_hi c n) then i else m
     | _, _ => m
     end) :: resolve c ops' model' impl'
  | _, model, _ => model
  end.

Definition run_nd (cfg : word) (ops impl : list word) : option (list word) :=
  match decode_cfg cfg, run cfg ops with
  | Some c, Some m => Some (resolve c ops m impl)
  | _, _ => None
  end.

(* ---------- the property as clauses on an observed trace ----------
   1  Backoff(0) = BaseDelay
   2  Backoff(n) >= 0 (n <> 0; the product is not NaN)
   3  n >= 1, mult >= 1, jitter in [0,1], base, max >= 0: d within [int_lo, int_hi]
   4  (correspondence under the unobservable draw) d within the model's envelope
   5  NaN product: the amd64 conversion returns MinInt64 (narrow finding clause)
   6  Backoff(0) with a negative BaseDelay is negative (statement-level finding clause)
   7  pacing: a failed attempt at t with index i is followed by the next attempt no
      earlier than t + Backoff(i), unless ResetConnectBackoff intervened
   8  pacing: after a successful connection the next failure waits Backoff(0)
      (expressed through the monitor's index, which success resets)
   The pacing monitor derives the index from the observed dials only. *)

Record mon := mkm { m_ok : bool; m_idx : Z; m_last : option Z; m_fresh : bool; m_dials : Z; m_delay : Z; m_wait : Z }.
Definition minit : mon := mkm false 0 None false 0 0 0.

(* process the dial times of one observation; [explicit] = the first dial of the op
   answers an explicit request (ResetConnectBackoff or Connect) and is not paced.
   m_last = the time at which the last failed attempt failed (dial time + the time the
   failing dial takes, an input); m_wait = Backoff(index at the start of that attempt), the
   wait that attempt arms (a reset during the attempt zeroes the index, not this wait).  Result: monitor, clause 7 (no retry earlier than the
   failure + Backoff(i)), clause 8 (after a success the first retry comes after exactly
   Backoff(0)). *)
Fixpoint mon_dials (c : config) (m : mon) (explicit : bool) (ds : list Z) : mon * bool * bool :=
  match ds with
  | [] => (m, true, true)
  | t :: r =>
    let paced := match m_last m with Some _ => negb explicit | None => false end in
    let ok7 := match m_last m with
               | Some t0 => if explicit then t0 <=? t else t0 + m_wait m <=? t
               | None => true
               end in
    let ok8 := match m_last m with
               | Some t0 => if paced && m_fresh m then t <=? t0 + bo c 0 else true
               | None => true
               end in
    let i1 := if paced then m_idx m + 1 else m_idx m in
    let tf := if m_delay m <=? 0 then t else t + fail_after c i1 (m_delay m) in
    let m1 := if m_ok m then mkm (m_ok m) 0 None true (m_dials m + 1) (m_delay m) (bo c i1)
              else mkm (m_ok m) i1 (Some tf) (if paced then false else m_fresh m) (m_dials m + 1) (m_delay m) (bo c i1) in
    let '(m2, a, b) := mon_dials c m1 false r in
    (m2, ok7 && a, ok8 && b)
  end.

Definition split_pobs (o : word) : option (list Z * Z) :=
  match get_bytes o with
  | Some (ds, [st]) => Some (ds, st)
  | _ => None
  end.

Definition clause_backoff (c : config) (n d : Z) : list (Z * Z * bool) :=
  if n =? 0 then
    [(1, n, d =? base c); (6, n, 0 <=? d)]
  else
    let nanp := is_nan_b (capped c (Z.to_nat n) * factor (jit c) 0%float)%float in
    [(if nanp then 5 else 2, n, 0 <=? d);
     (3, n, if interval_dom c n then (int_lo c n <=? d) && (d <=? int_hi c n) else true);
     (4, n, (env_lo c n <=? d) && (d <=? env_hi c n))].

(* the monitor's step for one pacing op and its observation *)
Definition mon_step (c : config) (m : mon) (op o : word) : option (mon * bool * bool) :=
  match split_pobs o with
  | Some (ds, st) =>
    let m0 := match pop_of op with
              | Some (Pmode md) => mkm (negb (md =? 0)) (m_idx m) (m_last m) (m_fresh m) (m_dials m) (m_delay m) (m_wait m)
              | Some Preset => mkm (m_ok m) 0 (m_last m) false (m_dials m) (m_delay m) (m_wait m)
              | Some (Pdelay h) => mkm (m_ok m) (m_idx m) (m_last m) (m_fresh m) (m_dials m) h (m_wait m)
              | _ => m end in
    let explicit := match pop_of op with Some Preset => true | Some Pconnect => true | _ => false end in
    let '(m1, ok7, ok8) := mon_dials c m0 explicit ds in
    (* a dropped READY connection leaves no pending wait *)
    let m2 := match pop_of op with
              | Some Pdrop => if st =? 0 then mkm (m_ok m1) (m_idx m1) None (m_fresh m1) (m_dials m1) (m_delay m1) (m_wait m1) else m1
              | _ => m1 end in
    Some (m2, ok7, ok8)
  | None => None
  end.

Fixpoint clauses_from (c : config) (m : mon) (ops obs : list word) : list (Z * Z * bool) :=
  match ops, obs with
  | [], [] => []
  | op :: ops', o :: obs' =>
    match pure_op op with
    | Some (n, _) =>
      match o with
      | [d] => clause_backoff c n d ++ clauses_from c m ops' obs'
      | _ => [(0, 0, false)]
      end
    | None =>
      if pacing_ok c then
        match mon_step c m op o with
        | Some (m2, ok7, ok8) =>
          (7, m_dials m, ok7) :: (8, m_dials m, ok8) :: clauses_from c m2 ops' obs'
        | None => [(0, 0, false)]
        end
      else clauses_from c m ops' obs'
    end
  | _, _ => [(0, 0, false)]
  end.

Definition clauses (cfg : word) (ops obs : list word) : list (Z * Z * bool) :=
  match decode_cfg cfg with
  | Some c => clauses_from c minit ops obs
  | None => [(0, 0, false)]
  end.

Definition holds_b (cfg : word) (ops obs : list word) : bool :=
  forallb (fun c => snd c) (clauses cfg ops obs).

Definition check_case (c : case) : verdict :=
  decide (run_nd (c_cfg c) (c_ops c) (c_obs c)) (c_obs c) (clauses (c_cfg c) (c_ops c) (c_obs c)).
