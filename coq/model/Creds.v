(* C58: per-RPC credentials that require transport security.
   Transcribes the three decision points that guard credentials.PerRPCCredentials
   with RequireTransportSecurity() = true:
     clientconn.go            ClientConn.validateTransportCredentials   (grpc.NewClient)
     internal/transport/http2_client.go  NewHTTP2Client, handshake-time loop over perRPCCreds
     internal/transport/http2_client.go  getCallAuthData + credentials.CheckSecurityLevel
   plus credentials/local getSecurityLevel and the AuthInfo reported by the
   insecure / local / TLS transport credentials.  No proofs here. *)
From Coq Require Import List ZArith Bool.
From VLib Require Import Codec Machine.
Import ListNotations.
Open Scope Z_scope.

(* credentials.SecurityLevel (an int) *)
Definition InvalidSecurityLevel : Z := 0.
Definition NoSecurity : Z := 1.
Definition IntegrityOnly : Z := 2.
Definition PrivacyAndIntegrity : Z := 3.

(* what ClientHandshake returned as credentials.AuthInfo:
   nil, a value without GetCommonAuthInfo(), or one whose CommonAuthInfo has level l *)
Inductive authinfo := AINil | AINoCommon | AICommon (l : Z).

(* transport credentials as far as the three checks can see them:
   Info().SecurityProtocol == "insecure", and the result of ClientHandshake
   (None = handshake error) *)
Record tcreds := mktc { tc_insecure_name : bool; tc_hs : option authinfo }.

(* credentials/local getSecurityLevel(network, addr), a switch evaluated in order.
   network: 0 tcp, 1 unix, 2 pipe.  addr class: 0 prefix "127.", 1 prefix "[::1]:",
   2 prefix `\\.\pipe\`, 3 anything else.  None = "rejected connection to non-local address" *)
Definition local_level (network addrclass : Z) : option Z :=
  if (addrclass =? 0) || (addrclass =? 1) then Some NoSecurity
  else if (network =? 2) && (addrclass =? 2) then Some NoSecurity
  else if network =? 1 then Some PrivacyAndIntegrity
  else None.

Definition local_ai (network addrclass : Z) : option authinfo :=
  match local_level network addrclass with Some l => Some (AICommon l) | None => None end.

(* the transport credentials a case configures (None = none configured at all)
   0 insecure.NewCredentials()         1 local.NewCredentials() over TCP 127.0.0.1
   2 local.NewCredentials() over UDS   3 credentials.NewTLS
   4 custom, CommonAuthInfo{level}     5 custom, AuthInfo without GetCommonAuthInfo
   6 custom, nil AuthInfo              7 custom named "insecure", CommonAuthInfo{level}
   8 no transport credentials          9 local.NewCredentials() on a conn whose RemoteAddr
                                         is (network = level/4, addr class = level mod 4) *)
Definition tcreds_of (kind level : Z) : option tcreds :=
  if kind =? 0 then Some (mktc true (Some (AICommon NoSecurity)))
  else if kind =? 1 then Some (mktc false (local_ai 0 0))
  else if kind =? 2 then Some (mktc false (local_ai 1 3))
  else if kind =? 3 then Some (mktc false (Some (AICommon PrivacyAndIntegrity)))
  else if kind =? 4 then Some (mktc false (Some (AICommon level)))
  else if kind =? 5 then Some (mktc false (Some AINoCommon))
  else if kind =? 6 then Some (mktc false (Some AINil))
  else if kind =? 7 then Some (mktc true (Some (AICommon level)))
  else if kind =? 9 then Some (mktc false (local_ai (level / 4) (level mod 4)))
  else None.

(* ---- clientconn.go validateTransportCredentials: false = NewClient returns an error.
   [direct] = RequireTransportSecurity() of cc.dopts.copts.PerRPCCredentials (the
   credentials of a CredsBundle are not in that list). *)
Definition validate (tc : option tcreds) (direct : list bool) : bool :=
  match tc with
  | None => false
  | Some t => if tc_insecure_name t then negb (existsb (fun r => r) direct) else true
  end.

(* ---- NewHTTP2Client, after ClientHandshake:
     for _, cd := range perRPCCreds { if cd.RequireTransportSecurity() {
        if ci, ok := authInfo.(GetCommonAuthInfo); ok {
           secLevel := ...; if secLevel != Invalid && secLevel < PrivacyAndIntegrity { return error } } } } *)
Definition hs_weak (ai : authinfo) : bool :=
  match ai with
  | AICommon l => negb (l =? InvalidSecurityLevel) && (l <? PrivacyAndIntegrity)
  | _ => false
  end.

Fixpoint hs_check (ai : authinfo) (creds : list bool) : bool :=
  match creds with
  | [] => true
  | r :: rest => if r && hs_weak ai then false else hs_check ai rest
  end.

(* None = connection error; Some (isSecure, authInfo) = the transport that was built.
   Without transport credentials nothing is checked and isSecure stays false. *)
Definition new_transport (tc : option tcreds) (creds : list bool) : option (bool * authinfo) :=
  match tc with
  | None => Some (false, AINil)
  | Some t =>
    match tc_hs t with
    | None => None
    | Some ai => if hs_check ai creds then Some (true, ai) else None
    end
  end.

(* ---- credentials.CheckSecurityLevel(ai, level) == nil *)
Definition check_security_level (ai : authinfo) (level : Z) : bool :=
  match ai with
  | AINil => false
  | AINoCommon => true
  | AICommon l => if l =? InvalidSecurityLevel then true else negb (l <? level)
  end.

(* ---- getCallAuthData: callkind 0 = no call credentials, 1 = not requiring, 2 = requiring *)
Definition call_auth (isSecure : bool) (ai : authinfo) (callkind : Z) : bool :=
  if callkind =? 2 then isSecure && check_security_level ai PrivacyAndIntegrity else true.

(* outcome of one RPC on a fresh channel; header fields exist only in [Sent] *)
Inductive outcome :=
| DialErr                                   (* grpc.NewClient fails *)
| ConnErr                                   (* every connection attempt fails: UNAVAILABLE *)
| Unauth                                    (* NewStream fails: UNAUTHENTICATED *)
| Sent (dial : list bool) (call : bool).    (* HEADERS built with the metadata of these credentials *)

Definition direct_of (bundle : bool) (reqs : list bool) : list bool :=
  if bundle then removelast reqs else reqs.

Definition rpc (tc : option tcreds) (bundle : bool) (reqs : list bool) (callkind : Z) : outcome :=
  if negb (validate tc (direct_of bundle reqs)) then DialErr else
  match new_transport tc reqs with
  | None => ConnErr
  | Some (isSecure, ai) =>
    if call_auth isSecure ai callkind
    then Sent (map (fun _ => true) reqs) (negb (callkind =? 0))
    else Unauth
  end.

(* ---- case encoding
   cfg = [kind; level; bundle; n; r_1 .. r_n]   r_i = 1: dial credential i requires security;
         bundle = 1: transport credentials and the LAST dial credential travel in a
         credentials.Bundle (WithCredentialsBundle), the others in WithPerRPCCredentials
   op  = [1; callkind]
   obs = [res; nsrv; extra; d_1 .. d_n; c]
         res 0 OK, 1 NewClient error, 2 UNAVAILABLE, 3 UNAUTHENTICATED, 9 other
         nsrv  streams the server received during the call
         extra credential-looking header fields the server saw that no credential produced
         d_i / c  0 absent, 1 delivered exactly once and unchanged (key lower-cased), 2 garbled *)
Fixpoint decode_reqs (l : list Z) : option (list bool) :=
  match l with
  | [] => Some []
  | x :: r => if (x =? 0) || (x =? 1) then
                match decode_reqs r with Some bs => Some (z2b x :: bs) | None => None end
              else None
  end.

Definition kind_ok (kind : Z) : bool := (0 <=? kind) && (kind <=? 9).

Record config := mkcfg { g_kind : Z; g_level : Z; g_bundle : bool; g_reqs : list bool }.

Definition decode_cfg (cfg : word) : option config :=
  match cfg with
  | kind :: level :: bundle :: n :: rs =>
    if kind_ok kind && ((bundle =? 0) || (bundle =? 1)) && (n =? Z.of_nat (length rs)) then
      match decode_reqs rs with
      | Some reqs => Some (mkcfg kind level (z2b bundle) reqs)
      | None => None
      end
    else None
  | _ => None
  end.

Definition g_tc (g : config) : option tcreds := tcreds_of (g_kind g) (g_level g).

Definition zeros (n : nat) : list Z := repeat 0 n.

Definition obs_of (n : nat) (o : outcome) : word :=
  match o with
  | DialErr => 1 :: 0 :: 0 :: zeros (S n)
  | ConnErr => 2 :: 0 :: 0 :: zeros (S n)
  | Unauth => 3 :: 0 :: 0 :: zeros (S n)
  | Sent d c => 0 :: 1 :: 0 :: map b2z d ++ [b2z c]
  end.

Definition callkind_ok (ck : Z) : bool := (0 <=? ck) && (ck <=? 2).

Definition run_op (g : config) (op : word) : option word :=
  match op with
  | [1; ck] => if callkind_ok ck
               then Some (obs_of (length (g_reqs g)) (rpc (g_tc g) (g_bundle g) (g_reqs g) ck))
               else None
  | _ => None
  end.

Fixpoint run_ops (g : config) (ops : list word) : option (list word) :=
  match ops with
  | [] => Some []
  | op :: r => match run_op g op, run_ops g r with
               | Some o, Some os => Some (o :: os)
               | _, _ => None
               end
  end.

Definition run (cfg : word) (ops : list word) : option (list word) :=
  match decode_cfg cfg with Some g => run_ops g ops | None => None end.

(* ---- the property on observations ----
   class of the connection the configured transport credentials produce:
   0 none/handshake fails (there is no connection), 1 weak (a defined level below
   PrivacyAndIntegrity), 2 unknown (nil AuthInfo, no CommonAuthInfo, or InvalidSecurityLevel),
   3 strong (level >= PrivacyAndIntegrity) *)
Definition conn_class (tc : option tcreds) : Z :=
  match tc with
  | None => 0
  | Some t =>
    match tc_hs t with
    | None => 0
    | Some (AICommon l) =>
      if l =? InvalidSecurityLevel then 2 else if l <? PrivacyAndIntegrity then 1 else 3
    | Some _ => 2
    end
  end.

Definition insecure_named (tc : option tcreds) : bool :=
  match tc with Some t => tc_insecure_name t | None => false end.

Definition any_true (l : list bool) : bool := existsb (fun r => r) l.

(* the call failed and nothing carrying credential metadata reached the server *)
Definition failed_clean (obs : word) : bool :=
  match obs with
  | res :: nsrv :: extra :: flags =>
    negb (res =? 0) && (nsrv =? 0) && (extra =? 0) && forallb (fun f => f =? 0) flags
  | _ => false
  end.

Definition delivered (n : nat) (ck : Z) (obs : word) : bool :=
  match obs with
  | res :: nsrv :: extra :: flags =>
    (res =? 0) && (nsrv =? 1) && (extra =? 0) &&
    word_eqb flags (repeat 1 n ++ [b2z (negb (ck =? 0))])
  | _ => false
  end.

Definition res_of (obs : word) : Z := match obs with res :: _ => res | [] => -1 end.

(* clause 1: weak (or no) connection, some credential requires security: failed, nothing sent
   clause 2: weak connection: dial-level requirement => NewClient/connection error;
             only the call credentials require => UNAUTHENTICATED
   clause 3: strong connection (credentials not named "insecure"): everything delivered
   clause 5: connection of unknown level, some credential requires security: failed
             (literal reading of the statement; the code accepts - known finding)
   clause 0: malformed *)
Definition clause_op (g : config) (op obs : word) : list (Z * Z * bool) :=
  match op with
  | [1; ck] =>
    let n := length (g_reqs g) in
    let cls := conn_class (g_tc g) in
    let dreq := any_true (g_reqs g) in
    let creq := ck =? 2 in
    let areq := dreq || creq in
    [ (0, ck, (Z.of_nat (length obs) =? Z.of_nat n + 4) && callkind_ok ck);
      (1, ck, if ((cls =? 0) || (cls =? 1)) && areq then failed_clean obs else true);
      (2, ck, if cls =? 1 then
                if dreq then (res_of obs =? 1) || (res_of obs =? 2)
                else if creq then res_of obs =? 3 else true
              else true);
      (3, ck, if (cls =? 3) && negb (insecure_named (g_tc g)) then delivered n ck obs else true);
      (5, ck, if (cls =? 2) && areq then failed_clean obs else true) ]
  | _ => [(0, 0, false)]
  end.

Fixpoint clauses_ops (g : config) (ops obs : list word) : list (Z * Z * bool) :=
  match ops, obs with
  | op :: r, o :: r' => clause_op g op o ++ clauses_ops g r r'
  | [], [] => []
  | _, _ => [(0, 0, false)]
  end.

Definition clauses (cfg : word) (ops obs : list word) : list (Z * Z * bool) :=
  match decode_cfg cfg with
  | Some g => clauses_ops g ops obs
  | None => [(0, 0, false)]
  end.

Definition holds_b (cfg : word) (ops obs : list word) : bool :=
  forallb (fun c => snd c) (clauses cfg ops obs).

Definition check_case (c : case) : verdict :=
  decide (run (c_cfg c) (c_ops c)) (c_obs c) (clauses (c_cfg c) (c_ops c) (c_obs c)).
