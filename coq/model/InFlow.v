(* C04: inbound flow-control accounting.
   Transcribes internal/transport/flowcontrol.go (inFlow.{newLimit,maybeAdjust,onData,onRead},
   trInFlow.{newLimit,onData,reset}) in uint32/int32 arithmetic, and the composition of these
   calls made by http2Server.{handleData,adjustWindow,updateWindow,updateFlowControl}
   (internal/transport/http2_server.go) for one stream on one connection.
   A ghost peer ledger (what the peer was told / what it sent) is computed from the
   operations and the OBSERVED window updates and errors only, so that the property can be
   evaluated on the implementation's own trace.  No proofs here. *)
From Coq Require Import List ZArith Bool.
From VLib Require Import Codec Machine.
Import ListNotations.
Open Scope Z_scope.

Definition maxWindowSize : Z := max_i32.      (* defaults.go: math.MaxInt32 *)
Definition bdpLimit : Z := 16777216.          (* bdp_estimator.go: (1<<20)*16 *)
Definition maxFrame : Z := 16777216.          (* HTTP/2 frame length is 24 bits *)

(* stream inFlow {limit,pendingData,pendingUpdate,delta}, connection trInFlow {limit,unacked},
   dead = the stream was closed with RST_STREAM(FLOW_CONTROL_ERROR) and left activeStreams *)
Record st := mkst { limit : Z; pd : Z; pu : Z; delta : Z; climit : Z; unacked : Z; dead : bool;
                    iws : Z  (* uint32(t.initialWindowSize): window of new streams, raised by BDP updates *) }.

(* ---- trInFlow ---- *)
Definition tr_newLimit (n : Z) (s : st) : Z * st :=
  if n <=? climit s then (0, s)   (* the connection window never shrinks *)
  else (u32 (n - climit s), mkst (limit s) (pd s) (pu s) (delta s) n (unacked s) (dead s) (iws s)).

Definition tr_onData (n : Z) (s : st) : Z * st :=
  let un := u32 (unacked s + n) in
  if un <? climit s / 4
  then (0, mkst (limit s) (pd s) (pu s) (delta s) (climit s) un (dead s) (iws s))
  else (un, mkst (limit s) (pd s) (pu s) (delta s) (climit s) 0 (dead s) (iws s)).

Definition tr_reset (s : st) : Z * st :=
  (unacked s, mkst (limit s) (pd s) (pu s) (delta s) (climit s) 0 (dead s) (iws s)).

(* ---- inFlow ---- *)
Definition in_newLimit (n : Z) (s : st) : st :=
  mkst n (pd s) (pu s) (delta s) (climit s) (unacked s) (dead s) (iws s).

Definition set_iws (n : Z) (s : st) : st :=
  mkst (limit s) (pd s) (pu s) (delta s) (climit s) (unacked s) (dead s) n.

Definition in_maybeAdjust (n0 : Z) (s : st) : Z * st :=
  let n := if n0 >? max_i32 then max_i32 else n0 in
  let estSenderQuota := i32 (u32 (limit s - u32 (pd s + pu s))) in
  let estUntransmittedData := i32 (u32 (n - pd s)) in
  if estUntransmittedData >? estSenderQuota then
    let d := if u32 (limit s + n) >? maxWindowSize then u32 (maxWindowSize - limit s) else n in
    (d, mkst (limit s) (pd s) (pu s) d (climit s) (unacked s) (dead s) (iws s))
  else (0, s).

(* returns (error?, state); pendingData is updated before the comparison, as in the code *)
Definition in_onData (n : Z) (s : st) : bool * st :=
  let pd' := u32 (pd s + n) in
  (u32 (pd' + pu s) >? u32 (limit s + delta s),
   mkst (limit s) pd' (pu s) (delta s) (climit s) (unacked s) (dead s) (iws s)).

Definition in_onRead (n : Z) (s : st) : Z * st :=
  if pd s =? 0 then (0, s) else
  let pd' := u32 (pd s - n) in
  let n2 := if n >? delta s then u32 (n - delta s) else 0 in
  let delta' := if n >? delta s then 0 else u32 (delta s - n) in
  let pu' := u32 (pu s + n2) in
  if pu' >=? limit s / 4
  then (pu', mkst (limit s) pd' 0 delta' (climit s) (unacked s) (dead s) (iws s))
  else (0, mkst (limit s) pd' pu' delta' (climit s) (unacked s) (dead s) (iws s)).

Definition kill (s : st) : st :=
  mkst (limit s) (pd s) (pu s) (delta s) (climit s) (unacked s) true (iws s).

Definition snap (s : st) : word :=
  [limit s; pd s; pu s; delta s; climit s; unacked s; iws s].

(* Operations (all integers are taken modulo 2^32, as the driver converts them to uint32):
   [1; size; pad]  handleData of a DATA frame with Length = size of which pad bytes are padding
                   (pad length octet included; pad > 0 <-> PADDED flag)
                   obs [conn WU; stream error 0/1; stream WU] ++ snapshot
   [2; n]          Stream.read(n)'s requestRead(n) = adjustWindow     obs [stream WU] ++ snapshot
   [3; k]          transportReader's updateWindow(k) after k bytes were read  obs [stream WU] ++ snapshot
   [4; n]          bdpEstimator -> updateFlowControl(n)              obs [conn WU; number of conn WU items; SETTINGS value] ++ snapshot
   [5]             BDP ping: trInFlow.reset()                        obs [conn WU] ++ snapshot
   [6]             a NewStream call starts and blocks on the stream quota (MAX_CONCURRENT_STREAMS
                   reached): the stream object exists, its HEADERS are not queued yet    obs [0] ++ snapshot
   [7]             quota becomes available: the HEADERS of a new stream are queued (NewStream returns;
                   started here if [6] did not); later operations address the new stream   obs [1] ++ snapshot
   an op [1; size; pad] with pad > size or size >= 2^24 is not a frame and is skipped:
   obs [-1] ++ snapshot *)
Inductive opk := OData (size pad : Z) | OReq (n : Z) | ORead (k : Z) | ONew (n : Z) | OPing
               | OBegin | ORelease.

Definition decode_op (op : word) : option opk :=
  match op with
  | [1; size; pad] => Some (OData size pad)
  | [2; n] => Some (OReq n)
  | [3; k] => Some (ORead k)
  | [4; n] => Some (ONew n)
  | [5] => Some OPing
  | [6] => Some OBegin
  | [7] => Some ORelease
  | _ => None
  end.

Definition stepk (s : st) (k : opk) : word * st :=
  match k with
  | OData size0 pad0 =>
    let size := u32 size0 in let pad := u32 pad0 in
    if (pad >? size) || (size >=? maxFrame) then ([-1] ++ snap s, s) else
    let (cwu, s1) := tr_onData size s in
    if dead s1 || (size =? 0) then ([cwu; 0; 0] ++ snap s1, s1) else
    let (err, s2) := in_onData size s1 in
    if err then let s3 := kill s2 in ([cwu; 1; 0] ++ snap s3, s3) else
    if pad >? 0 then
      let (wu, s3) := in_onRead pad s2 in ([cwu; 0; wu] ++ snap s3, s3)
    else ([cwu; 0; 0] ++ snap s2, s2)
  | OReq n =>
    if dead s then ([0] ++ snap s, s) else
    let (wu, s1) := in_maybeAdjust (u32 n) s in ([wu] ++ snap s1, s1)
  | ORead k =>
    if dead s then ([0] ++ snap s, s) else
    let (wu, s1) := in_onRead (u32 k) s in ([wu] ++ snap s1, s1)
  | ONew n0 =>
    (* http2Server.updateFlowControl after 7a3f54f: windows configured above the estimate are
       never lowered; a connection WINDOW_UPDATE is enqueued only for a positive increment and
       SETTINGS_INITIAL_WINDOW_SIZE only when the stream windows grow *)
    let n := u32 n0 in
    let grow := n >? iws s in
    let s1 := if grow then set_iws n (if dead s then s else in_newLimit n s) else s in
    let (cwu, s2) := tr_newLimit n s1 in
    ([cwu; (if cwu >? 0 then 1 else 0); (if grow then n else 0)] ++ snap s2, s2)
  | OPing =>
    let (cwu, s1) := tr_reset s in ([cwu] ++ snap s1, s1)
  | OBegin => ([0] ++ snap s, s)
  | ORelease =>
    (* checkForStreamQuota, atomically with queueing the HEADERS: s.fc = inFlow{limit: t.initialWindowSize};
       the operations that follow address this stream *)
    let s1 := mkst (iws s) 0 0 0 (climit s) (unacked s) false (iws s) in ([1] ++ snap s1, s1)
  end.

Definition step (s : st) (op : word) : option (word * st) :=
  match decode_op op with Some k => Some (stepk s k) | None => None end.

(* cfg = [stream window; connection window] or [stream window; connection window; side]
   (side 0 = http2Server, 1 = http2Client: the driver runs the same operations through the
   client's handleData/adjustWindow/updateWindow/updateFlowControl, which make the same calls;
   the model does not depend on it) *)
Definition cfg2 (cfg : word) : word :=
  match cfg with
  | [l; cl; _] => [l; cl]
  | _ => cfg
  end.

Definition init (cfg : word) : option st :=
  match cfg2 cfg with
  | [l; cl] => Some (mkst (u32 l) 0 0 0 (u32 cl) 0 false (u32 l))
  | _ => None
  end.

Fixpoint run_from (s : st) (ops : list word) : option (list word) :=
  match ops with
  | [] => Some []
  | op :: r =>
    match step s op with
    | Some (o, s') => match run_from s' r with Some os => Some (o :: os) | None => None end
    | None => None
    end
  end.

Definition run (cfg : word) (ops : list word) : option (list word) :=
  match init cfg with Some s => run_from s ops | None => None end.

(* ---- ghost ledger: computed from the operations and the observed outputs only ----
   adv   : total stream window the peer has been given (initial window + WINDOW_UPDATEs
           + SETTINGS_INITIAL_WINDOW_SIZE increases)
   rcvd  : flow-controlled stream bytes the peer has sent and that were accepted
   cadv, crcvd : the same for the connection window
   lim, clim   : currently configured stream / connection window
   deliv : payload bytes handed to the application's receive buffer
   readb : payload bytes the application has read; want : bytes still to read of the
           outstanding read request
   ldead : a stream error was observed
   adjusted : the outstanding read request was granted an extra window update
   bumped   : the configured window was raised (BDP) while such an extra grant was outstanding
   sshrunk  : a BDP update LOWERED the stream window below the configured one (clause 10)
   cdead    : updateFlowControl emitted a connection WINDOW_UPDATE with an illegal increment
              (0 or > 2^31-1, clause 9): the framer refuses it, loopy exits and the
              connection is closed, so nothing is claimed afterwards
   siw      : the SETTINGS_INITIAL_WINDOW_SIZE the peer knows (initial value, then every SETTINGS
              observed): the window a new stream starts with at the peer *)
Record led := mkled { adv : Z; rcvd : Z; cadv : Z; crcvd : Z; lim : Z; clim : Z;
                      deliv : Z; readb : Z; want : Z; ldead : bool; adjusted : bool; bumped : bool;
                      sshrunk : bool; cdead : bool; siw : Z }.

Definition cfg_ok (cfg : word) : bool :=
  match cfg2 cfg with
  | [l; cl] => (1 <=? l) && (l <=? max_i32) && (1 <=? cl) && (cl <=? max_i32)
  | _ => false
  end.

Definition linit (cfg : word) : led :=
  match cfg2 cfg with
  | [l; cl] => mkled l 0 cl 0 l cl 0 0 0 false false false false false l
  | _ => mkled 0 0 0 0 0 0 0 0 0 true false false false false 0
  end.

(* well-formedness of an operation in the current ledger state: frame sizes are frame sizes,
   the application follows Stream.read's protocol (one request, then reads of bytes that were
   actually delivered, until the request is satisfied), BDP limits only grow and are <= 16 MiB *)
Definition opk_ok (L : led) (k : opk) : bool :=
  match k with
  | OData size pad => (0 <=? pad) && (pad <=? size) && (size <? maxFrame)
  | OReq n => (want L =? 0) && (0 <=? n) && (n <? 2^32)
  | ORead k => (0 <=? k) && (k <=? want L) && (k <=? deliv L - readb L)
  | ONew n => (1 <=? n) && (n <=? bdpLimit)
  | OPing | OBegin | ORelease => true
  end.

Definition op_ok (L : led) (op : word) : bool :=
  match decode_op op with Some k => opk_ok L k | None => false end.

Definition lstepk (L : led) (k : opk) (o : word) : option led :=
  match k, o with
  | OData size pad, cwu :: err :: swu :: _ =>
    let cadv' := cadv L + cwu in let crcvd' := crcvd L + size in
    if ldead L || (size =? 0) then
      Some (mkled (adv L) (rcvd L) cadv' crcvd' (lim L) (clim L) (deliv L) (readb L) (want L)
                  (ldead L) (adjusted L) (bumped L) (sshrunk L) (cdead L) (siw L))
    else if err =? 0 then
      Some (mkled (adv L + swu) (rcvd L + size) cadv' crcvd' (lim L) (clim L)
                  (deliv L + (size - pad)) (readb L) (want L) false (adjusted L) (bumped L) (sshrunk L) (cdead L) (siw L))
    else
      Some (mkled (adv L) (rcvd L) cadv' crcvd' (lim L) (clim L) (deliv L) (readb L) (want L)
                  true (adjusted L) (bumped L) (sshrunk L) (cdead L) (siw L))
  | OReq n, wu :: _ =>
    Some (mkled (adv L + wu) (rcvd L) (cadv L) (crcvd L) (lim L) (clim L) (deliv L) (readb L) n
                (ldead L) (0 <? wu) false (sshrunk L) (cdead L) (siw L))
  | ORead k, wu :: _ =>
    let w' := want L - k in
    Some (mkled (adv L + wu) (rcvd L) (cadv L) (crcvd L) (lim L) (clim L) (deliv L) (readb L + k) w'
                (ldead L) (adjusted L && negb (w' =? 0)) (bumped L && negb (w' =? 0)) (sshrunk L) (cdead L) (siw L))
  | ONew n, cwu :: items :: sv :: _ =>
    (* the ledger follows what was put on the wire: SETTINGS_INITIAL_WINDOW_SIZE = sv (0 = none
       sent) moves every stream window by sv - lim; a connection WINDOW_UPDATE item (items > 0)
       means the connection limit is now n *)
    let grow := negb (ldead L) && negb (sv =? 0) in
    Some (mkled (if grow then adv L + (sv - lim L) else adv L) (rcvd L) (cadv L + cwu) (crcvd L)
                (if grow then sv else lim L) (if items =? 0 then clim L else n)
                (deliv L) (readb L) (want L)
                (ldead L) (adjusted L) (bumped L || (grow && adjusted L))
                (sshrunk L || (grow && (sv <? lim L)))
                (cdead L || negb ((items =? 0) || ((1 <=? cwu) && (cwu <=? max_i32))))
                (if sv =? 0 then siw L else sv))
  | OPing, cwu :: _ =>
    Some (mkled (adv L) (rcvd L) (cadv L + cwu) (crcvd L) (lim L) (clim L) (deliv L) (readb L) (want L)
                (ldead L) (adjusted L) (bumped L) (sshrunk L) (cdead L) (siw L))
  | OBegin, _ => Some L
  | ORelease, _ =>
    (* a new stream: the peer gives it the SETTINGS_INITIAL_WINDOW_SIZE it knows *)
    Some (mkled (siw L) 0 (cadv L) (crcvd L) (siw L) (clim L) 0 0 0 false false false
                (sshrunk L) (cdead L) (siw L))
  | _, _ => None
  end.

Definition lstep (L : led) (op o : word) : option led :=
  match decode_op op with Some k => lstepk L k o | None => None end.

(* peer's view of the stream / connection window *)
Definition win (L : led) : Z := adv L - rcvd L.
Definition cwin (L : led) : Z := cadv L - crcvd L.

(* Clauses, evaluated after operation number i (L = ledger before, L' = after):
   1  a DATA frame that fits in the peer's stream window is accepted
   2  a rejected DATA frame exceeded the peer's stream window
   3  the stream window never exceeds 2^31-1 (states not affected by finding 5)
   5  [finding] ... it can, after a BDP window increase during an extra grant for a large read
   4  once the application has read everything: window > 0 and > 3/4 of the configured window
   6  [statement deviation] ... "at least the configured window" (literal reading)
   7  connection window: <= 2^31-1, and always > 3/4 of the configured connection window
   8  after a read request of n bytes the window covers the rest of the message
      (or is at the protocol maximum, less the batched < limit/4)
   9  every connection-level WINDOW_UPDATE increment emitted by updateFlowControl is in
      [1, 2^31-1] (before fix 7a3f54f: uint32 underflow of n - limit, or 0, when the BDP estimate
      was <= the configured connection window); if false the connection is torn down and nothing
      more is claimed
   10 clauses 4 and 8 in states after a BDP update lowered the stream window below the configured
      one (cannot happen after fix 7a3f54f; before it the stream could stall) *)
Definition clauses_k (i : Z) (L : led) (k : opk) (o : word) (L' : led) : list (Z * Z * bool) :=
  if cdead L' then [(9, i, false)] else
  let conn := [(7, i, (cwin L' <=? max_i32) && (3 * clim L' <? 4 * cwin L') && (cwin L' <=? clim L'))] in
  if ldead L then conn else
  (match k, o with
   | OData size pad, _ :: err :: _ =>
     if size =? 0 then [] else
     [(1, i, negb (rcvd L + size <=? adv L) || (err =? 0));
      (2, i, (err =? 0) || (adv L <? rcvd L + size))]
   | OReq n, _ =>
     let n' := if n >? max_i32 then max_i32 else n in
     [((if sshrunk L' then 10 else 8), i, Z.min n' (max_i32 - lim L' / 4) - (deliv L' - readb L') <=? win L')]
   | _, _ => []
   end) ++
  (if ldead L' then [] else
   [((if bumped L' then 5 else 3), i, win L' <=? max_i32)] ++
   (if deliv L' =? readb L' then
      [((if sshrunk L' then 10 else 4), i, (0 <? win L') && (3 * lim L' <? 4 * win L')); (6, i, lim L' <=? win L')]
    else [])) ++ conn.

Definition clauses_at (i : Z) (L : led) (op o : word) (L' : led) : list (Z * Z * bool) :=
  match decode_op op with Some k => clauses_k i L k o L' | None => [(0, i, false)] end.

Fixpoint clauses_from (i : Z) (L : led) (ops obs : list word) : list (Z * Z * bool) :=
  match ops, obs with
  | [], [] => []
  | op :: r, o :: r' =>
    if op_ok L op && negb (cdead L) then
      match lstep L op o with
      | Some L' => clauses_at i L op o L' ++ clauses_from (i + 1) L' r r'
      | None => [(0, i, false)]
      end
    else []   (* outside the property's hypotheses, or connection torn down: nothing more is claimed *)
  | _, _ => [(0, i, false)]
  end.

Definition clauses (cfg : word) (ops obs : list word) : list (Z * Z * bool) :=
  if cfg_ok cfg then clauses_from 0 (linit cfg) ops obs else [].

(* clauses 5 and 6 are false on the faithful model (see C04_*_refuted); the others hold *)
Definition proved_clause (c : Z * Z * bool) : bool :=
  match c with (id, _, ok) => ok || (id =? 5) || (id =? 6) end.

Definition holds_b (cfg : word) (ops obs : list word) : bool :=
  forallb proved_clause (clauses cfg ops obs).

(* every operation is inside the hypotheses, judged on an observation list *)
Fixpoint gate_from (L : led) (ops obs : list word) : bool :=
  match ops, obs with
  | [], [] => true
  | op :: r, o :: r' =>
    op_ok L op && match lstep L op o with Some L' => gate_from L' r r' | None => false end
  | _, _ => false
  end.

Definition wf (cfg : word) (ops : list word) : bool :=
  cfg_ok cfg &&
  match run cfg ops with Some obs => gate_from (linit cfg) ops obs | None => false end.

(* final model state and ledger after a well-formed operation list *)
Fixpoint fin_from (s : st) (L : led) (ops : list word) : option (st * led) :=
  match ops with
  | [] => Some (s, L)
  | op :: r =>
    if op_ok L op then
      match step s op with
      | Some (o, s') => match lstep L op o with Some L' => fin_from s' L' r | None => None end
      | None => None
      end
    else None
  end.

Definition fin (cfg : word) (ops : list word) : option (st * led) :=
  if cfg_ok cfg then
    match init cfg with Some s => fin_from s (linit cfg) ops | None => None end
  else None.

Definition check_case (c : case) : verdict :=
  decide (run (c_cfg c) (c_ops c)) (c_obs c) (clauses (c_cfg c) (c_ops c) (c_obs c)).
