(* C42: the xDS ADS stream (internal/xds/clients/xdsclient/ads_stream.go) as driven through
   XDSClient with one management server.

   Transcribed: resourceTypeState{version, nonce, subscribedResources}, pendingRequests,
   firstRequest, the send goroutine's stream variable, subscribe/unsubscribe, sendNewLocked,
   sendExisting, sendMessageLocked, recv/onRecv (ACK, NACK, unknown type, type without
   state), adsFlowControl.pending.  One step = one driver op run to quiescence.

   Driver conventions (drivers/ext/ads/ads_test.go): types 0..3 are known (type 3 carries
   the permanent anchor subscription r0), type urls >= 4 are unknown to the client; every
   subscribed resource has exactly one watcher and resource contents are unique, so a
   response produces one watcher callback per distinct named resource that is subscribed.
   No proofs here. *)
From Coq Require Import List ZArith Bool.
From VLib Require Import Codec Machine.
Import ListNotations.
Open Scope Z_scope.

(* ---- sorted name sets *)
Fixpoint mem (n : Z) (l : list Z) : bool :=
  match l with [] => false | x :: r => (x =? n) || mem n r end.
Fixpoint ins (n : Z) (l : list Z) : list Z :=
  match l with
  | [] => [n]
  | x :: r => if n <? x then n :: l else if n =? x then l else x :: ins n r
  end.
Fixpoint rem (n : Z) (l : list Z) : list Z :=
  match l with [] => [] | x :: r => if x =? n then rem n r else x :: rem n r end.

(* ---- operations *)
Inductive aop :=
| ASub (t n : Z) | AUnsub (t n : Z)          (* subscribe / unsubscribe, then the sender runs *)
| AAllow | AFail                             (* NewStream succeeds / fails *)
| AResp (t v n : Z) (rs : list (Z * Z))      (* response: type, version, nonce, (name, kind)* *)
| ABreak                                     (* Recv returns an error *)
| ADone                                      (* all watchers call done *)
| AQSub (t n : Z) | AQUnsub (t n : Z) | AFlush  (* the same, with the sender as its own step *)
| ANop.

Fixpoint triples (l : list Z) : option (list (Z * Z)) :=
  match l with
  | [] => Some []
  | a :: b :: c :: r =>
    if (0 <=? a) && (a <=? 255) && (0 <=? b) && (b <=? 255) && (0 <=? c) && (c <=? 255) then
      match triples r with Some x => Some ((a, b) :: x) | None => None end
    else None
  | _ => None
  end.

Definition sub_rng (t n : Z) : bool := (0 <=? t) && (t <=? 2) && (0 <=? n) && (n <=? 3).

Definition decode (w : word) : aop :=
  match w with
  | c :: a =>
    if c =? 1 then match a with [t; n] => if sub_rng t n then ASub t n else ANop | _ => ANop end
    else if c =? 2 then match a with [t; n] => if sub_rng t n then AUnsub t n else ANop | _ => ANop end
    else if c =? 3 then match a with [] => AAllow | _ => ANop end
    else if c =? 4 then match a with [] => AFail | _ => ANop end
    else if c =? 5 then
      match a with
      | t :: v :: n :: r =>
        if (0 <=? t) && (t <=? 9) && (0 <=? v) && (0 <=? n) then
          match triples r with Some rs => AResp t v n rs | None => ANop end
        else ANop
      | _ => ANop
      end
    else if c =? 6 then match a with [] => ABreak | _ => ANop end
    else if c =? 7 then match a with [] => ADone | _ => ANop end
    else if c =? 11 then match a with [t; n] => if sub_rng t n then AQSub t n else ANop | _ => ANop end
    else if c =? 12 then match a with [t; n] => if sub_rng t n then AQUnsub t n else ANop | _ => ANop end
    else if c =? 13 then match a with [] => AFlush | _ => ANop end
    else ANop
  | [] => ANop
  end.

(* ---- state *)
Record tst := mkT { tver : Z; tnonce : Z; tnames : list Z; thas : bool }.
Record st := mkS {
  ts : Z -> tst;                 (* resourceTypeState, by type index *)
  pend : list (Z * list Z);      (* pendingRequests: type, names snapshot *)
  first : bool;                  (* firstRequest *)
  live : bool;                   (* the runner is inside recv(stream); false = blocked in NewStream *)
  sid : Z;                       (* number of streams created so far = id of the latest *)
  sender : Z;                    (* send goroutine's stream: 0 nil, 1 the latest stream, 2 a broken one *)
  blocked : Z                    (* flow control: 0 free, 1 waiting for watchers, 2 pending forever *)
}.

Definition upd (f : Z -> tst) (t : Z) (v : tst) : Z -> tst := fun x => if x =? t then v else f x.

Definition t_init : tst := mkT 0 0 [] false.
Definition init : st :=
  mkS (upd (fun _ => t_init) 3 (mkT 0 0 [0] true)) [(3, [0])] false false 0 0 0.

Definition recvw (s : st) : Z := b2z (live s && (blocked s =? 0)).

(* output of a step: request words and node flags, both in emission order *)
Definition out := (list word * list Z)%type.
Definition oapp (a b : out) : out := (fst a ++ fst b, snd a ++ snd b).

(* sendMessageLocked on a working stream *)
Definition send_on (s : st) (t v n e : Z) (names : list Z) : st * out :=
  (mkS (ts s) (pend s) false (live s) (sid s) (sender s) (blocked s),
   ([[sid s; t; v; n; e] ++ names], [b2z (first s)])).

(* sendNewLocked *)
Fixpoint send_all (s : st) (q : list (Z * list Z)) : st * out :=
  match q with
  | [] => (s, ([], []))
  | (t, ns) :: r =>
    let '(s1, o1) := send_on s t (tver (ts s t)) (tnonce (ts s t)) 0 ns in
    let '(s2, o2) := send_all s1 r in (s2, oapp o1 o2)
  end.

Definition set_pend (s : st) (p : list (Z * list Z)) : st :=
  mkS (ts s) p (first s) (live s) (sid s) (sender s) (blocked s).

(* the send goroutine handles a notifySender token *)
Definition flush (s : st) : st * out :=
  if sender s =? 1 then
    let '(s', o) := send_all s (pend s) in (set_pend s' [], o)
  else if sender s =? 2 then
    match pend s with
    | [] => (s, ([], []))
    | _ => (mkS (ts s) [] (first s) (live s) (sid s) 0 (blocked s), ([], []))  (* Send fails *)
    end
  else (s, ([], [])).

Definition set_names (s : st) (t : Z) (ns : list Z) : st :=
  let x := ts s t in
  mkS (upd (ts s) t (mkT (tver x) (tnonce x) ns true)) (pend s ++ [(t, ns)]) (first s) (live s)
      (sid s) (sender s) (blocked s).

Definition subscribe (s : st) (t n : Z) : st := set_names s t (ins n (tnames (ts s t))).
Definition unsubscribe (s : st) (t n : Z) : st := set_names s t (rem n (tnames (ts s t))).

(* sendExisting over the known types *)
Fixpoint send_existing (s : st) (types : list Z) : st * out :=
  match types with
  | [] => (s, ([], []))
  | t :: r =>
    let x := ts s t in
    if thas x then
      let s0 := mkS (upd (ts s) t (mkT (tver x) 0 (tnames x) true)) (pend s) (first s) (live s)
                    (sid s) (sender s) (blocked s) in
      match tnames x with
      | [] => send_existing s0 r
      | _ => let '(s1, o1) := send_on s0 t (tver x) 0 0 (tnames x) in
             let '(s2, o2) := send_existing s1 r in (s2, oapp o1 o2)
      end
    else send_existing s r
  end.

Definition all_types : list Z := [0; 1; 2; 3].

(* names of the response's resources that decode far enough to have a name, without duplicates *)
Fixpoint named (rs : list (Z * Z)) : list Z :=
  match rs with
  | [] => []
  | (n, k) :: r => if (k =? 0) || (k =? 1) then ins n (named r) else named r
  end.
Definition all_valid (rs : list (Z * Z)) : bool := forallb (fun x => snd x =? 1) rs.
Fixpoint count_in (l names : list Z) : Z :=
  match l with [] => 0 | n :: r => (if mem n names then 1 else 0) + count_in r names end.

Definition hdr (applied : bool) (s : st) (outst : Z) (o : out) : list word :=
  ([b2z applied; recvw s; outst] ++ snd o) :: fst o.

Definition step (slow : bool) (s : st) (a : aop) : st * list word :=
  match a with
  | ASub t n =>
    if mem n (tnames (ts s t)) then (s, hdr false s 0 ([], []))
    else let '(s', o) := flush (subscribe s t n) in (s', hdr true s' 0 o)
  | AUnsub t n =>
    if mem n (tnames (ts s t)) then
      let '(s', o) := flush (unsubscribe s t n) in (s', hdr true s' 0 o)
    else (s, hdr false s 0 ([], []))
  | AQSub t n =>
    if mem n (tnames (ts s t)) then (s, hdr false s 0 ([], []))
    else let s' := subscribe s t n in (s', hdr true s' 0 ([], []))
  | AQUnsub t n =>
    if mem n (tnames (ts s t)) then let s' := unsubscribe s t n in (s', hdr true s' 0 ([], []))
    else (s, hdr false s 0 ([], []))
  | AFlush => let '(s', o) := flush s in (s', hdr true s' 0 o)
  | AAllow =>
    if live s then (s, hdr false s 0 ([], []))
    else
      let s0 := mkS (ts s) [] true true (sid s + 1) 1 (blocked s) in
      let '(s', o) := send_existing s0 all_types in (s', hdr true s' 0 o)
  | AFail => if live s then (s, hdr false s 0 ([], [])) else (s, hdr true s 0 ([], []))
  | ABreak =>
    if recvw s =? 1 then
      let s' := mkS (ts s) (pend s) (first s) false (sid s) 2 (blocked s) in (s', hdr true s' 0 ([], []))
    else (s, hdr false s 0 ([], []))
  | ADone =>
    let s' := mkS (ts s) (pend s) (first s) (live s) (sid s) (sender s)
                  (if blocked s =? 1 then 0 else blocked s) in
    (s', hdr true s' 0 ([], []))
  | AResp t v n rs =>
    if recvw s =? 1 then
      if 4 <=? t then
        (* unknown type url: onResponse returns without ever calling onDone *)
        let s' := mkS (ts s) (pend s) (first s) (live s) (sid s) (sender s) 2 in
        (s', hdr true s' 0 ([], []))
      else
        let x := ts s t in
        let cbs := count_in (named rs) (tnames x) in
        let outst := if slow then cbs else 0 in
        let b := if 0 <? outst then 1 else 0 in
        if thas x then
          let nack := negb (all_valid rs) in
          let v' := if nack then tver x else v in
          let s0 := mkS (upd (ts s) t (mkT v' n (tnames x) true)) (pend s) (first s) (live s)
                        (sid s) (sender s) b in
          let '(s', o) := send_on s0 t v' n (b2z nack) (tnames x) in
          (s', hdr true s' outst o)
        else
          let s' := mkS (ts s) (pend s) (first s) (live s) (sid s) (sender s) b in
          (s', hdr true s' outst ([], []))
    else (s, hdr false s 0 ([], []))
  | ANop => (s, hdr false s 0 ([], []))
  end.

Fixpoint run_from (slow : bool) (s : st) (ops : list word) : list word :=
  match ops with
  | [] => []
  | op :: r => let '(s', o) := step slow s (decode op) in o ++ run_from slow s' r
  end.

Definition is_slow (cfg : word) : bool := match cfg with [1] => true | _ => false end.
Definition run (cfg : word) (ops : list word) : option (list word) :=
  Some (run_from (is_slow cfg) init ops).

(* ---- the property as a monitor over (ops, observations) --------------------------------
   The monitor keeps, from the ops and the 'applied' flags only: the subscribed names per
   type, the version of the last accepted response per type, the nonce of the latest response
   per type on the current stream, whether a request was already sent on the current stream,
   and whether watcher callbacks of the previous response are still outstanding.
   clause 1 version   2 nonce   3 names   4 error detail exactly on NACKs   5 node identity on
   the first request of a stream only   6 nothing is read while callbacks are outstanding
   7 the stream is being read whenever nothing is outstanding (not checked from an unknown-type
   response on: the client never reads again, which no sentence of the property excludes)
   9 requests go on the latest stream
   0 malformed observation *)
Record mon := mkM {
  m_subs : Z -> list Z; m_has : Z -> bool; m_av : Z -> Z; m_ln : Z -> Z;
  m_fresh : bool; m_owed : bool; m_live : bool; m_sid : Z; m_dead : bool
}.
Definition updf {A} (f : Z -> A) (t : Z) (v : A) : Z -> A := fun x => if x =? t then v else f x.
Definition mon_init : mon :=
  mkM (updf (fun _ => []) 3 [0]) (updf (fun _ => false) 3 true) (fun _ => 0) (fun _ => 0)
      false false false 0 false.

Fixpoint list_eqb (a b : list Z) : bool :=
  match a, b with
  | [], [] => true
  | x :: a', y :: b' => (x =? y) && list_eqb a' b'
  | _, _ => false
  end.

(* checks of one request word against the monitor; nackt = type being NACKed by this op (or -1) *)
Definition req_clauses (m : mon) (i : Z) (nackt : Z) (r : word) : list (Z * Z * bool) :=
  match r with
  | sidv :: t :: v :: n :: e :: names =>
    [ (9, i, sidv =? m_sid m); (1, i, v =? m_av m t); (2, i, n =? m_ln m t);
      (3, i, list_eqb names (m_subs m t)); (4, i, e =? (if t =? nackt then 1 else 0)) ]
  | _ => [(0, i, false)]
  end.

Fixpoint first_only (fresh : bool) (flags : list Z) : bool :=
  match flags with
  | [] => true
  | f :: r => (f =? b2z fresh) && first_only false r
  end.

(* monitor update for one op; returns the type NACKed by this op (or -1) *)
Definition mon_op (slow : bool) (m : mon) (a : aop) (applied : bool) (outst : Z) : mon * Z :=
  if negb applied then (m, -1) else
  match a with
  | ASub t n | AQSub t n =>
    (mkM (updf (m_subs m) t (ins n (m_subs m t))) (updf (m_has m) t true) (m_av m) (m_ln m)
         (m_fresh m) (m_owed m) (m_live m) (m_sid m) (m_dead m), -1)
  | AUnsub t n | AQUnsub t n =>
    (mkM (updf (m_subs m) t (rem n (m_subs m t))) (m_has m) (m_av m) (m_ln m)
         (m_fresh m) (m_owed m) (m_live m) (m_sid m) (m_dead m), -1)
  | AAllow =>
    (mkM (m_subs m) (m_has m) (m_av m) (fun _ => 0) true (m_owed m) true (m_sid m + 1) (m_dead m), -1)
  | ABreak =>
    (mkM (m_subs m) (m_has m) (m_av m) (m_ln m) (m_fresh m) (m_owed m) false (m_sid m) (m_dead m), -1)
  | ADone =>
    (mkM (m_subs m) (m_has m) (m_av m) (m_ln m) (m_fresh m) false (m_live m) (m_sid m) (m_dead m), -1)
  | AResp t v n rs =>
    if 4 <=? t then
      (mkM (m_subs m) (m_has m) (m_av m) (m_ln m) (m_fresh m) (m_owed m) (m_live m) (m_sid m) true, -1)
    else
      let owed := slow && (0 <? outst) in
      if m_has m t then
        let ok := all_valid rs in
        (mkM (m_subs m) (m_has m) (if ok then updf (m_av m) t v else m_av m) (updf (m_ln m) t n)
             (m_fresh m) owed (m_live m) (m_sid m) (m_dead m), if ok then -1 else t)
      else
        (mkM (m_subs m) (m_has m) (m_av m) (m_ln m) (m_fresh m) owed (m_live m) (m_sid m) (m_dead m), -1)
  | _ => (m, -1)
  end.

Definition reads (a : aop) : bool :=
  match a with AResp _ _ _ _ | ABreak => true | _ => false end.
Definition is_unknown (a : aop) : bool :=
  match a with AResp t _ _ _ => 4 <=? t | _ => false end.

Definition mon_step (slow : bool) (m : mon) (i : Z) (a : aop) (applied : bool) (rw outst : Z)
           (flags : list Z) (reqs : list word) : mon * list (Z * Z * bool) :=
  let c6a := (6, i, negb (applied && reads a && m_owed m)) in
  let '(m1, nackt) := mon_op slow m a applied outst in
  let c6b := (6, i, negb ((rw =? 1) && (0 <? outst))) in
  let creq := flat_map (req_clauses m1 i nackt) reqs in
  let c5 := (5, i, first_only (m_fresh m1) flags) in
  let m2 := match flags with
            | [] => m1
            | _ => mkM (m_subs m1) (m_has m1) (m_av m1) (m_ln m1) false (m_owed m1) (m_live m1)
                       (m_sid m1) (m_dead m1)
            end in
  let want := m_live m2 && negb (m_owed m2) in
  let c78 :=
    if applied && is_unknown a then []   (* nothing is promised after an unknown type: see C42_unknown_type_stalls_note *)
    else if m_dead m2 then []
    else [(7, i, Bool.eqb want (rw =? 1))] in
  (m2, c6a :: c6b :: creq ++ c5 :: c78).

Fixpoint take_words (n : nat) (l : list word) : option (list word * list word) :=
  match n with
  | O => Some ([], l)
  | S n' => match l with
            | [] => None
            | x :: r => match take_words n' r with
                        | Some (a, b) => Some (x :: a, b)
                        | None => None
                        end
            end
  end.

Fixpoint clauses_from (slow : bool) (m : mon) (i : Z) (ops obs : list word) : list (Z * Z * bool) :=
  match ops with
  | [] => match obs with [] => [] | _ => [(0, i, false)] end
  | op :: r =>
    match obs with
    | (ap :: rw :: outst :: flags) :: obs' =>
      match take_words (length flags) obs' with
      | Some (reqs, rest) =>
        let '(m', cl) := mon_step slow m i (decode op) (z2b ap) rw outst flags reqs in
        cl ++ clauses_from slow m' (i + 1) r rest
      | None => [(0, i, false)]
      end
    | _ => [(0, i, false)]
    end
  end.

Definition clauses (cfg : word) (ops obs : list word) : list (Z * Z * bool) :=
  clauses_from (is_slow cfg) mon_init 0 ops obs.

Definition holds_b (cfg : word) (ops obs : list word) : bool :=
  forallb (fun c => snd c) (clauses cfg ops obs).

Definition check_case (c : case) : verdict :=
  decide (run (c_cfg c) (c_ops c)) (c_obs c) (clauses (c_cfg c) (c_ops c) (c_obs c)).
