(* C37: ring hash (engine RingHash).
   Transcribes balancer/ringhash/ring.go (normalizeWeights, newRing, ring.pick) and
   balancer/ringhash/picker.go (picker.Pick, both hash sources).  The float64 arithmetic
   of newRing is done in Coq primitive floats (binary64; vm_compute is bit-exact with Go
   float64 on amd64).  xxhash.Sum64String is uninterpreted: the case carries, for every
   endpoint, the table  idx |-> xxhash(hashKey + "_" + idx)  computed by the real xxhash.
   Hash keys are integers (the driver renders key k as a fixed-width decimal string, so
   the string order of normalizeWeights' sort is the integer order).  No proofs here. *)
From Coq Require Import List ZArith Bool Floats Uint63.
From VLib Require Import Codec Machine.
Import ListNotations.
Open Scope Z_scope.

(* ---------- float64 helpers ---------- *)

(* float64(uint64 z) / float64(uint32 z) for 0 <= z < 2^63 *)
Definition of_u63 (z : Z) : float := of_uint63 (Uint63.of_Z z).

(* math.Min *)
Definition fmin (x y : float) : float :=
  match Prim2SF x, Prim2SF y with
  | S754_infinity true, _ => neg_infinity
  | _, S754_infinity true => neg_infinity
  | S754_nan, _ => nan
  | _, S754_nan => nan
  | S754_zero sx, S754_zero _ => if sx then x else y
  | _, _ => if PrimFloat.ltb x y then x else y
  end.

(* math.Ceil: a finite non-integral float64 has |x| < 2^52, so the result is an exactly
   representable integer; Ceil of a value in (-1, 0) is -0 *)
Definition fceil (x : float) : float :=
  match Prim2SF x with
  | S754_finite s m e =>
    if 0 <=? e then x else
    let d := 2 ^ (- e) in
    let q := Zpos m / d in
    if s then PrimFloat.opp (of_u63 q)
    else of_u63 (if Zpos m mod d =? 0 then q else q + 1)
  | _ => x
  end.

(* ---------- endpoints ---------- *)

(* key: hash key; wt: endpointState.weight (uint32, >= 1);
   hs: the xxhash table, hs[idx] = xxhash(key_idx) as a uint64 *)
Record ep := mkep { key : Z; wt : Z; hs : list Z }.

(* a ring entry: (hashKey, hash); idx is the position in the ring *)
Definition entry := (Z * Z)%type.
Definition ekey (e : entry) : Z := fst e.
Definition ehash (e : entry) : Z := snd e.

(* ---------- normalizeWeights ---------- *)

(* var weightSum uint32; weightSum += w  (iteration order of the map = order of the list) *)
Definition wsum (eps : list ep) : Z := fold_left (fun a e => u32 (a + wt e)) eps 0.

(* float64(weight) / float64(weightSum) *)
Definition nwt (s : Z) (e : ep) : float := (of_u63 (wt e) / of_u63 s)%float.

(* min := 1.0; min = math.Min(min, nw) *)
Definition minw (s : Z) (eps : list ep) : float :=
  fold_left (fun m e => fmin m (nwt s e)) eps 1%float.

(* sort.Slice(ret, hashKey <): hash keys are distinct, so any sort gives this list *)
Fixpoint ins_ep (e : ep) (l : list ep) : list ep :=
  match l with
  | [] => [e]
  | x :: r => if key e <=? key x then e :: l else x :: ins_ep e r
  end.
Fixpoint sort_eps (l : list ep) : list ep :=
  match l with [] => [] | e :: r => ins_ep e (sort_eps r) end.

(* ---------- newRing ---------- *)

(* scale := math.Min(math.Ceil(minWeight*float64(minRingSize))/minWeight, float64(maxRingSize)) *)
Definition scale_of (mn : float) (minR maxR : Z) : float :=
  fmin (fceil (mn * of_u63 minR) / mn) (of_u63 maxR).

(* for currentHashes < targetHashes { append entry hash(key_idx); idx++; currentHashes++ }
   The recursion consumes the hash table; None = the table of the case is too short. *)
Fixpoint inner (k : Z) (tbl : list Z) (cur tgt : float) : option (float * list entry) :=
  if PrimFloat.ltb cur tgt then
    match tbl with
    | [] => None
    | h :: tbl' =>
      match inner k tbl' (cur + 1)%float tgt with
      | Some (c, es) => Some (c, (k, h) :: es)
      | None => None
      end
    end
  else Some (cur, []).

(* for _, epInfo := range normalizedWeights { targetHashes += scale * w; <inner loop> }
   returns currentHashes, targetHashes and the items in creation order *)
Fixpoint outer (sc : float) (s : Z) (eps : list ep) (cur tgt : float)
  : option (float * float * list entry) :=
  match eps with
  | [] => Some (cur, tgt, [])
  | e :: r =>
    let tgt' := (tgt + sc * nwt s e)%float in
    match inner (key e) (hs e) cur tgt' with
    | Some (cur', es) =>
      match outer sc s r cur' tgt' with
      | Some (c, t, es') => Some (c, t, es ++ es')
      | None => None
      end
    | None => None
    end
  end.

(* sort.Slice(items, hash <): hashes are distinct (64-bit xxhash values), so any sort
   gives this list *)
Fixpoint ins_it (e : entry) (l : list entry) : list entry :=
  match l with
  | [] => [e]
  | x :: r => if ehash e <=? ehash x then e :: l else x :: ins_it e r
  end.
Fixpoint sort_items (l : list entry) : list entry :=
  match l with [] => [] | e :: r => ins_it e (sort_items r) end.

(* the endpoints as the map iteration delivers them (any order) -> the items before the
   sort, and the final float target *)
Definition build_raw (minR maxR : Z) (eps : list ep) : option (float * float * list entry) :=
  let s := wsum eps in
  let sc := scale_of (minw s eps) minR maxR in
  outer sc s (sort_eps eps) 0%float 0%float.

(* domain check of the model: every cumulative float target is finite, not below the
   previous one, and at most 2^52 (so the float counter currentHashes stays an exactly
   represented integer).  True for every ring size the configuration parser admits; the
   model refuses (BadCase) to build outside this domain. *)
Definition two52 : float := 0x1p52%float.
Fixpoint tgts_okb (sc : float) (s : Z) (eps : list ep) (tgt : float) : bool :=
  match eps with
  | [] => true
  | e :: r => let tgt' := (tgt + sc * nwt s e)%float in
              PrimFloat.leb tgt tgt' && PrimFloat.leb tgt' two52 && tgts_okb sc s r tgt'
  end.
Definition tgts_ok (minR maxR : Z) (eps : list ep) : bool :=
  let s := wsum eps in
  tgts_okb (scale_of (minw s eps) minR maxR) s (sort_eps eps) 0%float.

Definition new_ring (minR maxR : Z) (eps : list ep) : option (list entry) :=
  match build_raw minR maxR eps with
  | Some (_, _, es) => Some (sort_items es)
  | None => None
  end.

(* ---------- ring.pick ---------- *)

(* sort.Search(n, f) *)
Fixpoint bsearch (fuel : nat) (f : Z -> bool) (i j : Z) : Z :=
  match fuel with
  | O => i
  | S fu =>
    if i <? j then
      let h := (i + j) / 2 in
      if f h then bsearch fu f i h else bsearch fu f (h + 1) j
    else i
  end.

Definition zlen {A} (l : list A) : Z := Z.of_nat (length l).
Definition znth (l : list entry) (i : Z) : entry := nth (Z.to_nat i) l (0, 0).

(* index of the entry returned by r.pick(h); the ring is not empty *)
Definition pick_idx (ring : list entry) (h : Z) : Z :=
  let n := zlen ring in
  let i := bsearch (S (length ring)) (fun k => h <=? ehash (znth ring k)) 0 n in
  if i =? n then 0 else i.

(* ---------- picker.Pick ---------- *)

(* connectivity.State: 0 Idle, 1 Connecting, 2 Ready, 3 TransientFailure, other = unknown.
   sts: hashKey -> state (picker.endpointStates) *)
Definition st_of (sts : list (Z * Z)) (k : Z) : Z :=
  match find (fun p => fst p =? k) sts with Some p => snd p | None => 0 end.

(* result of a Pick: code 0 = the pick is delegated to the child picker of endpoint [key];
   1 = ErrNoSubConnAvailable; 3 = panic (unknown state).  exits = hash keys of the
   endpoints whose exitIdle was called, in order. *)
Definition presult := (Z * Z * list Z)%type.

(* for i := 0; i < ringSize; i++ { index := (e.idx + i) % ringSize ... }  request hash *)
Fixpoint walk_req (fuel : nat) (ring : list entry) (sts : list (Z * Z)) (start i : Z) : presult :=
  match fuel with
  | O => (0, ekey (znth ring start), [])
  | S f =>
    let e := znth ring ((start + i) mod zlen ring) in
    let s := st_of sts (ekey e) in
    if (s =? 0) || (s =? 1) || (s =? 2) then (0, ekey e, [])
    else if s =? 3 then walk_req f ring sts start (i + 1)
    else (3, -1, [])
  end.

(* random hash *)
Fixpoint walk_rnd (fuel : nat) (ring : list entry) (sts : list (Z * Z)) (start i : Z)
         (req : bool) (exits : list Z) : presult :=
  match fuel with
  | O => if req then (1, -1, exits) else (0, ekey (znth ring start), exits)
  | S f =>
    let e := znth ring ((start + i) mod zlen ring) in
    let s := st_of sts (ekey e) in
    if s =? 2 then (0, ekey e, exits)
    else if negb req && (s =? 0) then walk_rnd f ring sts start (i + 1) true (exits ++ [ekey e])
    else walk_rnd f ring sts start (i + 1) req exits
  end.

(* newPickerLocked: hasEndpointInConnectingState *)
Definition has_connecting (sts : list (Z * Z)) : bool := existsb (fun p => snd p =? 1) sts.

Definition pick_req (ring : list entry) (sts : list (Z * Z)) (h : Z) : presult :=
  walk_req (length ring) ring sts (pick_idx ring h) 0.
Definition pick_rnd (ring : list entry) (sts : list (Z * Z)) (h : Z) : presult :=
  walk_rnd (length ring) ring sts (pick_idx ring h) 0 (has_connecting sts) [].

(* the head of picker.Pick: where the request hash comes from.
   hdr  <> 0: requestHashHeader is configured;  xdsp <> 0: the context carries the xDS
   request hash xh;  mdp <> 0: the context has outgoing metadata, with nvals values for
   the header;  hj = xxhash(strings.Join(values, ",")) (uninterpreted: table value);
   r = the value randUint64() returns. *)
Inductive hsrc := SrcErr | SrcReq (h : Z) | SrcRnd (h : Z).
Definition hash_source (hdr xdsp xh mdp : Z) (nvals : nat) (hj r : Z) : hsrc :=
  if hdr =? 0 then (if xdsp =? 0 then SrcErr else SrcReq (u64 xh))
  else if (mdp =? 0) || Nat.eqb nvals 0 then SrcRnd (u64 r) else SrcReq (u64 hj).
(* code 2 = Pick fails without consulting any child picker (no request hash) *)
Definition pick_src (ring : list entry) (sts : list (Z * Z)) (src : hsrc) : presult :=
  match src with
  | SrcErr => (2, -1, [])
  | SrcReq h => pick_req ring sts h
  | SrcRnd h => pick_rnd ring sts h
  end.

(* ---------- cases ----------
   cfg  [minRingSize; maxRingSize; N; then per endpoint: key; weight; L; h_0 .. h_(L-1)]
        (hashes as int64, i.e. uint64 reinterpreted)
   ops  [1; i_1 .. i_k]    build the ring for the endpoints with cfg indices i_1..i_k,
                           inserted into the EndpointMap in that order
                           obs [n; key_0; hash_0; ...; key_(n-1); hash_(n-1)]  (ring order)
                           (indices not distinct / out of range / empty: ignored, obs [])
        [2; h]             ring.pick(h)                    obs [idx; key; hash]
        [3; h; s_0..s_(N-1)]  Pick with request hash h, endpoint i in state s_i
                           obs [code; key; nexit; exit keys...]
        [4; h; s_0..s_(N-1)]  Pick with the random hash h   obs as for 3
        [6; a_1; i_1; ..; a_k; i_k]  resolver update through the real balancer
                           (UpdateClientConnState -> UpdateState -> newRing): address a_j
                           carries hash key and weight of cfg endpoint i_j; obs as for 1
        [5; hdr; xdsp; xh; mdp; nv; v_1..v_nv; hj; r; s_0..s_(N-1)]
                           Pick with the hash source chosen by the real code: header
                           configured or not, xDS hash in the context or not, outgoing
                           metadata with the header values v_1..v_nv (value ids; hj is
                           the real xxhash of their join) or without   obs as for 3
        (2-5 without a non-empty current ring: ignored, obs [])                        *)

Fixpoint take_eps (n : nat) (w : word) : option (list ep) :=
  match n with
  | O => match w with [] => Some [] | _ => None end
  | S n' =>
    match w with
    | k :: wgt :: r =>
      match get_bytes r with
      | Some (tbl, r') =>
        match take_eps n' r' with
        | Some l => Some (mkep k wgt (map u64 tbl) :: l)
        | None => None
        end
      | None => None
      end
    | _ => None
    end
  end.

Record config := mkcfg { minR : Z; maxR : Z; eps_all : list ep }.

(* ring size bounds accepted by the driver (parseConfig caps both at 8M) *)
Definition max_ring : Z := 8388608.

Definition decode_cfg (w : word) : option config :=
  match w with
  | mn :: mx :: n :: r =>
    if (1 <=? mn) && (mn <=? max_ring) && (1 <=? mx) && (mx <=? max_ring) && (0 <=? n) then
      match take_eps (Z.to_nat n) r with
      | Some l => Some (mkcfg mn mx l)
      | None => None
      end
    else None
  | _ => None
  end.

Fixpoint distinct (l : list Z) : bool :=
  match l with
  | [] => true
  | x :: r => negb (existsb (Z.eqb x) r) && distinct r
  end.

Definition nth_ep (c : config) (i : Z) : ep := nth (Z.to_nat i) (eps_all c) (mkep 0 1 []).

(* weights as getWeightAttribute delivers them (uint32, never 0), and a sum that does not
   wrap (the xDS endpoint resource is validated for that) *)
Definition weights_ok (eps : list ep) : bool :=
  forallb (fun e => (1 <=? wt e) && (wt e <=? max_u32)) eps &&
  (fold_left (fun a e => a + wt e) eps 0 <=? max_u32).

(* the endpoints selected by a build op, None when the op is to be ignored *)
Definition select (c : config) (idxs : list Z) : option (list ep) :=
  match idxs with
  | [] => None
  | _ =>
    if forallb (fun i => (0 <=? i) && (i <? zlen (eps_all c))) idxs && distinct idxs
       && weights_ok (map (nth_ep c) idxs)
    then Some (map (nth_ep c) idxs) else None
  end.

(* state of the picker-level model: current ring and its endpoint indices *)
Record mstate := mkst { cur_ring : list entry; cur_idx : list Z }.

Definition ring_obs (r : list entry) : word :=
  zlen r :: flat_map (fun e => [ekey e; i64 (ehash e)]) r.

(* endpointStates of the picker: the endpoints of the current ring with the states of the op *)
Definition sts_of (c : config) (idxs : list Z) (ss : list Z) : list (Z * Z) :=
  map (fun i => (key (nth_ep c i), nth (Z.to_nat i) ss 0)) idxs.

Definition presult_obs (p : presult) : word :=
  let '(code, k, ex) := p in code :: k :: zlen ex :: ex.

(* building the ring for the endpoints with cfg indices idxs *)
Definition step_build (c : config) (s : mstate) (idxs : list Z) : option (mstate * word) :=
  match select c idxs with
  | Some eps =>
    if tgts_ok (minR c) (maxR c) eps then
      match new_ring (minR c) (maxR c) eps with
      | Some r => Some (mkst r idxs, ring_obs r)
      | None => None
      end
    else None
  | None => Some (s, [])
  end.

(* op [6; a_1; i_1; ...; a_k; i_k]: a resolver update delivered to the balancer of the
   case: the endpoint with address a_j now has the hash key and the weight of cfg endpoint
   i_j (endpoints not listed are removed).  Whatever the balancer saw before, the ring
   must be the ring of the CURRENT endpoint set: the model is the one of op 1.
   Malformed lists / repeated addresses: ignored. *)
Fixpoint unpairs (w : word) : option (list Z * list Z) :=
  match w with
  | [] => Some ([], [])
  | a :: i :: r => match unpairs r with Some (la, li) => Some (a :: la, i :: li) | None => None end
  | _ => None
  end.
Definition update_idxs (w : word) : list Z :=
  match unpairs w with
  | Some (la, li) => if distinct la then li else []
  | None => []
  end.

Definition step (c : config) (s : mstate) (op : word) : option (mstate * word) :=
  match op with
  | 1 :: idxs => step_build c s idxs
  | 6 :: rest => step_build c s (update_idxs rest)
  | [2; h] =>
    match cur_ring s with
    | [] => Some (s, [])
    | r => let i := pick_idx r (u64 h) in
           Some (s, [i; ekey (znth r i); i64 (ehash (znth r i))])
    end
  | 3 :: h :: ss =>
    match cur_ring s with
    | [] => Some (s, [])
    | r => Some (s, presult_obs (pick_req r (sts_of c (cur_idx s) ss) (u64 h)))
    end
  | 4 :: h :: ss =>
    match cur_ring s with
    | [] => Some (s, [])
    | r => Some (s, presult_obs (pick_rnd r (sts_of c (cur_idx s) ss) (u64 h)))
    end
  | 5 :: hdr :: xdsp :: xh :: mdp :: rest =>
    match get_bytes rest with
    | Some (vals, hj :: r :: ss) =>
      match cur_ring s with
      | [] => Some (s, [])
      | rg => Some (s, presult_obs (pick_src rg (sts_of c (cur_idx s) ss)
                                      (hash_source hdr xdsp xh mdp (length vals) hj r)))
      end
    | _ => None
    end
  | _ => None
  end.

Fixpoint run_from (c : config) (s : mstate) (ops : list word) : option (list word) :=
  match ops with
  | [] => Some []
  | op :: rest =>
    match step c s op with
    | Some (s', o) =>
      match run_from c s' rest with Some os => Some (o :: os) | None => None end
    | None => None
    end
  end.

Definition run (cfg : word) (ops : list word) : option (list word) :=
  match decode_cfg cfg with
  | Some c => run_from c (mkst [] []) ops
  | None => None
  end.

(* ---------- the property as a predicate on an observed trace ----------
   The clauses are evaluated on the implementation's ring (decoded from its observation),
   with specification functions that do not use the model's loops:
   1  determinism: a build gives the same ring as the earlier build of the same endpoint set
   2  ring well-formed: hashes strictly increasing; the entries of every selected endpoint
      are exactly the first c_k hashes of its table (idx 0..c_k-1); no foreign entries
   3  size >= min_ring_size (when min <= max)
   4  size <= max_ring_size, outside the overshoot class of clause 5
   5  FINDING clause: size <= max_ring_size in the class where the float64 accumulation
      of the targets ends above float64(max_ring_size) (model-computed; by
      RingHashFlt_proofs.size_float this is exactly the class where size > max)
   7  inside the overshoot class the ring has at most max+1 entries
   6  proportionality: |c_k - scale * w_k/sum| < 2 for every selected endpoint
   8  ring.pick: first entry with hash >= h, else entry 0
   9  request-hash Pick: first entry clockwise from pick(h) whose endpoint is not in
      TRANSIENT_FAILURE gets the pick (all in TF: the entry pick(h)); no exitIdle
   10 random-hash Pick: first READY entry clockwise gets the pick; none: queue
      (ErrNoSubConnAvailable) when a connection attempt exists or was requested, else the
      pick(h) entry's picker
   11 random-hash Pick: at most one exitIdle, none when an endpoint is CONNECTING, and
      only on the first IDLE endpoint clockwise (before the first READY one)
   12 hash source: no header configured -> the xDS hash (absent: error, no child picker
      consulted); header configured -> xxhash of the comma-joined header values with the
      request-hash walk (9), or, without metadata / values, the random hash with the
      random-hash walk (10, 11)                                                         *)

Fixpoint decode_ring (w : word) : option (list entry) :=
  match w with
  | [] => Some []
  | k :: h :: r => match decode_ring r with Some l => Some ((k, u64 h) :: l) | None => None end
  | _ => None
  end.
Definition ring_of_obs (o : word) : option (list entry) :=
  match o with
  | n :: r => match decode_ring r with
              | Some l => if zlen l =? n then Some l else None
              | None => None
              end
  | [] => None
  end.

Fixpoint strictly_inc (l : list Z) : bool :=
  match l with
  | a :: ((b :: _) as r) => (a <? b) && strictly_inc r
  | _ => true
  end.

Fixpoint ins_z (x : Z) (l : list Z) : list Z :=
  match l with [] => [x] | y :: r => if x <=? y then x :: l else y :: ins_z x r end.
Fixpoint sort_z (l : list Z) : list Z :=
  match l with [] => [] | x :: r => ins_z x (sort_z r) end.

Definition hashes_of (ring : list entry) (k : Z) : list Z :=
  map ehash (filter (fun e => ekey e =? k) ring).
Definition count_of (ring : list entry) (k : Z) : Z := zlen (hashes_of ring k).

Definition ep_entries_ok (ring : list entry) (e : ep) : bool :=
  let hsr := hashes_of ring (key e) in
  (* in a strictly increasing ring the filtered hashes are already sorted *)
  word_eqb hsr (sort_z (firstn (length hsr) (hs e))) && (length hsr <=? length (hs e))%nat.

Definition ring_wf (ring : list entry) (eps : list ep) : bool :=
  strictly_inc (map ehash ring) &&
  forallb (ep_entries_ok ring) eps &&
  forallb (fun en => existsb (fun e => key e =? ekey en) eps) ring.

(* float-side quantities of the specification (same arithmetic as the code) *)
Definition spec_scale (mn mx : Z) (eps : list ep) : float :=
  scale_of (minw (wsum eps) eps) mn mx.
Definition spec_final_target (mn mx : Z) (eps : list ep) : float :=
  let s := wsum eps in
  fold_left (fun t e => (t + spec_scale mn mx eps * nwt s e)%float) (sort_eps eps) 0%float.
Definition overshoot (mn mx : Z) (eps : list ep) : bool :=
  PrimFloat.ltb (of_u63 mx) (spec_final_target mn mx eps).

Definition prop_ok (mn mx : Z) (eps : list ep) (ring : list entry) (e : ep) : bool :=
  let x := (spec_scale mn mx eps * nwt (wsum eps) e)%float in
  let c := of_u63 (count_of ring (key e)) in
  PrimFloat.ltb c (x + 2)%float && PrimFloat.ltb (x - 2)%float c.

(* ---- pick / walk specifications on a ring ---- *)

(* first index from [i] with hash >= h *)
Fixpoint first_ge (l : list entry) (h i : Z) : option Z :=
  match l with
  | [] => None
  | e :: r => if h <=? ehash e then Some i else first_ge r h (i + 1)
  end.
Definition spec_pick (ring : list entry) (h : Z) : Z :=
  match first_ge ring h 0 with Some i => i | None => 0 end.

(* the ring read clockwise from position [start] *)
Definition rotate (ring : list entry) (start : Z) : list entry :=
  skipn (Z.to_nat start) ring ++ firstn (Z.to_nat start) ring.

Definition spec_req (ring : list entry) (sts : list (Z * Z)) (start : Z) : presult :=
  match find (fun e => negb (st_of sts (ekey e) =? 3)) (rotate ring start) with
  | Some e => let s := st_of sts (ekey e) in
              if (s =? 0) || (s =? 1) || (s =? 2) then (0, ekey e, []) else (3, -1, [])
  | None => (0, ekey (znth ring start), [])
  end.

(* entries strictly before the first READY one *)
Fixpoint before_ready (sts : list (Z * Z)) (l : list entry) : list entry :=
  match l with
  | [] => []
  | e :: r => if st_of sts (ekey e) =? 2 then [] else e :: before_ready sts r
  end.

Definition spec_rnd_exits (ring : list entry) (sts : list (Z * Z)) (start : Z) : list Z :=
  if has_connecting sts then [] else
  match find (fun e => st_of sts (ekey e) =? 0) (before_ready sts (rotate ring start)) with
  | Some e => [ekey e]
  | None => []
  end.

Definition spec_rnd (ring : list entry) (sts : list (Z * Z)) (start : Z) : Z * Z :=
  match find (fun e => st_of sts (ekey e) =? 2) (rotate ring start) with
  | Some e => (0, ekey e)
  | None =>
    match has_connecting sts, spec_rnd_exits ring sts start with
    | false, [] => (0, ekey (znth ring start))
    | _, _ => (1, -1)
    end
  end.

(* the earlier build with the same endpoint set: (sorted indices, obs) *)
Fixpoint lookup_set (hist : list (list Z * word)) (s : list Z) : option word :=
  match hist with
  | [] => None
  | (s', o) :: r => if word_eqb s s' then Some o else lookup_set r s
  end.

Record cstate := mkcs { cs_ring : list entry; cs_idx : list Z; cs_hist : list (list Z * word) }.

Definition cl_build (c : config) (cs : cstate) (pos : Z) (idxs : list Z) (o : word)
  : cstate * list (Z * Z * bool) :=
  match select c idxs with
  | None => (cs, [(0, pos, match o with [] => true | _ => false end)])
  | Some eps =>
    match ring_of_obs o with
    | None => (cs, [(0, pos, false)])
    | Some ring =>
      let sset := sort_z idxs in
      let n := zlen ring in
      let mn := minR c in let mx := maxR c in
      let ov := overshoot mn mx eps in
      (mkcs ring idxs ((sset, o) :: cs_hist cs),
       [(1, pos, match lookup_set (cs_hist cs) sset with Some o' => word_eqb o o' | None => true end);
        (2, pos, ring_wf ring eps);
        (3, pos, if mn <=? mx then mn <=? n else true);
        (4, pos, if ov then true else n <=? mx);
        (5, pos, if ov then n <=? mx else true);
        (7, pos, if ov then n <=? mx + 1 else true);
        (6, pos, forallb (prop_ok mn mx eps ring) eps)])
    end
  end.

Definition cl_req (r : list entry) (sts : list (Z * Z)) (h : Z) (o : word) : bool :=
  word_eqb o (presult_obs (spec_req r sts (spec_pick r h))).
Definition cl_rnd_a (r : list entry) (sts : list (Z * Z)) (h : Z) (o : word) : bool :=
  match o with
  | code :: k :: _ => let '(c0, k0) := spec_rnd r sts (spec_pick r h) in (code =? c0) && (k =? k0)
  | _ => false
  end.
Definition cl_rnd_b (r : list entry) (sts : list (Z * Z)) (h : Z) (o : word) : bool :=
  match o with
  | _ :: _ :: nx :: ex =>
    (nx =? zlen ex) && (nx <=? 1) && (if has_connecting sts then nx =? 0 else true) &&
    word_eqb ex (spec_rnd_exits r sts (spec_pick r h))
  | _ => false
  end.

Definition cl_step (c : config) (cs : cstate) (pos : Z) (op o : word)
  : cstate * list (Z * Z * bool) :=
  match op with
  | 1 :: idxs => cl_build c cs pos idxs o
  | 6 :: rest => cl_build c cs pos (update_idxs rest) o
  | [2; h] =>
    match cs_ring cs with
    | [] => (cs, [(0, pos, match o with [] => true | _ => false end)])
    | r =>
      (cs, [(8, pos, match o with
                     | [i; k; hh] => let j := spec_pick r (u64 h) in
                                     (i =? j) && (k =? ekey (znth r j)) && (u64 hh =? ehash (znth r j))
                     | _ => false
                     end)])
    end
  | 3 :: h :: ss =>
    match cs_ring cs with
    | [] => (cs, [(0, pos, match o with [] => true | _ => false end)])
    | r => (cs, [(9, pos, cl_req r (sts_of c (cs_idx cs) ss) (u64 h) o)])
    end
  | 4 :: h :: ss =>
    match cs_ring cs with
    | [] => (cs, [(0, pos, match o with [] => true | _ => false end)])
    | r =>
      let sts := sts_of c (cs_idx cs) ss in
      (cs, [(10, pos, cl_rnd_a r sts (u64 h) o); (11, pos, cl_rnd_b r sts (u64 h) o)])
    end
  | 5 :: hdr :: xdsp :: xh :: mdp :: rest =>
    match get_bytes rest with
    | Some (vals, hj :: rr :: ss) =>
      match cs_ring cs with
      | [] => (cs, [(0, pos, match o with [] => true | _ => false end)])
      | r =>
        let sts := sts_of c (cs_idx cs) ss in
        (cs, [(12, pos,
               match hash_source hdr xdsp xh mdp (length vals) hj rr with
               | SrcErr => word_eqb o [2; -1; 0]
               | SrcReq h => cl_req r sts h o
               | SrcRnd h => cl_rnd_a r sts h o && cl_rnd_b r sts h o
               end)])
      end
    | _ => (cs, [(0, pos, false)])
    end
  | _ => (cs, [(0, pos, false)])
  end.

Fixpoint clauses_from (c : config) (cs : cstate) (pos : Z) (ops obs : list word)
  : list (Z * Z * bool) :=
  match ops, obs with
  | [], [] => []
  | op :: ops', o :: obs' =>
    let '(cs', cl) := cl_step c cs pos op o in
    cl ++ clauses_from c cs' (pos + 1) ops' obs'
  | _, _ => [(0, pos, false)]
  end.

Definition clauses (cfg : word) (ops obs : list word) : list (Z * Z * bool) :=
  match decode_cfg cfg with
  | Some c => clauses_from c (mkcs [] [] []) 0 ops obs
  | None => [(0, 0, false)]
  end.

(* clauses proved to hold on every model trace (RingHashFlt_proofs.model_trace_holds):
   decoding (0), size <= max outside the overshoot class (4), ring.pick and picker.Pick
   (8-12).  Clauses 1, 2 have Prop-level theorems on the model; 3, 6, 7 (lower bound,
   proportionality, overshoot by at most one) need a float64 error analysis that is not
   done: they are proved on the real-arithmetic idealisation and evaluated on traces. *)
Definition walk_clause (id : Z) : bool := (id =? 0) || (id =? 4) || (8 <=? id).

Definition holds_b (cfg : word) (ops obs : list word) : bool :=
  forallb (fun c => negb (walk_clause (fst (fst c))) || snd c) (clauses cfg ops obs).

Definition check_case (c : case) : verdict :=
  decide (run (c_cfg c) (c_ops c)) (c_obs c) (clauses (c_cfg c) (c_ops c) (c_obs c)).
