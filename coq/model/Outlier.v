(* C40: outlier detection (gRFC A50) ejection / un-ejection arithmetic and counters.
   Transcribes internal/xds/balancer/outlierdetection/balancer.go (UpdateClientConnState
   endpoint bookkeeping, onIntervalConfig / onNoopConfig, intervalTimerAlgorithm,
   successRateAlgorithm, failurePercentageAlgorithm, ejectEndpoint, unejectEndpoint),
   callcounter.go (swap / clear) and the eject / uneject notifications of
   subconn_wrapper.go (what the health listener of an endpoint's sub-channel sees).
   Endpoints are integers 0..K-1 (K = cfg[0]); time is in seconds since the balancer was
   built.  The Go maps are iterated in increasing endpoint id (the real order is random;
   the driver only generates histories whose outcome does not depend on it).
   The failure-percentage test and the max_ejection_percent test are evaluated in IEEE
   doubles exactly as the code does (PrimFloat); the success-rate test is evaluated in
   exact rational arithmetic (its float sums depend on the random map order).
   No proofs here. *)
From Coq Require Import List ZArith Bool Floats Uint63.
From VLib Require Import Codec Machine.
Import ListNotations.
Open Scope Z_scope.

Record ep := mkep {
  a_s : Z; a_f : Z;        (* callCounter.activeBucket *)
  i_s : Z; i_f : Z;        (* callCounter.inactiveBucket *)
  ej : option Z;           (* latestEjectionTimestamp (None = zero time) *)
  mult : Z;                (* ejectionTimeMultiplier *)
  health : Z               (* last state given to the health listener of the endpoint's
                              sub-channel: -1 nothing yet, 1 CONNECTING, 3 TRANSIENT_FAILURE *)
}.

Record conf := mkconf {
  interval : Z; base : Z; maxej : Z; maxpct : Z;
  sr_on : bool; sr_stdev : Z; sr_enf : Z; sr_min : Z; sr_vol : Z;
  fp_on : bool; fp_thr : Z; fp_enf : Z; fp_min : Z; fp_vol : Z
}.

Record state := mkst {
  now : Z;
  cfg : option conf;
  eps : list (Z * ep);          (* b.endpoints, increasing id *)
  numej : Z;                    (* numEndpointsEjected *)
  tstart : option Z;            (* timerStartTime *)
  deadline : option Z;          (* when intervalTimer fires *)
  gD : Z                        (* ghost: ejections of an endpoint that was already ejected *)
}.

Definition init : state := mkst 0 None [] 0 None None 0.

Definition fresh : ep := mkep 0 0 0 0 None 0 (-1).

Definition is_ej (e : ep) : bool := match ej e with Some _ => true | None => false end.
Definition count_ej (l : list (Z * ep)) : Z :=
  fold_right (fun p acc => if is_ej (snd p) then acc + 1 else acc) 0 l.
Definition len (l : list (Z * ep)) : Z := Z.of_nat (length l).

(* ---- the two float tests, bit-exact ---- *)
Definition fl (z : Z) : float := of_uint63 (Uint63.of_Z z).

(* float64(numEndpointsEjected)/float64(b.endpoints.Len())*100 >= float64(MaxEjectionPercent) *)
Definition share_ge (k n mx : Z) : bool :=
  PrimFloat.leb (fl mx) (PrimFloat.mul (PrimFloat.div (fl k) (fl n)) (fl 100)).

(* (float64(numFailures)/float64(numSuccesses+numFailures))*100 > float64(Threshold) *)
Definition rv (e : ep) : Z := u32 (i_s e + i_f e).
Definition fp_fail (thr : Z) (e : ep) : bool :=
  PrimFloat.ltb (fl thr) (PrimFloat.mul (PrimFloat.div (fl (i_f e)) (fl (rv e))) (fl 100)).

(* ---- success rate: successRate < mean - stddev * (factor/1000), exact ----
   With D = prod rv_j and S_j = s_j * D / rv_j:  mean - sr_i = N_i / (n D) where
   N_i = sum S - n S_i,  variance = sum N_j^2 / (n^3 D^2);  the test is
   N_i > 0  /\  N_i^2 * n * 10^6 > F^2 * sum N_j^2.   A considered endpoint with no
   requests makes the mean NaN and every comparison false. *)
Definition prod_rv (l : list (Z * ep)) : Z := fold_right (fun p acc => rv (snd p) * acc) 1 l.
Definition scaled (D : Z) (e : ep) : Z := i_s e * D / rv e.
Definition sum_scaled (D : Z) (l : list (Z * ep)) : Z :=
  fold_right (fun p acc => scaled D (snd p) + acc) 0 l.
Definition dev (D n tot : Z) (e : ep) : Z := tot - n * scaled D e.
Definition sum_sq (D n tot : Z) (l : list (Z * ep)) : Z :=
  fold_right (fun p acc => dev D n tot (snd p) * dev D n tot (snd p) + acc) 0 l.
Definition sr_fail (F : Z) (L : list (Z * ep)) (e : ep) : bool :=
  if existsb (fun p => rv (snd p) =? 0) L then false else
  let D := prod_rv L in let n := len L in let tot := sum_scaled D L in
  let Ni := dev D n tot e in
  (0 <? Ni) && (F * F * sum_sq D n tot L <? Ni * Ni * n * 1000000).

(* endpointsWithAtLeastRequestVolume *)
Definition considered (vol : Z) (l : list (Z * ep)) : list (Z * ep) :=
  filter (fun p => vol <=? rv (snd p)) l.

(* ejectEndpoint (timerStartTime = t) *)
Definition eject_ep (t : Z) (e : ep) : ep :=
  mkep (a_s e) (a_f e) (i_s e) (i_f e) (Some t) (mult e + 1) 3.
(* unejectEndpoint *)
Definition uneject_ep (e : ep) : ep :=
  mkep (a_s e) (a_f e) (i_s e) (i_f e) None (mult e) 1.

(* one loop of successRateAlgorithm / failurePercentageAlgorithm over the endpoints:
   acc = (numEndpointsEjected, gD).  [crit] is the outlier test of the algorithm
   (including "has at least the request volume"), enf its enforcement percentage
   (rand.Int32N(100) < enf: always for enf >= 100, never for enf = 0). *)
Fixpoint pass (crit : ep -> bool) (enf n mx t : Z) (k gd : Z) (l : list (Z * ep))
  : Z * Z * list (Z * ep) :=
  match l with
  | [] => (k, gd, [])
  | (id, e) :: r =>
    if crit e && negb (share_ge k n mx) && (100 <=? enf) then
      let '(k', gd', r') := pass crit enf n mx t (k + 1) (if is_ej e then gd + 1 else gd) r in
      (k', gd', (id, eject_ep t e) :: r')
    else
      let '(k', gd', r') := pass crit enf n mx t k gd r in (k', gd', (id, e) :: r')
  end.

Definition sr_crit (c : conf) (L : list (Z * ep)) (e : ep) : bool :=
  (sr_vol c <=? rv e) && sr_fail (sr_stdev c) L e.
Definition fp_crit (c : conf) (e : ep) : bool :=
  (fp_vol c <=? rv e) && fp_fail (fp_thr c) e.

(* callCounter.swap *)
Definition swap_ep (e : ep) : ep := mkep 0 0 (a_s e) (a_f e) (ej e) (mult e) (health e).

(* un-ejection time: min(base * multiplier, max(base, max_ejection_time)) *)
Definition eject_span (c : conf) (m : Z) : Z := Z.min (base c * m) (Z.max (base c) (maxej c)).

(* last loop of intervalTimerAlgorithm; returns the number of un-ejections *)
Fixpoint sweep (c : conf) (t : Z) (l : list (Z * ep)) : Z * list (Z * ep) :=
  match l with
  | [] => (0, [])
  | (id, e) :: r =>
    let '(u, r') := sweep c t r in
    match ej e with
    | None => if 0 <? mult e
              then (u, (id, mkep (a_s e) (a_f e) (i_s e) (i_f e) None (mult e - 1) (health e)) :: r')
              else (u, (id, e) :: r')
    | Some t0 => if t0 + eject_span c (mult e) <? t then (u + 1, (id, uneject_ep e) :: r')
                 else (u, (id, e) :: r')
    end
  end.

(* intervalTimerAlgorithm at time t = deadline *)
Definition fire (c : conf) (st : state) : state :=
  let t := now st in
  let l0 := map (fun p => (fst p, swap_ep (snd p))) (eps st) in
  let n := len l0 in
  let '(k1, g1, l1) :=
    if sr_on c then
      let L := considered (sr_vol c) l0 in
      if len L <? sr_min c then (numej st, gD st, l0)
      else pass (sr_crit c L) (sr_enf c) n (maxpct c) t (numej st) (gD st) l0
    else (numej st, gD st, l0) in
  let '(k2, g2, l2) :=
    if fp_on c then
      let L := considered (fp_vol c) l1 in
      if len L <? fp_min c then (k1, g1, l1)
      else pass (fp_crit c) (fp_enf c) n (maxpct c) t k1 g1 l1
    else (k1, g1, l1) in
  let '(u, l3) := sweep c t l2 in
  mkst t (Some c) l3 (k2 - u) (Some t) (Some (t + interval c)) g2.

Fixpoint find (id : Z) (l : list (Z * ep)) : option ep :=
  match l with
  | [] => None
  | (i, e) :: r => if i =? id then Some e else find id r
  end.

Definition clear_ep (e : ep) : ep := mkep 0 0 0 0 (ej e) (mult e) (health e).

(* onNoopConfig over the endpoints; returns the number of un-ejections *)
Fixpoint noop_all (l : list (Z * ep)) : Z * list (Z * ep) :=
  match l with
  | [] => (0, [])
  | (id, e) :: r =>
    let '(u, r') := noop_all r in
    let e1 := if is_ej e then uneject_ep e else e in
    (if is_ej e then u + 1 else u,
     (id, mkep (a_s e1) (a_f e1) (i_s e1) (i_f e1) (ej e1) 0 (health e1)) :: r')
  end.

Definition noop (c : conf) : bool := negb (sr_on c) && negb (fp_on c).

(* UpdateClientConnState(config c, endpoints ids) *)
Definition config (c : conf) (ids : list Z) (st : state) : state :=
  let l1 := map (fun id => (id, match find id (eps st) with Some e => e | None => fresh end)) ids in
  (* the delete loop: numEndpointsEjected-- for every removed endpoint that is ejected *)
  let k := numej st - (count_ej (eps st) - count_ej l1) in
  if noop c then
    let '(u, l2) := noop_all l1 in
    mkst (now st) (Some c) l2 (k - u) None None (gD st)
  else
    match tstart st with
    | None =>
      mkst (now st) (Some c) (map (fun p => (fst p, clear_ep (snd p))) l1) k
           (Some (now st)) (Some (now st + interval c)) (gD st)
    | Some t0 =>
      let rem := Z.max 0 (interval c - (now st - t0)) in
      let st1 := mkst (now st) (Some c) l1 k (Some t0) (Some (now st + rem)) (gD st) in
      if rem =? 0 then fire c st1 else st1
    end.

Definition add_calls (ok n : Z) (e : ep) : ep :=
  if ok =? 1 then mkep (u32 (a_s e + n)) (a_f e) (i_s e) (i_f e) (ej e) (mult e) (health e)
  else mkep (a_s e) (u32 (a_f e + n)) (i_s e) (i_f e) (ej e) (mult e) (health e).

Definition calls (id ok n : Z) (st : state) : state :=
  mkst (now st) (cfg st)
       (map (fun p => if fst p =? id then (fst p, add_calls ok n (snd p)) else p) (eps st))
       (numej st) (tstart st) (deadline st) (gD st).

Definition set_now (t : Z) (st : state) : state :=
  mkst t (cfg st) (eps st) (numej st) (tstart st) (deadline st) (gD st).

Fixpoint ascending (lo : Z) (l : list Z) : bool :=
  match l with [] => true | x :: r => (lo <? x) && ascending x r end.

Definition pct (x : Z) : bool := (0 <=? x) && (x <=? 100).
Definition enf_ok (x : Z) : bool := (x =? 0) || (x =? 100).
Definition small (x : Z) : bool := (0 <=? x) && (x <=? 100000).

(* op 1 = [1; interval; base; maxej; maxpct; sr_on; stdev; enf; min; vol;
                fp_on; thr; enf; min; vol; id...] *)
Definition decode_config (K : Z) (w : word) : option (conf * list Z) :=
  match w with
  | iv :: b :: me :: mp :: so :: sd :: se :: sm :: sv :: fo :: ft :: fe :: fm :: fv :: ids =>
    if (1 <=? iv) && small iv && small b && small me && pct mp &&
       ((so =? 0) || (so =? 1)) && small sd && enf_ok se && small sm && small sv &&
       ((fo =? 0) || (fo =? 1)) && pct ft && enf_ok fe && small fm && small fv &&
       ascending (-1) ids && forallb (fun x => x <? K) ids
    then Some (mkconf iv b me mp (so =? 1) sd se sm sv (fo =? 1) ft fe fm fv, ids)
    else None
  | _ => None
  end.

(* ops  [1; config...; ids]   UpdateClientConnState
        [2; id; ok; n]        n finished RPCs on endpoint id (ok = 1 success, 0 failure)
        [3]                   time advances to the interval timer's deadline; it fires
        [4; d]                d seconds pass, but stopping 1 s before the timer's deadline *)
Definition step (K : Z) (st : state) (op : word) : state :=
  match op with
  | 1 :: w =>
    match decode_config K w with Some (c, ids) => config c ids st | None => st end
  | [2; id; ok; n] =>
    if ((ok =? 0) || (ok =? 1)) && (0 <=? n) && (n <=? 1000) then calls id ok n st else st
  | [3] =>
    match cfg st, deadline st with
    | Some c, Some d => fire c (set_now d st)
    | _, _ => st
    end
  | [4; d] =>
    if (0 <=? d) && (d <=? 100000) then
      match deadline st with
      | Some dl => set_now (Z.max (now st) (Z.min (now st + d) (dl - 1))) st
      | None => set_now (now st + d) st
      end
    else st
  | _ => st
  end.

Definition names (K : Z) : list Z := map Z.of_nat (seq 0 (Z.to_nat K)).

Definition ep_obs (st : state) (id : Z) : list Z :=
  match find id (eps st) with
  | Some e => [1; match ej e with Some t => t | None => -1 end; mult e; health e; a_s e; a_f e]
  | None => [0; -1; 0; -1; 0; 0]
  end.

(* obs of one op: [numEndpointsEjected; now; number of endpoints in b.endpoints with a
   non-zero ejection timestamp; then 6 numbers per endpoint id 0..K-1:
   present, ejection time (-1 none), multiplier, health state, active successes, failures] *)
Definition obs_of (K : Z) (st : state) : word :=
  numej st :: now st :: count_ej (eps st) :: flat_map (ep_obs st) (names K).

Fixpoint run_from (K : Z) (st : state) (ops : list word) : list word :=
  match ops with
  | [] => []
  | op :: r => let st' := step K st op in obs_of K st' :: run_from K st' r
  end.

(* cfg = [K] or [K; sym].  sym = 1 marks a case whose last interval has several
   simultaneous outliers while max_ejection_percent binds: which of them the real code
   ejects depends on Go's random map order, so for such a case only the order-independent
   part of each observation (counter, clock, number of ejected endpoints) is compared with
   the model; the per-endpoint records are still judged by every clause. *)
Definition cfg_K (c : word) : option Z :=
  match c with
  | [K] => if (1 <=? K) && (K <=? 64) then Some K else None
  | [K; s] => if (1 <=? K) && (K <=? 64) && ((s =? 0) || (s =? 1)) then Some K else None
  | _ => None
  end.
Definition cfg_sym (c : word) : bool := match c with [_; 1] => true | _ => false end.

Definition run (c : word) (ops : list word) : option (list word) :=
  match cfg_K c with Some K => Some (run_from K init ops) | None => None end.

Fixpoint final (K : Z) (st : state) (ops : list word) : state :=
  match ops with [] => st | op :: r => final K (step K st op) r end.

(* ---- the property evaluated on the implementation's observations ---- *)

(* the implementation's record of endpoint id in observation o *)
Definition o_field (o : word) (id j : Z) : Z := nth (Z.to_nat (3 + 6 * id + j)) o 0.
Definition o_present o id := o_field o id 0 =? 1.
Definition o_ejat o id := o_field o id 1.
Definition o_mult o id := o_field o id 2.
Definition o_health o id := o_field o id 3.
Definition o_count_ej (K : Z) (o : word) : Z :=
  fold_right (fun id acc => if o_present o id && negb (o_ejat o id =? -1) then acc + 1 else acc)
             0 (names K).

(* the model state in which the interval algorithm of this op (if any) started, after the
   bucket swap, and the time at which it ran *)
Definition fired (K : Z) (st : state) (op : word) : option (conf * state) :=
  match op with
  | [3] => match cfg st, deadline st with
           | Some c, Some d => Some (c, set_now d st)
           | _, _ => None
           end
  | 1 :: w =>
    match decode_config K w with
    | Some (c, ids) =>
      if noop c then None else
      match tstart st with
      | Some t0 =>
        if Z.max 0 (interval c - (now st - t0)) =? 0 then
          let l1 := map (fun id => (id, match find id (eps st) with Some e => e | None => fresh end)) ids in
          Some (c, mkst (now st) (Some c) l1 (numej st - (count_ej (eps st) - count_ej l1))
                        (Some t0) (Some (now st)) (gD st))
        else None
      | None => None
      end
    | None => None
    end
  | _ => None
  end.

Definition exact_share_ge (k n mx : Z) : bool := mx * n <=? k * 100.
Definition exact_fp_fail (thr : Z) (e : ep) : bool := (0 <? rv e) && (thr * rv e <? 100 * i_f e).

(* clause 1: an endpoint the implementation ejected at this interval had the request volume
             and failed the criterion of an enabled algorithm (as the code evaluates them)
   clause 2: ... and the ejected share at the start of the interval was below
             max_ejection_percent (as the code evaluates it, in doubles, on its counter)
   clause 3: un-ejection exactly when min(base*mult, max(base, max)) has elapsed
   clause 4: a no-op config un-ejects everything and zeroes the multipliers
   clause 5: the sub-channel of an ejected endpoint shows TRANSIENT_FAILURE
   clause 7: as long as no endpoint was ejected twice (gD = 0), numEndpointsEjected = #ejected as
             counted over b.endpoints, in particular after endpoints were removed while ejected
   clause 6: counter accounting: numEndpointsEjected = #ejected + gD
   clause 8: gD = 0 (fails after an already ejected endpoint was ejected again: finding)
   clause 9: clause 2 with the exact share #ejected/#endpoints (fails on float rounding: finding)
   clause 10: clause 1 with the exact failure percentage (fails on float rounding: finding) *)
Definition swapped (sm : state) : list (Z * ep) :=
  map (fun p => (fst p, swap_ep (snd p))) (eps sm).
(* the outlier test of an enabled algorithm, on the swapped buckets l0 *)
Definition crit_any (c : conf) (l0 : list (Z * ep)) (e : ep) : bool :=
  let L := considered (sr_vol c) l0 in
  (sr_on c && negb (len L <? sr_min c) && sr_crit c L e) || (fp_on c && fp_crit c e).
(* the implementation's record says: endpoint id carries ejection time t *)
Definition ejected_now (o : word) (t id : Z) : bool := o_present o id && (o_ejat o id =? t).

Definition cl1 (K : Z) (fr : option (conf * state)) (prev o : word) : bool :=
  let t := nth 1 o 0 in
  match fr with
  | None => forallb (fun id => negb (ejected_now o t id && negb (o_ejat prev id =? t))) (names K)
  | Some (c, sm) =>
    forallb (fun id =>
      if ejected_now o t id then
        match find id (swapped sm) with
        | Some e => crit_any c (swapped sm) e
        | None => false
        end
      else true) (names K)
  end.

Definition cl2 (K : Z) (fr : option (conf * state)) (o : word) : bool :=
  let t := nth 1 o 0 in
  match fr with
  | None => true
  | Some (c, sm) =>
    if existsb (ejected_now o t) (names K)
    then negb (share_ge (numej sm) (len (eps sm)) (maxpct c)) else true
  end.

Definition cl3 (K : Z) (fr : option (conf * state)) (o : word) : bool :=
  let t := nth 1 o 0 in
  match fr with
  | None => true
  | Some (c, sm) =>
    forallb (fun id =>
      match find id (eps sm) with
      | Some e =>
        if is_ej e && o_present o id && negb (o_ejat o id =? t) then
          Bool.eqb (o_ejat o id =? -1)
                   (match ej e with Some t0 => t0 + eject_span c (o_mult o id) <? t | None => false end)
        else true
      | None => true
      end) (names K)
  end.

(* how many ejections max_ejection_percent admits from counter value k on: the length of the
   run of negative tests share_ge k, share_ge (k+1), ... (at most f of them) *)
Fixpoint room (f : nat) (k n mx : Z) : Z :=
  match f with
  | O => 0
  | S f' => if share_ge k n mx then 0 else 1 + room f' (k + 1) n mx
  end.
(* number of endpoints whose record in observation o carries ejection time t *)
Definition o_count_now (K : Z) (o : word) (t : Z) : Z :=
  Z.of_nat (length (filter (ejected_now o t) (names K))).
Definition count_at (t : Z) (l : list (Z * ep)) : Z :=
  fold_right (fun p acc => match ej (snd p) with
                           | Some x => if x =? t then acc + 1 else acc
                           | None => acc
                           end) 0 l.

(* clause 11: the number of endpoints ejected at this interval is at most the number of
   ejections max_ejection_percent admits from the counter value the interval started with *)
Definition cl11 (K : Z) (fr : option (conf * state)) (o : word) : bool :=
  match fr with
  | None => true
  | Some (c, sm) =>
    o_count_now K o (nth 1 o 0) <=?
    room (2 * length (eps sm)) (numej sm) (len (eps sm)) (maxpct c)
  end.

Definition clause_op (K : Z) (st st' : state) (prev op o : word) (i : Z) : list (Z * Z * bool) :=
  if Z.of_nat (length o) <? 3 + 6 * K then [(0, i, false)] else
  let fr := fired K st op in
  let t := nth 1 o 0 in
  [ (1, i, cl1 K fr prev o);
    (2, i, cl2 K fr o);
    (3, i, cl3 K fr o);
    (11, i, cl11 K fr o);
    (4, i, match op with
           | 1 :: w => match decode_config K w with
                       | Some (c, _) => if noop c then
                           forallb (fun id => negb (o_present o id) ||
                                              ((o_ejat o id =? -1) && (o_mult o id =? 0))) (names K)
                         else true
                       | None => true
                       end
           | _ => true
           end);
    (5, i, forallb (fun id => negb (o_present o id) || (o_ejat o id =? -1) || (o_health o id =? 3))
                   (names K));
    (7, i, negb (gD st' =? 0) || (nth 0 o 0 =? nth 2 o 0));
    (6, i, nth 0 o 0 =? nth 2 o 0 + gD st');
    (8, i, gD st' =? 0);
    (9, i, match fr with
           | None => true
           | Some (c, sm) =>
             if existsb (fun id => o_present o id && (o_ejat o id =? t)) (names K)
             then negb (exact_share_ge (count_ej (eps sm)) (len (eps sm)) (maxpct c)) else true
           end);
    (10, i, match fr with
            | None => true
            | Some (c, sm) =>
              let l0 := map (fun p => (fst p, swap_ep (snd p))) (eps sm) in
              let L := considered (sr_vol c) l0 in
              forallb (fun id =>
                if o_present o id && (o_ejat o id =? t) then
                  match find id l0 with
                  | Some e => (sr_on c && negb (len L <? sr_min c) && sr_crit c L e) ||
                              (fp_on c && (fp_vol c <=? rv e) && exact_fp_fail (fp_thr c) e)
                  | None => false
                  end
                else true) (names K)
            end) ].

(* clauses of the open findings *)
Definition is_finding (id : Z) : bool := (8 <=? id) && (id <=? 10).

Fixpoint clauses_from (K : Z) (st : state) (prev : word) (i : Z) (ops obs : list word)
  : list (Z * Z * bool) :=
  match ops, obs with
  | op :: r, o :: r' =>
    let st' := step K st op in
    clause_op K st st' prev op o i ++ clauses_from K st' o (i + 1) r r'
  | [], [] => []
  | _, _ => [(0, i, false)]
  end.

(* the clauses of the refuted sentences (8-10, known findings) are listed after all others,
   so that any other failure in the case is reported first *)
Definition clauses (c : word) (ops obs : list word) : list (Z * Z * bool) :=
  match cfg_K c with
  | Some K =>
    let l := clauses_from K init (obs_of K init) 0 ops obs in
    filter (fun c => negb (is_finding (fst (fst c)))) l ++ filter (fun c => is_finding (fst (fst c))) l
  | None => [(0, 0, false)]
  end.

(* all clauses but the refuted ones (8-10) *)
Definition holds_b (c : word) (ops obs : list word) : bool :=
  forallb (fun c => is_finding (fst (fst c)) || snd c) (clauses c ops obs).
(* the clauses covered by the (partial) bridge theorem: 0, 4, 5, 6, 7 *)
Definition covered (id : Z) : bool :=
  (id =? 0) || (id =? 4) || (id =? 5) || (id =? 6) || (id =? 7).
Definition holds_cov_b (c : word) (ops obs : list word) : bool :=
  forallb (fun c => negb (covered (fst (fst c))) || snd c) (clauses c ops obs).

(* decide reports every false clause and the first differing observation together; for a
   sym case the observations are compared on their first three numbers only *)
Definition check_case (c : case) : verdict :=
  let proj := fun o : word => if cfg_sym (c_cfg c) then firstn 3 o else o in
  decide (option_map (map proj) (run (c_cfg c) (c_ops c))) (map proj (c_obs c))
         (clauses (c_cfg c) (c_ops c) (c_obs c)).
