(* C35: aggregated connectivity state and the endpoint-sharding round robin.
   Transcribes
     balancer/conn_state_evaluator.go      ConnectivityStateEvaluator (uint64 counters,
                                           updateVal = 2*uint64(idx)-1)
     balancer/endpointsharding/endpointsharding.go
                                           rotateEndpoints, UpdateClientConnState (children
                                           bookkeeping), updateStateLocked (aggregation),
                                           pickerWithChildStates.Pick (uint32 next)
     balancer/weightedtarget/weightedaggregator/aggregator.go
                                           Add / Remove / UpdateState / build (state only)
   Executable definitions only; proofs are in proof/Aggregate_proofs.v. *)
From Coq Require Import List ZArith Bool.
From VLib Require Import Codec Machine.
Import ListNotations.
Open Scope Z_scope.

(* connectivity.State: Idle=0 Connecting=1 Ready=2 TransientFailure=3 Shutdown=4 *)
Definition zlen {A} (l : list A) : Z := Z.of_nat (length l).

(* ------------------------------------------------------------------ *)
(* ConnectivityStateEvaluator                                          *)
Record cse := mkcse { nReady : Z; nConnecting : Z; nTF : Z; nIdle : Z }.
Definition cse0 : cse := mkcse 0 0 0 0.

(* updateVal := 2*uint64(idx) - 1 *)
Definition updateVal (idx : Z) : Z := u64 (2 * idx - 1).

Definition cse_upd (c : cse) (s v : Z) : cse :=
  if s =? 2 then mkcse (u64 (nReady c + v)) (nConnecting c) (nTF c) (nIdle c) else
  if s =? 1 then mkcse (nReady c) (u64 (nConnecting c + v)) (nTF c) (nIdle c) else
  if s =? 3 then mkcse (nReady c) (nConnecting c) (u64 (nTF c + v)) (nIdle c) else
  if s =? 0 then mkcse (nReady c) (nConnecting c) (nTF c) (u64 (nIdle c + v)) else c.

Definition cse_current (c : cse) : Z :=
  if nReady c >? 0 then 2 else
  if nConnecting c >? 0 then 1 else
  if nIdle c >? 0 then 0 else 3.

Definition cse_record (c : cse) (old new : Z) : cse :=
  cse_upd (cse_upd c old (updateVal 0)) new (updateVal 1).

(* ------------------------------------------------------------------ *)
(* The precedence rule of the property, on a list (multiset) of states  *)
Definition has (s : Z) (l : list Z) : bool := existsb (Z.eqb s) l.
Definition precedence (l : list Z) : Z :=
  if has 2 l then 2 else if has 1 l then 1 else if has 0 l then 0 else 3.

(* multiset of child states as seen by a user of the evaluator: a transition is
   consistent when its old state is held by some child (or is untracked = new child) *)
Definition tracked (s : Z) : bool := (0 <=? s) && (s <=? 3).
Fixpoint remove1 (s : Z) (l : list Z) : option (list Z) :=
  match l with
  | [] => None
  | x :: r => if x =? s then Some r else
              match remove1 s r with Some r' => Some (x :: r') | None => None end
  end.
Definition ms_step (ms : list Z) (old new : Z) : option (list Z) :=
  match (if tracked old then remove1 old ms else Some ms) with
  | None => None
  | Some m => Some (if tracked new then new :: m else m)
  end.

(* ------------------------------------------------------------------ *)
(* endpointsharding                                                    *)
Definition child := (Z * Z)%type.          (* endpoint id, last reported connectivity state *)

Fixpoint lookup (id : Z) (l : list child) : option Z :=
  match l with
  | [] => None
  | (i, s) :: r => if i =? id then Some s else lookup id r
  end.
(* children are kept sorted by id (the Go map has no order; observations are sorted) *)
Fixpoint ins (id st : Z) (l : list child) : list child :=
  match l with
  | [] => [(id, st)]
  | (i, s) :: r => if id <? i then (id, st) :: l else
                   if id =? i then (id, st) :: r else (i, s) :: ins id st r
  end.

Definition rnd (nx n : Z) : Z := if nx <? 0 then 0 else nx mod n.   (* pinned randIntN *)

Definition rotate {A} (r : nat) (l : list A) : list A := skipn r l ++ firstn r l.

(* one endpoint of the resolver update: duplicates are skipped; the stub child reports
   state s from inside UpdateClientConnState (s = 9: a new child reports CONNECTING, an
   existing child does not report and keeps its state) *)
Definition add_ep (old : list child) (new : list child) (e : Z * Z) : list child :=
  match lookup (fst e) new with
  | Some _ => new
  | None =>
    let st := if snd e =? 9 then match lookup (fst e) old with Some o => o | None => 1 end
              else snd e in
    ins (fst e) st new
  end.

Definition update_children (old : list child) (r : Z) (eps : list (Z * Z)) : list child :=
  let n := zlen eps in
  let rot := if n =? 0 then eps else rotate (Z.to_nat (rnd r n)) eps in
  fold_left (add_ep old) rot [].

Definition nclosed (old new : list child) : Z :=
  zlen (filter (fun c => match lookup (fst c) new with Some _ => false | None => true end) old).

Record pk := mkpk { pk_agg : Z; pk_ids : list Z; pk_err : bool; pk_n : Z; pk_next : Z }.

Definition ids_in (s : Z) (ch : list child) : list Z :=
  map fst (filter (fun c => snd c =? s) ch).

(* updateStateLocked *)
Definition mkpicker (nx agg : Z) (ids : list Z) (err : bool) : pk :=
  let n := if err then 1 else zlen ids in
  mkpk agg ids err n (u32 (rnd nx n)).
Definition build (ch : list child) (nx : Z) : pk :=
  let ready := ids_in 2 ch in
  let conn := ids_in 1 ch in
  let idle := ids_in 0 ch in
  let tf := ids_in 3 ch in
  if zlen ready >=? 1 then mkpicker nx 2 ready false else
  if zlen conn >=? 1 then mkpicker nx 1 conn false else
  if zlen idle >=? 1 then mkpicker nx 0 idle false else
  if zlen tf >=? 1 then mkpicker nx 3 tf false else
  mkpicker nx 3 [] true.

(* pickerWithChildStates.Pick, k times: positions picked, and the final next *)
Fixpoint picks (n next : Z) (k : nat) : list Z :=
  match k with
  | O => []
  | S k' => let nx := u32 (next + 1) in (nx mod n) :: picks n nx k'
  end.
Fixpoint adv (next : Z) (k : nat) : Z :=
  match k with
  | O => next
  | S k' => adv (u32 (next + 1)) k'
  end.

(* ------------------------------------------------------------------ *)
(* weightedaggregator.Aggregator: id -> (state, stateToAggregate)       *)
Definition agent := (Z * (Z * Z))%type.
Fixpoint ag_lookup (id : Z) (l : list agent) : option (Z * Z) :=
  match l with
  | [] => None
  | (i, v) :: r => if i =? id then Some v else ag_lookup id r
  end.
Fixpoint ag_remove (id : Z) (l : list agent) : list agent :=
  match l with
  | [] => []
  | (i, v) :: r => if i =? id then r else (i, v) :: ag_remove id r
  end.
Fixpoint ag_set (id : Z) (v : Z * Z) (l : list agent) : list agent :=
  match l with
  | [] => []
  | (i, w) :: r => if i =? id then (i, v) :: r else (i, w) :: ag_set id v r
  end.
Definition ag_states (l : list agent) : list Z := map (fun e => snd (snd e)) l.

Definition ag_build (l : list agent) (c : cse) : Z :=
  if zlen l =? 0 then 3 else cse_current c.

(* ------------------------------------------------------------------ *)
(* the machine                                                          *)
Record state := mkst {
  s_cse : cse;                 (* a free-standing evaluator (op 1) *)
  s_ch : list child;           (* endpointSharding.endpoints *)
  s_pk : option pk;            (* last picker pushed to the parent ClientConn *)
  s_ag : list agent;           (* Aggregator.idToPickerState *)
  s_agcse : cse                (* Aggregator.csEvltr *)
}.
Definition st0 : state := mkst cse0 [] None [] cse0.

Fixpoint pairs (l : list Z) : option (list (Z * Z)) :=
  match l with
  | [] => Some []
  | a :: b :: r => match pairs r with Some p => Some ((a, b) :: p) | None => None end
  | _ => None
  end.
Fixpoint flat (l : list child) : list Z :=
  match l with
  | [] => []
  | (a, b) :: r => a :: b :: flat r
  end.

Definition upd_word (ncl : Z) (p : pk) (ch : list child) : word :=
  [1; pk_agg p; pk_n p; b2z (pk_err p); ncl] ++ put_bytes (pk_ids p) ++ put_bytes (flat ch).

Definition maxPicks : Z := 200.
Definition clipk (k : Z) : nat := Z.to_nat (Z.min (Z.max k 0) maxPicks).

(* ops
   [1; old; new]              ConnectivityStateEvaluator.RecordTransition     obs [state]
   [2; r; nx; id1; s1; ...]   endpointSharding.UpdateClientConnState           obs upd_word
   [3; id; s; nx]             child id calls UpdateState(s)                    obs upd_word | [0]
   [4; nx]                    endpointSharding.ResolverError                   obs upd_word
   [5; v]                     (harness) store v into the current picker's next obs [1] | [0]
   [7; k]                     k picks on the current picker                    obs [k; pos*16+state ...] | [0]
   [10; id; w]                Aggregator.Add                                   obs [nupd; state]
   [11; id]                   Aggregator.Remove                                obs [nupd; state]
   [12; id; s]                Aggregator.UpdateState                           obs [nupd; state]
   [13; so; sb; sn]           a fresh real weighted_target balancer with targets a, b: a reports so, b
                              reports sb; a config update changes the child policy NAME of a (the
                              old child is removed, a new one starts in CONNECTING); the new child
                              reports sn          obs [state after phase 1; after the rename; after sn]  *)
Inductive opc :=
| ORec (old new : Z) | OUpd (r nx : Z) (eps : list (Z * Z)) | ORep (id s nx : Z) | OErr (nx : Z)
| OSet (v : Z) | OPick (k : Z) | OAdd (id w : Z) | ORem (id : Z) | OAgU (id s : Z)
| ORen (so sb sn : Z).

Definition decode (op : word) : option opc :=
  match op with
  | [1; old; new] => Some (ORec old new)
  | 2 :: r :: nx :: tl => match pairs tl with Some eps => Some (OUpd r nx eps) | None => None end
  | [3; id; s; nx] => Some (ORep id s nx)
  | [4; nx] => Some (OErr nx)
  | [5; v] => Some (OSet v)
  | [7; k] => Some (OPick k)
  | [10; id; w] => Some (OAdd id w)
  | [11; id] => Some (ORem id)
  | [12; id; s] => Some (OAgU id s)
  | [13; so; sb; sn] => Some (ORen so sb sn)
  | _ => None
  end.

Definition set_pk (σ : state) (ch : list child) (p : pk) : state :=
  mkst (s_cse σ) ch (Some p) (s_ag σ) (s_agcse σ).
Definition set_ag (σ : state) (ag : list agent) (c : cse) : state :=
  mkst (s_cse σ) (s_ch σ) (s_pk σ) ag c.

Definition step (σ : state) (op : opc) : state * word :=
  match op with
  | ORec old new =>
    let c := cse_record (s_cse σ) old new in
    (mkst c (s_ch σ) (s_pk σ) (s_ag σ) (s_agcse σ), [cse_current c])
  | OUpd r nx eps =>
    let ch := update_children (s_ch σ) r eps in
    let p := build ch nx in
    (set_pk σ ch p, upd_word (nclosed (s_ch σ) ch) p ch)
  | ORep id s nx =>
    match lookup id (s_ch σ) with
    | None => (σ, [0])
    | Some _ =>
      let ch := ins id s (s_ch σ) in
      let p := build ch nx in
      (set_pk σ ch p, upd_word 0 p ch)
    end
  | OErr nx =>
    let p := build (s_ch σ) nx in
    (set_pk σ (s_ch σ) p, upd_word 0 p (s_ch σ))
  | OSet v =>
    match s_pk σ with
    | None => (σ, [0])
    | Some p =>
      (set_pk σ (s_ch σ) (mkpk (pk_agg p) (pk_ids p) (pk_err p) (pk_n p) (u32 v)), [1])
    end
  | OPick k =>
    match s_pk σ with
    | None => (σ, [0])
    | Some p =>
      let kk := clipk k in
      let st := if pk_err p then 15 else pk_agg p in
      (set_pk σ (s_ch σ) (mkpk (pk_agg p) (pk_ids p) (pk_err p) (pk_n p) (adv (pk_next p) kk)),
       Z.of_nat kk :: map (fun pos => pos * 16 + st) (picks (pk_n p) (pk_next p) kk))
    end
  | OAdd id w =>
    match ag_lookup id (s_ag σ) with
    | Some _ => (σ, [0; 0])
    | None =>
      let c := cse_record (s_agcse σ) 4 1 in
      let ag := (id, (1, 1)) :: s_ag σ in
      (set_ag σ ag c, [1; ag_build ag c])
    end
  | ORem id =>
    match ag_lookup id (s_ag σ) with
    | None => (σ, [0; 0])
    | Some (st, sa) =>
      let c := cse_record (s_agcse σ) sa 4 in
      let ag := ag_remove id (s_ag σ) in
      (set_ag σ ag c, [1; ag_build ag c])
    end
  | OAgU id s =>
    match ag_lookup id (s_ag σ) with
    | None => (σ, [0; 0])
    | Some (st, sa) =>
      let keep := (st =? 3) && (s =? 1) in
      let c := if keep then s_agcse σ else cse_record (s_agcse σ) sa s in
      let sa' := if keep then sa else s in
      let ag := ag_set id (s, sa') (s_ag σ) in
      (set_ag σ ag c, [1; ag_build ag c])
    end
  | ORen so sb sn => (σ, [precedence [so; sb]; precedence [1; sb]; precedence [sn; sb]])
  end.

Fixpoint run_from (σ : state) (ops : list word) : option (list word) :=
  match ops with
  | [] => Some []
  | op :: r =>
    match decode op with
    | None => None
    | Some oc =>
      let '(σ', o) := step σ oc in
      match run_from σ' r with Some os => Some (o :: os) | None => None end
    end
  end.
Definition run (ops : list word) : option (list word) := run_from st0 ops.

(* final state after a list of operations *)
Fixpoint exec (σ : state) (ops : list word) : option state :=
  match ops with
  | [] => Some σ
  | op :: r => match decode op with
               | None => None
               | Some oc => exec (fst (step σ oc)) r
               end
  end.

(* histories of transitions: the evaluator, and the multiset of child states *)
Fixpoint cse_hist (c : cse) (h : list (Z * Z)) : cse :=
  match h with
  | [] => c
  | (o, n) :: r => cse_hist (cse_record c o n) r
  end.
Fixpoint ms_hist (m : list Z) (h : list (Z * Z)) : option (list Z) :=
  match h with
  | [] => Some m
  | (o, n) :: r => match ms_step m o n with Some m' => ms_hist m' r | None => None end
  end.

(* ------------------------------------------------------------------ *)
(* the property as a predicate on observations                          *)

Definition dec_upd (o : word) : option (Z * Z * Z * Z * Z * list Z * list child) :=
  match o with
  | nupd :: agg :: np :: err :: ncl :: r =>
    match get_bytes r with
    | Some (ids, r2) =>
      match get_bytes r2 with
      | Some (chf, []) =>
        match pairs chf with
        | Some ch => Some (nupd, agg, np, err, ncl, ids, ch)
        | None => None
        end
      | _ => None
      end
    | None => None
    end
  | _ => None
  end.

Fixpoint cnt (s : Z) (l : list Z) : Z :=
  match l with
  | [] => 0
  | x :: r => (if x =? s then 1 else 0) + cnt s r
  end.

(* every position 0..n-1 occurs floor(k/n) or ceil(k/n) times among the k picks *)
Fixpoint fair_upto (i : nat) (n k : Z) (ps : list Z) : bool :=
  match i with
  | O => true
  | S i' => let c := cnt (Z.of_nat i') ps in
            (k / n <=? c) && (c <=? (k + n - 1) / n) && fair_upto i' n k ps
  end.
Definition fair_b (n : Z) (ps : list Z) : bool := fair_upto (Z.to_nat n) n (zlen ps) ps.

Definition two32 : Z := 2 ^ 32.
(* the window of k picks starting after [next] reaches the uint32 wrap *)
Definition crosses (next : Z) (k : Z) : bool := next + k >=? two32.

(* clauses:
   1  evaluator: after a consistent history the returned state is the precedence rule
   2  sharding: exactly one update per operation and its state is the precedence rule
      over the child states the picker carries
   3  sharding: the picker holds exactly the children in the aggregate state (or the
      single error picker when no child is in a tracked state)
   4  picks: each pick is delegated to a child in the aggregate state; over the k picks
      of the op every child is used floor(k/n) or ceil(k/n) times (windows that do not
      reach the uint32 wrap, or n divides 2^32)
   5  the same fairness for a window that crosses the uint32 wrap of next when n does
      not divide 2^32  (refuted: C35_rr_fair_wrap_refuted)
   6  weighted aggregator: reported state is the precedence rule over stateToAggregate
   7  sharding bookkeeping: child set/states and number of closed children as expected *)
Definition clause_upd (i : Z) (ncl_exp : Z) (ch_exp : list child) (o : word) : list (Z * Z * bool) :=
  match dec_upd o with
  | None => [(0, i, false)]
  | Some (nupd, agg, np, err, ncl, ids, ch) =>
    let sts := map snd ch in
    [ (2, i, (nupd =? 1) && (agg =? precedence sts));
      (3, i, if has agg sts && tracked agg
             then (err =? 0) && word_eqb ids (ids_in agg ch) && (np =? zlen ids)
             else (err =? 1) && (np =? 1) && word_eqb ids []);
      (7, i, word_eqb (flat ch) (flat ch_exp) && (ncl =? ncl_exp)) ]
  end.

Definition clause_picks (i : Z) (p : pk) (k : Z) (o : word) : list (Z * Z * bool) :=
  match o with
  | k' :: vs =>
    let ps := map (fun v => v / 16) vs in
    let sts := map (fun v => v mod 16) vs in
    let st := if pk_err p then 15 else pk_agg p in
    let n := pk_n p in
    let base := (k' =? Z.of_nat (clipk k)) && (zlen vs =? k') &&
                forallb (fun s => s =? st) sts &&
                forallb (fun x => (0 <=? x) && (x <? n)) ps in
    if crosses (pk_next p) k' && negb (two32 mod n =? 0)
    then [(4, i, base); (5, i, fair_b n ps)]
    else [(4, i, base && fair_b n ps)]
  | _ => [(0, i, false)]
  end.

Definition clause_op (i : Z) (σ : state) (ms : option (list Z)) (op : opc) (o : word)
  : option (list Z) * list (Z * Z * bool) :=
  match op with
  | ORec old new =>
    let ms' := match ms with Some m => ms_step m old new | None => None end in
    (ms', [(1, i, match ms' with
                  | Some m => if zlen m <? 2 ^ 64 then word_eqb o [precedence m] else true
                  | None => true
                  end)])
  | OUpd _ _ _ | ORep _ _ _ | OErr _ =>
    (ms, let '(σ', mo) := step σ op in
         match mo with
         | [0] => [(7, i, word_eqb o [0])]
         | _ :: _ :: _ :: _ :: ncl :: _ => clause_upd i ncl (s_ch σ') o
         | _ => [(0, i, false)]
         end)
  | OSet _ => (ms, [])
  | OPick k =>
    (ms, match s_pk σ with
         | None => [(4, i, word_eqb o [0])]
         | Some p => clause_picks i p k o
         end)
  | OAdd _ _ | ORem _ | OAgU _ _ =>
    (ms, let '(σ', mo) := step σ op in
         match mo with
         | [0; 0] => [(6, i, word_eqb o [0; 0])]
         | _ =>
           let sts := ag_states (s_ag σ') in
           [(6, i, if zlen sts <? 2 ^ 64 then word_eqb o [1; precedence sts] else true)]
         end)
  | ORen so sb sn =>
    (* the aggregate is the precedence rule over the CURRENT children: the replaced child no
       longer counts, its replacement counts as CONNECTING until it reports *)
    (ms, [(6, i, word_eqb o [precedence [so; sb]; precedence [1; sb]; precedence [sn; sb]])])
  end.

Fixpoint clauses_from (i : Z) (σ : state) (ms : option (list Z)) (ops obs : list word)
  : list (Z * Z * bool) :=
  match ops, obs with
  | op :: r, o :: r' =>
    match decode op with
    | None => [(0, i, false)]
    | Some oc =>
      let '(ms', cl) := clause_op i σ ms oc o in
      cl ++ clauses_from (i + 1) (fst (step σ oc)) ms' r r'
    end
  | [], [] => []
  | _, _ => [(0, i, false)]
  end.
Definition clauses (ops obs : list word) : list (Z * Z * bool) :=
  clauses_from 0 st0 (Some []) ops obs.

(* all clauses but the refuted one (5) *)
Definition holds_b (ops obs : list word) : bool :=
  forallb (fun c => (fst (fst c) =? 5) || snd c) (clauses ops obs).

Definition op_wf (op : word) : bool :=
  match decode op with Some _ => true | None => false end.

Definition check_case (c : case) : verdict :=
  decide (run (c_ops c)) (c_obs c) (clauses (c_ops c) (c_obs c)).
