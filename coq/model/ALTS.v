(* C52: ALTS record framing (credentials/alts/internal/conn).
   Byte level (for the theorems): conn.Write's framing loop, ParseFramedMsg, the frame checks
   and decryption of conn.ReadOnReady, Counter.Inc - over an abstract AEAD (seal/open are
   parameters of the functions; the proof file states their laws as Section hypotheses).
   Length level (for the correspondence run, payloads are up to megabytes so only sizes,
   positions and verdicts travel): what Write puts on the wire for n bytes, and what a Read
   returns given which wire records have been delivered / tampered with.
   No proofs here. *)
From Coq Require Import List ZArith Bool.
From VLib Require Import Codec Machine.
Import ListNotations.
Open Scope Z_scope.

Definition MsgLenFieldSize : Z := 4.
Definition msgTypeFieldSize : Z := 4.
Definition altsRecordLengthLimit : Z := 1048576.
Definition altsRecordDefaultLength : Z := 4096.
Definition altsRecordMsgType : Z := 6.
Definition altsWriteBufferMaxSize : Z := 524288.
Definition GcmTagSize : Z := 16.

(* ================= byte level ================= *)

Definition le32 (x : Z) : list Z :=
  [x mod 256; (x / 256) mod 256; (x / 65536) mod 256; (x / 16777216) mod 256].

Definition rd32 (b : list Z) : option Z :=
  match b with
  | b0 :: b1 :: b2 :: b3 :: _ => Some (b0 + 256 * b1 + 65536 * b2 + 16777216 * b3)
  | _ => None
  end.

Definition zlen {A} (l : list A) : Z := Z.of_nat (length l).

(* the inner loop of Write: payloadLen := min(len(partialB), payloadLengthLimit) *)
Fixpoint chunks (fuel : nat) (limit : Z) (p : list Z) : list (list Z) :=
  match fuel with
  | O => []
  | S f =>
    match p with
    | [] => []
    | _ => let k := Z.to_nat (Z.min (zlen p) limit) in
           firstn k p :: chunks f limit (skipn k p)
    end
  end.

Section AEAD.
  (* crypto.Encrypt / crypto.Decrypt with the record counter as nonce *)
  Variable seal : Z -> list Z -> list Z.
  Variable open : Z -> list Z -> option (list Z).

  (* one record: length field (type + ciphertext), type field, ciphertext+tag *)
  Definition frame (n : Z) (body : list Z) : list Z :=
    le32 (msgTypeFieldSize + zlen (seal n body)) ++ le32 altsRecordMsgType ++ seal n body.

  Fixpoint frames (n : Z) (bodies : list (list Z)) : list Z :=
    match bodies with
    | [] => []
    | b :: r => frame n b ++ frames (n + 1) r
    end.

  (* ParseFramedMsg(b, maxLen) *)
  Inductive parsed := PIncomplete | PTooLong | PFrame (f rest : list Z).
  Definition parse_framed (b : list Z) (maxLen : Z) : parsed :=
    match rd32 b with
    | None => PIncomplete
    | Some len =>
      if len >? maxLen then PTooLong
      else if zlen b <? len + 4 then PIncomplete
      else PFrame (firstn (Z.to_nat (4 + len)) b) (skipn (Z.to_nat (4 + len)) b)
    end.

  (* ReadOnReady on a complete frame: type check (low byte only), then Decrypt *)
  Inductive rres := RIncomplete | RError | ROk (plain rest : list Z).
  Definition read_frame (n : Z) (b : list Z) : rres :=
    match parse_framed b altsRecordLengthLimit with
    | PIncomplete => RIncomplete
    | PTooLong => RError
    | PFrame f rest =>
      let msg := skipn 4 f in
      if zlen msg <? msgTypeFieldSize then RError else
      match rd32 msg with
      | None => RError
      | Some ty =>
        if negb (ty mod 256 =? altsRecordMsgType) then RError else
        match open n (skipn 4 msg) with
        | Some p => ROk p rest
        | None => RError
        end
      end
    end.

  (* read k records in a row from a buffer holding the whole stream *)
  Fixpoint read_records (k : nat) (n : Z) (b : list Z) : option (list (list Z) * list Z) :=
    match k with
    | O => Some ([], b)
    | S k' =>
      match read_frame n b with
      | ROk p rest =>
        match read_records k' (n + 1) rest with
        | Some (ps, r) => Some (p :: ps, r)
        | None => None
        end
      | _ => None
      end
    end.
End AEAD.

(* ---- Counter: value bytes little-endian, Inc touches the first overflowLen bytes ---- *)
Fixpoint inc_bytes (n : nat) (v : list Z) : list Z * bool :=   (* (new value, carried out of all n bytes) *)
  match n with
  | O => (v, true)
  | S n' =>
    match v with
    | [] => ([], true)
    | x :: r =>
      let x' := (x + 1) mod 256 in
      if x' =? 0 then let '(r', c) := inc_bytes n' r in (x' :: r', c)
      else (x' :: r, false)
    end
  end.

Record counter := mkctr { ct_value : list Z; ct_invalid : bool; ct_overflow : Z }.

Definition counter_inc (c : counter) : counter :=
  if ct_invalid c then c else
  let '(v, carry) := inc_bytes (Z.to_nat (ct_overflow c)) (ct_value c) in
  mkctr v carry (ct_overflow c).

Fixpoint le_val (v : list Z) : Z :=
  match v with [] => 0 | x :: r => x + 256 * le_val r end.

(* ================= length level ================= *)

Definition overhead : Z := MsgLenFieldSize + msgTypeFieldSize + GcmTagSize.
Definition max_record (fs : Z) : Z := Z.max altsRecordDefaultLength fs.
Definition payload_limit (fs : Z) : Z := max_record fs - overhead.

Definition cdiv (a b : Z) : Z := (a + b - 1) / b.

(* sizes of the Conn.Write calls of one Write(b), len(b) = n *)
Definition partial_size (fs n : Z) : Z :=
  let L := payload_limit fs in
  if n + cdiv n L * overhead >? altsWriteBufferMaxSize
  then (altsWriteBufferMaxSize / (L + overhead)) * L else n.

Fixpoint write_chunks (fuel : nat) (L ps n : Z) : list Z :=
  match fuel with
  | O => []
  | S f => if n <=? 0 then [] else
           let s := Z.min ps n in
           (s + cdiv s L * overhead) :: write_chunks f L ps (n - s)
  end.

(* payload lengths of the records of one Write *)
Fixpoint record_lens (fuel : nat) (L n : Z) : list Z :=
  match fuel with
  | O => []
  | S f => if n <=? 0 then [] else Z.min L n :: record_lens f L (n - Z.min L n)
  end.

Definition fuel_for (n L : Z) : nat := S (Z.to_nat (n / L)).

(* wire entry: (wire size, index of the record as sealed by the writer, status)
   status 0 clean, 1 modified in bytes 5..7 of the type field only, 2 corrupted *)
Definition entry := (Z * Z * Z)%type.

Record state := mkst {
  t_fs : Z;
  t_wire : list entry;    (* every record written, in wire order after tampering *)
  t_written : Z;          (* records sealed so far *)
  t_deliv : Z;            (* wire bytes delivered to the reader *)
  t_eof : bool;
  t_pos : Z;              (* records consumed by the reader *)
  t_off : Z;              (* plaintext of the current record already returned *)
  t_buf : bool;           (* p.buf holds the rest of the current record *)
  t_dead : bool           (* a Read failed *)
}.

Definition st0 (fs : Z) : state := mkst fs [] 0 0 false 0 0 false false.

Definition esize (e : entry) : Z := fst (fst e).
Definition eidx (e : entry) : Z := snd (fst e).
Definition estat (e : entry) : Z := snd e.

Fixpoint wire_total (w : list entry) : Z :=
  match w with [] => 0 | e :: r => esize e + wire_total r end.

(* start offset of entry number i *)
Fixpoint wire_start (w : list entry) (i : nat) : Z :=
  match i, w with
  | O, _ => 0
  | S i', e :: r => esize e + wire_start r i'
  | S _, [] => 0
  end.

Fixpoint mk_entries (lens : list Z) (idx : Z) : list entry :=
  match lens with
  | [] => []
  | l :: r => (l + overhead, idx, 0) :: mk_entries r (idx + 1)
  end.

Fixpoint list_max (l : list Z) : Z := match l with [] => 0 | x :: r => Z.max x (list_max r) end.

Fixpoint all_eq (x : Z) (l : list Z) : bool :=
  match l with [] => true | y :: r => (y =? x) && all_eq x r end.

Definition middle (l : list Z) : list Z := removelast (tl l).

(* obs of a Write: [n; 0; k; chunk_1..chunk_k; nrec; first; last; middle_all_full; max record size] *)
Definition write_obs (fs n : Z) : word * list Z :=
  let L := payload_limit fs in
  let lens := record_lens (fuel_for n L) L n in
  let cs := write_chunks (fuel_for n L) L (partial_size fs n) n in
  ([n; 0; zlen cs] ++ cs ++
   [zlen lens; hd 0 lens; last lens 0; b2z (all_eq L (middle lens));
    list_max (map (fun l => l + overhead) lens)], lens).

Definition nth_entry (w : list entry) (i : Z) : option entry :=
  if i <? 0 then None else nth_error w (Z.to_nat i).

Fixpoint set_nth (w : list entry) (i : nat) (e : entry) : list entry :=
  match w, i with
  | [], _ => []
  | _ :: r, O => e :: r
  | x :: r, S i' => x :: set_nth r i' e
  end.

Fixpoint remove_nth (w : list entry) (i : nat) : list entry :=
  match w, i with
  | [], _ => []
  | _ :: r, O => r
  | x :: r, S i' => x :: remove_nth r i'
  end.

Fixpoint insert_nth (w : list entry) (i : nat) (e : entry) : list entry :=
  match i, w with
  | O, _ => e :: w
  | S i', x :: r => x :: insert_nth r i' e
  | S _, [] => [e]
  end.

(* tamper with wire record a (it must be wholly undelivered):
   1 flip a bit of byte b of the record   2 drop byte b   3 drop the record
   4 swap with the next record            5 duplicate the record *)
Definition tamper (s : state) (kind a b : Z) : option (list entry) :=
  if t_eof s || (a <? 0) then None else
  let i := Z.to_nat a in
  match nth_error (t_wire s) i with
  | None => None
  | Some e =>
    if wire_start (t_wire s) i <? t_deliv s then None else
    if kind =? 1 then
      if (0 <=? b) && (b <? esize e) then
        Some (set_nth (t_wire s) i
                (esize e, eidx e, if (5 <=? b) && (b <=? 7) then Z.max 1 (estat e) else 2))
      else None
    else if kind =? 2 then
      if (0 <=? b) && (b <? esize e) then Some (set_nth (t_wire s) i (esize e - 1, eidx e, 2)) else None
    else if kind =? 3 then Some (remove_nth (t_wire s) i)
    else if kind =? 4 then
      match nth_error (t_wire s) (S i) with
      | Some e2 => Some (set_nth (set_nth (t_wire s) i e2) (S i) e)
      | None => None
      end
    else if kind =? 5 then Some (insert_nth (t_wire s) (S i) e)
    else None
  end.

Definition set_wire (s : state) (w : list entry) (written : Z) : state :=
  mkst (t_fs s) w written (t_deliv s) (t_eof s) (t_pos s) (t_off s) (t_buf s) (t_dead s).
Definition set_deliv (s : state) (d : Z) (eof : bool) : state :=
  mkst (t_fs s) (t_wire s) (t_written s) d eof (t_pos s) (t_off s) (t_buf s) (t_dead s).
Definition set_reader (s : state) (pos off : Z) (buf dead : bool) : state :=
  mkst (t_fs s) (t_wire s) (t_written s) (t_deliv s) (t_eof s) pos off buf dead.

(* what a Read at a record boundary does; verdict 0 OK, 1 error, 2 would block (op skipped),
   3 reader already failed (op skipped) *)
Inductive expect := XOk (len : Z) | XFail | XBlock.

Definition boundary_expect (s : state) : expect :=
  match nth_entry (t_wire s) (t_pos s) with
  | None => if t_eof s then XFail else XBlock
  | Some e =>
    if estat e =? 2 then (if t_eof s then XFail else XBlock)
    else if wire_start (t_wire s) (Z.to_nat (t_pos s)) + esize e >? t_deliv s then XBlock
    else if negb (eidx e =? t_pos s) then XFail
    else XOk (esize e - overhead)
  end.

Definition read_step (s : state) (bufsize : Z) : state * word :=
  if t_dead s then (s, [3; 0; 0]) else
  if t_buf s then
    let len := match nth_entry (t_wire s) (t_pos s) with Some e => esize e - overhead | None => 0 end in
    let n := Z.min bufsize (len - t_off s) in
    if t_off s + n =? len then (set_reader s (t_pos s + 1) 0 false false, [0; n; 1])
    else (set_reader s (t_pos s) (t_off s + n) true false, [0; n; 1])
  else
    match boundary_expect s with
    | XBlock => (s, [2; 0; 0])
    | XFail => (set_reader s (t_pos s) 0 false true, [1; 0; 0])
    | XOk len =>
      let n := Z.min bufsize len in
      if n =? len then (set_reader s (t_pos s + 1) 0 false false, [0; n; 1])
      else (set_reader s (t_pos s) n true false, [0; n; 1])
    end.

(* ---- case encoding
   cfg = [fs]  negotiated max frame size
   op  = [1; n] Write(n bytes)   [2; bufsize] Read   [3; k] the network delivers k more wire bytes
         [4; kind; a; b] tamper   [5] deliver everything and close   [7; ov; v_0..v_11] Counter.Inc
   obs: write: see write_obs;  read: [verdict; n; content_ok];  deliver/eof: [delivered total];
        tamper: [applied];  counter: [invalid; v_0..v_11] *)
Definition step (s : state) (op : word) : option (state * word) :=
  match op with
  | [1; n] =>
    if (n <? 0) || t_eof s then Some (s, [-1]) else
    let '(o, lens) := write_obs (t_fs s) n in
    Some (set_wire s (t_wire s ++ mk_entries lens (t_written s)) (t_written s + zlen lens), o)
  | [2; bs] => if bs <? 0 then Some (s, [-1]) else Some (read_step s bs)
  | [3; k] =>
    if (k <? 0) || t_eof s then Some (s, [t_deliv s]) else
    let d := Z.min (t_deliv s + k) (wire_total (t_wire s)) in
    Some (set_deliv s d false, [d])
  | [4; kind; a; b] =>
    match tamper s kind a b with
    | Some w => Some (set_wire s w (t_written s), [1])
    | None => Some (s, [0])
    end
  | [5] => Some (set_deliv s (wire_total (t_wire s)) true, [wire_total (t_wire s)])
  | 7 :: ov :: v =>
    if (Z.of_nat (length v) =? 12) && (0 <=? ov) && (ov <=? 12) then
      let c := counter_inc (mkctr v false ov) in
      Some (s, b2z (ct_invalid c) :: ct_value c)
    else None
  | _ => None
  end.

Fixpoint run_from (s : state) (ops : list word) : option (list word) :=
  match ops with
  | [] => Some []
  | op :: r =>
    match step s op with
    | Some (s', o) => match run_from s' r with Some os => Some (o :: os) | None => None end
    | None => None
    end
  end.

Definition fs_ok (fs : Z) : bool := (0 <=? fs) && (fs <=? altsWriteBufferMaxSize).

Definition run (cfg : word) (ops : list word) : option (list word) :=
  match cfg with
  | [fs] => if fs_ok fs then run_from (st0 fs) ops else None
  | _ => None
  end.

(* ---- the property on observations; the expectations come from the model state reached
   by the same ops (which record is next, whether it was tampered with)
   clause 1: every record written is at most max(4096, fs) bytes on the wire
   clause 2: a Read that succeeds returns exactly the next bytes of the written stream
             (content_ok, computed by the driver against the written bytes), at most bufsize
   clause 3: a Read that has to consume a corrupted, reordered, replayed or missing record
             fails (and a failed reader is not used again)
   clause 5: a Read whose next record is clean, in order and wholly delivered (or that still
             has buffered plaintext) succeeds
   (a record whose header bytes 5..7 - the unauthenticated upper bytes of the message type -
    were changed is accepted with the correct plaintext: status 1 entries read like clean
    ones; this is model behaviour compared by correspondence, not a property clause)
   clause 4: Counter.Inc adds one to the little-endian value of the first overflowLen bytes,
             leaves the other bytes alone, and becomes invalid exactly when they wrap *)
Definition clause_op (s : state) (op obs : word) : list (Z * Z * bool) :=
  match op with
  | [1; n] =>
    if (n <? 0) || t_eof s then [] else
    [(1, n, match rev obs with mx :: _ => mx <=? max_record (t_fs s) | [] => false end)]
  | [2; bs] =>
    if (bs <? 0) || t_dead s then [] else
    match obs with
    | [v; n; ok] =>
      [(2, bs, if v =? 0 then (ok =? 1) && (n <=? bs) else true);
       (3, bs, if t_buf s then true else
               match boundary_expect s with XFail => v =? 1 | _ => true end);
       (5, bs, if t_buf s then v =? 0 else
               match boundary_expect s with XOk _ => v =? 0 | _ => true end)]
    | _ => [(0, 0, false)]
    end
  | 7 :: ov :: v =>
    match obs with
    | inv :: v' =>
      let k := Z.to_nat ov in
      let old := le_val (firstn k v) in
      let new := le_val (firstn k v') in
      [(4, ov, (Z.of_nat (length v') =? Z.of_nat (length v)) &&
               word_eqb (skipn k v) (skipn k v') &&
               (if old + 1 =? 256 ^ ov then (inv =? 1) else (inv =? 0) && (new =? old + 1)))]
    | [] => [(0, 0, false)]
    end
  | _ => []
  end.

Fixpoint clauses_from (s : state) (ops obs : list word) : list (Z * Z * bool) :=
  match ops, obs with
  | op :: r, o :: r' =>
    clause_op s op o ++
    match step s op with
    | Some (s', _) => clauses_from s' r r'
    | None => [(0, 0, false)]
    end
  | [], [] => []
  | _, _ => [(0, 0, false)]
  end.

(* a clause with id 6 (none is emitted at present) would be reported only when every other
   clause of the case holds, so that a listed finding cannot mask another failure *)
Definition reorder (l : list (Z * Z * bool)) : list (Z * Z * bool) :=
  filter (fun c => negb (fst (fst c) =? 6)) l ++ filter (fun c => fst (fst c) =? 6) l.

Definition clauses (cfg : word) (ops obs : list word) : list (Z * Z * bool) :=
  match cfg with
  | [fs] => if fs_ok fs then reorder (clauses_from (st0 fs) ops obs) else [(0, 0, false)]
  | _ => [(0, 0, false)]
  end.

Definition holds_b (cfg : word) (ops obs : list word) : bool :=
  forallb (fun c => snd c) (clauses cfg ops obs).

Definition core_ok (cl : Z * Z * bool) : bool := snd cl || (fst (fst cl) =? 6).
Definition holds_core (cfg : word) (ops obs : list word) : bool :=
  forallb core_ok (clauses cfg ops obs).

Definition check_case (c : case) : verdict :=
  decide (run (c_cfg c) (c_ops c)) (c_obs c) (clauses (c_cfg c) (c_ops c) (c_obs c)).
