(* C45: xDS resource validation (EDS completely, RDS route validation).
   Transcribes internal/xds/xdsclient/xdsresource/unmarshal_eds.go
   (unmarshalEndpointsResource, parseEDSRespProto, parseEndpoints, parseDropPolicy) and
   unmarshal_rds.go (unmarshalRouteConfigResource, routesProtoToSlice) over an abstract
   syntax of the protos.  Strings are abstract identifiers (addresses, locality ids,
   route indices); every proto uint32 field is read through [u32].  Go maps are modelled
   by the list of what has been inserted (membership / per-key sums only, so iteration
   order never matters).  No proofs here. *)
From Coq Require Import List ZArith Bool.
From VLib Require Import Codec Machine.
Import ListNotations.
Open Scope Z_scope.

Definition mem (x : Z) (l : list Z) : bool := existsb (Z.eqb x) l.
Fixpoint zsum (l : list Z) : Z := match l with [] => 0 | x :: r => x + zsum r end.
Fixpoint nodupb (l : list Z) : bool :=
  match l with [] => true | x :: r => negb (mem x r) && nodupb r end.
Definition zseq (n : nat) : list Z := map Z.of_nat (seq 0 n).

(* ---------- abstract syntax: ClusterLoadAssignment / EndpointsUpdate ---------- *)
(* LbEndpoint: load_balancing_weight present?, its value, primary address, additional
   addresses.  The same record is the Endpoint of the update (ep_hasw = true). *)
Record lbep := mk_ep { ep_hasw : bool; ep_w : Z; ep_addr : Z; ep_extra : list Z }.
(* LocalityLbEndpoints: locality present?, locality id (region/zone/sub_zone triple),
   load_balancing_weight value (0 = unset), priority, endpoints.  Also the update's Locality. *)
Record loc := mk_loc { l_hasid : bool; l_id : Z; l_w : Z; l_prio : Z; l_eps : list lbep }.
(* cluster_name non-empty?, drop overloads (numerator, denominator), localities.
   For an update: c_named = accepted, denominators are 100/10000/1000000. *)
Record cla := mk_cla { c_named : bool; c_drops : list (Z * Z); c_locs : list loc }.

(* parseDropPolicy: denominator enum HUNDRED=0, TEN_THOUSAND=1, MILLION=2 *)
Definition drop_den (d : Z) : option Z :=
  if d =? 0 then Some 100 else if d =? 1 then Some 10000 else
  if d =? 2 then Some 1000000 else None.

Fixpoint parse_drops (ds : list (Z * Z)) : option (list (Z * Z)) :=
  match ds with
  | [] => Some []
  | (n, d) :: r =>
    match drop_den (u32 d), parse_drops r with
    | Some v, Some o => Some ((u32 n, v) :: o)
    | _, _ => None
    end
  end.

(* the inner loop of parseEndpoints over one endpoint's addresses; [seen] is
   uniqueEndpointAddrs *)
Fixpoint add_addrs (l seen : list Z) : option (list Z) :=
  match l with
  | [] => Some seen
  | a :: r => if mem a seen then None else add_addrs r (a :: seen)
  end.

(* additional addresses are read only when envconfig.XDSDualstackEndpointsEnabled *)
Definition ep_extras (dual : bool) (e : lbep) : list Z :=
  if dual then map u32 (ep_extra e) else [].

(* parseEndpoints; total is the uint64 totalWeight (<= MaxUint32 before every addition,
   so the uint64 addition cannot wrap) *)
Fixpoint parse_eps (dual : bool) (es : list lbep) (total : Z) (seen : list Z)
  : option (list lbep * list Z) :=
  match es with
  | [] => Some ([], seen)
  | e :: r =>
    let w := if ep_hasw e then u32 (ep_w e) else 1 in
    if w =? 0 then None else
    if total + w >? max_u32 then None else
    match add_addrs (u32 (ep_addr e) :: ep_extras dual e) seen with
    | None => None
    | Some seen' =>
      match parse_eps dual r (total + w) seen' with
      | None => None
      | Some (out, s) => Some (mk_ep true w (u32 (ep_addr e)) (ep_extras dual e) :: out, s)
      end
    end
  end.

(* sumOfWeights[p] given the localities accepted so far *)
Definition sum_prio (p : Z) (acc : list loc) : Z :=
  zsum (map l_w (filter (fun l => l_prio l =? p) acc)).
Definition key_eq (id p : Z) (l : loc) : bool := (l_id l =? id) && (l_prio l =? p).

(* the locality loop of parseEDSRespProto; acc = ret.Localities (which also determines
   the maps priorities and sumOfWeights), seen = uniqueEndpointAddrs *)
Fixpoint eds_locs (dual : bool) (ls : list loc) (acc : list loc) (seen : list Z)
  : option (list loc) :=
  match ls with
  | [] => Some acc
  | l :: r =>
    if negb (l_hasid l) then None else
    let w := u32 (l_w l) in
    if w =? 0 then eds_locs dual r acc seen else
    let p := u32 (l_prio l) in
    let id := u32 (l_id l) in
    if sum_prio p acc + w >? max_u32 then None else
    if existsb (key_eq id p) acc then None else
    match parse_eps dual (l_eps l) 0 seen with
    | None => None
    | Some (eps, seen') => eds_locs dual r (acc ++ [mk_loc true id w p eps]) seen'
    end
  end.

Definition prios (ls : list loc) : list Z := map l_prio ls.
(* for i := 0; i < len(priorities); i++ { priorities[uint32(i)] must exist } *)
Definition contiguous_b (ps : list Z) : bool :=
  forallb (fun i => mem i ps) (zseq (length (nodup Z.eq_dec ps))).

(* unmarshalEndpointsResource after proto.Unmarshal *)
Definition parse_eds (dual : bool) (c : cla) : option cla :=
  if negb (c_named c) then None else
  match parse_drops (c_drops c) with
  | None => None
  | Some ds =>
    match eds_locs dual (c_locs c) [] [] with
    | None => None
    | Some acc => if contiguous_b (prios acc) then Some (mk_cla true ds acc) else None
    end
  end.

(* ---------- the EDS invariants of the property, on any update ---------- *)
Definition ep_all (e : lbep) : list Z := ep_addr e :: ep_extra e.
Definition all_addrs (ls : list loc) : list Z :=
  flat_map (fun l => flat_map ep_all (l_eps l)) ls.
Fixpoint keys_nodupb (ls : list loc) : bool :=
  match ls with
  | [] => true
  | l :: r => negb (existsb (key_eq (l_id l) (l_prio l)) r) && keys_nodupb r
  end.
Definition ep_weights_ok (l : loc) : bool :=
  forallb (fun e => 1 <=? ep_w e) (l_eps l) && (zsum (map ep_w (l_eps l)) <=? max_u32).
Definition weights_ok (ls : list loc) : bool :=
  forallb (fun l => (1 <=? l_w l) && ep_weights_ok l && (sum_prio (l_prio l) ls <=? max_u32)) ls.
Definition drops_ok (ds : list (Z * Z)) : bool :=
  forallb (fun nd => mem (snd nd) [100; 10000; 1000000]) ds.

(* ---------- abstract syntax: Route (input) / xdsresource.Route (update) ---------- *)
(* input:  r_idx     identifies the route (it is spliced into the path string)
           r_hasmatch match != nil;  r_nq number of query_parameters
           r_path    0 none, 1 prefix, 2 path, 3 safe_regex (valid), 4 safe_regex (invalid),
                     5 connect_matcher (unrecognised)
           r_case    0 unset, 1 case_sensitive=true, 2 case_sensitive=false
           r_hasfrac/r_fnum/r_fden  runtime_fraction.default_value
           r_action  0 none, 1 route, 2 non_forwarding_action, 3 redirect
           r_cs      (action = route) 0 unset, 1 cluster, 2 weighted_clusters, 3 cluster_header,
                     4 plugin not in the RouteConfiguration, 5 optional unsupported plugin,
                     6 supported plugin
           r_hdrs    header matcher kinds: 1 exact, 2 safe_regex valid, 3 safe_regex invalid,
                     4 range, 5 present, 6/7 prefix non-empty/empty, 8/9 suffix, 10/11 contains,
                     12 string_match{} (no pattern), 13 string_match exact,
                     14 string_match invalid regex, other = no specifier
           r_wcs     weights of weighted_clusters.clusters
   update: r_path in 1..3 (Prefix/Path/Regex set), r_case 2 iff CaseInsensitive,
           r_fnum = *Fraction, r_action = ActionType (0 Unsupported, 1 Route, 2 NonForwarding),
           r_cs 2 = WeightedClusters set / 6 = ClusterSpecifierPlugin set / 0 neither,
           r_hdrs: 1 StringMatch, 2 RegexMatch, 4 RangeMatch, 5 PresentMatch; r_wcs weights *)
Record route := mk_route {
  r_idx : Z; r_hasmatch : bool; r_nq : Z; r_path : Z; r_case : Z;
  r_hasfrac : bool; r_fnum : Z; r_fden : Z; r_action : Z; r_cs : Z;
  r_hdrs : list Z; r_wcs : list Z }.

Definition hdr_out (k : Z) : option Z :=
  if mem k [1; 6; 8; 10; 13] then Some 1 else
  if k =? 2 then Some 2 else if k =? 4 then Some 4 else if k =? 5 then Some 5 else None.
Fixpoint parse_hdrs (ks : list Z) : option (list Z) :=
  match ks with
  | [] => Some []
  | k :: r => match hdr_out k, parse_hdrs r with
              | Some o, Some os => Some (o :: os)
              | _, _ => None
              end
  end.

(* n *= 10000 / n *= 100 in uint32 *)
Definition frac_scale (den : Z) : Z :=
  if den =? 0 then 10000 else if den =? 1 then 100 else 1.
Definition frac_exact (num den : Z) : Z := u32 num * frac_scale (u32 den).
Definition frac_value (num den : Z) : Z := u32 (frac_exact num den).

(* the weighted_clusters loop: zero weights skipped, uint64 total checked *)
Fixpoint wc_loop (ws : list Z) (total : Z) : option (list Z * Z) :=
  match ws with
  | [] => Some ([], total)
  | w0 :: r =>
    let w := u32 w0 in
    if w =? 0 then wc_loop r total else
    if total + w >? max_u32 then None else
    match wc_loop r (total + w) with
    | None => None
    | Some (o, t) => Some (w :: o, t)
    end
  end.

Inductive rres := RErr | RSkip | RKeep (r : route).

(* one iteration of the loop of routesProtoToSlice *)
Definition parse_route (r : route) : rres :=
  if negb (r_hasmatch r) then RErr else
  if negb (u32 (r_nq r) =? 0) then RSkip else
  if negb (mem (r_path r) [1; 2; 3]) then RErr else
  match parse_hdrs (r_hdrs r) with
  | None => RErr
  | Some hs =>
    let frac := if r_hasfrac r then frac_value (r_fnum r) (r_fden r) else 0 in
    let mk := fun act cs wcs =>
      RKeep (mk_route (u32 (r_idx r)) true 0 (r_path r) (if r_case r =? 2 then 2 else 1)
                      (r_hasfrac r) frac 2 act cs hs wcs) in
    if r_action r =? 1 then
      let cs := r_cs r in
      if cs =? 1 then mk 1 2 [1]
      else if cs =? 2 then
        match wc_loop (r_wcs r) 0 with
        | None => RErr
        | Some (ws, t) => if t =? 0 then RErr else mk 1 2 ws
        end
      else if cs =? 4 then RErr
      else if cs =? 6 then mk 1 6 []
      else RSkip
    else if r_action r =? 2 then mk 2 0 []
    else mk 0 0 []
  end.

Fixpoint parse_routes (rs : list route) : option (list route) :=
  match rs with
  | [] => Some []
  | r :: t =>
    match parse_route r with
    | RErr => None
    | RSkip => parse_routes t
    | RKeep o => match parse_routes t with
                 | None => None
                 | Some os => Some (o :: os)
                 end
    end
  end.

(* unmarshalRouteConfigResource after proto.Unmarshal, one virtual host *)
Definition parse_rds (named : bool) (rs : list route) : option (list route) :=
  if negb named then None else parse_routes rs.

(* ---------- the RDS invariants of the property, on any update ---------- *)
Definition path_ok (o : route) : bool := mem (r_path o) [1; 2; 3].
Definition action_enum_ok (o : route) : bool := mem (r_action o) [0; 1; 2].
Definition action_supported (o : route) : bool := negb (r_action o =? 0).
Definition wc_ok (o : route) : bool :=
  if r_action o =? 1 then
    if r_cs o =? 2 then
      forallb (fun w => 1 <=? w) (r_wcs o) && (1 <=? zsum (r_wcs o)) && (zsum (r_wcs o) <=? max_u32)
    else (r_cs o =? 6) && match r_wcs o with [] => true | _ => false end
  else true.
(* the update's fraction is the configured one in millionths ... *)
Definition frac_is_exact (rs : list route) (o : route) : bool :=
  existsb (fun r => (u32 (r_idx r) =? r_idx o) && r_hasfrac r &&
                    (frac_exact (r_fnum r) (r_fden r) =? r_fnum o)) rs.
(* ... or that value wrapped in uint32 *)
Definition frac_is_wrapped (rs : list route) (o : route) : bool :=
  existsb (fun r => (u32 (r_idx r) =? r_idx o) && r_hasfrac r &&
                    (frac_value (r_fnum r) (r_fden r) =? r_fnum o)) rs.

(* ---------- HttpConnectionManager.http_filters (unmarshal_lds.go processHTTPFilters) ----------
   a filter is (kind, is_optional, name id); name id 0 = empty name.
   kind 1 router (terminal, client+server), 2 non-terminal client+server, 3 non-terminal
   client-only, 4 non-terminal server-only, 6 registered but its config does not parse,
   anything else = no filter registered for the type_url.
   The result lists the retained filters (kind, name). *)
Definition flt_registered (k : Z) : bool := mem k [1; 2; 3; 4; 6].
Definition flt_supported (server : bool) (k : Z) : bool :=
  if server then mem k [1; 2; 4] else mem k [1; 2; 3].

Fixpoint flt_loop (server : bool) (fs : list (Z * Z * Z)) (seen : list Z) : option (list (Z * Z)) :=
  match fs with
  | [] => Some []
  | (k, o, n0) :: r =>
    let n := u32 n0 in
    if n =? 0 then None else
    if mem n seen then None else
    if negb (flt_registered k) then (if z2b o then flt_loop server r (n :: seen) else None) else
    if k =? 6 then None else
    if negb (flt_supported server k) then (if z2b o then flt_loop server r (n :: seen) else None) else
    match flt_loop server r (n :: seen) with
    | None => None
    | Some out => Some ((k, n) :: out)
    end
  end.

(* the list is not empty, no filter but the last is terminal, the last one is terminal *)
Definition term_ok (ret : list (Z * Z)) : bool :=
  match rev ret with
  | [] => false
  | l :: r => (fst l =? 1) && forallb (fun f => negb (fst f =? 1)) r
  end.

(* unmarshalListenerResource for a Listener that is otherwise valid: an API listener with an
   RDS route specifier (server = false) or a server-side listener whose filter chains all
   carry the same HttpConnectionManager (server = true) *)
Definition parse_lds (named server : bool) (fs : list (Z * Z * Z)) : option (list (Z * Z)) :=
  if negb named then None else
  match flt_loop server fs [] with
  | None => None
  | Some ret => if term_ok ret then Some ret else None
  end.

(* ---------- requests and the word stream ---------- *)
Inductive req :=
| REds (c : cla)
| RRds (named : bool) (rs : list route)
| RLds (named server : bool) (fs : list (Z * Z * Z))
| RRaw (w : word).

(* items collected (right to left) for the flush word to their right *)
Record pend := mk_pend {
  p_eps : list lbep; p_locs : list loc; p_drops : list (Z * Z);
  p_hdrs : list Z; p_wcs : list Z; p_routes : list route; p_flts : list (Z * Z * Z) }.
Definition pend0 : pend := mk_pend [] [] [] [] [] [] [].
Definition dst : Type := pend * option (Z * bool * bool) * list req.
Definition dst0 : dst := (pend0, None, []).

Definition close (s : dst) : list req :=
  match s with
  | (p, Some (k, f, sv), done) =>
    if k =? 9 then REds (mk_cla f (p_drops p) (p_locs p)) :: done
    else if k =? 10 then RRds f (p_routes p) :: done
    else RLds f sv (p_flts p) :: done
  | (_, None, done) => done
  end.

(* words:  [1; hasid; lid; weight; prio]   locality (owns the endpoint words after it)
           2 :: hasw :: w :: addr :: extra  endpoint
           [3; num; den]                    drop overload
           [4; idx; hasmatch; nq; path; case; hasfrac; fnum; fden; action; cs]  route
           [5; kind]                        header matcher of the last route
           [6; w]                           weighted cluster of the last route
           [7; kind; optional; name]        HTTP filter of the HttpConnectionManager
           [9; flag] / [10; flag]           end of a ClusterLoadAssignment / RouteConfiguration
                                            (flag: ops = name non-empty, obs = accepted)
           [11; flag; server]               end of a Listener (API listener / server-side)
           20 :: rest                       raw-bytes request / its result
   anything else is ignored. *)
Definition push (w : word) (s : dst) : dst :=
  let '(p, o, done) := s in
  match w with
  | [] => s
  | tag :: a =>
    if tag =? 1 then
      match a with
      | [h; id; wt; pr] =>
        (mk_pend [] (mk_loc (z2b h) id wt pr (p_eps p) :: p_locs p) (p_drops p)
                 (p_hdrs p) (p_wcs p) (p_routes p) (p_flts p), o, done)
      | _ => s
      end
    else if tag =? 2 then
      match a with
      | h :: wt :: ad :: ex =>
        (mk_pend (mk_ep (z2b h) wt ad ex :: p_eps p) (p_locs p) (p_drops p)
                 (p_hdrs p) (p_wcs p) (p_routes p) (p_flts p), o, done)
      | _ => s
      end
    else if tag =? 3 then
      match a with
      | [n; d] => (mk_pend (p_eps p) (p_locs p) ((n, d) :: p_drops p)
                           (p_hdrs p) (p_wcs p) (p_routes p) (p_flts p), o, done)
      | _ => s
      end
    else if tag =? 4 then
      match a with
      | [ix; hm; nq; pk; cs; hf; fn; fd; ac; cl] =>
        (mk_pend (p_eps p) (p_locs p) (p_drops p) [] []
                 (mk_route ix (z2b hm) nq pk cs (z2b hf) fn fd ac cl (p_hdrs p) (p_wcs p)
                  :: p_routes p) (p_flts p), o, done)
      | _ => s
      end
    else if tag =? 5 then
      match a with
      | [k] => (mk_pend (p_eps p) (p_locs p) (p_drops p) (k :: p_hdrs p) (p_wcs p) (p_routes p) (p_flts p), o, done)
      | _ => s
      end
    else if tag =? 6 then
      match a with
      | [x] => (mk_pend (p_eps p) (p_locs p) (p_drops p) (p_hdrs p) (x :: p_wcs p) (p_routes p) (p_flts p), o, done)
      | _ => s
      end
    else if tag =? 7 then
      match a with
      | [k; op; n] => (mk_pend (p_eps p) (p_locs p) (p_drops p) (p_hdrs p) (p_wcs p) (p_routes p)
                               ((k, op, n) :: p_flts p), o, done)
      | _ => s
      end
    else if (tag =? 9) || (tag =? 10) then
      match a with
      | [f] => (pend0, Some (tag, z2b f, false), close s)
      | _ => s
      end
    else if tag =? 11 then
      match a with
      | [f; sv] => (pend0, Some (tag, z2b f, z2b sv), close s)
      | _ => s
      end
    else if tag =? 20 then (pend0, None, RRaw a :: close s)
    else s
  end.

Definition reqs_of (ws : list word) : list req := close (fold_right push dst0 ws).

Definition enc_ep (e : lbep) : word :=
  2 :: b2z (ep_hasw e) :: ep_w e :: ep_addr e :: ep_extra e.
Definition enc_loc (l : loc) : list word :=
  [1; b2z (l_hasid l); l_id l; l_w l; l_prio l] :: map enc_ep (l_eps l).
Definition enc_route (r : route) : list word :=
  [4; r_idx r; b2z (r_hasmatch r); r_nq r; r_path r; r_case r; b2z (r_hasfrac r);
   r_fnum r; r_fden r; r_action r; r_cs r]
  :: map (fun k => [5; k]) (r_hdrs r) ++ map (fun x => [6; x]) (r_wcs r).
Definition enc_req (q : req) : list word :=
  match q with
  | REds c => map (fun nd => [3; fst nd; snd nd]) (c_drops c) ++ flat_map enc_loc (c_locs c)
              ++ [[9; b2z (c_named c)]]
  | RRds f rs => flat_map enc_route rs ++ [[10; b2z f]]
  | RLds f sv fs => map (fun x => [7; fst (fst x); snd (fst x); snd x]) fs ++ [[11; b2z f; b2z sv]]
  | RRaw w => [20 :: w]
  end.

(* what the implementation is expected to answer, as a request-shaped value *)
Definition res_of_req (dual : bool) (q : req) : req :=
  match q with
  | REds c => match parse_eds dual c with
              | Some u => REds u
              | None => REds (mk_cla false [] [])
              end
  | RRds f rs => match parse_rds f rs with
                 | Some os => RRds true os
                 | None => RRds false []
                 end
  | RLds f sv fs => match parse_lds f sv fs with
                    | Some out => RLds true sv (map (fun x => (fst x, 0, snd x)) out)
                    | None => RLds false sv []
                    end
  | RRaw _ => RRaw [0; 1; 1]     (* no panic; same answer twice; invariant oracle ok *)
  end.

Definition dual_of (cfg : word) : bool := match cfg with d :: _ => z2b d | [] => true end.

Definition run (cfg : word) (ops : list word) : option (list word) :=
  Some (flat_map (fun q => enc_req (res_of_req (dual_of cfg) q)) (reqs_of ops)).

(* ---------- the property as a predicate on (requests, observed answers) ----------
   1  answers line up with requests; raw bytes: no panic, deterministic, oracle ok
   2  EDS accepted: priorities contiguous from 0
   3  EDS accepted: no address twice, no (locality, priority) twice
   4  EDS accepted: locality weights >= 1, endpoint weights >= 1, per-priority and
      per-locality sums <= 2^32-1
   5  EDS accepted: drop denominators are 100 / 10000 / 1000000
   6  RDS accepted: every route has a path matcher
   7  RDS accepted: ActionType is one of the three enum values
   8  RDS accepted: action route => weighted clusters all >= 1 with total in [1, 2^32-1], or a plugin
   9  RDS accepted: Fraction is numerator*scale of the route it came from, possibly wrapped
   10 LDS accepted: the retained HTTP filters are non-empty, the last one is terminal (router)
      and no other one is
   61 (finding) no accepted route is marked RouteActionUnsupported
   91 (finding) Fraction is exactly numerator*scale (no uint32 wrap) *)
Definition clause_req (i : Z) (q o : req) : list (Z * Z * bool) :=
  match q, o with
  | REds _, REds u =>
    if c_named u then
      [(2, i, contiguous_b (prios (c_locs u)));
       (3, i, nodupb (all_addrs (c_locs u)) && keys_nodupb (c_locs u));
       (4, i, weights_ok (c_locs u));
       (5, i, drops_ok (c_drops u))]
    else []
  | RRds _ rs, RRds ok os =>
    if ok then
      [(6, i, forallb path_ok os);
       (7, i, forallb action_enum_ok os);
       (8, i, forallb wc_ok os);
       (9, i, forallb (fun o => implb (r_hasfrac o) (frac_is_exact rs o || frac_is_wrapped rs o)) os)]
    else []
  | RLds _ _ _, RLds ok _ out =>
    if ok then [(10, i, term_ok (map (fun x => (fst (fst x), snd x)) out))] else []
  | RRaw _, RRaw [p; d; v] => [(1, i, (p =? 0) && (d =? 1) && (v =? 1))]
  | _, _ => [(1, i, false)]
  end.

Definition finding_req (i : Z) (q o : req) : list (Z * Z * bool) :=
  match q, o with
  | RRds _ rs, RRds true os =>
    [(61, i, forallb action_supported os);
     (91, i, forallb (fun o => implb (r_hasfrac o) (frac_is_exact rs o)) os)]
  | _, _ => []
  end.

Fixpoint zip_clauses (f : Z -> req -> req -> list (Z * Z * bool)) (strict : bool)
         (i : Z) (qs os : list req) : list (Z * Z * bool) :=
  match qs, os with
  | [], [] => []
  | q :: r, o :: r' => f i q o ++ zip_clauses f strict (i + 1) r r'
  | _, _ => if strict then [(1, i, false)] else []
  end.

(* finding clauses last, so that they never mask another failure of the same case *)
Definition clauses (cfg : word) (ops obs : list word) : list (Z * Z * bool) :=
  let qs := reqs_of ops in
  let os := reqs_of obs in
  zip_clauses clause_req true 0 qs os ++ zip_clauses finding_req false 0 qs os.

Definition is_finding (c : Z) : bool := mem c [61; 91].
Definition holds_b (cfg : word) (ops obs : list word) : bool :=
  forallb (fun c => is_finding (fst (fst c)) || snd c) (clauses cfg ops obs).

Definition check_case (c : case) : verdict :=
  decide (run (c_cfg c) (c_ops c)) (c_obs c) (clauses (c_cfg c) (c_ops c) (c_obs c)).
