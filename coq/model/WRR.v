(* C36: weighted round robin (static stride scheduler).
   Transcribes balancer/weightedroundrobin/scheduler.go: edfScheduler.nextIndex,
   rrScheduler.nextIndex, picker.newScheduler (float64 scaling, in PrimFloat), and
   balancer/weightedroundrobin/balancer.go: picker.inc (atomic uint32 Add(1)),
   endpointWeight.OnLoadReport / weight.
   Executable definitions only; proofs are in proof/WRR_proofs.v. *)
From Coq Require Import List ZArith Bool Floats Uint63.
From VLib Require Import Codec Machine.
Import ListNotations.
Open Scope Z_scope.

Definition zlen {A} (l : list A) : Z := Z.of_nat (length l).
Definition nthz (l : list Z) (i : Z) : Z := nth (Z.to_nat i) l 0.

Definition maxWeight : Z := 65535.
Definition offset : Z := 32767.          (* maxWeight / 2 *)

(* one sequence number idx of an edfScheduler with weights ws: the backend it addresses and
   whether that backend is picked on it (mod >= maxWeight - weight) *)
Definition backend (n idx : Z) : Z := idx mod n.
Definition generation (n idx : Z) : Z := idx / n.
Definition picked (w g bi : Z) : bool :=
  negb (u64 (w * g + bi * offset) mod maxWeight <? maxWeight - w).
Definition picks_at (ws : list Z) (idx : Z) : bool :=
  let n := zlen ws in
  picked (nthz ws (backend n idx)) (generation n idx) (backend n idx).

(* edfScheduler.nextIndex: ctr is the value of picker.idx before the call; inc returns
   uint32(ctr+1).  Returns (index, new ctr); index -1 when the driver's budget of sequence
   numbers is exhausted (the real loop would keep spinning). *)
Fixpoint edf_next (fuel : nat) (ws : list Z) (ctr : Z) : Z * Z :=
  match fuel with
  | O => (-1, ctr)
  | S k => let idx := u32 (ctr + 1) in
           if picks_at ws idx then (backend (zlen ws) idx, idx) else edf_next k ws idx
  end.

Definition budget : Z := 3000.

(* the picks among the L sequence numbers ctr+1 .. ctr+L, in order: which backend each
   picked sequence number addresses (no uint32 wrap: used for windows below 2^32) *)
Fixpoint wpicks (ws : list Z) (ctr : Z) (L : nat) : list Z :=
  match L with
  | O => []
  | S L' => let idx := ctr + 1 in
            (if picks_at ws idx then [backend (zlen ws) idx] else []) ++ wpicks ws idx L'
  end.

Fixpoint edf_calls (B : nat) (k : nat) (ws : list Z) (ctr : Z) : list Z :=
  match k with
  | O => []
  | S k' => let '(i, c') := edf_next B ws ctr in
            i :: u32 (c' - ctr) :: (if i <? 0 then [] else edf_calls B k' ws c')
  end.

Fixpoint bump (i : Z) (cs : list Z) : list Z :=
  match cs with
  | [] => []
  | c :: r => if i =? 0 then (c + 1) :: r else c :: bump (i - 1) r
  end.

(* k calls, summarised: [sequence numbers consumed; largest number consumed by one call;
   how often each backend was returned]; total -1 when the budget was exhausted *)
Fixpoint edf_window (B : nat) (k : nat) (ws : list Z) (ctr tot mx : Z) (cs : list Z) : list Z :=
  match k with
  | O => tot :: mx :: cs
  | S k' => let '(i, c') := edf_next B ws ctr in
            if i <? 0 then (-1) :: mx :: cs
            else let u := u32 (c' - ctr) in
                 edf_window B k' ws c' (tot + u) (Z.max mx u) (bump i cs)
  end.

(* rrScheduler.nextIndex *)
Fixpoint rr_calls (k : nat) (n ctr : Z) : list Z :=
  match k with
  | O => []
  | S k' => let idx := u32 (ctr + 1) in (idx mod n) :: rr_calls k' n idx
  end.

(* ------------------------------------------------------------------ *)
(* newScheduler: float64 scaling                                       *)

(* math.Round (half away from zero) of a non-negative finite float, as an integer *)
Definition round_nonneg (x : float) : Z :=
  let '(m, e) := PrimFloat.frshiftexp x in
  let mant := Uint63.to_Z (PrimFloat.normfr_mantissa m) in
  let k := Uint63.to_Z e - 2101 - 53 in
  if 0 <=? k then mant * 2 ^ k
  else let d := 2 ^ (- k) in
       if 2 * (mant mod d) >=? d then mant / d + 1 else mant / d.
Definition u16_round (x : float) : Z := round_nonneg x mod 65536.

Definition fz (z : Z) : float := PrimFloat.of_uint63 (Uint63.of_Z z).
(* endpoint weights travel as ratios num/den of integers below 2^53 *)
Definition fratio (num den : Z) : float := PrimFloat.div (fz num) (fz den).

(* a float given as mantissa (below 2^53) and binary exponent: mant * 2^exp *)
Definition fld (mant e : Z) : float := PrimFloat.ldshiftexp (fz mant) (Uint63.of_Z (e + 2101)).

Definition fsum (l : list float) : float := fold_left PrimFloat.add l PrimFloat.zero.
Definition fmax (l : list float) : float :=
  fold_left (fun m w => if PrimFloat.ltb m w then w else m) l PrimFloat.zero.
Definition is0 (w : float) : bool := PrimFloat.eqb w PrimFloat.zero.
Definition nzero (l : list float) : Z := zlen (filter is0 l).

(* result: [0] nil scheduler, [1; n] round robin over n, 2 :: weights EDF *)
Definition new_scheduler (ws : list float) : word :=
  let n := zlen ws in
  if n =? 0 then [0] else
  if n =? 1 then [1; 1] else
  let nz := nzero ws in
  if nz >=? n - 1 then [1; n] else
  let um := PrimFloat.div (fsum ws) (fz (n - nz)) in
  let sf := PrimFloat.div (fz maxWeight) (fmax ws) in
  let mean := u16_round (PrimFloat.mul sf um) in
  let scaled := map (fun w => if is0 w then mean else u16_round (PrimFloat.mul sf w)) ws in
  let all_eq := forallb (fun w => is0 w || (u16_round (PrimFloat.mul sf w) =? mean)) ws in
  if all_eq then [1; n] else 2 :: scaled.

(* ------------------------------------------------------------------ *)
(* endpointWeight: OnLoadReport / weight, times in ns (0 = the zero time.Time)            *)
Record epw := mkepw { e_val : float; e_last : Z; e_since : Z }.
Definition epw0 : epw := mkepw PrimFloat.zero 0 0.

(* OnLoadReport(now, qps, appUtil, cpuUtil, eps, penalty) *)
Definition on_report (e : epw) (now : Z) (qps app cpu eps pen : float) : epw :=
  let util := if is0 app then cpu else app in
  if is0 util || is0 qps then e else
  let er := PrimFloat.div eps qps in
  let v := PrimFloat.div qps (PrimFloat.add util (PrimFloat.mul er pen)) in
  mkepw v now (if e_since e =? 0 then now else e_since e).

(* weight(now, expiration, blackout): (weight, state after: nonEmptySince may be reset) *)
Definition weight_at (e : epw) (now expir blackout : Z) : float * epw :=
  if e_last e =? 0 then (PrimFloat.zero, e) else
  if now - e_last e >=? expir then (PrimFloat.zero, mkepw (e_val e) (e_last e) 0) else
  if negb (blackout =? 0) && ((e_since e =? 0) || (now - e_since e <? blackout))
  then (PrimFloat.zero, e) else (e_val e, e).

(* a float as (mantissa, exponent): x = mant * 2^exp with mant in [2^52, 2^53), or (0,0) *)
Definition fdec (x : float) : list Z :=
  if is0 x then [0; 0] else
  let '(m, e) := PrimFloat.frshiftexp x in
  [Uint63.to_Z (PrimFloat.normfr_mantissa m); Uint63.to_Z e - 2101 - 53].

(* ------------------------------------------------------------------ *)
(* ops
   [1; s; k; w1..wn]   edfScheduler{weights} with picker.idx = s: k nextIndex calls
                        obs [idx1; used1; idx2; used2; ...]  (used = sequence numbers consumed;
                        stops after an idx of -1 = budget exhausted)
   [2; s; k; n]        rrScheduler{numSCs: n}: k calls                obs [idx1; ...; idxk]
   [3; n1; d1; ...]    newScheduler for endpoint weights n_i/d_i       obs [0] | [1; n] | 2 :: weights
   [4; now; qn; qd; an; ad; cn; cd; en; ed; pn; pd]
                       OnLoadReport at time now (qps, app util, cpu util, eps, penalty)   obs []
   [5; now; expir; blackout]  weight(now, ...)                         obs [mant; exp]
   [6; s; w1..wn]      edfScheduler{weights}, picker.idx = s: sum(ws) nextIndex calls, summarised
                        obs [consumed; max consumed by one call; count of backend 0; ...]
   [8; m1; e1; ...]    newScheduler for endpoint weights m_i * 2^e_i (extreme magnitudes)  obs as op 3   *)
Definition maxCalls : Z := 400.
Definition maxWindow : Z := 300000.
Fixpoint sumz (l : list Z) : Z := match l with [] => 0 | x :: r => x + sumz r end.

Fixpoint pairs (l : list Z) : option (list (Z * Z)) :=
  match l with
  | [] => Some []
  | a :: b :: r => match pairs r with Some p => Some ((a, b) :: p) | None => None end
  | _ => None
  end.

Inductive opc :=
| OEdf (s k : Z) (ws : list Z) | ORr (s k n : Z) | ONew (ws : list (Z * Z))
| ORep (now : Z) (q a c e p : Z * Z) | OWt (now expir blackout : Z) | OWin (s : Z) (ws : list Z)
| ONewX (ws : list (Z * Z)).

Definition decode (op : word) : option opc :=
  match op with
  | 1 :: s :: k :: ws => Some (OEdf s k ws)
  | [2; s; k; n] => Some (ORr s k n)
  | 3 :: tl => match pairs tl with Some ps => Some (ONew ps) | None => None end
  | [4; now; qn; qd; an; ad; cn; cd; en; ed; pn; pd] =>
    Some (ORep now (qn, qd) (an, ad) (cn, cd) (en, ed) (pn, pd))
  | [5; now; expir; blackout] => Some (OWt now expir blackout)
  | 6 :: s :: ws => Some (OWin s ws)
  | 8 :: tl => match pairs tl with Some ps => Some (ONewX ps) | None => None end
  | _ => None
  end.

Definition clipk (k : Z) : nat := Z.to_nat (Z.min (Z.max k 0) maxCalls).
Definition fr (p : Z * Z) : float := fratio (fst p) (snd p).

Definition step (e : epw) (op : opc) : epw * word :=
  match op with
  | OEdf s k ws => (e, edf_calls (Z.to_nat budget) (clipk k) ws (u32 s))
  | OWin s ws =>
    (e, edf_window (Z.to_nat budget) (Z.to_nat (Z.min (Z.max (sumz ws) 0) maxWindow)) ws (u32 s) 0 0
                   (map (fun _ => 0) ws))
  | ORr s k n => (e, if n <=? 0 then [] else rr_calls (clipk k) n (u32 s))
  | ONew ps => (e, new_scheduler (map fr ps))
  | ONewX ps => (e, new_scheduler (map (fun p => fld (fst p) (snd p)) ps))
  | ORep now q a c ee p => (on_report e now (fr q) (fr a) (fr c) (fr ee) (fr p), [])
  | OWt now expir blackout => let '(w, e') := weight_at e now expir blackout in (e', fdec w)
  end.

Fixpoint run_from (e : epw) (ops : list word) : option (list word) :=
  match ops with
  | [] => Some []
  | op :: r =>
    match decode op with
    | None => None
    | Some oc =>
      let '(e', o) := step e oc in
      match run_from e' r with Some os => Some (o :: os) | None => None end
    end
  end.
Definition run (ops : list word) : option (list word) := run_from epw0 ops.

(* ------------------------------------------------------------------ *)
(* the property as a predicate on observations                          *)
Fixpoint cnt (s : Z) (l : list Z) : Z :=
  match l with
  | [] => 0
  | x :: r => (if x =? s then 1 else 0) + cnt s r
  end.
Fixpoint evens (l : list Z) : list Z :=
  match l with a :: _ :: r => a :: evens r | _ => [] end.
Fixpoint odds (l : list Z) : list Z :=
  match l with _ :: b :: r => b :: odds r | _ => [] end.

Definition ws_ok (ws : list Z) : bool :=
  negb (zlen ws =? 0) && forallb (fun w => (0 <=? w) && (w <=? maxWeight)) ws.

(* every backend index i is chosen exactly w_i times *)
Fixpoint exact_from (i : Z) (ws : list Z) (res : list Z) : bool :=
  match ws with
  | [] => true
  | w :: r => (cnt i res =? w) && exact_from (i + 1) r res
  end.

(* clauses:
   1  EDF: every returned index is a backend (or -1: budget exhausted)
   6  the exact-window count for a window that crosses the uint32 wrap of picker.idx (refuted)
   5  EDF: when some weight is 65535 every nextIndex uses at most n sequence numbers; the
      sum(ws) calls that consume a window of 65535*n sequence numbers (below the uint32 wrap)
      return backend i exactly w_i times
   2  RR: indices below n, consecutive calls advance by one (mod n) below the uint32 wrap
   3  newScheduler: RR for one endpoint, for fewer than two non-zero weights, EDF weights in
      0..65535 otherwise (float scaling itself: correspondence only)
   4  weight: 0 before the first report, after the expiration period and during the
      blackout period; otherwise the value qps/(util+eps/qps*penalty) of the latest report *)
Definition has_max (ws : list Z) : bool :=
  existsb (fun w => w =? maxWeight) ws && (zlen ws <=? budget).

Definition clause_edf (i : Z) (s : Z) (ws : list Z) (o : word) : list (Z * Z * bool) :=
  if negb (ws_ok ws) then [] else
  let n := zlen ws in
  let idxs := evens o in
  let used := odds o in
  [(1, i, forallb (fun x => (-1 <=? x) && (x <? n)) idxs);
   (* some weight is 65535: every call returns a backend within n sequence numbers *)
   (5, i,
    if has_max ws && (u32 s + sumz used + n <? 2 ^ 32)
    then forallb (fun x => 0 <=? x) idxs && forallb (fun u => u <=? n) used else true)].

Definition clause_win (i : Z) (s : Z) (ws : list Z) (o : word) : list (Z * Z * bool) :=
  if negb (ws_ok ws) || (maxWindow <? sumz ws) then [] else
  let n := zlen ws in
  match o with
  | tot :: mx :: cs =>
    let nowrap := u32 s + maxWeight * n <? 2 ^ 32 in
    [(* some weight is 65535 and the window of 65535*n sequence numbers after picker.idx stays
        below the uint32 wrap: the sum(ws) calls stay inside the window, each uses at most n
        sequence numbers, and backend i is returned exactly w_i times *)
     (5, i,
      (zlen cs =? n) &&
      (if has_max ws && nowrap
       then (0 <=? tot) && (tot <=? maxWeight * n) && (mx <=? n) && word_eqb cs ws else true));
     (* the same count for a window that crosses the uint32 wrap of picker.idx
        (refuted: C36_window_wrap_refuted, finding F-C36-wrr-u32-wrap) *)
     (6, i, if has_max ws && negb nowrap && (0 <=? tot) && (tot <=? maxWeight * n)
            then word_eqb cs ws else true)]
  | _ => [(0, i, false)]
  end.

Fixpoint rr_consecutive (n : Z) (l : list Z) : bool :=
  match l with
  | a :: ((b :: _) as r) => (b =? (a + 1) mod n) && rr_consecutive n r
  | _ => true
  end.

Definition clause_rr (i s k n : Z) (o : word) : list (Z * Z * bool) :=
  if n <=? 0 then [] else
  [(2, i, (zlen o =? Z.of_nat (clipk k)) && forallb (fun x => (0 <=? x) && (x <? n)) o &&
          (if u32 s + zlen o <? 2 ^ 32 then rr_consecutive n o else true))].

Definition clause_new (i : Z) (ps : list (Z * Z)) (o : word) : list (Z * Z * bool) :=
  let n := zlen ps in
  let nonzero := n - nzero (map fr ps) in     (* endpoints with a usable (non-zero) weight *)
  if negb (forallb (fun p => (0 <=? fst p) && (fst p <? 2 ^ 53) && (0 <? snd p) && (snd p <? 2 ^ 53)) ps)
  then [] else
  [(3, i,
    match o with
    | [0] => n =? 0
    | [1; m] => (m =? n) && (1 <=? n)
    | 2 :: wts => (2 <=? nonzero) && (zlen wts =? n) &&
                  forallb (fun w => (0 <=? w) && (w <=? maxWeight)) wts
    | _ => false
    end &&
    (if (n =? 1) || ((1 <=? n) && (nonzero <? 2)) then word_eqb o [1; n] else true))].

(* clause 7 (evaluated on traces; the float scaling is not part of the bridge): an EDF scheduler
   produced by newScheduler has a weight 65535, so that every pick ends within n numbers *)
Definition clause_maxw (i : Z) (o : word) : list (Z * Z * bool) :=
  match o with
  | h :: wts => if h =? 2 then [(7, i, existsb (fun w => w =? maxWeight) wts)] else []
  | [] => []
  end.

Definition clause_wt (i : Z) (e : epw) (now expir blackout : Z) (o : word) : list (Z * Z * bool) :=
  [(4, i,
    if (e_last e =? 0) || (now - e_last e >=? expir) ||
       (negb (blackout =? 0) && ((e_since e =? 0) || (now - e_since e <? blackout)))
    then word_eqb o [0; 0]
    (* otherwise: the value computed from the latest non-empty report (expiration and blackout
       count from the LATEST report / the first report of the current run of reports) *)
    else word_eqb o (fdec (e_val e)))].

Definition clause_op (i : Z) (e : epw) (op : opc) (o : word) : list (Z * Z * bool) :=
  match op with
  | OEdf s k ws => clause_edf i s ws o
  | ORr s k n => clause_rr i s k n o
  | ONew ps => clause_new i ps o ++ clause_maxw i o
  | ONewX ps => clause_maxw i o
  | ORep _ _ _ _ _ _ => []
  | OWt now expir blackout => clause_wt i e now expir blackout o
  | OWin s ws => clause_win i s ws o
  end.

Fixpoint clauses_from (i : Z) (e : epw) (ops obs : list word) : list (Z * Z * bool) :=
  match ops, obs with
  | op :: r, o :: r' =>
    match decode op with
    | None => [(0, i, false)]
    | Some oc => clause_op i e oc o ++ clauses_from (i + 1) (fst (step e oc)) r r'
    end
  | [], [] => []
  | _, _ => [(0, i, false)]
  end.
Definition clauses (ops obs : list word) : list (Z * Z * bool) := clauses_from 0 epw0 ops obs.

(* all clauses but the refuted one (6) and the float-scaling clause (7, traces only) *)
Definition holds_b (ops obs : list word) : bool :=
  forallb (fun c => (fst (fst c) =? 6) || (fst (fst c) =? 7) || snd c) (clauses ops obs).

Definition op_wf (op : word) : bool :=
  match decode op with Some _ => true | None => false end.

Definition check_case (c : case) : verdict :=
  decide (run (c_ops c)) (c_obs c) (clauses (c_ops c) (c_obs c)).
