(* C50: internal/xds/clients/lrsclient/load_store.go - LRS load counters.
   Part A: instruction-level interleaving model of PerClusterReporter (CallStarted,
   CallFinished, CallServerLoad, CallDropped as per-function programs whose instructions are
   the sync/atomic calls and the mutex-protected rpcLoadData.add; a stats() call as a thread
   that may swap any counter, load any in-progress counter and finally publish its report -
   an over-approximation of the real Range loops, which visit a subset of the keys in some
   order).  Any number of threads.
   Part B: executable sequential model of LoadStore (2 reporters) compared bit-exactly with
   the real code, and the accounting automaton evaluated on the implementation's reports.
   Counters are Z (assumption: fewer than 2^64 events per counter between two reports);
   the in-progress counter wraps as uint64; server-load sums are integers (the driver only
   uses integer-valued float64 below 2^53, for which float addition is exact).
   No proofs in this file. *)
From Coq Require Import List ZArith Bool.
From VLib Require Import Codec Machine.
Import ListNotations.
Open Scope Z_scope.

Definition key := (Z * Z * Z)%type.     (* reporter, locality or drop category, load name *)
Definition key_eqb (x y : key) : bool :=
  match x, y with (a, b, c), (d, e, f) => (a =? d) && (b =? e) && (c =? f) end.

Inductive kind := KSucc | KErr | KIss | KDrop | KLCnt | KLSum.
Definition kind_eqb (a b : kind) : bool :=
  match a, b with
  | KSucc, KSucc | KErr, KErr | KIss, KIss | KDrop, KDrop | KLCnt, KLCnt | KLSum, KLSum => true
  | _, _ => false
  end.

Definition cells := kind -> key -> Z.
Definition cupd (f : cells) (k : kind) (x : key) (v : Z) : cells :=
  fun k' x' => if kind_eqb k' k && key_eqb x' x then v else f k' x'.
Definition cadd (f : cells) (k : kind) (x : key) (v : Z) : cells := cupd f k x (f k x + v).
Definition kupd {A : Type} (f : key -> A) (x : key) (v : A) : key -> A :=
  fun x' => if key_eqb x' x then v else f x'.

(* ================= Part A: interleaving model ================= *)

(* what a stats() call has collected so far *)
Record swapped := mksw { sw_kind : kind; sw_key : key; sw_val : Z }.
(* an in-progress value read by stats(), with the ghost started/finished counts at that instant *)
Record ipread := mkip { ip_key : key; ip_val : Z; ip_ns : Z; ip_nf : Z }.
Record report := mkrep { r_sw : list swapped; r_ip : list ipread }.
Definition rep0 : report := mkrep [] [].

Record cst := mkc {
  cell : cells;               (* succeeded / errored / issued / drops / load count / load sum *)
  inp : key -> Z;             (* inProgress (uint64) per locality *)
  ex : key -> bool;           (* localityRPCCount has an entry *)
  added : cells;              (* ghost: total ever added to each counter *)
  nst : key -> Z;             (* ghost: incrInProgress executed *)
  nfin : key -> Z;            (* ghost: decrInProgress executed *)
  pub : list report           (* ghost: reports returned by finished stats() calls, newest first *)
}.

Definition cst0 : cst :=
  mkc (fun _ _ => 0) (fun _ => 0) (fun _ => false) (fun _ _ => 0) (fun _ => 0) (fun _ => 0) [].

Inductive pc :=
| Rest
| S0 (x : key) | S_inp (x : key) | S_iss (x : key)         (* CallStarted *)
| F0 (x : key) (ok : bool) | F_dec (x : key) (ok : bool) | F_res (x : key) (ok : bool)
| L0 (x : key) (v : Z) | L_add (x : key) (v : Z)           (* CallServerLoad; x = (r, l, name) *)
| D_add (x : key)                                          (* CallDropped *)
| St (r : report).                                         (* stats() in progress *)

Definition loc_of (x : key) : key := match x with (r, l, _) => (r, l, 0) end.

(* API calls available to a thread at rest *)
Inductive call : pc -> Prop :=
| call_started : forall x, call (S0 x)
| call_finished : forall x ok, call (F0 x ok)
| call_load : forall x v, call (L0 x v)
| call_dropped : forall x, call (D_add x)
| call_stats : call (St rep0).

Definition res_kind (ok : bool) : kind := if ok then KSucc else KErr.

Inductive tstep : cst -> pc -> cst -> pc -> Prop :=
| t_call : forall s q, call q -> tstep s Rest s q
(* CallStarted: Load / LoadOrStore the locality entry; incrInProgress; incrIssued *)
| t_s0 : forall s x,
    tstep s (S0 x) (mkc (cell s) (inp s) (kupd (ex s) x true) (added s) (nst s) (nfin s) (pub s)) (S_inp x)
| t_sinp : forall s x,
    tstep s (S_inp x) (mkc (cell s) (kupd (inp s) x (u64 (inp s x + 1))) (ex s) (added s)
                           (kupd (nst s) x (nst s x + 1)) (nfin s) (pub s)) (S_iss x)
| t_siss : forall s x,
    tstep s (S_iss x) (mkc (cadd (cell s) KIss x 1) (inp s) (ex s) (cadd (added s) KIss x 1)
                           (nst s) (nfin s) (pub s)) Rest
(* CallFinished: Load (absent: return); decrInProgress; incrSucceeded / incrErrored *)
| t_f0 : forall s x ok, tstep s (F0 x ok) s (if ex s x then F_dec x ok else Rest)
| t_fdec : forall s x ok,
    tstep s (F_dec x ok) (mkc (cell s) (kupd (inp s) x (u64 (inp s x - 1))) (ex s) (added s)
                              (nst s) (kupd (nfin s) x (nfin s x + 1)) (pub s)) (F_res x ok)
| t_fres : forall s x ok,
    tstep s (F_res x ok) (mkc (cadd (cell s) (res_kind ok) x 1) (inp s) (ex s)
                              (cadd (added s) (res_kind ok) x 1) (nst s) (nfin s) (pub s)) Rest
(* CallServerLoad: Load the locality (absent: return); rpcLoadData.add under its mutex *)
| t_l0 : forall s x v, tstep s (L0 x v) s (if ex s (loc_of x) then L_add x v else Rest)
| t_ladd : forall s x v,
    tstep s (L_add x v) (mkc (cadd (cadd (cell s) KLSum x v) KLCnt x 1) (inp s) (ex s)
                             (cadd (cadd (added s) KLSum x v) KLCnt x 1) (nst s) (nfin s) (pub s)) Rest
(* CallDropped: AddUint64 *)
| t_dadd : forall s x,
    tstep s (D_add x) (mkc (cadd (cell s) KDrop x 1) (inp s) (ex s) (cadd (added s) KDrop x 1)
                           (nst s) (nfin s) (pub s)) Rest
(* stats(): SwapUint64(counter, 0) of a request/drop counter *)
| t_swap : forall s r k x, k <> KLCnt -> k <> KLSum ->
    tstep s (St r) (mkc (cupd (cell s) k x 0) (inp s) (ex s) (added s) (nst s) (nfin s) (pub s))
               (St (mkrep (mksw k x (cell s k x) :: r_sw r) (r_ip r)))
(* stats(): rpcLoadData.loadAndClear under its mutex: sum and count together *)
| t_swapload : forall s r x,
    tstep s (St r) (mkc (cupd (cupd (cell s) KLSum x 0) KLCnt x 0) (inp s) (ex s) (added s)
                        (nst s) (nfin s) (pub s))
               (St (mkrep (mksw KLCnt x (cell s KLCnt x) :: mksw KLSum x (cell s KLSum x) :: r_sw r) (r_ip r)))
(* stats(): LoadUint64(inProgress) *)
| t_loadinp : forall s r x,
    tstep s (St r) s (St (mkrep (r_sw r) (mkip x (inp s x) (nst s x) (nfin s x) :: r_ip r)))
(* stats() returns *)
| t_publish : forall s r,
    tstep s (St r) (mkc (cell s) (inp s) (ex s) (added s) (nst s) (nfin s) (r :: pub s)) Rest.

Inductive step : cst * list pc -> cst * list pc -> Prop :=
| step_thread : forall s l1 p l2 s' p', tstep s p s' p' ->
    step (s, l1 ++ p :: l2) (s', l1 ++ p' :: l2).

Inductive reachable : cst * list pc -> Prop :=
| reach_init : forall n, reachable (cst0, repeat Rest n)
| reach_step : forall x y, reachable x -> step x y -> reachable y.

(* sum of the values a report holds for counter (k, x) *)
Fixpoint sw_sum (l : list swapped) (k : kind) (x : key) : Z :=
  match l with
  | [] => 0
  | e :: r => (if kind_eqb (sw_kind e) k && key_eqb (sw_key e) x then sw_val e else 0) + sw_sum r k x
  end.
Fixpoint reps_sum (l : list report) (k : kind) (x : key) : Z :=
  match l with [] => 0 | r :: t => sw_sum (r_sw r) k x + reps_sum t k x end.
(* what the stats() calls still running hold *)
Fixpoint inflight (ts : list pc) (k : kind) (x : key) : Z :=
  match ts with
  | [] => 0
  | St r :: t => sw_sum (r_sw r) k x + inflight t k x
  | _ :: t => inflight t k x
  end.
Fixpoint count_pc (f : pc -> bool) (ts : list pc) : Z :=
  match ts with [] => 0 | p :: t => b2z (f p) + count_pc f t end.
Definition at_siss (x : key) (p : pc) : bool := match p with S_iss y => key_eqb y x | _ => false end.
Definition at_fres (x : key) (p : pc) : bool := match p with F_res y _ => key_eqb y x | _ => false end.
Definition all_rest (ts : list pc) : bool := forallb (fun p => match p with Rest => true | _ => false end) ts.
Definition ip_ok (s : cst) (e : ipread) : Prop :=
  ip_val e = u64 (ip_ns e - ip_nf e) /\ ip_ns e <= nst s (ip_key e) /\ ip_nf e <= nfin s (ip_key e).

(* ================= Part B: sequential model and accounting automaton ================= *)

(* one word of the op / observation stream *)
Inductive item :=
| IStarted (r l : Z) | IFinished (r l ok : Z) | ILoad (r l n v : Z) | IDropped (r c : Z)
| IBegin (m : Z) | IEnd
| ITotal (r t : Z)                      (* totalDrops of reporter r (0 when its report is nil) *)
| IDrop (r c d : Z)                     (* drops[c] = d, c <> "" *)
| ILoc (r l s e ip is : Z)              (* localityStats[l].requestStats *)
| ILd (r l n c sm : Z)                  (* localityStats[l].loadStats[n] *)
| ITot (k r a b ev rp : Z)              (* stress: events recorded / sum over all reports *)
| IIp (v lo hi : Z)                     (* stress: reported inProgress and its sound bounds *)
| INop.

Definition nR : Z := 2. Definition nL : Z := 3. Definition nN : Z := 2. Definition nC : Z := 3.
Definition in_range (x n : Z) : bool := (0 <=? x) && (x <? n).

Definition parse (w : word) : item :=
  match w with
  | [c; r; l] => if (c =? 1) && in_range r nR && in_range l nL then IStarted r l
                 else if (c =? 4) && in_range r nR && in_range l nC then IDropped r l
                 else if c =? 12 then ITotal r l else INop
  | [c; r; l; ok] => if (c =? 2) && in_range r nR && in_range l nL then IFinished r l ok
                     else if c =? 10 then IDrop r l ok
                     else if c =? 21 then IIp r l ok else INop
  | [c; r; l; n; v] => if (c =? 3) && in_range r nR && in_range l nL && in_range n nN
                          && (0 <=? v) && (v <=? 1000) then ILoad r l n v else INop
  | [c; m] => if c =? 5 then IBegin m else INop
  | [c] => if c =? 6 then IEnd else INop
  | [c; r; l; s; e; ip; is] => if c =? 11 then ILoc r l s e ip is
                               else if c =? 20 then ITot r l s e ip is else INop
  | [c; r; l; n; ct; sm] => if c =? 13 then ILd r l n ct sm else INop
  | _ => INop
  end.

Definition enc (i : item) : word :=
  match i with
  | IStarted r l => [1; r; l] | IFinished r l ok => [2; r; l; ok] | ILoad r l n v => [3; r; l; n; v]
  | IDropped r c => [4; r; c] | IBegin m => [5; m] | IEnd => [6]
  | ITotal r t => [12; r; t] | IDrop r c d => [10; r; c; d] | ILoc r l s e ip is => [11; r; l; s; e; ip; is]
  | ILd r l n c sm => [13; r; l; n; c; sm] | ITot k r a b ev rp => [20; k; r; a; b; ev; rp]
  | IIp v lo hi => [21; v; lo; hi] | INop => [0]
  end.

Record sst := mks { s_cell : cells; s_inp : key -> Z; s_ex : key -> bool }.
Definition sst0 : sst := mks (fun _ _ => 0) (fun _ => 0) (fun _ => false).

(* the four recording functions, run to completion *)
Definition ev_cell (c : cells) (exf : key -> bool) (i : item) : cells :=
  match i with
  | IStarted r l => cadd c KIss (r, l, 0) 1
  | IFinished r l ok => if exf (r, l, 0) then cadd c (if ok =? 0 then KErr else KSucc) (r, l, 0) 1 else c
  | ILoad r l n v => if exf (r, l, 0) then cadd (cadd c KLSum (r, l, n) v) KLCnt (r, l, n) 1 else c
  | IDropped r ct => cadd c KDrop (r, ct, 0) 1
  | _ => c
  end.
Definition ev_ex (exf : key -> bool) (i : item) : key -> bool :=
  match i with IStarted r l => kupd exf (r, l, 0) true | _ => exf end.
Definition ev_inp (f : key -> Z) (exf : key -> bool) (i : item) : key -> Z :=
  match i with
  | IStarted r l => kupd f (r, l, 0) (u64 (f (r, l, 0) + 1))
  | IFinished r l _ => if exf (r, l, 0) then kupd f (r, l, 0) (u64 (f (r, l, 0) - 1)) else f
  | _ => f
  end.

Definition rangeZ (n : Z) : list Z := map Z.of_nat (seq 0 (Z.to_nat n)).
Fixpoint sum_over (l : list Z) (f : Z -> Z) : Z :=
  match l with [] => 0 | x :: t => f x + sum_over t f end.

(* PerClusterReporter.stats, in canonical (sorted) order *)
Fixpoint drops_loop (c : cells) (r : Z) (cs : list Z) : cells * list item :=
  match cs with
  | [] => (c, [])
  | x :: t => let d := c KDrop (r, x, 0) in
              let (c', it) := drops_loop (cupd c KDrop (r, x, 0) 0) r t in
              (c', (if (d =? 0) || (x =? 0) then [] else [IDrop r x d]) ++ it)
  end.
Fixpoint loads_loop (c : cells) (r l : Z) (ns : list Z) : cells * list item :=
  match ns with
  | [] => (c, [])
  | n :: t => let sm := c KLSum (r, l, n) in let ct := c KLCnt (r, l, n) in
              let (c', it) := loads_loop (cupd (cupd c KLSum (r, l, n) 0) KLCnt (r, l, n) 0) r l t in
              (c', (if ct =? 0 then [] else [ILd r l n ct sm]) ++ it)
  end.
Fixpoint locs_loop (c : cells) (ipf : key -> Z) (r : Z) (ls : list Z) : cells * list item :=
  match ls with
  | [] => (c, [])
  | l :: t =>
    let s := c KSucc (r, l, 0) in let ip := ipf (r, l, 0) in
    let e := c KErr (r, l, 0) in let is := c KIss (r, l, 0) in
    let c1 := cupd (cupd (cupd c KSucc (r, l, 0) 0) KErr (r, l, 0) 0) KIss (r, l, 0) 0 in
    if (s =? 0) && (ip =? 0) && (e =? 0) && (is =? 0) then locs_loop c1 ipf r t
    else let (c2, it2) := loads_loop c1 r l (rangeZ nN) in
         let (c3, it3) := locs_loop c2 ipf r t in
         (c3, ILoc r l s e (i64 ip) is :: it2 ++ it3)   (* the driver reports uint64 as int64 *)
  end.
Definition stats_one (c : cells) (ipf : key -> Z) (r : Z) : cells * list item :=
  let t := sum_over (rangeZ nC) (fun x => c KDrop (r, x, 0)) in
  (* the "" category first (Range order is unspecified; its count only shows in totalDrops) *)
  let (c1, it1) := drops_loop (cupd c KDrop (r, 0, 0) 0) r (rangeZ nC) in
  let (c2, it2) := locs_loop c1 ipf r (rangeZ nL) in
  (c2, ITotal r t :: it1 ++ it2).
Fixpoint stats_all (c : cells) (ipf : key -> Z) (rs : list Z) : cells * list item :=
  match rs with
  | [] => (c, [])
  | r :: t => let (c1, it1) := stats_one c ipf r in
              let (c2, it2) := stats_all c1 ipf t in (c2, it1 ++ it2)
  end.

(* LoadStore.stats(clusterNames): 0 = all, 1 = [c0], 2 = [c1], 3 = [c0, c1], other = unknown name *)
Definition covered (m : Z) : list Z :=
  if m =? 0 then [0; 1] else if m =? 1 then [0] else if m =? 2 then [1] else if m =? 3 then [0; 1] else [].

Definition seq_op (s : sst) (w : word) : sst * list word :=
  match parse w with
  | IBegin m => let (c, it) := stats_all (s_cell s) (s_inp s) (covered m) in
                (mks c (s_inp s) (s_ex s), enc (IBegin m) :: map enc it ++ [enc IEnd])
  | IStarted r l => (mks (ev_cell (s_cell s) (s_ex s) (IStarted r l)) (ev_inp (s_inp s) (s_ex s) (IStarted r l))
                         (ev_ex (s_ex s) (IStarted r l)), [enc (IStarted r l)])
  | IFinished r l ok => (mks (ev_cell (s_cell s) (s_ex s) (IFinished r l ok))
                             (ev_inp (s_inp s) (s_ex s) (IFinished r l ok)) (s_ex s), [enc (IFinished r l ok)])
  | ILoad r l n v => (mks (ev_cell (s_cell s) (s_ex s) (ILoad r l n v)) (s_inp s) (s_ex s), [enc (ILoad r l n v)])
  | IDropped r c => (mks (ev_cell (s_cell s) (s_ex s) (IDropped r c)) (s_inp s) (s_ex s), [enc (IDropped r c)])
  | _ => (s, [enc INop])
  end.

Fixpoint seq_run (s : sst) (ops : list word) : list word :=
  match ops with
  | [] => []
  | w :: t => let (s', o) := seq_op s w in o ++ seq_run s' t
  end.

Definition run (cfg : word) (ops : list word) : option (list word) :=
  match cfg with
  | [0] | [0; 1] => Some (seq_run sst0 ops)
  | _ => None
  end.

(* ---- the accounting automaton: what every reported number must be ---- *)
Record acc := mka { a_res : cells;            (* recorded and not yet reported *)
                    a_ns : key -> Z; a_nf : key -> Z; a_ex : key -> bool;
                    a_cov : list Z;           (* reporters covered by the stats() call being read *)
                    a_seen : list key }.      (* localities it reported *)
Definition acc0 : acc := mka (fun _ _ => 0) (fun _ => 0) (fun _ => 0) (fun _ => false) [] [].

(* clause 6: at the end of a stats() call, a covered locality that was not reported still
   holds recorded server loads (they are withheld until its request counters are non-zero) *)
Definition withheld_ok (a : acc) : bool :=
  forallb (fun r => forallb (fun l =>
    existsb (key_eqb (r, l, 0)) (a_seen a) ||
    forallb (fun n => a_res a KLCnt (r, l, n) =? 0) (rangeZ nN)) (rangeZ nL)) (a_cov a).

Definition kind_of (z : Z) : kind :=
  if z =? 0 then KSucc else if z =? 1 then KErr else if z =? 2 then KIss else if z =? 3 then KDrop
  else if z =? 4 then KLCnt else KLSum.

(* clause ids: 1 request counters / drops of a report differ from what was recorded since the
   previous report (loss or double count), 2 server-load count/sum differ, 3 in-progress is not
   started - finished, 4 stress: totals over all reports differ from the recorded events,
   5 stress: in-progress outside its bounds *)
Definition acc_step (a : acc) (i : item) : acc * (Z * bool) :=
  match i with
  | IStarted r l =>
    (mka (ev_cell (a_res a) (a_ex a) i) (kupd (a_ns a) (r, l, 0) (a_ns a (r, l, 0) + 1)) (a_nf a)
         (ev_ex (a_ex a) i) (a_cov a) (a_seen a), (0, true))
  | IFinished r l ok =>
    (mka (ev_cell (a_res a) (a_ex a) i) (a_ns a)
         (if a_ex a (r, l, 0) then kupd (a_nf a) (r, l, 0) (a_nf a (r, l, 0) + 1) else a_nf a) (a_ex a)
         (a_cov a) (a_seen a), (0, true))
  | ILoad _ _ _ _ | IDropped _ _ =>
    (mka (ev_cell (a_res a) (a_ex a) i) (a_ns a) (a_nf a) (a_ex a) (a_cov a) (a_seen a), (0, true))
  | IBegin m => (mka (a_res a) (a_ns a) (a_nf a) (a_ex a) (covered m) [], (0, true))
  | IEnd => (a, (6, withheld_ok a))
  | ITotal r t =>
    (mka (cupd (a_res a) KDrop (r, 0, 0) 0) (a_ns a) (a_nf a) (a_ex a) (a_cov a) (a_seen a),
     (1, t =? sum_over (rangeZ nC) (fun x => a_res a KDrop (r, x, 0))))
  | IDrop r c d =>
    (mka (cupd (a_res a) KDrop (r, c, 0) 0) (a_ns a) (a_nf a) (a_ex a) (a_cov a) (a_seen a),
     (1, (d =? a_res a KDrop (r, c, 0)) && negb (d =? 0) && negb (c =? 0)))
  | ILoc r l s e ip is =>
    (mka (cupd (cupd (cupd (a_res a) KSucc (r, l, 0) 0) KErr (r, l, 0) 0) KIss (r, l, 0) 0)
         (a_ns a) (a_nf a) (a_ex a) (a_cov a) ((r, l, 0) :: a_seen a),
     if (s =? a_res a KSucc (r, l, 0)) && (e =? a_res a KErr (r, l, 0)) && (is =? a_res a KIss (r, l, 0))
     then (3, ip =? i64 (u64 (a_ns a (r, l, 0) - a_nf a (r, l, 0)))) else (1, false))
  | ILd r l n c sm =>
    (mka (cupd (cupd (a_res a) KLSum (r, l, n) 0) KLCnt (r, l, n) 0) (a_ns a) (a_nf a) (a_ex a)
         (a_cov a) (a_seen a),
     (2, (c =? a_res a KLCnt (r, l, n)) && (sm =? a_res a KLSum (r, l, n)) && negb (c =? 0)))
  | ITot _ _ _ _ ev rp => (a, (4, ev =? rp))
  | IIp v lo hi => (a, (5, (lo <=? v) && (v <=? hi)))
  | _ => (a, (0, true))
  end.

Fixpoint acc_run (a : acc) (i : Z) (l : list item) : list (Z * Z * bool) :=
  match l with
  | [] => []
  | x :: t => let (a', r) := acc_step a x in (fst r, i, snd r) :: acc_run a' (i + 1) t
  end.

(* clause 6 is a known finding (C50_withheld_load_refuted): it is evaluated only in the
   dedicated replay case cfg [0; 1], so that every other case keeps its full check *)
Definition is6 (c : Z * Z * bool) : bool := fst (fst c) =? 6.
Definition clauses (cfg : word) (ops obs : list word) : list (Z * Z * bool) :=
  let l := acc_run acc0 0 (map parse obs) in
  match cfg with
  | [0; 1] => filter (fun c => negb (is6 c)) l ++ filter is6 l
  | _ => filter (fun c => negb (is6 c)) l
  end.

(* the property predicate, without the refuted clause *)
Definition okc (c : Z * Z * bool) : bool := is6 c || snd c.
Definition holds_b (cfg : word) (ops obs : list word) : bool :=
  forallb okc (clauses cfg ops obs).

(* sequential cases: exact correspondence + accounting; stress cases (cfg [1; ...], real
   goroutines, not reproducible): only the accounting clauses 4 and 5 *)
Definition check_case (c : case) : verdict :=
  match c_cfg c with
  | [0] | [0; 1] => decide (run (c_cfg c) (c_ops c)) (c_obs c) (clauses (c_cfg c) (c_ops c) (c_obs c))
  | _ => decide (Some (c_obs c)) (c_obs c) (clauses (c_cfg c) (c_ops c) (c_obs c))
  end.
