(* C47: xDS header, string and path matchers.
   Transcribes
     internal/xds/matcher/matcher_header.go  (valueFromMD and every Header*Matcher.Match)
     internal/xds/matcher/string_matcher.go  (StringMatcher.Match, newStrPtr, CompileSafeRegex)
     internal/xds/xdsclient/xdsresource/matcher_path.go (exact / prefix / regex path matchers)
   Strings are lists of Unicode code points (the driver only uses valid UTF-8, where
   ==, HasPrefix, HasSuffix and Contains on bytes and on code points coincide).
   strings.ToLower / ToUpper map code point by code point: ASCII folding below 128 and
   unicode.ToLower / ToUpper above, which are parameters (UL, UU) of the evaluators.
   Regular expressions are a small AST with a derivative matcher (full-string by
   construction).  No proofs here. *)
From Coq Require Import List ZArith Bool.
From VLib Require Import Codec Machine.
Import ListNotations.
Open Scope Z_scope.

Definition str := list Z.
Definition str_eqb : str -> str -> bool := word_eqb.

Fixpoint prefixb (p s : str) : bool :=
  match p, s with
  | [], _ => true
  | x :: p', y :: s' => (x =? y) && prefixb p' s'
  | _ :: _, [] => false
  end.
Definition suffixb (p s : str) : bool := prefixb (rev p) (rev s).
Fixpoint containsb (p s : str) : bool :=
  prefixb p s || match s with [] => false | _ :: s' => containsb p s' end.

Definition comma : Z := 44.
Fixpoint join (vs : list str) : str :=
  match vs with
  | [] => []
  | [v] => v
  | v :: r => v ++ comma :: join r
  end.

(* ---------------------------------------------------------------- case mapping *)
Definition alower (c : Z) : Z := if (65 <=? c) && (c <=? 90) then c + 32 else c.
Definition aupper (c : Z) : Z := if (97 <=? c) && (c <=? 122) then c - 32 else c.

Section Fold.
  Variable UL UU : Z -> Z.   (* unicode.ToLower / unicode.ToUpper on code points >= 128 *)
  Definition lower1 (c : Z) : Z := if c <? 128 then alower c else UL c.
  Definition upper1 (c : Z) : Z := if c <? 128 then aupper c else UU c.
  Definition lower (s : str) : str := map lower1 s.
  Definition upper (s : str) : str := map upper1 s.

  (* StringMatcher: kind 1 exact, 2 prefix, 3 suffix, otherwise contains.  The constructor
     stores ToLower(pattern) when ignoreCase, Match lowers the input when ignoreCase *)
  Definition sm_eval (kind : Z) (ic : bool) (pat input : str) : bool :=
    let p := if ic then lower pat else pat in
    let i := if ic then lower input else input in
    if kind =? 1 then str_eqb i p else
    if kind =? 2 then prefixb p i else
    if kind =? 3 then suffixb p i else containsb p i.

  (* path matchers: kind 1 exact, otherwise prefix; upper-cased when caseInsensitive *)
  Definition path_eval (kind : Z) (ci : bool) (pat path : str) : bool :=
    let p := if ci then upper pat else pat in
    let s := if ci then upper path else path in
    if kind =? 1 then str_eqb p s else prefixb p s.
End Fold.

(* unicode.ToLower / ToUpper on the non-ASCII code points the driver uses:
   KELVIN SIGN, LATIN SMALL LETTER LONG S, DOTLESS I, E ACUTE (both cases), a CJK letter *)
Definition tl (c : Z) : Z := if c =? 8490 then 107 else if c =? 201 then 233 else c.
Definition tu (c : Z) : Z := if c =? 383 then 83 else if c =? 305 then 73 else if c =? 233 then 201 else c.
Definition idz (c : Z) : Z := c.

(* ---------------------------------------------------------------- regular expressions *)
Inductive re := RNone | REps | RChr (c : Z) | RAny | RCat (a b : re) | RAlt (a b : re) | RStar (a : re).

Fixpoint nullable (r : re) : bool :=
  match r with
  | RNone => false | REps => true | RChr _ => false | RAny => false
  | RCat a b => nullable a && nullable b
  | RAlt a b => nullable a || nullable b
  | RStar _ => true
  end.
Fixpoint deriv (c : Z) (r : re) : re :=
  match r with
  | RNone => RNone
  | REps => RNone
  | RChr d => if c =? d then REps else RNone
  | RAny => if c =? 10 then RNone else REps    (* RE2 '.' does not match newline *)
  | RCat a b => if nullable a then RAlt (RCat (deriv c a) b) (deriv c b) else RCat (deriv c a) b
  | RAlt a b => RAlt (deriv c a) (deriv c b)
  | RStar a => RCat (deriv c a) (RStar a)
  end.
(* the whole string is in the language of r *)
Fixpoint rmatch (r : re) (s : str) : bool :=
  match s with
  | [] => nullable r
  | c :: s' => rmatch (deriv c r) s'
  end.

(* prefix encoding: 0 eps, 1 c chr, 2 any, 3 a b cat, 4 a b alt, 5 a star *)
Fixpoint parse_re (fuel : nat) (w : list Z) : option (re * list Z) :=
  match fuel with
  | O => None
  | S f =>
    match w with
    | 0 :: r => Some (REps, r)
    | 1 :: c :: r => Some (RChr c, r)
    | 2 :: r => Some (RAny, r)
    | 3 :: r => match parse_re f r with
                | Some (a, r1) => match parse_re f r1 with
                                  | Some (b, r2) => Some (RCat a b, r2)
                                  | None => None
                                  end
                | None => None
                end
    | 4 :: r => match parse_re f r with
                | Some (a, r1) => match parse_re f r1 with
                                  | Some (b, r2) => Some (RAlt a b, r2)
                                  | None => None
                                  end
                | None => None
                end
    | 5 :: r => match parse_re f r with
                | Some (a, r1) => Some (RStar a, r1)
                | None => None
                end
    | _ => None
    end
  end.
Definition get_re (w : list Z) : option re :=
  match parse_re (S (length w)) w with Some (r, []) => Some r | _ => None end.

(* ---------------------------------------------------------------- strconv.ParseInt(v, 10, 64) *)
Definition is_digit (c : Z) : bool := (48 <=? c) && (c <=? 57).
Fixpoint dec_val (acc : Z) (s : str) : option Z :=
  match s with
  | [] => Some acc
  | c :: r => if is_digit c then dec_val (acc * 10 + (c - 48)) r else None
  end.
Definition split_sign (s : str) : bool * str :=
  match s with
  | c :: r => if c =? 43 then (false, r) else if c =? 45 then (true, r) else (false, s)
  | [] => (false, s)
  end.
Definition parse_int (s : str) : option Z :=
  let '(neg, ds) := split_sign s in
  match ds with
  | [] => None
  | _ => match dec_val 0 ds with
         | None => None
         | Some v => let n := if neg then - v else v in
                     if in_i64 n then Some n else None
         end
  end.

(* ---------------------------------------------------------------- metadata.MD *)
Definition mdt := list (str * list str).
Fixpoint md_get (m : mdt) (k : str) : option (list str) :=
  match m with
  | [] => None
  | (k', vs) :: r => if str_eqb k' k then Some vs else md_get r k
  end.
Fixpoint md_add (m : mdt) (k v : str) : mdt :=
  match m with
  | [] => [(k, [v])]
  | (k', vs) :: r => if str_eqb k' k then (k', vs ++ [v]) :: r else (k', vs) :: md_add r k v
  end.
Definition md_touch (m : mdt) (k : str) : mdt :=
  match md_get m k with Some _ => m | None => m ++ [(k, [])] end.

(* valueFromMD *)
Definition value_from (m : mdt) (k : str) : option str :=
  match md_get m k with None => None | Some vs => Some (join vs) end.

(* header matchers.  kind 1 exact, 2 prefix, 3 suffix, 4 contains (the dedicated types),
   5 range [a,b), 6 present (a <> 0), 7..10 HeaderStringMatcher exact/prefix/suffix/contains
   with ignoreCase = (a <> 0).
   [pe] = true is the code: the present matcher treats an empty joined value as absent *)
Definition hdr_eval (UL : Z -> Z) (pe : bool) (kind : Z) (inv : bool) (a b : Z) (key arg : str) (m : mdt) : bool :=
  if kind =? 6 then
    let want := xorb (z2b a) inv in     (* NewHeaderPresentMatcher folds invert into present *)
    let present := match value_from m key with
                   | None => false
                   | Some [] => negb pe
                   | Some _ => true
                   end in
    Bool.eqb present want
  else
    match value_from m key with
    | None => false
    | Some v =>
      let r :=
        if kind =? 1 then str_eqb v arg else
        if kind =? 2 then prefixb arg v else
        if kind =? 3 then suffixb arg v else
        if kind =? 4 then containsb arg v else
        if kind =? 5 then match parse_int v with
                          | Some i => (a <=? i) && (i <? b)
                          | None => false
                          end
        else sm_eval UL (kind - 6) (z2b a) arg v in
      xorb r inv
    end.

Definition hdr_regex_eval (inv : bool) (key : str) (r : re) (m : mdt) : bool :=
  match value_from m key with
  | None => false
  | Some v => xorb (rmatch r v) inv
  end.

(* ---------------------------------------------------------------- the op machine *)
Definition get2 (l : list Z) : option (str * str) :=
  match get_bytes l with
  | Some (a, r) => match get_bytes r with Some (b, []) => Some (a, b) | _ => None end
  | None => None
  end.
Definition get1 (l : list Z) : option str :=
  match get_bytes l with Some (a, []) => Some a | _ => None end.

Inductive dop :=
| DAdd (k v : str) | DTouch (k : str) | DClr
| QHdr (kind : Z) (inv : bool) (a b : Z) (key arg : str)
| QHdrRe (inv : bool) (key : str) (r : re)
| QRe (which : Z) (input : str) (r : re)
| QStr (kind : Z) (ic : bool) (pat input : str)
| QPath (kind : Z) (ci : bool) (pat path : str)
| QCase (c : Z).

Definition decode (op : word) : option dop :=
  match op with
  | 20 :: rest => match get2 rest with Some (k, v) => Some (DAdd k v) | None => None end
  | 21 :: rest => match get1 rest with Some k => Some (DTouch k) | None => None end
  | [23] => Some DClr
  | 1 :: kind :: inv :: a :: b :: rest =>
    match get2 rest with Some (k, arg) => Some (QHdr kind (z2b inv) a b k arg) | None => None end
  | 2 :: inv :: rest =>
    match get_bytes rest with
    | Some (k, w) => match get_re w with Some r => Some (QHdrRe (z2b inv) k r) | None => None end
    | None => None
    end
  | 3 :: which :: rest =>
    match get_bytes rest with
    | Some (s, w) => match get_re w with Some r => Some (QRe which s r) | None => None end
    | None => None
    end
  | 4 :: kind :: ic :: rest =>
    match get2 rest with Some (p, s) => Some (QStr kind (z2b ic) p s) | None => None end
  | 5 :: kind :: ci :: rest =>
    match get2 rest with Some (p, s) => Some (QPath kind (z2b ci) p s) | None => None end
  | [6; c] => Some (QCase c)
  | _ => None
  end.

(* evaluation of a query under a reading: (UL, UU, pe) = (tl, tu, true) is the code,
   (idz, idz, false) is the property's literal reading (ASCII folding, presence) *)
Definition eval_q (UL UU : Z -> Z) (pe : bool) (m : mdt) (o : dop) : word :=
  match o with
  | QHdr kind inv a b key arg => [b2z (hdr_eval UL pe kind inv a b key arg m)]
  | QHdrRe inv key r => [b2z (hdr_regex_eval inv key r m)]
  | QRe _ s r => [b2z (rmatch r s)]
  | QStr kind ic p s => [b2z (sm_eval UL kind ic p s)]
  | QPath kind ci p s => [b2z (path_eval UU kind ci p s)]
  | QCase c => [lower1 UL c; upper1 UU c]
  | _ => []
  end.

Definition apply (m : mdt) (o : dop) : mdt * word :=
  match o with
  | DAdd k v => (md_add m k v, [])
  | DTouch k => (md_touch m k, [])
  | DClr => ([], [])
  | _ => (m, eval_q tl tu true m o)
  end.

Fixpoint run_from (m : mdt) (ops : list word) : option (list word) :=
  match ops with
  | [] => Some []
  | op :: r => match decode op with
               | Some o => match run_from (fst (apply m o)) r with
                           | Some os => Some (snd (apply m o) :: os)
                           | None => None
                           end
               | None => None
               end
  end.
Definition run (cfg : word) (ops : list word) : option (list word) := run_from [] ops.

(* ---------------------------------------------------------------- the property on observations *)
(* clause 1: header exact/prefix/suffix/contains/string/regex matchers: joined value,
             absent => false, invert flips when present
   clause 2: header range matcher: base-10 int64 in [start, end)
   clause 3: header present matcher compares presence (xor invert)
   clause 4: string matchers (ignore_case = ASCII case-insensitive)
   clause 5: path matchers (case_insensitive = equal / prefixed up to ASCII case)
   clause 6: regular expressions match the full string
   clause 7: (known finding) ignore_case / case_insensitive fold non-ASCII letters whose
             Unicode case mapping is an ASCII letter (KELVIN SIGN, LONG S, DOTLESS I) or
             another letter, so strings that differ by more than ASCII case match
   clause 8: (known finding) present_match treats a header whose joined value is empty
             as absent *)
Definition main_clause (o : dop) : Z :=
  match o with
  | QHdr kind _ _ _ _ _ => if kind =? 5 then 2 else if kind =? 6 then 3 else 1
  | QHdrRe _ _ _ => 1
  | QRe _ _ _ => 6
  | QStr _ _ _ _ => 4
  | QPath _ _ _ _ => 5
  | _ => 0
  end.
Definition finding_clause (o : dop) : Z :=
  match o with
  | QHdr kind _ _ _ _ _ => if kind =? 6 then 8 else 7
  | _ => 7
  end.
Definition is_query (o : dop) : bool :=
  match o with DAdd _ _ | DTouch _ | DClr | QCase _ => false | _ => true end.

Definition clause_op (m : mdt) (o : dop) (obs : word) : list (Z * Z * bool) :=
  if is_query o then
    let spec := eval_q idz idz false m o in
    let impl := eval_q tl tu true m o in
    [(main_clause o, 0, word_eqb obs spec || word_eqb obs impl);
     (finding_clause o, 0, word_eqb obs spec)]
  else [].

Fixpoint clauses_from (m : mdt) (ops obs : list word) : list (Z * Z * bool) :=
  match ops, obs with
  | op :: r, o :: r' =>
    match decode op with
    | Some d => clause_op m d o ++ clauses_from (fst (apply m d)) r r'
    | None => [(0, 0, false)]
    end
  | [], [] => []
  | _, _ => [(0, 0, false)]
  end.

Definition isf (c : Z * Z * bool) : bool := (fst (fst c) =? 7) || (fst (fst c) =? 8).
(* findings last, so that any other failure of the same case is reported first *)
Definition clauses (cfg : word) (ops obs : list word) : list (Z * Z * bool) :=
  let l := clauses_from [] ops obs in
  filter (fun c => negb (isf c)) l ++ filter isf l.

(* everything except the known-finding clauses 7 and 8 *)
Definition holds_b (cfg : word) (ops obs : list word) : bool :=
  forallb (fun c => isf c || snd c) (clauses cfg ops obs).

Definition op_wf (op : word) : bool := match decode op with Some _ => true | None => false end.

Definition check_case (c : case) : verdict :=
  decide (run (c_cfg c) (c_ops c)) (c_obs c) (clauses (c_cfg c) (c_ops c) (c_obs c)).
