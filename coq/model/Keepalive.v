(* C15: keepalive.
   Part A, the keepalive loop of an endpoint, transcribed from http2Client.keepalive
   (internal/transport/http2_client.go; the server's loop in http2_server.go is the same code
   without dormancy, i.e. the instance permit = true): a timed machine over virtual
   milliseconds with the loop variables prevNano, outstandingPing, timeoutLeft, the timer, and
   dormancy (no stream and !PermitWithoutStream: wait on kpDormancyCond, ping on wake-up).
   Part B, the server's ping-abuse ledger, transcribed from http2Server.handlePing
   (lastPingAt, pingStrikes, resetPingStrikes, maxPingStrikes = 2, defaultPingTimeout = 2 h).
   No proofs here. *)
From Coq Require Import List ZArith Bool.
From VLib Require Import Codec Machine.
Import ListNotations.
Open Scope Z_scope.

(* ================= Part A: the keepalive loop ================= *)
Record kcfg := mkkc { kc_time : Z; kc_timeout : Z; kc_permit : bool }.
Record kst := mkk {
  k_now : Z;
  k_last : Z;        (* t.lastRead *)
  k_prev : Z;        (* prevNano *)
  k_out : bool;      (* outstandingPing *)
  k_left : Z;        (* timeoutLeft *)
  k_timer : Z;       (* when the timer fires *)
  k_dorm : bool;     (* blocked in kpDormancyCond.Wait() *)
  k_streams : Z;     (* len(t.activeStreams) *)
  k_closed : bool;   (* transport closed by keepalive *)
  k_ack : bool;      (* harness: the peer acknowledges pings (an ack is a read at the same instant) *)
  k_ping : Z;        (* ghost: when the last keepalive ping was sent *)
  k_drain : bool }.  (* t.state == draining: a graceful GOAWAY was received, the open streams go on *)
Definition kinit (c : kcfg) := mkk 0 0 0 false 0 (kc_time c) false 0 false false 0 false.

(* "if !outstandingPing { put(ping); timeoutLeft = Timeout; outstanding = true };
    sleep = min(Time, timeoutLeft); timeoutLeft -= sleep; timer.Reset(sleep)" at time t *)
Definition ping_and_sleep (c : kcfg) (s : kst) (t : Z) : kst * list (Z * Z) :=
  let fresh := negb (k_out s) in
  let left := if fresh then kc_timeout c else k_left s in
  let sleep := Z.min (kc_time c) left in
  (mkk t (if fresh && k_ack s then t else k_last s) (k_prev s) true (left - sleep) (t + sleep) false
       (k_streams s) false (k_ack s) (if fresh then t else k_ping s) (k_drain s),
   if fresh then [(6, t)] else []).

(* one firing of the timer, at time k_timer s *)
Definition fire (c : kcfg) (s : kst) : kst * list (Z * Z) :=
  let t := k_timer s in
  if k_prev s <? k_last s then
    (* read activity since the last check: next firing Time after the last read (at once if
       that is already past) *)
    (mkk t (k_last s) (k_last s) false (k_left s) (Z.max t (k_last s + kc_time c)) false (k_streams s) false (k_ack s) (k_ping s) (k_drain s), [])
  else if k_out s && (k_left s <=? 0) then
    (mkk t (k_last s) (k_prev s) (k_out s) (k_left s) t false (k_streams s) true (k_ack s) (k_ping s) (k_drain s), [(8, t)])
  else if (k_streams s <? 1) && negb (kc_permit c) then
    (mkk t (k_last s) (k_prev s) false (k_left s) t true (k_streams s) false (k_ack s) (k_ping s) (k_drain s), [])
  else ping_and_sleep c s t.

(* let virtual time pass up to (not including) target *)
Fixpoint advance (fuel : nat) (c : kcfg) (s : kst) (target : Z) : kst * list (Z * Z) :=
  match fuel with
  | O => (s, [])
  | S f =>
    if k_closed s || k_dorm s || (target <=? k_timer s) then
      (mkk target (k_last s) (k_prev s) (k_out s) (k_left s) (k_timer s) (k_dorm s) (k_streams s) (k_closed s) (k_ack s) (k_ping s) (k_drain s), [])
    else
      let '(s1, e1) := fire c s in
      let '(s2, e2) := advance f c s1 target in (s2, e1 ++ e2)
  end.

Inductive kop := KWait | KRead | KOpen | KCloseStream | KAckOn | KAckOff | KGoAway.

Definition act (c : kcfg) (s : kst) (o : kop) : kst * list (Z * Z) :=
  let set_last s v := mkk (k_now s) v (k_prev s) (k_out s) (k_left s) (k_timer s) (k_dorm s) (k_streams s) (k_closed s) (k_ack s) (k_ping s) (k_drain s) in
  let set_streams s v := mkk (k_now s) (k_last s) (k_prev s) (k_out s) (k_left s) (k_timer s) (k_dorm s) v (k_closed s) (k_ack s) (k_ping s) (k_drain s) in
  let set_ack s v := mkk (k_now s) (k_last s) (k_prev s) (k_out s) (k_left s) (k_timer s) (k_dorm s) (k_streams s) (k_closed s) v (k_ping s) (k_drain s) in
  if k_closed s then (s, []) else
  match o with
  | KWait => (s, [])
  | KRead => (set_last s (k_now s), [])
  | KOpen =>
    (* NewStream fails on a draining transport (errStreamDrain) *)
    if k_drain s then (s, []) else
    let s1 := set_streams s (k_streams s + 1) in
    if k_dorm s then
      if k_prev s <? k_last s then
        (* a byte was read while dormant: read activity like any other - the next ping is due
           Time after it, at once if that is already past *)
        let s2 := mkk (k_now s) (k_last s) (k_last s) false (k_left s) (Z.max (k_now s) (k_last s + kc_time c)) false
                      (k_streams s + 1) false (k_ack s) (k_ping s) (k_drain s) in
        if k_timer s2 <=? k_now s then fire c s2 else (s2, [])
      else ping_and_sleep c s1 (k_now s)
    else (s1, [])
  | KCloseStream =>
    (* the harness does not close the last stream of a draining transport: that closes the
       connection for a reason that is not keepalive *)
    (if (0 <? k_streams s) && negb (k_drain s && (k_streams s =? 1)) then set_streams s (k_streams s - 1) else s, [])
  | KAckOn => (set_ack s true, [])
  | KAckOff => (set_ack s false, [])
  | KGoAway =>
    (* the peer sends GOAWAY(NO_ERROR, last-stream-id 2^31-1) while a stream is open (the harness
       does not send it otherwise: handleGoAway closes a transport without streams): the frame
       is a read, the transport is draining from now on and the keepalive loop goes on *)
    if 1 <=? k_streams s then
      (mkk (k_now s) (k_now s) (k_prev s) (k_out s) (k_left s) (k_timer s) (k_dorm s) (k_streams s) (k_closed s) (k_ack s) (k_ping s) true, [])
    else (s, [])
  end.

Definition fuel_for (c : kcfg) (dt : Z) : nat := Z.to_nat (2 * (dt / Z.min (kc_time c) (kc_timeout c)) + 6).

(* an op [kind; x]: 1000*x + 1 ms pass, then the action *)
Definition flat (l : list (Z * Z)) : list Z := flat_map (fun e => [fst e; snd e]) l.

Definition kstep (c : kcfg) (s : kst) (x : Z) (o : kop) : kst * list (Z * Z) :=
  let dt := 1000 * x + 1 in
  let '(s1, e1) := advance (fuel_for c dt) c s (k_now s + dt) in
  let '(s2, e2) := act c s1 o in
  (s2, e1 ++ e2).

Fixpoint krun (c : kcfg) (s : kst) (ops : list (Z * kop)) : list word :=
  match ops with
  | [] => []
  | (x, o) :: r => let '(s', ev) := kstep c s x o in (k_now s' :: flat ev) :: krun c s' r
  end.

(* ================= Part B: the ping-abuse ledger ================= *)
Record pcfg := mkpc { pc_min : Z; pc_permit : bool }.
Record pst := mkp {
  p_now : Z;
  p_lastping : Z;    (* lastPingAt in ms, -1 = zero time *)
  p_strikes : Z;     (* pingStrikes (uint8) *)
  p_reset : bool;    (* resetPingStrikes *)
  p_streams : Z;
  p_goaway : bool }.
Definition pinit := mkp 0 (-1) 0 false 0 false.
Definition two_hours := 7200000.

Definition too_early (last gap now : Z) : bool := (0 <=? last) && (now <? last + gap).

(* handlePing for a non-ack PING at time p_now *)
Definition on_ping (c : pcfg) (s : pst) : pst * list (Z * Z) :=
  if p_reset s then (mkp (p_now s) (p_now s) 0 false (p_streams s) (p_goaway s), [])
  else
    let gap := if (p_streams s <? 1) && negb (pc_permit c) then two_hours else pc_min c in
    let strikes := if too_early (p_lastping s) gap (p_now s) then u8 (p_strikes s + 1) else p_strikes s in
    if 2 <? strikes
    then (mkp (p_now s) (p_now s) strikes false (p_streams s) true, [(7, 11)])
    else (mkp (p_now s) (p_now s) strikes false (p_streams s) (p_goaway s), []).

Inductive pop := PWait | PPing | POpen | PFinish.
Definition pstep (c : pcfg) (s : pst) (x : Z) (o : pop) : pst * list (Z * Z) :=
  if p_goaway s then (s, []) else
  let s1 := mkp (p_now s + 1000 * x + 1) (p_lastping s) (p_strikes s) (p_reset s) (p_streams s) false in
  match o with
  | PWait => (s1, [])
  | PPing => on_ping c s1
  | POpen => (mkp (p_now s1) (p_lastping s1) (p_strikes s1) (p_reset s1) (p_streams s1 + 1) false, [])
  | PFinish =>
    (* the application finishes a stream: trailers are written, onWrite sets resetPingStrikes *)
    if 0 <? p_streams s1 then (mkp (p_now s1) (p_lastping s1) (p_strikes s1) true (p_streams s1 - 1) false, [])
    else (s1, [])
  end.
Fixpoint prun (c : pcfg) (s : pst) (ops : list (Z * pop)) : list word :=
  match ops with
  | [] => []
  | (x, o) :: r => let '(s', ev) := pstep c s x o in (p_now s' :: flat ev) :: prun c s' r
  end.

(* ================= cases ================= *)
(* cfg [0; Time_ms; Timeout_ms; permit] : keepalive loop of a client, ops [kind; x] with
       kind 1 wait, 2 the peer sends a byte, 3 open a stream, 4 close a stream, 5 / 6 peer acks pings on / off,
       7 the peer sends a graceful GOAWAY (only while a stream is open)
   cfg [1; MinTime_ms; permit]          : ping-abuse ledger of a server, ops [kind; x] with
       kind 1 wait, 2 client PING, 3 client opens a stream, 4 the server finishes a stream *)
Definition in_x (x : Z) : bool := (0 <=? x) && (x <=? 20000).
Definition decode_kop (w : word) : option (Z * kop) :=
  match w with
  | [k; x] => if in_x x then
                match k with
                | 1 => Some (x, KWait) | 2 => Some (x, KRead) | 3 => Some (x, KOpen)
                | 4 => Some (x, KCloseStream) | 5 => Some (x, KAckOn) | 6 => Some (x, KAckOff)
                | 7 => Some (x, KGoAway)
                | _ => None
                end else None
  | _ => None
  end.
Definition decode_pop (w : word) : option (Z * pop) :=
  match w with
  | [k; x] => if in_x x then
                match k with
                | 1 => Some (x, PWait) | 2 => Some (x, PPing) | 3 => Some (x, POpen) | 4 => Some (x, PFinish)
                | _ => None
                end else None
  | _ => None
  end.
Fixpoint decode_all {A} (f : word -> option A) (ws : list word) : option (list A) :=
  match ws with
  | [] => Some []
  | w :: r => match f w, decode_all f r with
              | Some o, Some os => Some (o :: os)
              | _, _ => None
              end
  end.
Definition ms_ok (v : Z) : bool := (1000 <=? v) && (v <=? 10000000) && (v mod 1000 =? 0).

Definition run (cfg : word) (ops : list word) : option (list word) :=
  match cfg with
  | [0; tm; to; pm] =>
    if ms_ok tm && ms_ok to && ((pm =? 0) || (pm =? 1)) then
      match decode_all decode_kop ops with
      | Some os => let c := mkkc tm to (pm =? 1) in Some (krun c (kinit c) os)
      | None => None
      end
    else None
  | [1; mn; pm] =>
    if ms_ok mn && ((pm =? 0) || (pm =? 1)) then
      match decode_all decode_pop ops with
      | Some os => Some (prun (mkpc mn (pm =? 1)) pinit os)
      | None => None
      end
    else None
  | _ => None
  end.

(* ================= the property on observations ================= *)
(* events of an observation are pairs [tag; value] after the leading time *)
Fixpoint pairs (fuel : nat) (w : list Z) : list (Z * Z) :=
  match fuel with
  | O => []
  | S f => match w with a :: b :: r => (a, b) :: pairs f r | _ => [] end
  end.
Definition evs (ob : word) : list (Z * Z) := match ob with [] => [] | _ :: r => pairs (length r) r end.

(* clause ids, keepalive loop (classification of the moment from the op history, replayed on
   the model; the close / ping times are the implementation's):
   2 closed by keepalive only if nothing was read during the last Time
   3 the close comes exactly Timeout after the last keepalive ping
   4 after a wake-up from dormancy (at a) that follows a byte (at t0) the loop had not looked at,
     a peer that stays silent is closed no later than max(t0 + Time, a) + Timeout
   5 clause 2 for the closes that follow such a wake-up
   8 a dead peer is detected: once the timeline (last received byte + Time, keepalive applicable
     - a stream is open, also on a transport that is draining after a graceful GOAWAY - then
     Timeout without a byte) has run out, which the model's k_closed says, the implementation
     has closed the connection (a close event was seen in this or an earlier observation)
   clause ids, ping-abuse ledger:
   6 GOAWAY(ENHANCE_YOUR_CALM) only in answer to a ping that came too early (less than MinTime
     after the previous one with streams / PermitWithoutStream, less than two hours otherwise)
   7 the third too-early ping not separated by server-sent headers/data is answered by GOAWAY *)
Record kthread := mkkt { h_ping : Z; h_wake : Z; h_seen : bool }.   (* last ping seen; max(t0 + Time, a) of a wake-up with an unobserved read, or -1; a close event was seen *)
Definition kt0 := mkkt 0 (-1) false.
Definition is_close (e : Z * Z) : bool := fst e =? 8.

(* one event of an observation: a ping is remembered, a close is checked against the last read
   (lastv), the last ping (p) and, after a stale wake-up (hw >= 0), the literal bound *)
Definition kcl_step (c : kcfg) (lastv hw : Z) (acc : list (Z * Z * bool) * Z) (e : Z * Z) : list (Z * Z * bool) * Z :=
  let '(cl, p) := acc in
  if fst e =? 6 then (cl, snd e)
  else if fst e =? 8 then
    (cl ++ [ (2, snd e, (0 <=? hw) || (lastv + kc_time c <? snd e)); (3, snd e, snd e =? p + kc_timeout c);
             (4, snd e, (hw <? 0) || (snd e <=? hw + kc_timeout c));
             (5, snd e, (hw <? 0) || (lastv + kc_time c <? snd e)) ], p)
  else (cl, p).

Definition kclause (c : kcfg) (s : kst) (h : kthread) (x : Z) (o : kop) (ob : word) : list (Z * Z * bool) * kthread :=
  let s' := fst (kstep c s x o) in
  (* is this op a wake-up from dormancy that follows a read the loop has not looked at? *)
  let s1 := fst (advance (fuel_for c (1000 * x + 1)) c s (k_now s + (1000 * x + 1))) in
  let wake := match o with
              | KOpen => negb (k_drain s1) && k_dorm s1 && negb (k_closed s1) && (k_prev s1 <? k_last s1) && negb (k_ack s1)
              | _ => false
              end in
  (* ... and nothing has been read, no stream closed, no ack switched on since *)
  let h_wake' := if wake then Z.max (k_now s1) (k_last s1 + kc_time c)
                 else match o with KRead | KCloseStream | KAckOn | KGoAway => -1 | _ => h_wake h end in
  let '(cl, p) := fold_left (kcl_step c (k_last s') h_wake') (evs ob) ([], h_ping h) in
  let seen := h_seen h || existsb is_close (evs ob) in
  (cl ++ [(8, k_now s', negb (k_closed s') || seen)], mkkt p h_wake' seen).

Fixpoint kclauses (c : kcfg) (s : kst) (h : kthread) (ops : list (Z * kop)) (obs : list word) : list (Z * Z * bool) :=
  match ops, obs with
  | (x, o) :: r, ob :: r' =>
    let '(cl, h') := kclause c s h x o ob in cl ++ kclauses c (fst (kstep c s x o)) h' r r'
  | [], [] => []
  | _, _ => [(0, 0, false)]
  end.

Definition pclause (c : pcfg) (s : pst) (x : Z) (o : pop) (ob : word) : list (Z * Z * bool) :=
  let goaway := existsb (fun e => fst e =? 7) (evs ob) in
  match o with
  | PPing =>
    if p_goaway s then [] else
    let now := p_now s + 1000 * x + 1 in
    let gap := if (p_streams s <? 1) && negb (pc_permit c) then two_hours else pc_min c in
    let early := negb (p_reset s) && too_early (p_lastping s) gap now in
    [ (6, now, negb goaway || early);
      (7, now, negb (early && (p_strikes s =? 2)) || goaway) ]
  | _ => [ (6, 0, negb goaway) ]
  end.
Fixpoint pclauses (c : pcfg) (s : pst) (ops : list (Z * pop)) (obs : list word) : list (Z * Z * bool) :=
  match ops, obs with
  | (x, o) :: r, ob :: r' => pclause c s x o ob ++ pclauses c (fst (pstep c s x o)) r r'
  | [], [] => []
  | _, _ => [(0, 0, false)]
  end.

Definition clauses (cfg : word) (ops obs : list word) : list (Z * Z * bool) :=
  match cfg with
  | [0; tm; to; pm] =>
    match decode_all decode_kop ops with
    | Some os => let c := mkkc tm to (pm =? 1) in kclauses c (kinit c) kt0 os obs
    | None => [(0, 0, false)]
    end
  | [1; mn; pm] =>
    match decode_all decode_pop ops with
    | Some os => pclauses (mkpc mn (pm =? 1)) pinit os obs
    | None => [(0, 0, false)]
    end
  | _ => [(0, 0, false)]
  end.

(* no literal sentence of C15 is refuted any more *)
Definition finding_clause (c : Z) : bool := false.
Definition holds_b (cfg : word) (ops obs : list word) : bool :=
  forallb (fun c => finding_clause (fst (fst c)) || snd c) (clauses cfg ops obs).

Definition check_case (c : case) : verdict :=
  decide (run (c_cfg c) (c_ops c)) (c_obs c) (clauses (c_cfg c) (c_ops c) (c_obs c)).
(* correspondence only (debugging aid: the known-finding clause does not mask a disagreement) *)
Definition check_case_corr (c : case) : verdict :=
  decide (run (c_cfg c) (c_ops c)) (c_obs c)
         (filter (fun x => negb (finding_clause (fst (fst x)))) (clauses (c_cfg c) (c_ops c) (c_obs c))).
